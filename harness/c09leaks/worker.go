package main

import (
	"bytes"
	"encoding/json"
	"fmt"
	"net/http"
	"net/http/httptest"
	"os"
	"os/signal"
	"path/filepath"
	"regexp"
	"runtime"
	"strconv"
	"strings"
	"syscall"
	"time"

	"github.com/tucats/ego/internal/caches"
	"github.com/tucats/ego/internal/cli/app"
	"github.com/tucats/ego/internal/cli/settings"
	"github.com/tucats/ego/internal/defs"
	"github.com/tucats/ego/internal/commands"
	"github.com/tucats/ego/internal/grammar/class"
	"github.com/tucats/ego/internal/router"
	egoio "github.com/tucats/ego/internal/runtime/io"
	"github.com/tucats/ego/internal/server/admin"
	"github.com/tucats/ego/internal/server/services"
)

var entries = []string{
	"ego-run-session",
	"console",
	"run-endpoint/editor",
	"run-endpoint/console-mode",
	"run-endpoint/debugger",
	"run-endpoint/debugger-abandoned",
	"service/cached",
	"service/compiled-every-request",
}

type task struct {
	index int
	entry string
	shape shape
}

func allTasks(thorough bool) []task {
	shapes := simpleShapes()
	if thorough {
		shapes = append(shapes, nestedShapes()...)
	}

	var out []task

	for _, e := range entries {
		for _, s := range shapes {
			out = append(out, task{len(out), e, s})
		}
	}

	return out
}

// ---- goroutine profile -------------------------------------------------------

var reCreated = regexp.MustCompile(`(?m)^created by (\S+)`)

// profile returns the live goroutines grouped by creator function (the main
// goroutine and goroutines without a creator line are grouped by their
// outermost function).
func profile() (map[string]int, int) {
	buf := make([]byte, 1<<20)

	for {
		n := runtime.Stack(buf, true)
		if n < len(buf) {
			buf = buf[:n]

			break
		}

		buf = make([]byte, 2*len(buf))
	}

	out := map[string]int{}
	total := 0

	for _, block := range strings.Split(string(buf), "\n\n") {
		if !strings.HasPrefix(block, "goroutine ") {
			continue
		}

		total++

		if m := reCreated.FindStringSubmatch(block); m != nil {
			out[strings.TrimPrefix(m[1], "github.com/tucats/ego/internal/")]++

			continue
		}

		out["(no creator)"]++
	}

	return out, total
}

// quiesce lets every goroutine that can still finish do so: the interpreter's
// per-run signal watcher and finished Ego goroutines exit asynchronously, after
// the call that started them has returned. They are runnable at that point, so
// yielding the processor to them is what lets them go; a goroutine that is
// still there after ten rounds of yielding and a short sleep, with the count
// not moving, is parked. The 5 s bound is a watchdog; what is judged is the
// count.
func quiesce(floor int) {
	deadline := time.Now().Add(5 * time.Second)
	stable := 0
	last := runtime.NumGoroutine()

	for time.Now().Before(deadline) {
		if last <= floor {
			return
		}

		for i := 0; i < 200; i++ {
			runtime.Gosched()
		}

		time.Sleep(2 * time.Millisecond)

		n := runtime.NumGoroutine()
		if n < last {
			stable = 0
		} else {
			stable++
		}

		last = n

		if stable >= 10 {
			return
		}
	}
}

// ---- console input -----------------------------------------------------------

type consoleInput struct{ lines []string }

func (c *consoleInput) Read(p []byte) (int, error) {
	if len(c.lines) == 0 {
		p[0] = 4 // Ctrl-D

		return 1, nil
	}

	n := copy(p, c.lines[0])
	if n < len(c.lines[0]) {
		c.lines[0] = c.lines[0][n:]
	} else {
		c.lines = c.lines[1:]
	}

	return n, nil
}

func (c *consoleInput) Close() error { return nil }

var console = &consoleInput{}

// ---- entry points -------------------------------------------------------------

var (
	serverRouter *router.Router
	serviceDir   string
	sessionSeq   int
	baseline     int // goroutines of the idle worker after set-up
)

type runResponse struct {
	Error        string `json:"error"`
	DebugWaiting bool   `json:"debugWaiting"`
}

func postRun(req map[string]any) (int, runResponse) {
	body, _ := json.Marshal(req)
	r := httptest.NewRequest(http.MethodPost, "/admin/run", bytes.NewReader(body))
	w := httptest.NewRecorder()

	serverRouter.ServeHTTP(w, r)

	var resp runResponse

	_ = json.Unmarshal(w.Body.Bytes(), &resp)

	return w.Code, resp
}

const editorSession = "22222222-2222-4222-8222-222222222222"
const consoleSession = "33333333-3333-4333-8333-333333333333"
const debugSession = "44444444-4444-4444-8444-444444444444"
const abandonedSession = "55555555-5555-4555-8555-555555555555"

// execute runs the task's program once through its entry point and says how it
// ended.
func execute(t task, serviceFile string) string {
	switch t.entry {
	case "ego-run-session":
		exit, err := commands.VerifC07RunSource(t.shape.program(), "verif.ego", true)
		if err != nil {
			return "error"
		}

		if exit != 0 {
			return "error-status"
		}

		return "ok"

	case "console":
		console.lines = strings.SplitAfter(t.shape.code(), "\n")

		_, err := commands.VerifC07RunConsole(true)

		console.lines = nil

		if err != nil {
			return "error"
		}

		return "session-ended"

	case "run-endpoint/editor", "run-endpoint/console-mode":
		req := map[string]any{"code": t.shape.code(), "session": editorSession}
		if t.entry == "run-endpoint/console-mode" {
			req["console"] = true
			req["session"] = consoleSession
		}

		code, resp := postRun(req)

		switch {
		case code != http.StatusOK:
			return "http-" + strconv.Itoa(code)
		case resp.Error != "":
			return "error"
		default:
			return "ok"
		}

	case "run-endpoint/debugger":
		// a debug session of its own, driven to its end: start, then
		// "continue" until the debugger reports that the program is done. (The
		// server keeps at most 20 code sessions: the session id is reused.)
		id := debugSession

		code, resp := postRun(map[string]any{"code": t.shape.code(), "session": id, "debug": true})
		steps := 0

		for code == http.StatusOK && resp.DebugWaiting && steps < 50 {
			code, resp = postRun(map[string]any{"session": id, "debug": true, "debugInput": "continue"})
			steps++
		}

		if resp.DebugWaiting {
			_, resp = postRun(map[string]any{"session": id, "debug": true, "debugInput": "exit"})
		}

		switch {
		case code != http.StatusOK:
			return "http-" + strconv.Itoa(code)
		case resp.DebugWaiting:
			return "still-waiting"
		case resp.Error != "":
			return "error"
		default:
			return "ok"
		}

	case "run-endpoint/debugger-abandoned":
		// a debug session the client walks away from after the first stop; the
		// server then drops it from its session cache, which is what the
		// cache's expiry does after 15 minutes
		id := abandonedSession

		code, resp := postRun(map[string]any{"code": t.shape.code(), "session": id, "debug": true})

		caches.Delete(caches.DebugSessionCache, id)

		switch {
		case code != http.StatusOK:
			return "http-" + strconv.Itoa(code)
		case resp.DebugWaiting:
			return "abandoned-while-waiting"
		case resp.Error != "":
			return "error"
		default:
			return "ok"
		}

	case "service/cached", "service/compiled-every-request":
		if t.entry == "service/compiled-every-request" {
			services.VerifReset()
		}

		sessionSeq++

		path := "/services/v/c09"
		r := httptest.NewRequest(http.MethodGet, path, strings.NewReader(""))
		w := httptest.NewRecorder()

		sess := &router.Session{
			ID: sessionSeq, Path: path, Filename: serviceFile,
			User: "alice", Authenticated: true, AcceptsText: true,
			URLParts: map[string]any{},
		}

		status := services.ServiceHandler(sess, w, r)

		return "http-" + strconv.Itoa(status)
	}

	return "?"
}

func diff(a, b map[string]int) map[string]int {
	out := map[string]int{}

	for k, v := range b {
		if d := v - a[k]; d > 0 {
			out[k] = d
		}
	}

	return out
}

// measure runs one task: warm-up, two batches, three profiles.
func measure(t task, batch int) (res result) {
	res = result{Entry: t.entry, Shape: t.shape.Name, Index: t.index, Batch: batch}

	serviceFile := ""

	switch t.entry {
	case "service/cached", "service/compiled-every-request":
		serviceFile = filepath.Join(serviceDir, "c09.ego")
		res.Source = t.shape.service("/services/v/c09")

		if err := os.WriteFile(serviceFile, []byte(res.Source), 0o644); err != nil {
			res.GoPanic = "cannot write service file: " + err.Error()

			return res
		}

		services.VerifReset()
	case "ego-run-session":
		res.Source = t.shape.program()
	default:
		res.Source = t.shape.code()
	}

	defer func() {
		if r := recover(); r != nil {
			res.GoPanic = fmt.Sprint(r)
		}
	}()

	for i := 0; i < 2; i++ {
		res.Outcome = execute(t, serviceFile)
		res.Runs++
	}

	quiesce(baseline)

	p0, n0 := profile()

	for i := 0; i < batch; i++ {
		execute(t, serviceFile)
		res.Runs++
	}

	quiesce(n0)

	p1, n1 := profile()

	for i := 0; i < batch; i++ {
		execute(t, serviceFile)
		res.Runs++
	}

	quiesce(n1)

	p2, n2 := profile()

	res.Before, res.After1, res.After2 = n0, n1, n2
	res.Grow1, res.Grow2 = diff(p0, p1), diff(p1, p2)

	for sig, g := range res.Grow1 {
		if g == 1 && res.Grow2[sig] == 0 {
			res.OneTimes = append(res.OneTimes, sig)
		}
	}

	return res
}

// workerMain: c09worker <k> <nw> <tier> <batch> <filter>
func workerMain(args []string) {
	k, _ := strconv.Atoi(args[0])
	nw, _ := strconv.Atoi(args[1])
	thorough := args[2] == "thorough"
	batch, _ := strconv.Atoi(args[3])
	filter := args[4]

	proto := os.NewFile(3, "proto")
	enc := json.NewEncoder(proto)

	devnull, err := os.OpenFile(os.DevNull, os.O_RDWR, 0)
	if err != nil {
		os.Exit(4)
	}

	_ = syscall.Dup2(int(devnull.Fd()), 0)
	_ = syscall.Dup2(int(devnull.Fd()), 1)

	// the programs report their errors on the standard error: keep the worker's
	// own diagnostics apart
	diag, _ := syscall.Dup(2)
	_ = syscall.Dup2(int(devnull.Fd()), 2)
	diagf := os.NewFile(uintptr(diag), "diag")

	signal.Notify(make(chan os.Signal, 1), os.Interrupt)

	scratch := os.Getenv("VERIF_SCRATCH")
	warm := filepath.Join(scratch, fmt.Sprintf("warm%d.ego", os.Getpid()))
	_ = os.WriteFile(warm, []byte("func main() {\n fmt.Println(\"warm\")\n}\n"), 0o644)

	a := app.New("ego: verif").SetVersion(1, 0, 0).SetCopyright("-").SetDefaultAction(commands.RunAction).SetProfileDirectory(".ego")
	if err := a.Run(class.MainGrammar, []string{"ego", "run", "--sandbox=true", warm}); err != nil {
		fmt.Fprintf(diagf, "C09-WORKER-SETUP-FAILED: %v\n", err)
		os.Exit(4)
	}

	_ = os.Remove(warm)

	serverRouter = router.NewRouter("verif")
	serverRouter.New("/admin/run", admin.RunCodeHandler, http.MethodPost)

	serviceDir = filepath.Join(scratch, fmt.Sprintf("services%d", k))
	_ = os.MkdirAll(serviceDir, 0o755)

	if err := egoio.VerifC07SetConsole(console); err != nil {
		fmt.Fprintf(diagf, "C09-WORKER-SETUP-FAILED: %v\n", err)
		os.Exit(4)
	}

	settings.SetDefault(defs.ChildServicesSetting, "false")

	quiesce(0)

	baseline = runtime.NumGoroutine()

	for _, t := range allTasks(thorough) {
		if filter != "" {
			if t.entry+"|"+t.shape.Name != filter {
				continue
			}
		} else if t.index%nw != k {
			continue
		}

		if err := enc.Encode(measure(t, batch)); err != nil {
			fmt.Fprintf(diagf, "C09-WORKER: cannot report: %v\n", err)
			os.Exit(4)
		}
	}

	os.Exit(0)
}

// C09: finished executions leave nothing running. When an Ego program, a
// service request or a callback invoked from a runtime function finishes --
// normally, with an error, or by an unrecovered panic -- nothing it made the
// interpreter start keeps running: repeating executions does not make the
// number of live goroutines grow (apart from goroutines the programs left
// running themselves and one-time process-wide workers).
//
// E-enum. Program shapes = {way control reaches the ending piece: main, Ego
// call, closure, deferred call, sort.Slice / SliceStable / Search callback,
// String() method called by fmt, goroutine (awaited three ways), tables.Find
// predicate} x {way it ends: normally, run-time error (two kinds), unrecovered
// panic, @fail, error caught by try, panic recovered, error inside a deferred
// call}; thorough adds every two-level nesting of a re-entering caller. Every
// shape is executed through five entry points on the code of the working tree
// (the `ego run` session, the console loop, POST /admin/run in editor, console
// and debugger mode -- run to the end, and abandoned then evicted -- and the
// service handler with a cached and a freshly compiled service), 2 warm-up runs and then two
// batches of N runs in one process. The goroutines of the process are
// profiled (runtime.Stack, all goroutines) after the warm-up and after each
// batch, once the count has stopped falling; a goroutine signature (creator
// function) whose population grows by two or more in BOTH batches is a leak.
package main

import (
	"bufio"
	"encoding/json"
	"fmt"
	"os"
	"os/exec"
	"path/filepath"
	"sort"
	"strings"
	"sync"
	"time"

	"github.com/tucats/ego/internal/verifrt/report"
)

const nWorkers = 8

// result is what a worker reports for one (entry point, shape).
type result struct {
	Entry    string         `json:"entry"`
	Shape    string         `json:"shape"`
	Source   string         `json:"source"`
	Runs     int            `json:"runs"`
	Before   int            `json:"goroutines_after_warmup"`
	After1   int            `json:"goroutines_after_batch_1"`
	After2   int            `json:"goroutines_after_batch_2"`
	Grow1    map[string]int `json:"growth_batch_1,omitempty"`
	Grow2    map[string]int `json:"growth_batch_2,omitempty"`
	Outcome  string         `json:"outcome"` // how the executions ended (first run)
	GoPanic  string         `json:"go_panic,omitempty"`
	Index    int            `json:"index"`
	Batch    int            `json:"batch_size"`
	OneTimes []string       `json:"one_time_workers,omitempty"`
}

func main() {
	if len(os.Args) > 1 && os.Args[1] == "c09worker" {
		workerMain(os.Args[2:])

		return
	}

	r := report.New("exploration")
	scratch := os.Getenv("VERIF_SCRATCH")
	batch := r.Pick(25, 60)

	r.Assume(
		"entry points are driven in-process with the functions of the working tree (commands.runSession.run, admin.RunCodeHandler behind router.ServeHTTP, services.ServiceHandler); child-process services are C41's subject",
		"a leak is a goroutine population (grouped by creator function) that grows by at least two in each of two consecutive batches; one-time process-wide workers appear at most once and are listed, not judged",
		"profiles are taken after the goroutine count has stopped falling (polled up to 5 s; the bound is a watchdog, the verdict is the count)",
		"every generated program waits for the goroutines it starts",
	)

	tasks := allTasks(r.Thorough())

	if r.Replay != "" {
		var w result
		if err := report.LoadReplay(r.Replay, &w); err != nil {
			report.Fatal("%v", err)
		}

		keep := tasks[:0]

		for _, t := range tasks {
			if t.entry == w.Entry && t.shape.Name == w.Shape {
				keep = append(keep, t)
			}
		}

		if len(keep) == 0 {
			report.Fatal("replay: no such case: %s / %s", w.Entry, w.Shape)
		}

		tasks = keep
	}

	var (
		mu      sync.Mutex
		results []result
		wg      sync.WaitGroup
	)

	nw := nWorkers
	if r.Replay != "" {
		nw = 1
	}

	for k := 0; k < nw; k++ {
		wg.Add(1)

		go func(k int) {
			defer wg.Done()

			res := runWorker(k, nw, scratch, r.Tier, batch, r.Replay)

			mu.Lock()
			results = append(results, res...)
			mu.Unlock()
		}(k)
	}

	wg.Wait()

	sort.Slice(results, func(i, j int) bool { return results[i].Index < results[j].Index })

	perEntry := map[string]int{}
	perOutcome := map[string]int{}
	oneTime := map[string]bool{}
	measured := 0

	for _, res := range results {
		r.Eval(res.Runs)

		if res.GoPanic != "" {
			// a Go panic out of the interpreter is C07's subject; the case
			// cannot be measured here
			r.Capped(fmt.Sprintf("not measured (Go panic %q): %s / %s", res.GoPanic, res.Entry, res.Shape))

			continue
		}

		measured++
		perEntry[res.Entry]++
		perOutcome[res.Entry+": "+res.Outcome]++
		r.Distinct(res.Entry + "|" + res.Shape)

		for _, o := range res.OneTimes {
			oneTime[o] = true
		}

		if measured%37 == 1 {
			r.Sample(map[string]any{"entry": res.Entry, "shape": res.Shape, "source": res.Source, "ended": res.Outcome,
				"goroutines": []int{res.Before, res.After1, res.After2}})
		}

		// the verdict: a population that grows in both batches
		for sig, g1 := range res.Grow1 {
			g2 := res.Grow2[sig]
			if g1 >= 2 && g2 >= 2 {
				cell := "leak:" + sig + ":" + exitClass(res.Shape)
				r.Violation(cell, len(res.Source), res,
					fmt.Sprintf("%s, shape %q: goroutines created by %s grew by %d and by %d over two batches of %d executions (%d -> %d -> %d live goroutines)",
						res.Entry, res.Shape, sig, g1, g2, res.Batch, res.Before, res.After1, res.After2))
			}
		}
	}

	if measured != len(tasks) {
		r.Capped(fmt.Sprintf("%d of %d cases were measured", measured, len(tasks)))
	}

	ot := []string{}
	for o := range oneTime {
		ot = append(ot, o)
	}

	sort.Strings(ot)

	r.Set("cases_per_entry_point", perEntry)
	r.Set("cases_per_way_of_ending", perOutcome)
	r.Set("one_time_workers_seen", ot)
	r.Set("executions_per_case", 2+2*batch)
	r.Set("callers", len(callers))
	r.Set("exit_kinds", len(exitKinds))
	r.Rule(fmt.Sprintf("every shape of {%d ways control reaches the ending piece} x {%d ways it ends} (thorough: plus every caller nested over 4 inner callers) through each entry point {ego run session, console, run endpoint: editor / console / debugger mode run to its end / debugger session abandoned and evicted, service handler: cached and compiled per request}; 2 warm-up executions then 2 batches of %d; distinct = (entry point, shape) measured", len(callers), len(exitKinds), batch))

	r.Finish()
}

// exitClass is the coarse class of a shape's ending for the cell name: a leak
// on every path and a leak on error paths only are different defects.
func exitClass(shapeName string) string {
	k := shapeName[strings.LastIndex(shapeName, "/ ")+2:]

	switch k {
	case "normal", "error-caught-by-try", "panic-recovered":
		return "ends-normally"
	default:
		return "ends-with-error"
	}
}

func runWorker(k, nw int, scratch, tier string, batch int, replay string) []result {
	home := filepath.Join(scratch, fmt.Sprintf("whome%d", k))
	tmp := filepath.Join(scratch, "tmp")
	_ = os.MkdirAll(home, 0o755)
	_ = os.MkdirAll(tmp, 0o755)

	pr, pw, err := os.Pipe()
	if err != nil {
		report.Fatal("%v", err)
	}

	filter := ""

	if replay != "" {
		var w result

		_ = report.LoadReplay(replay, &w)
		filter = w.Entry + "|" + w.Shape
	}

	cmd := exec.Command(os.Args[0], "c09worker", fmt.Sprint(k), fmt.Sprint(nw), tier, fmt.Sprint(batch), filter)
	cmd.Env = append(os.Environ(), "HOME="+home, "TMPDIR="+tmp, "GOMAXPROCS=2")
	cmd.Dir = scratch
	cmd.ExtraFiles = []*os.File{pw}

	errFile, _ := os.Create(filepath.Join(scratch, fmt.Sprintf("w%d.err", k)))
	cmd.Stdout = nil
	cmd.Stderr = errFile

	if err := cmd.Start(); err != nil {
		report.Fatal("cannot start worker: %v", err)
	}

	_ = pw.Close()

	var out []result

	done := make(chan struct{})

	go func() {
		defer close(done)

		sc := bufio.NewScanner(pr)
		sc.Buffer(make([]byte, 1<<16), 1<<24)

		for sc.Scan() {
			var res result
			if json.Unmarshal(sc.Bytes(), &res) == nil {
				out = append(out, res)
			}
		}
	}()

	werr := make(chan error, 1)

	go func() { werr <- cmd.Wait() }()

	select {
	case err := <-werr:
		<-done

		if err != nil {
			b, _ := os.ReadFile(errFile.Name())
			if len(b) > 3000 {
				b = b[len(b)-3000:]
			}

			report.Fatal("worker %d failed (%v): %s", k, err, b)
		}
	case <-time.After(90 * time.Minute):
		_ = cmd.Process.Kill()

		report.Fatal("worker %d exceeded its watchdog", k)
	}

	return out
}

package main

// The generated services: each echoes one family of request fields or writes
// one family of response features, so that a difference in one field does not
// hide a difference in another. Files are written under <root>/services/g/.

type genService struct {
	File string // path under services/
	Text string
}

var generated = []genService{
	{"g/method.ego", `@endpoint path="/services/g/method"

import "http"

func handler(req http.Request, w *http.ResponseWriter) {
    w.WriteHeader(200)
    w.Write([]byte("method=" + req.Method + " endpoint=" + req.Endpoint))
}
`},
	{"g/params.ego", `@endpoint get path="/services/g/params" parameter="a:list","b:string","c:flag"

import "http"
import "fmt"
import "strings"

func show(req http.Request, name string) string {
    v, ok := req.Parameters[name]
    if !ok {
        return name + ":absent"
    }
    items := []string{}
    for _, x := range v {
        items = append(items, fmt.Sprintf("%v", x))
    }
    return fmt.Sprintf("%s:%d[%s]", name, len(v), strings.Join(items, "|"))
}

func handler(req http.Request, w *http.ResponseWriter) {
    w.WriteHeader(200)
    w.Write([]byte(show(req, "a") + ";" + show(req, "b") + ";" + show(req, "c")))
}
`},
	{"g/headers.ego", `@endpoint get path="/services/g/headers"

import "http"
import "fmt"
import "strings"

func show(req http.Request, name string) string {
    v, ok := req.Headers[name]
    if !ok {
        return name + ":absent"
    }
    items := []string{}
    for _, x := range v {
        items = append(items, fmt.Sprintf("%v", x))
    }
    return fmt.Sprintf("%s:%d[%s]", name, len(v), strings.Join(items, "|"))
}

func handler(req http.Request, w *http.ResponseWriter) {
    w.WriteHeader(200)
    w.Write([]byte(show(req, "X-One") + ";" + show(req, "X-Multi") + ";" + show(req, "Accept") + ";" + show(req, "Content-Type") + ";" + show(req, "Authorization") + ";" + show(req, "Cookie")))
}
`},
	{"g/body.ego", `@endpoint path="/services/g/body"

import "http"
import "fmt"

func handler(req http.Request, w *http.ResponseWriter) {
    w.WriteHeader(200)
    w.Write([]byte(fmt.Sprintf("%s len=%d body=", req.Method, len(req.Body)) + req.Body))
}
`},
	{"g/user.ego", `@endpoint get path="/services/g/user"

import "http"
import "fmt"
import "strings"

func handler(req http.Request, w *http.ResponseWriter) {
    w.WriteHeader(200)
    w.Write([]byte(fmt.Sprintf("user=%s admin=%v authenticated=%v authentication=%v json=%v text=%v permissions=[%s]",
        req.Username, req.IsAdmin, req.Authenticated, req.Authentication, req.IsJSON, req.IsText, strings.Join(req.Permissions, ","))))
}
`},
	{"g/mustauth.ego", `@endpoint get path="/services/g/mustauth" authenticated

import "http"

func handler(req http.Request, w *http.ResponseWriter) {
    w.WriteHeader(200)
    w.Write([]byte("hello " + req.Username))
}
`},
	{"g/mustadmin.ego", `@endpoint get path="/services/g/mustadmin" admin

import "http"

func handler(req http.Request, w *http.ResponseWriter) {
    w.WriteHeader(200)
    w.Write([]byte("admin " + req.Username))
}
`},
	{"g/parts.ego", `@endpoint get path="/services/g/parts/{{item}}/{{rest...}}"

import "http"
import "fmt"

func handler(req http.Request, w *http.ResponseWriter) {
    w.WriteHeader(200)
    w.Write([]byte(fmt.Sprintf("item=%v rest=%v parts=%v g=%v", req.URL.Parts["item"], req.URL.Parts["rest"], req.URL.Parts["parts"], req.URL.Parts["g"])))
}
`},
	{"g/partvar.ego", `@endpoint get path="/services/g/partvar/{{item}}"

import "http"
import "fmt"

func handler(req http.Request, w *http.ResponseWriter) {
    w.WriteHeader(200)
    w.Write([]byte(fmt.Sprintf("item=%v", item)))
}
`},
	{"g/urlpath.ego", `@endpoint get path="/services/g/urlpath/{{item}}"

import "http"

func handler(req http.Request, w *http.ResponseWriter) {
    w.WriteHeader(200)
    w.Write([]byte("path=" + req.URL.Path))
}
`},
	{"g/status.ego", `@endpoint get path="/services/g/status/{{code}}" parameter="body:string"

import "http"
import "strconv"

func handler(req http.Request, w *http.ResponseWriter) {
    code, _ := strconv.Atoi(req.URL.Parts["code"])
    w.WriteHeader(code)
    if v, ok := req.Parameters["body"]; ok {
        w.Write([]byte("body:" + v[0]))
    }
}
`},
	{"g/hdrout.ego", `@endpoint get path="/services/g/hdrout/{{what}}"

import "http"

func handler(req http.Request, w *http.ResponseWriter) {
    what := req.URL.Parts["what"]
    switch what {
    case "single":
        w.Header().Add("X-Out", "one")
    case "multi":
        w.Header().Add("X-Out", "one")
        w.Header().Add("X-Out", "two")
    case "set":
        w.Header().Add("X-Out", "one")
        w.Header().Set("X-Out", "replaced")
    case "del":
        w.Header().Add("X-Out", "one")
        w.Header().Add("X-Keep", "k")
        w.Header().Del("X-Out")
    case "ctype":
        w.Header().Set("Content-Type", "text/csv")
    case "comma":
        w.Header().Add("X-Out", "a, b")
    case "unicode":
        w.Header().Add("X-Out", "café ☃")
    case "lower":
        w.Header().Add("x-lower-case", "v")
    case "cookie":
        w.Header().Add("Set-Cookie", "a=1")
        w.Header().Add("Set-Cookie", "b=2")
    case "security":
        w.Header().Set("X-Frame-Options", "SAMEORIGIN")
    }
    w.WriteHeader(200)
    w.Write([]byte("ok " + what))
}
`},
	{"g/bytes.ego", `@endpoint get path="/services/g/bytes/{{what}}"

import "http"

func handler(req http.Request, w *http.ResponseWriter) {
    w.WriteHeader(200)
    switch req.URL.Parts["what"] {
    case "binary":
        w.Write([]byte{255, 254, 65, 0, 66, 128})
    case "unicode":
        w.Write([]byte("café ☃ \"quoted\" back\\slash\nline2\ttab"))
    case "empty":
        w.Write([]byte(""))
    case "twice":
        w.Write([]byte("first,"))
        w.Write([]byte("second"))
    case "big":
        w.Write([]byte(strings.Repeat("0123456789abcdef", 4096)))
    }
}
`},
	{"g/value.ego", `@endpoint get path="/services/g/value/{{what}}"

import "http"

func handler(req http.Request, w *http.ResponseWriter) {
    w.WriteHeader(200)
    switch req.URL.Parts["what"] {
    case "string":
        w.Write("plain string")
    case "int":
        w.Write(42)
    case "struct":
        w.Write({name: "n", age: 7})
    case "array":
        w.Write([]int{1, 2, 3})
    case "map":
        w.Write(map[string]int{"a": 1})
    case "json":
        w.WriteJSON({name: "n", age: 7})
    }
}
`},
	{"g/print.ego", `@endpoint get path="/services/g/print"

import "http"
import "fmt"

func handler(req http.Request, w *http.ResponseWriter) {
    w.WriteHeader(200)
    fmt.Println("printed by the service")
}
`},
	{"g/nothing.ego", `@endpoint get path="/services/g/nothing"

import "http"

func handler(req http.Request, w *http.ResponseWriter) {
    x := 1
    if x > 5 {
        w.WriteHeader(200)
    }
}
`},
	{"g/rterror.ego", `@endpoint get path="/services/g/rterror/{{when}}"

import "http"

func handler(req http.Request, w *http.ResponseWriter) {
    zero := 0
    if req.URL.Parts["when"] == "early" {
        v := 10 / zero
        w.Write(v)
    }
    w.Header().Add("X-Out", "before")
    w.WriteHeader(201)
    w.Write([]byte("partial"))
    v := 10 / zero
    w.Write(v)
}
`},
	{"g/exit.ego", `@endpoint get path="/services/g/exit"

import "http"
import "os"

func handler(req http.Request, w *http.ResponseWriter) {
    w.WriteHeader(200)
    w.Write([]byte("before exit"))
    os.Exit(3)
}
`},
	{"g/helper.ego", `@endpoint post path="/services/g/helper"

import "http"
import "fmt"
import "json"

type item struct {
    name string
    n    int
}

func total(items []item) int {
    t := 0
    for _, i := range items {
        t = t + i.n
    }
    return t
}

func handler(req http.Request, w *http.ResponseWriter) {
    items := []item{}
    for i := 0; i < len(req.Body); i++ {
        items = append(items, item{name: req.Body[i:i+1], n: i})
    }
    w.Header().Add("Content-Type", "text/plain")
    w.WriteHeader(200)
    w.Write([]byte(fmt.Sprintf("n=%d total=%d user=%s", len(items), total(items), req.Username)))
}
`},
}

// C41: with child-process service execution enabled (file or pipe transport),
// every service request gets the same status, headers and body it gets when the
// service runs inside the server process.
//
// E-enum, differential. The real router (router.ServeHTTP with the routes that
// services.DefineLibHandlers builds from a services directory holding every file
// of lib/services plus generated echo/writer services) serves each generated
// request three times in the same process and the same configuration: with
// ego.server.child.services off (in-process, cold and warm service cache), on
// with a request directory (file transport) and on with the pipe transport. The
// child is the plain `ego` binary just built (os.Args[0] points at it, which is
// how child.go finds it), reading the same profile. Oracle: status, response
// headers (as the client would see them; a repeated header compared as its
// comma-joined list) and body are equal.
package main

import (
	"bytes"
	"encoding/base64"
	"fmt"
	"net/http"
	"net/http/httptest"
	"os"
	"os/exec"
	"path/filepath"
	"regexp"
	"runtime"
	"sort"
	"strings"
	"sync"
	"sync/atomic"
	"time"

	"github.com/google/uuid"
	"golang.org/x/crypto/bcrypt"

	"github.com/tucats/ego/internal/caches"
	"github.com/tucats/ego/internal/cli/settings"
	"github.com/tucats/ego/internal/cli/ui"
	"github.com/tucats/ego/internal/defs"
	"github.com/tucats/ego/internal/language/symbols"
	"github.com/tucats/ego/internal/language/tokens"
	"github.com/tucats/ego/internal/router"
	"github.com/tucats/ego/internal/runtime/profile"
	"github.com/tucats/ego/internal/server/auth"
	"github.com/tucats/ego/internal/server/services"
	"github.com/tucats/ego/internal/verifrt/report"
)

const (
	instanceID = "c41c41c4-1c41-4c41-8c41-c41c41c41c41"
	startTime  = "Mon Jan  5 10:00:00 UTC 2026"
	userToken  = "c41user0123456789abcdef0123456789abcdef0123456789abcdef"
	adminToken = "c41admin123456789abcdef0123456789abcdef0123456789abcdef"
	pinnedSeq  = 4100
)

var (
	self    string // this binary (for the worker processes)
	scratch string
	svcRoot string
	ioDir   string
	variant string
	rtr     *router.Router
)

func fatal(f string, a ...any) { report.Fatal(f, a...) }

func copyTree(src, dst string) error {
	return filepath.Walk(src, func(p string, info os.FileInfo, err error) error {
		if err != nil {
			return err
		}

		rel, _ := filepath.Rel(src, p)
		to := filepath.Join(dst, rel)

		if info.IsDir() {
			return os.MkdirAll(to, 0o755)
		}

		b, err := os.ReadFile(p)
		if err != nil {
			return err
		}

		return os.WriteFile(to, b, 0o644)
	})
}

// setup prepares the process the way `ego server` prepares itself as far as the
// service handler is concerned. first=true also creates the profile the child
// processes will read (they are the same binary with the same HOME).
func setup(first bool) {
	ego := os.Getenv("VERIF_EGO")
	if ego == "" {
		fatal("VERIF_EGO is not set (the check config needs \"ego\": true)")
	}

	// a configuration variant has its own profile (the children read it too)
	variant = os.Getenv("C41_VARIANT")
	if variant != "" {
		home := filepath.Join(os.Getenv("VERIF_SCRATCH"), "home-"+variant)
		_ = os.MkdirAll(home, 0o755)
		_ = os.Setenv("HOME", home)
	}

	// child.go starts os.Args[0] as the child
	os.Args[0] = ego

	scratch = filepath.Join(os.Getenv("VERIF_SCRATCH"), "c41")
	svcRoot = filepath.Join(scratch, "root")
	ioDir = filepath.Join(scratch, "childio")
	repo := os.Getenv("VERIF_REPO")

	if first && variant == "" {
		_ = os.RemoveAll(scratch)
	}

	if first {
		for _, d := range []string{svcRoot, ioDir} {
			if err := os.MkdirAll(d, 0o755); err != nil {
				fatal("%v", err)
			}
		}

		if err := copyTree(filepath.Join(repo, "lib", "services"), filepath.Join(svcRoot, "services")); err != nil {
			fatal("copy of lib/services: %v", err)
		}

		for _, g := range generated {
			p := filepath.Join(svcRoot, "services", g.File)
			_ = os.MkdirAll(filepath.Dir(p), 0o755)

			if err := os.WriteFile(p, []byte(g.Text), 0o644); err != nil {
				fatal("%v", err)
			}
		}

		// the first run of the binary writes the default profile
		out, err := exec.Command(ego, "config", "set", defs.EgoPathSetting+"="+repo).CombinedOutput()
		if err != nil {
			fatal("cannot create the profile with %s: %v\n%s", ego, err, out)
		}
	}

	// main.go: app.New(...).SetProfileDirectory(".ego")
	settings.ProfileDirectory = ".ego"

	if err := settings.Load("ego", "default"); err != nil {
		fatal("profile: %v", err)
	}

	if settings.Get(defs.EgoPathSetting) != repo {
		fatal("the profile written by %s was not loaded (%s=%q)", ego, defs.EgoPathSetting, settings.Get(defs.EgoPathSetting))
	}

	// the defaults `ego run` (runtime) and `ego server` (server) write into a
	// profile the first time they are used
	if err := profile.InitProfileDefaults(profile.AllDefaults); err != nil {
		fatal("profile defaults: %v", err)
	}

	if first {
		if variant == "noimport" {
			settings.Set(defs.AutoImportSetting, "false")
		}

		if err := settings.Save(); err != nil {
			fatal("profile save: %v", err)
		}

		return
	}

	if want := map[string]string{"": "true", "noimport": "false"}[variant]; settings.Get(defs.AutoImportSetting) != want {
		fatal("variant %q: %s is %q in the loaded profile", variant, defs.AutoImportSetting, settings.Get(defs.AutoImportSetting))
	}

	// what commands.setServerDefaults sets for the life of the server
	settings.SetDefault(defs.RuntimeDeepScopeSetting, "true")
	settings.SetDefault(defs.AllowFunctionRedefinitionSetting, "true")
	settings.SetDefault(defs.RuntimePanicsSetting, "false")

	// the server log (and the children's forwarded log lines) go to a file
	ui.Active(ui.ServerLogger, true)

	if err := ui.OpenLogFile(filepath.Join(scratch, fmt.Sprintf("server-%d.log", os.Getpid())), false); err != nil {
		fatal("log file: %v", err)
	}

	defs.InstanceID = instanceID
	symbols.RootSymbolTable.SetAlways(defs.InstanceUUIDVariable, defs.InstanceID)
	symbols.RootSymbolTable.SetAlways(defs.UserCodeRunningVariable, true)

	router.StartTime = startTime
	router.Version = "1.0-41"
	router.PathRoot = svcRoot

	// users: cheap hashes, nobody waits for bcrypt cost 12 here
	var err error

	auth.AuthService, err = auth.NewFileService("", "bootstrap", "")
	if err != nil {
		fatal("user store: %v", err)
	}

	for _, u := range []struct {
		name, pass string
		perms      []string
	}{
		{"alice", "alicepw", []string{"ego.logon", "ego.table.read"}},
		{"root", "rootpw", []string{defs.RootPermission, "ego.logon"}},
	} {
		h, _ := bcrypt.GenerateFromPassword([]byte(u.pass), bcrypt.MinCost)

		if err := auth.AuthService.WriteUser(0, defs.User{Name: u.name, ID: uuid.New(), Password: string(h), Permissions: u.perms}); err != nil {
			fatal("user %s: %v", u.name, err)
		}
	}

	rtr = router.NewRouter(defs.InstanceID)

	if err := services.DefineLibHandlers(rtr, svcRoot, "/services"); err != nil {
		fatal("service routes: %v", err)
	}
}

// ---------------------------------------------------------------- requests

type request struct {
	Service string      `json:"service"` // service family (names the cell)
	Feature string      `json:"feature"` // what is special about this request
	Method  string      `json:"method"`
	Target  string      `json:"target"`
	Headers [][2]string `json:"headers,omitempty"`
	Auth    string      `json:"auth"` // anon basic-user basic-admin token-user token-admin basic-wrong
	BodyB64 string      `json:"body_base64,omitempty"`
	Mask    bool        `json:"mask_volatile,omitempty"` // the service prints pids, times, memory
	Variant string      `json:"config_variant,omitempty"`
}

func (q request) body() []byte {
	b, _ := base64.StdEncoding.DecodeString(q.BodyB64)

	return b
}

func (q request) key() string {
	return fmt.Sprintf("%s %s %s %v %s %s", q.Method, q.Target, q.Auth, q.Headers, q.BodyB64, q.Variant)
}

type response struct {
	Status int               `json:"status"`
	Header map[string]string `json:"headers"`
	Body   string            `json:"body"`
}

var (
	rfc1123 = regexp.MustCompile(`[A-Z][a-z]{2}, \d{2} [A-Z][a-z]{2} \d{4} \d{2}:\d{2}:\d{2} [A-Z]+`)
	digits  = regexp.MustCompile(`\d+(\.\d+)?`)
)

func serveOnce(q request) response {
	// the session number is part of error bodies: the same for every mode
	atomic.StoreInt32(&router.SequenceNumber, pinnedSeq)
	caches.Add(caches.TokenCache, userToken, &tokens.Token{Name: "alice", TokenID: uuid.MustParse("a11ce000-0000-4000-8000-000000000001")})
	caches.Add(caches.TokenCache, adminToken, &tokens.Token{Name: "root", TokenID: uuid.MustParse("a11ce000-0000-4000-8000-000000000002")})

	req := httptest.NewRequest(q.Method, q.Target, bytes.NewReader(q.body()))

	for _, h := range q.Headers {
		req.Header.Add(h[0], h[1])
	}

	switch q.Auth {
	case "basic-user":
		req.SetBasicAuth("alice", "alicepw")
	case "basic-admin":
		req.SetBasicAuth("root", "rootpw")
	case "basic-wrong":
		req.SetBasicAuth("alice", "nope")
	case "token-user":
		req.Header.Set("Authorization", "Bearer "+userToken)
	case "token-admin":
		req.Header.Set("Authorization", "Bearer "+adminToken)
	}

	rec := httptest.NewRecorder()
	rtr.ServeHTTP(rec, req)

	res := rec.Result()
	out := response{Status: res.StatusCode, Header: map[string]string{}, Body: rec.Body.String()}

	for k, v := range res.Header {
		out.Header[k] = strings.Join(v, ", ")
	}

	if q.Mask {
		out.Body = rfc1123.ReplaceAllString(out.Body, "<date>")
		out.Body = digits.ReplaceAllString(out.Body, "#")
	}

	return out
}

// serve answers q in one mode: inproc-cold, inproc-warm, file, pipe.
func serve(mode string, q request) response {
	switch mode {
	case "inproc-cold":
		settings.SetDefault(defs.ChildServicesSetting, "false")
		services.VerifReset()
	case "inproc-warm":
		settings.SetDefault(defs.ChildServicesSetting, "false")
	case "file":
		settings.SetDefault(defs.ChildServicesSetting, "true")
		settings.SetDefault(defs.ChildRequestDirSetting, ioDir)
	case "pipe":
		settings.SetDefault(defs.ChildServicesSetting, "true")
		settings.SetDefault(defs.ChildRequestDirSetting, defs.ChildServicesPipeMode)
	}

	return serveOnce(q)
}

func b64(s string) string { return base64.StdEncoding.EncodeToString([]byte(s)) }

func requests(thorough bool) []request {
	var out []request

	add := func(svc, feature, method, target, authKind string, body string, hdr ...[2]string) {
		out = append(out, request{Service: svc, Feature: feature, Method: method, Target: target, Auth: authKind, BodyB64: b64(body), Headers: hdr, Variant: variant})
	}

	H := func(k, v string) [2]string { return [2]string{k, v} }
	text := H("Accept", "text/plain")

	// with ego.compiler.import=false in the profile: services that use a
	// package they do not import, and two that import all they use
	if variant == "noimport" {
		add("lib:hello", "hello", "GET", "/services/hello", "anon", "", text)
		add("lib:sample", "sample-list", "GET", "/services/sample/users", "anon", "", text)
		add("lib:factor", "factor", "GET", "/services/factor/12", "anon", "", text)
		add("g/bytes", "bytes-big", "GET", "/services/g/bytes/big", "anon", "", text)
		add("g/method", "method", "GET", "/services/g/method", "anon", "", text)
		add("g/params", "params-two", "GET", "/services/g/params?a=1&b=2", "anon", "", text)

		return out
	}
	jsn := H("Accept", "application/json")
	anyT := H("Accept", "*/*")

	accepts := map[string][][2]string{"accept-none": nil, "accept-text": {text}, "accept-json": {jsn}, "accept-any": {anyT}}
	acceptNames := []string{"accept-none", "accept-text", "accept-json", "accept-any"}
	auths := []string{"anon", "basic-user", "basic-admin", "token-user", "token-admin", "basic-wrong"}

	// --- method and endpoint
	for _, m := range []string{"GET", "POST", "PUT", "DELETE", "PATCH"} {
		add("g/method", "method", m, "/services/g/method", "anon", "", text)
	}

	// --- query parameters: 0-2 parameters with repeats, empty and escaped values
	for _, p := range []struct{ f, q string }{
		{"none", ""}, {"one", "?b=1"}, {"two", "?a=1&b=2"}, {"repeat", "?a=1&a=2"}, {"repeat-three", "?a=1&a=2&a=1"},
		{"empty-value", "?b="}, {"flag", "?c"}, {"escaped", "?b=%20x%26y%3D%25"}, {"unicode", "?b=caf%C3%A9%E2%98%83"}, {"plus", "?b=a+b"},
		{"list-comma", "?a=1,2"}, {"all", "?a=x&a=y&b=z&c"},
	} {
		add("g/params", "params-"+p.f, "GET", "/services/g/params"+p.q, "anon", "", text)

		if thorough {
			add("g/params", "params-"+p.f, "GET", "/services/g/params"+p.q, "token-user", "", jsn)
		}
	}

	// --- request headers, with repeats
	for _, h := range []struct {
		f string
		h [][2]string
	}{
		{"none", nil},
		{"single", [][2]string{H("X-One", "v1")}},
		{"repeat", [][2]string{H("X-Multi", "m1"), H("X-Multi", "m2")}},
		{"repeat-and-single", [][2]string{H("X-One", "v1"), H("X-Multi", "m1"), H("X-Multi", "m2"), H("X-Multi", "m3")}},
		{"comma-value", [][2]string{H("X-One", "a, b")}},
		{"empty-value", [][2]string{H("X-One", "")}},
		{"unicode", [][2]string{H("X-One", "café")}},
		{"content-type", [][2]string{H("Content-Type", "application/x-thing")}},
		{"cookie", [][2]string{H("Cookie", "session=abc")}},
		{"lower-case-name", [][2]string{H("x-one", "lower")}},
	} {
		for _, an := range acceptNames {
			if !thorough && an != "accept-text" && h.f != "none" {
				continue
			}

			add("g/headers", "reqhdr-"+h.f+"+"+an, "GET", "/services/g/headers", "anon", "", append(append([][2]string{}, h.h...), accepts[an]...)...)
		}
	}

	add("g/headers", "reqhdr-authorization", "GET", "/services/g/headers", "token-user", "", text)

	// --- bodies
	bodies := []struct{ f, b string }{
		{"empty", ""}, {"ascii", "hello"}, {"json", `{"a":[1,2,{"b":"c"}],"d":"\"q\""}`}, {"newlines", "l1\nl2\r\n\tl3\n"},
		{"unicode", "café ☃ 𝄞"}, {"not-utf", "A\xff\xfeB\x80"}, {"nul", "a\x00b"}, {"html", "<b>&amp;</b>"},
		{"large", strings.Repeat("0123456789", 2000)},
	}

	for _, b := range bodies {
		for _, m := range []string{"POST", "PUT", "PATCH", "DELETE", "GET"} {
			if !thorough && m != "POST" && b.f != "ascii" {
				continue
			}

			add("g/body", "body-"+b.f, m, "/services/g/body", "anon", b.b, text)
		}
	}

	add("g/helper", "helper", "POST", "/services/g/helper", "token-user", "abcdef", text)
	add("g/helper", "helper", "POST", "/services/g/helper", "anon", "", text)

	// --- who is calling
	for _, a := range auths {
		for _, an := range acceptNames {
			if !thorough && an != "accept-text" && a != "token-user" {
				continue
			}

			add("g/user", "auth-"+a+"+"+an, "GET", "/services/g/user", a, "", accepts[an]...)
		}

		if thorough || a == "anon" || a == "token-user" || a == "basic-admin" {
			add("g/mustauth", "auth-"+a, "GET", "/services/g/mustauth", a, "", text)
			add("g/mustadmin", "auth-"+a, "GET", "/services/g/mustadmin", a, "", text)
		}
	}

	// --- URL variables
	for _, p := range []struct{ f, path string }{
		{"item", "abc"}, {"item-rest", "abc/x/y"}, {"escaped", "a%20b/c%2Fd"}, {"unicode", "caf%C3%A9"}, {"number", "42/7"}, {"true", "true"},
	} {
		add("g/parts", "parts-"+p.f, "GET", "/services/g/parts/"+p.path, "anon", "", text)
	}

	add("g/partvar", "url-variable-as-symbol", "GET", "/services/g/partvar/abc", "anon", "", text)
	add("g/urlpath", "url-path", "GET", "/services/g/urlpath/abc", "anon", "", text)

	// --- status writers
	codes := []string{"200", "204", "301", "401", "404", "500", "700"}
	if thorough {
		codes = []string{"200", "201", "204", "301", "400", "401", "403", "404", "409", "500", "503", "299", "99", "700"}
	}

	for _, code := range codes {
		for _, withBody := range []bool{true, false} {
			for _, an := range []string{"accept-text", "accept-json"} {
				if !thorough && an == "accept-json" && code != "404" && code != "200" {
					continue
				}

				t := "/services/g/status/" + code
				f := "status-" + code + "-nobody"

				if withBody {
					t += "?body=x"
					f = "status-" + code + "-body"
				}

				add("g/status", f+"+"+an, "GET", t, "anon", "", accepts[an]...)
			}
		}
	}

	// --- response headers
	for _, what := range []string{"none", "single", "multi", "set", "del", "ctype", "comma", "unicode", "lower", "cookie", "security"} {
		for _, an := range []string{"accept-text", "accept-json"} {
			if !thorough && an == "accept-json" && what != "none" && what != "ctype" {
				continue
			}

			add("g/hdrout", "hdrout-"+what+"+"+an, "GET", "/services/g/hdrout/"+what, "anon", "", accepts[an]...)
		}
	}

	// --- response bodies
	for _, what := range []string{"binary", "unicode", "empty", "twice", "big"} {
		add("g/bytes", "bytes-"+what, "GET", "/services/g/bytes/"+what, "anon", "", text)
	}

	for _, what := range []string{"string", "int", "struct", "array", "map", "json"} {
		for _, an := range acceptNames {
			if !thorough && (an == "accept-none" || an == "accept-any") && what != "struct" {
				continue
			}

			add("g/value", "value-"+what+"+"+an, "GET", "/services/g/value/"+what, "anon", "", accepts[an]...)
		}
	}

	for _, an := range []string{"accept-text", "accept-json"} {
		add("g/print", "print-only+"+an, "GET", "/services/g/print", "anon", "", accepts[an]...)
		add("g/nothing", "writes-nothing+"+an, "GET", "/services/g/nothing", "anon", "", accepts[an]...)
		add("g/rterror", "runtime-error-early+"+an, "GET", "/services/g/rterror/early", "anon", "", accepts[an]...)
		add("g/rterror", "runtime-error-late+"+an, "GET", "/services/g/rterror/late", "anon", "", accepts[an]...)
		add("g/exit", "os-exit+"+an, "GET", "/services/g/exit", "anon", "", accepts[an]...)
	}

	// --- router-level answers (no service runs): the same in every mode
	add("router", "unknown-parameter", "GET", "/services/g/params?zzz=1", "anon", "", text)
	add("router", "no-such-route", "GET", "/services/g/nosuch", "anon", "", text)
	add("router", "wrong-method", "POST", "/services/g/params", "anon", "", text)

	// --- the services that ship in lib/services
	lib := func(group, feature, method, target, authKind, body string, hdr ...[2]string) {
		add("lib:"+group, feature, method, target, authKind, body, hdr...)
	}

	for _, an := range []string{"accept-text", "accept-json"} {
		a := accepts[an]
		js := an == "accept-json"

		lib("factor", "factor+"+an, "GET", "/services/factor/12", "anon", "", a...)
		lib("sample", "sample-user+"+an, "GET", "/services/sample/users/tom", "anon", "", a...)
		lib("count", "count+"+an, "GET", "/services/count", "anon", "", a...)
		lib("hello", "hello+"+an, "GET", "/services/hello", "anon", "", a...)
		lib("bogus-compile", "bogus-compile+"+an, "GET", "/services/bogus-compile", "anon", "", a...)
		lib("bogus-runtime", "bogus-runtime+"+an, "GET", "/services/bogus-runtime", "anon", "", a...)
		lib("echo", "echo-get+"+an, "GET", "/services/unit-test/echo?name=n&count=3", "anon", "", a...)
		lib("echo", "echo-post+"+an, "POST", "/services/unit-test/echo", "anon", `{"k":"v"}`, append([][2]string{H("Content-Type", "application/json")}, a...)...)
		lib("debug", "debug-user+"+an, "GET", "/services/admin/debug", "token-user", "", a...)

		if js && !thorough {
			continue
		}

		lib("factor", "factor-bad+"+an, "GET", "/services/factor/abc", "anon", "", a...)
		lib("factor", "factor-missing+"+an, "GET", "/services/factor/", "anon", "", a...)
		lib("sample", "sample-list+"+an, "GET", "/services/sample/users", "anon", "", a...)
		lib("sample", "sample-field+"+an, "GET", "/services/sample/users/tom/age", "anon", "", a...)
		lib("sample", "sample-nouser+"+an, "GET", "/services/sample/users/bob", "anon", "", a...)
		lib("sample", "sample-badfield+"+an, "GET", "/services/sample/users/mary/zip", "anon", "", a...)
		lib("redirect", "redirect+"+an, "GET", "/services/admin/redirect", "anon", "", a...)
		lib("debug", "debug-admin+"+an, "GET", "/services/admin/debug", "token-admin", "", a...)
		lib("debug", "debug-anon+"+an, "GET", "/services/admin/debug", "anon", "", a...)
		lib("echo", "echo-get-badcount+"+an, "GET", "/services/unit-test/echo?count=x", "anon", "", a...)
		lib("echo", "echo-put+"+an, "PUT", "/services/unit-test/echo", "anon", "put body", a...)
		lib("echo", "echo-patch+"+an, "PATCH", "/services/unit-test/echo", "anon", "patch body", a...)
		lib("echo", "echo-delete+"+an, "DELETE", "/services/unit-test/echo", "anon", "", a...)
		lib("media", "media+"+an, "GET", "/services/unit-test/media", "anon", "", a...)
		lib("protected", "protected-anon+"+an, "GET", "/services/unit-test/protected", "anon", "", a...)
		lib("protected", "protected-user+"+an, "GET", "/services/unit-test/protected", "token-user", "", a...)
		lib("protected", "protected-admin+"+an, "GET", "/services/unit-test/protected", "token-admin", "", a...)
		lib("status", "status+"+an, "GET", "/services/unit-test/status", "anon", "", a...)
	}

	// volatile output (pid, times, memory figures): digits and dates masked
	for _, an := range []string{"accept-text", "accept-json"} {
		for _, t := range []struct{ f, target, auth string }{{"up", "/services/up", "anon"}, {"memory", "/services/admin/memory", "token-admin"}} {
			out = append(out, request{Service: "lib:" + t.f, Feature: t.f + "+" + an, Method: "GET", Target: t.target, Auth: t.auth, Headers: accepts[an], Mask: true})
		}
	}

	// the same request reached from two families is served once
	seen := map[string]bool{}
	uniq := out[:0]

	for _, q := range out {
		if !seen[q.key()] {
			seen[q.key()] = true
			uniq = append(uniq, q)
		}
	}

	return uniq
}

// ---------------------------------------------------------------- comparison

type difference struct {
	Component string // status, header:<Name>, body
	In, Child string
}

func compare(in, ch response) []difference {
	var out []difference

	if in.Status != ch.Status {
		out = append(out, difference{"status", fmt.Sprint(in.Status), fmt.Sprint(ch.Status)})
	}

	names := map[string]bool{}
	for k := range in.Header {
		names[k] = true
	}

	for k := range ch.Header {
		names[k] = true
	}

	keys := make([]string, 0, len(names))
	for k := range names {
		keys = append(keys, k)
	}

	sort.Strings(keys)

	for _, k := range keys {
		a, inA := in.Header[k]
		b, inB := ch.Header[k]

		if inA != inB || a != b {
			if !inA {
				a = "<absent>"
			}

			if !inB {
				b = "<absent>"
			}

			out = append(out, difference{"header:" + k, a, b})
		}
	}

	if in.Body != ch.Body {
		out = append(out, difference{"body", in.Body, ch.Body})
	}

	return out
}

func clip(s string) string {
	if len(s) > 300 {
		return fmt.Sprintf("%s...(%d bytes)", s[:300], len(s))
	}

	return s
}

type witness struct {
	Request   request `json:"request"`
	Transport string  `json:"transport"`
	Component string  `json:"differs_in"`
	InProcess string  `json:"in_process"`
	Child     string  `json:"child"`
	InStatus  int     `json:"in_process_status"`
	ChStatus  int     `json:"child_status"`
}

// headerClass abbreviates a header value for the cell name.
func headerClass(name, v string) string {
	if v == "<absent>" {
		return "absent"
	}

	if name == "Content-Type" {
		return strings.ReplaceAll(strings.ReplaceAll(v, " ", ""), ";", "_")
	}

	return "present"
}

var digitRun = regexp.MustCompile(`\d+`)

// cellOf names the root-cause class of a difference. A header difference is
// named by the header and by what each side sent (whatever service showed it;
// for headers the service writes or echoes, also the service family); a status
// or body difference by the service family and the request feature without the
// Accept variant and with numbers blanked; which transports disagree is part
// of the name only when they do not both disagree.
func cellOf(q request, d difference, transports string) string {
	feature := q.Feature
	if i := strings.Index(feature, "+"); i >= 0 {
		feature = feature[:i]
	}

	feature = digitRun.ReplaceAllString(feature, "N")

	var cell string

	switch {
	case strings.HasPrefix(d.Component, "header:"):
		name := strings.TrimPrefix(d.Component, "header:")
		cell = fmt.Sprintf("header:%s:%s!=%s", name, headerClass(name, d.In), headerClass(name, d.Child))

		if name != "Content-Type" && name != "Www-Authenticate" {
			cell += ":" + q.Service
		}
	case d.Component == "status":
		cell = fmt.Sprintf("status:%s:%s:%s!=%s", q.Service, feature, strings.Fields(d.In)[0], strings.Fields(d.Child)[0])
	default:
		cell = fmt.Sprintf("body:%s:%s", q.Service, feature)
	}

	// a service of lib/services is its own family: the feature only names the request
	if strings.HasPrefix(q.Service, "lib:") && !strings.HasPrefix(d.Component, "header:") {
		cell = strings.Replace(cell, ":"+feature, "", 1)
	}

	// a configuration variant is run on a handful of plain requests to show one thing
	if q.Variant != "" {
		cell = "config-" + q.Variant + ":" + d.Component

		if d.Component == "status" {
			cell += ":" + strings.Fields(d.In)[0] + "!=" + strings.Fields(d.Child)[0]
		}
	}

	if transports != "file+pipe" {
		cell += ":" + transports + "-only"
	}

	return cell
}

var confirmedCells = map[string]bool{}

func judge(r *report.R, q request) {
	cold := serve("inproc-cold", q)
	warm := serve("inproc-warm", q)
	file := serve("file", q)
	pipe := serve("pipe", q)

	r.Eval(4)
	r.Distinct(q.key())
	r.Add("requests", 1)
	r.Add("child_processes", 2)

	if len(compare(cold, warm)) > 0 {
		r.Add("in_process_cold_differs_from_warm", 1)
	}

	// the reference is the in-process answer; where a cold and a warm service
	// cache answer differently, either is accepted
	best := func(ch response) (response, []difference) {
		dc, dw := compare(cold, ch), compare(warm, ch)
		if len(dw) < len(dc) {
			return warm, dw
		}

		return cold, dc
	}

	inF, df := best(file)
	inP, dp := best(pipe)

	// a child answer that a second child does not repeat says nothing about
	// the code (a process that could not start, for instance): no verdict.
	// The second child is spared when every difference falls in a cell this
	// worker has already seen repeated.
	stable := func(mode string, first response, diffs []difference) bool {
		fresh := false

		for _, d := range diffs {
			if !confirmedCells[cellOf(q, d, "file+pipe")] {
				fresh = true
			}
		}

		if !fresh {
			return true
		}

		r.Add("child_processes", 1)

		if again := serve(mode, q); len(compare(first, again)) > 0 {
			r.Add("unstable_child_answers", 1)
			r.Capped(fmt.Sprintf("%s %s: two %s-transport children answered differently; not judged", q.Method, q.Target, mode))

			return false
		}

		for _, d := range diffs {
			confirmedCells[cellOf(q, d, "file+pipe")] = true
		}

		return true
	}

	if len(df) > 0 && !stable("file", file, df) {
		df = nil
	}

	if len(dp) > 0 && !stable("pipe", pipe, dp) {
		dp = nil
	}

	type hit struct {
		d          difference
		in, ch     response
		transports []string
	}

	hits := map[string]*hit{}

	for _, d := range df {
		hits[d.Component] = &hit{d: d, in: inF, ch: file, transports: []string{"file"}}
	}

	for _, d := range dp {
		if h, ok := hits[d.Component]; ok {
			h.transports = append(h.transports, "pipe")
		} else {
			hits[d.Component] = &hit{d: d, in: inP, ch: pipe, transports: []string{"pipe"}}
		}
	}

	// a different status means a different answer altogether: one cell
	if h, ok := hits["status"]; ok {
		hits = map[string]*hit{"status": h}
		h.d.In += " " + clip(h.in.Body)
		h.d.Child += " " + clip(h.ch.Body)
	}

	comps := make([]string, 0, len(hits))
	for c := range hits {
		comps = append(comps, c)
	}

	sort.Strings(comps)

	for _, c := range comps {
		h := hits[c]
		tr := strings.Join(h.transports, "+")
		cell := cellOf(q, h.d, tr)
		w := witness{Request: q, Transport: tr, Component: h.d.Component, InProcess: clip(h.d.In), Child: clip(h.d.Child), InStatus: h.in.Status, ChStatus: h.ch.Status}
		msg := fmt.Sprintf("%s %s (%s, %s): %s differs between in-process and child (%s): in-process %q, child %q", q.Method, q.Target, q.Auth, q.Feature, h.d.Component, tr, clip(h.d.In), clip(h.d.Child))

		r.Violation(cell, len(q.Target)+len(q.BodyB64)+10*len(q.Headers)+len(q.Feature), w, msg)
	}

	if len(hits) == 0 {
		r.Add("requests_in_agreement", 1)
	}
}

// ---------------------------------------------------------------- main

func selfCheck() {
	// every generated service answers in-process: a service that does not
	// compile would make every mode agree on an error and test nothing
	expect := map[string]int{}

	for _, q := range requests(false) {
		if strings.HasPrefix(q.Service, "g/") {
			if _, seen := expect[q.Service]; !seen {
				expect[q.Service] = 0

				res := serve("inproc-cold", q)
				if res.Status == http.StatusInternalServerError && !strings.Contains(q.Service, "rterror") && !strings.Contains(q.Service, "exit") && !strings.Contains(q.Service, "partvar") {
					fatal("generated service %s does not run in-process: %d %s", q.Service, res.Status, clip(res.Body))
				}
			}
		}
	}

	// and the child transport works at all
	q := request{Service: "g/method", Method: "GET", Target: "/services/g/method", Auth: "anon", Headers: [][2]string{{"Accept", "text/plain"}}}

	for _, mode := range []string{"file", "pipe"} {
		res := serve(mode, q)
		if res.Status != 200 || !strings.Contains(res.Body, "method=GET") {
			fatal("the %s transport does not work in this environment: %d %s", mode, res.Status, clip(res.Body))
		}
	}
}

func runSelf(variantName string, args ...string) error {
	cmd := exec.Command(self, args...)
	cmd.Stdout = os.Stdout
	cmd.Stderr = os.Stderr
	cmd.Env = append(os.Environ(), "C41_VARIANT="+variantName)

	return cmd.Run()
}

func main() {
	if len(os.Args) > 1 && os.Args[1] == "init" {
		setup(true)

		return
	}

	if len(os.Args) > 4 && os.Args[1] == "worker" {
		var i, n int

		fmt.Sscan(os.Args[2], &i)
		fmt.Sscan(os.Args[3], &n)

		partial := os.Args[4]

		r := report.New("exploration")

		setup(false)

		// each worker has its own request directory
		ioDir = filepath.Join(ioDir, variant+fmt.Sprint(i))
		_ = os.MkdirAll(ioDir, 0o755)

		for k, q := range requests(r.Thorough()) {
			if k%n == i {
				judge(r, q)
			}
		}

		r.SavePartial(partial)

		return
	}

	start := time.Now()
	r := report.New("exploration")

	self = os.Args[0]
	if exe, err := os.Executable(); err == nil {
		self = exe
	}

	variants := []string{"", "noimport"}

	// the profiles are written by separate processes (one settings store per process)
	for _, v := range variants {
		if err := runSelf(v, "init"); err != nil {
			fatal("cannot prepare the profile of variant %q: %v", v, err)
		}
	}

	if r.Replay != "" {
		var w witness
		if err := report.LoadReplay(r.Replay, &w); err != nil {
			fatal("%v", err)
		}

		_ = os.Setenv("C41_VARIANT", w.Request.Variant)

		setup(false)

		for _, m := range []string{"inproc-cold", "inproc-warm", "file", "pipe"} {
			res := serve(m, w.Request)
			fmt.Printf("replay %-12s %d %v %q\n", m, res.Status, res.Header, clip(res.Body))
		}

		judge(r, w.Request)
		r.Distinct("replay")
		r.Finish()
	}

	setup(false)

	if t := os.Getenv("VERIF_C41_DEBUG"); t != "" {
		for _, k := range []string{defs.AutoImportSetting, defs.EgoPathSetting, defs.ExtensionsEnabledSetting, defs.StaticTypesSetting, defs.EgoLibPathSetting} {
			fmt.Printf("setting %s = %q\n", k, settings.Get(k))
		}

		for _, q := range requests(true) {
			if q.Target == t {
				for _, m := range []string{"inproc-cold", "inproc-warm", "file", "pipe"} {
					res := serve(m, q)
					fmt.Printf("%-12s %s %s -> %d %v %q\n", m, q.Method, q.Feature, res.Status, res.Header, clip(res.Body))
				}
			}
		}

		os.Exit(2)
	}

	selfCheck()

	all := requests(r.Thorough())

	n := runtime.NumCPU() * 3 / 4
	if n < 2 {
		n = 2
	}

	if n > 12 {
		n = 12
	}

	type shard struct {
		variant string
		i, n    int
		partial string
		err     error
	}

	var shards []*shard

	for i := 0; i < n; i++ {
		shards = append(shards, &shard{"", i, n, filepath.Join(scratch, fmt.Sprintf("partial%d.json", i)), nil})
	}

	shards = append(shards, &shard{"noimport", 0, 1, filepath.Join(scratch, "partial-noimport.json"), nil})

	var wg sync.WaitGroup

	for _, sh := range shards {
		wg.Add(1)

		go func(sh *shard) {
			defer wg.Done()

			sh.err = runSelf(sh.variant, "worker", fmt.Sprint(sh.i), fmt.Sprint(sh.n), sh.partial)
		}(sh)
	}

	wg.Wait()

	for _, sh := range shards {
		if sh.err != nil {
			fatal("worker %s%d: %v", sh.variant, sh.i, sh.err)
		}

		r.MergePartial(sh.partial)
	}

	families := map[string]bool{}
	for _, q := range all {
		families[q.Service] = true
	}

	r.Rule("one case = one HTTP request (method, path and query, headers, body, credentials; plus the configuration variant) served four times through the real router: in-process with a cold and a warm service cache, child/file, child/pipe; every request is distinct")
	r.Set("service_families", len(families))
	r.Set("generated_services", len(generated))
	r.Set("workers", len(shards))
	r.Set("wall_s", int(time.Since(start).Seconds()))

	for i, q := range all {
		if i%(len(all)/6+1) == 0 {
			r.Sample(map[string]any{"method": q.Method, "target": q.Target, "auth": q.Auth, "feature": q.Feature})
		}
	}

	r.Assume(
		"parent and child read the same profile ($HOME/.ego, written by the ego binary itself plus the defaults `ego run` and `ego server` add); the parent additionally has the ephemeral settings commands.setServerDefaults gives a server",
		"requests are served by router.ServeHTTP into httptest recorders (no socket between client and server); the headers compared are those frozen at WriteHeader, i.e. what a client receives, without net/http's content sniffing",
		"a header written several times is compared as its comma-joined list (HTTP treats both forms alike)",
		"pids, times and memory figures printed by lib/services/up.ego and admin/memory.ego are masked",
	)

	r.Finish()
}

// Worker of the C32 check. It is built by the c32route harness from a tree in
// which the single `range m.routes` of Router.FindRoute is rewritten to
// `range verifC32Range(m)`, so that this process — not the Go runtime —
// chooses the iteration order of the route table. It enumerates its shard of
// the route tables, runs the real FindRoute for every request under EVERY
// order, and writes counts and violation cells as JSON.
package main

import (
	"crypto/sha256"
	"encoding/hex"
	"encoding/json"
	"fmt"
	"os"
	"runtime/pprof"
	"sort"
	"strings"
	"syscall"
	"time"

	"github.com/tucats/ego/internal/router"
)

// Family is one generated family of route tables and requests.
type Family struct {
	Name         string   `json:"name"`
	Endpoints    []string `json:"endpoints"`
	RouteMethods []string `json:"route_methods"`
	MaxRoutes    int      `json:"max_routes"`
	Segments     []string `json:"segments"`
	MaxSegments  int      `json:"max_segments"`
	ReqMethods   []string `json:"req_methods"`
}

// RealTable is a concrete table (the server's own).
type RealTable struct {
	Name       string      `json:"name"`
	Routes     [][2]string `json:"routes"` // endpoint, method
	ReqMethods []string    `json:"req_methods"`
	MaxPerm    int         `json:"max_perm"` // largest candidate set that is fully permuted
}

// Config is the worker's input.
type Config struct {
	Families []Family    `json:"families"`
	Real     []RealTable `json:"real"`
	Shard    int         `json:"shard"`
	Shards   int         `json:"shards"`
	Replay   *Witness    `json:"replay,omitempty"`

	// the concurrent part (conc.go)
	Conc           []ConcTable  `json:"conc,omitempty"`
	Mode           string       `json:"mode,omitempty"` // "" | "race"
	RaceGoroutines int          `json:"race_goroutines,omitempty"`
	RaceReps       int          `json:"race_reps,omitempty"`
	ReplayConc     *ConcWitness `json:"replay_conc,omitempty"`
}

// Witness is a self-contained failing case.
type Witness struct {
	Table    [][2]string `json:"table"`  // endpoint, method
	Method   string      `json:"method"` // request
	Path     string      `json:"path"`
	OrderA   []string    `json:"order_a,omitempty"`
	ResultA  string      `json:"result_a,omitempty"`
	OrderB   []string    `json:"order_b,omitempty"`
	ResultB  string      `json:"result_b,omitempty"`
	Matching []string    `json:"matching,omitempty"`
	Family   string      `json:"family,omitempty"`
}

// Violation is one cell with its smallest witness.
type Violation struct {
	Cell    string  `json:"cell"`
	Size    int     `json:"size"`
	Witness Witness `json:"witness"`
	Message string  `json:"message"`
	Count   int64   `json:"count"`
}

// Result is the worker's output.
type Result struct {
	Evals          int64                 `json:"evals"`    // FindRoute calls on permuted tables
	Requests       int64                 `json:"requests"` // (table, method, path) cases
	Tables         int64                 `json:"tables"`
	Probes         int64                 `json:"probes"`
	Ambiguous      int64                 `json:"ambiguous"` // requests with >= 2 routes able to become candidates
	MaxCand        int                   `json:"max_candidates"`
	Panics         int64                 `json:"panics"`
	HookCalls      int64                 `json:"hook_calls"`
	Distinct       []string              `json:"distinct"`
	Violations     map[string]*Violation `json:"violations"`
	Samples        []Witness             `json:"samples"`
	Capped         []string              `json:"capped"`
	PerFamily      map[string]int64      `json:"per_family"`
	RealRequests   map[string]int64      `json:"real_requests"`
	CappedRequests map[string]int64      `json:"capped_requests"`
	Error          string                `json:"error,omitempty"`
	CPUSeconds     float64               `json:"cpu_s"`

	ConcScenarios     int64                     `json:"conc_scenarios"`
	ConcSchedules     int64                     `json:"conc_schedules"`
	ConcTransitions   int64                     `json:"conc_transitions"`
	ConcPerTable      map[string]int64          `json:"conc_per_table"`
	ConcViolations    map[string]*ConcViolation `json:"conc_violations"`
	ConcSamples       []map[string]any          `json:"conc_samples"`
	RaceLookups       int64                     `json:"race_lookups"`
	RaceMismatches    int64                     `json:"race_mismatches"`
	RaceFirstMismatch string                    `json:"race_first_mismatch"`
}

var (
	res      = Result{Violations: map[string]*Violation{}, PerFamily: map[string]int64{}, RealRequests: map[string]int64{}, CappedRequests: map[string]int64{}, ConcPerTable: map[string]int64{}, ConcViolations: map[string]*ConcViolation{}}
	distinct = map[[8]byte]struct{}{}
)

func fatal(f string, a ...any) {
	res.Error = fmt.Sprintf(f, a...)
	writeResult()
	os.Exit(2)
}

func writeResult() {
	res.HookCalls = router.VerifC32RangeCalls

	var ru syscall.Rusage
	if syscall.Getrusage(syscall.RUSAGE_SELF, &ru) == nil {
		res.CPUSeconds = float64(ru.Utime.Sec+ru.Stime.Sec) + float64(ru.Utime.Usec+ru.Stime.Usec)/1e6
	}

	res.Distinct = res.Distinct[:0]
	for k := range distinct {
		res.Distinct = append(res.Distinct, hex.EncodeToString(k[:]))
	}

	sort.Strings(res.Distinct)

	b, _ := json.Marshal(res)
	if err := os.WriteFile(os.Getenv("VERIF_C32_OUT"), b, 0o644); err != nil {
		fmt.Fprintln(os.Stderr, "c32 worker: cannot write result:", err)
		os.Exit(2)
	}
}

func addDistinct(key string) {
	h := sha256.Sum256([]byte(key))

	var k [8]byte

	copy(k[:], h[:8])
	distinct[k] = struct{}{}
}

func violation(cell string, size int, w Witness, msg string) {
	v := res.Violations[cell]
	if v == nil {
		res.Violations[cell] = &Violation{Cell: cell, Size: size, Witness: w, Message: msg, Count: 1}

		return
	}

	v.Count++

	if size < v.Size {
		v.Size, v.Witness, v.Message = size, w, msg
	}
}

// ---- route descriptions -------------------------------------------------

type kind struct {
	endpoint, method string
	vars             int
	class            string
}

func mkKind(endpoint, method string) kind {
	k := kind{endpoint: endpoint, method: method, vars: strings.Count(endpoint, "{{")}

	switch {
	case endpoint == "/":
		k.class = "root"
	case k.vars == 0:
		k.class = "static"
	case strings.Contains(endpoint, "...}}"):
		k.class = "glob"
	default:
		k.class = "var"
	}

	return k
}

func (k kind) String() string { return k.method + " " + k.endpoint }

// normalize mirrors the two request normalizations FindRoute starts with; it
// is used only to name cells and to state witnesses, never to decide.
func normalize(method, path string) (string, string) {
	if len(path) > 1 {
		path = strings.TrimSuffix(path, "/") + "/"
	}

	return strings.ToUpper(method), path
}

// outcome of one FindRoute call: index of the chosen route in the table (or
// -1) and the status; panics are folded into status -1.
type outcome struct {
	route  int
	status int
}

func (o outcome) describe(t []kind) string {
	switch {
	case o.status == -1:
		return "panic"
	case o.route < 0:
		return fmt.Sprintf("no route, status %d", o.status)
	default:
		return fmt.Sprintf("%s (status %d)", t[o.route], o.status)
	}
}

func (o outcome) class(t []kind) string {
	switch {
	case o.status == -1:
		return "panic"
	case o.route < 0:
		return fmt.Sprintf("none%d", o.status)
	default:
		return t[o.route].class
	}
}

// find runs the real FindRoute on m with the iteration order `order` and
// reports which entry of `order`... of routes (by pointer) was chosen.
func find(m *router.Router, order []*router.Route, method, path string) (rt *router.Route, status int) {
	defer func() {
		if p := recover(); p != nil {
			res.Panics++
			rt, status = nil, -1
		}
	}()

	router.VerifC32SetOrderUnchecked(m, order)

	return m.FindRoute(method, path, false)
}

func indexOf(routes []*router.Route, r *router.Route) int {
	if r == nil {
		return -1
	}

	for i, x := range routes {
		if x == r {
			return i
		}
	}

	return -2
}

// newRouter registers the table in the given order and returns the router and
// its routes in that order.
func newRouter(t []kind, order []int) (*router.Router, []*router.Route) {
	m := router.NewRouter("c32")
	routes := make([]*router.Route, len(order))

	for i, k := range order {
		routes[i] = m.New(t[k].endpoint, nil, t[k].method)
	}

	router.VerifC32SetOrder(m, routes) // validates: a permutation of the table

	return m, routes
}

// permutations of 0..n-1 in lexicographic order.
var permCache = map[int][][]int{}

func perms(n int) [][]int {
	if p, ok := permCache[n]; ok {
		return p
	}

	var out [][]int

	cur := make([]int, 0, n)
	used := make([]bool, n)

	var rec func()

	rec = func() {
		if len(cur) == n {
			out = append(out, append([]int(nil), cur...))

			return
		}

		for i := 0; i < n; i++ {
			if !used[i] {
				used[i] = true
				cur = append(cur, i)

				rec()

				cur = cur[:len(cur)-1]
				used[i] = false
			}
		}
	}

	rec()

	permCache[n] = out

	return out
}

// ---- judging one request on one table --------------------------------------

type request struct{ method, path string }

// judge takes the outcomes of every order of one (table, request) and applies
// the two halves of the property.
//
//	probe[i] = status of the request on the single-route table {t[i]} (the
//	real matcher decides what "matches"); 200 = matches.
//	prefix   = "" for generated tables, "server:" for the server's own table.
func judge(prefix, family string, t []kind, q request, outs []outcome, orders func(i int) []string, probe []int) {
	// (1) the choice does not depend on the order.
	first := outs[0]
	diff := -1

	for i, o := range outs {
		if o != first {
			diff = i

			break
		}
	}

	// (2) a matching route with fewer variables is preferred over a matching
	// one with more. "Matches" = the real matcher returns the route (200)
	// when it is the only route of the table.
	//
	// The catch-all "/" is left out of the comparison unless the request is for
	// "/" itself: whether "everything" should beat a pattern that names the path
	// is not something the statement settles, so both answers are accepted.
	minVars := 1 << 30
	rootPath := q.path == "/"

	for j, k := range t {
		if probe[j] == 200 && k.vars < minVars && (k.class != "root" || rootPath) {
			minVars = k.vars
		}
	}

	worse := false

	for _, o := range outs {
		if o.route >= 0 && probe[o.route] == 200 && t[o.route].vars > minVars {
			worse = true

			break
		}
	}

	if diff < 0 && !worse {
		return
	}

	// Something to report: only now build the witness.
	_, np := normalize(q.method, q.path)
	tab := kindsTable(t)
	size := len(t)*1000 + len(q.path)*4 + len(q.method)

	var matching []string

	for i, k := range t {
		if probe[i] == 200 {
			matching = append(matching, k.String())
		}
	}

	if diff >= 0 {
		cell := prefix + orderCell(t, outs, np)
		w := Witness{Table: tab, Method: q.method, Path: q.path, Family: family,
			OrderA: orders(0), ResultA: first.describe(t), OrderB: orders(diff), ResultB: outs[diff].describe(t), Matching: matching}

		violation(cell, size, w, fmt.Sprintf("%s %q resolves to %q when the routes are iterated as %v but to %q when iterated as %v",
			q.method, q.path, first.describe(t), orders(0), outs[diff].describe(t), orders(diff)))
	}

	if worse {
		done := map[int]bool{}

		for i, o := range outs {
			if o.route < 0 || done[o.route] || probe[o.route] != 200 || t[o.route].vars <= minVars {
				continue
			}

			done[o.route] = true
			c := t[o.route]

			for j, k := range t {
				if probe[j] == 200 && k.vars == minVars && (k.class != "root" || rootPath) {
					cell := fmt.Sprintf("%smore-variables-chosen:%s-over-%s", prefix, c.class, k.class)
					w := Witness{Table: tab, Method: q.method, Path: q.path, Family: family,
						OrderA: orders(i), ResultA: o.describe(t), Matching: matching}

					violation(cell, size, w, fmt.Sprintf("%s %q resolves to %q (%d variables) although %q (%d variables) also matches",
						q.method, q.path, c, c.vars, k, k.vars))

					break
				}
			}
		}
	}
}

// orderCell names the root-cause class of an order dependence from the routes
// the request resolved to under the different orders.
//
//	status-differs            some order yields no route / another status
//	same-endpoint-two-methods the outcomes are one endpoint registered for two methods (e.g. GET and ANY)
//	trailing-slash-twins      the outcomes differ only in a trailing slash of the endpoint
//	root-catchall             "/" is one of the outcomes
//	equal-variables:<classes> different endpoints with the same number of variables
//	unequal-variables:<classes> different endpoints with different numbers of variables
//
// ":exact" is added when one of the outcomes is spelled exactly like the
// (normalized) request path and another is not.
func orderCell(t []kind, outs []outcome, np string) string {
	seen := map[outcome]bool{}

	var (
		classes   []string
		varCount  = map[int]bool{}
		endpoints = map[string]bool{}
		norm      = map[string]bool{}
		exact     int
		inexact   int
		noRoute   bool
		root      bool
	)

	for _, o := range outs {
		if seen[o] {
			continue
		}

		seen[o] = true
		classes = append(classes, o.class(t))

		if o.route < 0 {
			noRoute = true

			continue
		}

		k := t[o.route]
		varCount[k.vars] = true
		endpoints[k.endpoint] = true

		_, ne := normalize("", k.endpoint)
		norm[ne] = true

		if k.endpoint == np {
			exact++
		} else {
			inexact++
		}

		if k.class == "root" {
			root = true
		}
	}

	sort.Strings(classes)

	set := classes[:0:0]

	for i, c := range classes {
		if i == 0 || c != classes[i-1] {
			set = append(set, c)
		}
	}

	if len(set) == 1 {
		set = append(set, set[0])
	}

	cls := strings.Join(set, "|")

	var cell string

	switch {
	case noRoute:
		cell = "order:status-differs:" + cls
	case len(endpoints) == 1:
		return "order:same-endpoint-two-methods"
	case len(norm) == 1:
		cell = "order:trailing-slash-twins"
	case root:
		cell = "order:root-catchall"
	case len(varCount) == 1:
		cell = "order:equal-variables:" + cls
	default:
		cell = "order:unequal-variables:" + cls
	}

	if exact > 0 && inexact > 0 {
		cell += ":exact"
	}

	return cell
}

func names(t []kind, order []int) []string {
	out := make([]string, len(order))
	for i, k := range order {
		out[i] = t[k].String()
	}

	return out
}

// ---- generated families -------------------------------------------------------

func paths(segments []string, maxSeg int) []string {
	out := []string{"/"}

	var rec func(prefix []string)

	rec = func(prefix []string) {
		if len(prefix) > 0 {
			p := "/" + strings.Join(prefix, "/")
			out = append(out, p, p+"/")
		}

		if len(prefix) == maxSeg {
			return
		}

		for _, s := range segments {
			rec(append(prefix[:len(prefix):len(prefix)], s))
		}
	}

	rec(nil)

	// distinct strings only ("/"+""+"/" can repeat a spelling), shortest first
	seen := map[string]bool{}
	uniq := out[:0]

	for _, p := range out {
		if !seen[p] {
			seen[p] = true
			uniq = append(uniq, p)
		}
	}

	sort.SliceStable(uniq, func(i, j int) bool { return len(uniq[i]) < len(uniq[j]) })

	return uniq
}

func runFamily(f Family, shard, shards int) {
	var kinds []kind

	for _, e := range f.Endpoints {
		for _, m := range f.RouteMethods {
			kinds = append(kinds, mkKind(e, m))
		}
	}

	var reqs []request

	for _, p := range paths(f.Segments, f.MaxSegments) {
		for _, m := range f.ReqMethods {
			reqs = append(reqs, request{m, p})
		}
	}

	// Single-route probes with the real matcher.
	probe := make([][]int, len(kinds))

	for i, k := range kinds {
		m, routes := newRouter([]kind{k}, []int{0})
		probe[i] = make([]int, len(reqs))

		for j, q := range reqs {
			r, st := find(m, routes, q.method, q.path)
			res.Probes++

			if st == 200 && r != routes[0] {
				fatal("probe returned a foreign route")
			}

			probe[i][j] = st
		}
	}

	// Every table of 1..MaxRoutes distinct routes, in shortlex order.
	tableNo := 0
	idx := []int{}

	var rec func(start, n int)

	process := func() {
		n := len(idx)
		t := make([]kind, n)

		for i, k := range idx {
			t[i] = kinds[k]
		}

		pp := perms(n)
		ms := make([]*router.Router, len(pp))
		rs := make([][]*router.Route, len(pp))

		for i, p := range pp {
			ms[i], rs[i] = newRouter(t, p)
		}

		res.Tables++
		res.PerFamily[f.Name+":tables"]++

		outs := make([]outcome, len(pp))
		pr := make([]int, n)

		for j, q := range reqs {
			cand := 0

			for i, k := range idx {
				pr[i] = probe[k][j]
				if pr[i] != 404 {
					cand++
				}
			}

			for i := range pp {
				r, st := find(ms[i], rs[i], q.method, q.path)

				ix := indexOf(rs[i], r)
				if ix == -2 {
					fatal("FindRoute returned a route that is not in the table")
				}

				if ix >= 0 {
					ix = pp[i][ix]
				}

				outs[i] = outcome{ix, st}
			}

			res.Evals += int64(len(pp))
			res.Requests++
			res.PerFamily[f.Name+":requests"]++

			if cand > res.MaxCand {
				res.MaxCand = cand
			}

			if cand >= 2 {
				res.Ambiguous++

				var sig []string

				for i, k := range t {
					if pr[i] != 404 {
						sig = append(sig, k.String())
					}
				}

				nm, np := normalize(q.method, q.path)
				addDistinct(strings.Join(sig, ";") + "|" + nm + "|" + np)

				if len(res.Samples) < 3 && n >= 3 && cand == n && tableNo%7 == 0 {
					res.Samples = append(res.Samples, Witness{Table: kindsTable(t), Method: q.method, Path: q.path, Family: f.Name,
						OrderA: names(t, pp[0]), ResultA: outs[0].describe(t), OrderB: names(t, pp[len(pp)-1]), ResultB: outs[len(pp)-1].describe(t)})
				}
			}

			judge("", f.Name, t, q, outs, func(i int) []string { return names(t, pp[i]) }, pr)
		}
	}

	rec = func(start, n int) {
		if len(idx) == n {
			if tableNo%shards == shard {
				process()
			}

			tableNo++

			return
		}

		for k := start; k < len(kinds); k++ {
			idx = append(idx, k)
			rec(k+1, n)
			idx = idx[:len(idx)-1]
		}
	}

	for n := 1; n <= f.MaxRoutes; n++ {
		rec(0, n)
	}
}

func kindsTable(t []kind) [][2]string {
	tab := make([][2]string, len(t))
	for i, k := range t {
		tab[i] = [2]string{k.endpoint, k.method}
	}

	return tab
}

// ---- a concrete table (the server's own) ----------------------------------------

// realPaths derives the request paths from the table itself: every endpoint
// with each variable replaced by each value of a position-specific alphabet
// (a fresh word, the empty segment, and every literal that some endpoint has
// at that position), the glob by 0..2 segments; each also with one segment
// dropped, one segment added, and with/without a trailing slash.
func realPaths(t []kind) []string {
	lit := map[int]map[string]bool{}

	for _, k := range t {
		for i, p := range strings.Split(strings.TrimSuffix(k.endpoint, "/"), "/") {
			if i == 0 || strings.HasPrefix(p, "{{") {
				continue
			}

			if lit[i] == nil {
				lit[i] = map[string]bool{}
			}

			lit[i][p] = true
		}
	}

	values := func(i int) []string {
		out := []string{"zz", ""}

		for p := range lit[i] {
			out = append(out, p)
		}

		sort.Strings(out)

		return out
	}

	seen := map[string]bool{}

	var out []string

	add := func(p string) {
		if p == "" {
			p = "/"
		}

		for _, v := range []string{p, p + "/"} {
			if !seen[v] {
				seen[v] = true
				out = append(out, v)
			}
		}
	}

	for _, k := range t {
		parts := strings.Split(strings.TrimSuffix(k.endpoint, "/"), "/")

		var rec func(i int, acc []string)

		rec = func(i int, acc []string) {
			if i == len(parts) {
				p := strings.Join(acc, "/")
				add(p)
				add(p + "/zz")

				if len(acc) > 2 {
					add(strings.Join(acc[:len(acc)-1], "/"))
				}

				return
			}

			p := parts[i]

			switch {
			case strings.HasPrefix(p, "{{") && strings.HasSuffix(p, "...}}"):
				rec(len(parts), acc)

				for _, v := range values(i) {
					rec(len(parts), append(acc[:len(acc):len(acc)], v))

					for _, v2 := range []string{"zz", ""} {
						rec(len(parts), append(acc[:len(acc):len(acc)], v, v2))
					}
				}
			case strings.HasPrefix(p, "{{"):
				for _, v := range values(i) {
					rec(i+1, append(acc[:len(acc):len(acc)], v))
				}
			default:
				rec(i+1, append(acc[:len(acc):len(acc)], p))
			}
		}

		rec(0, nil)
	}

	add("/")
	add("/zz")
	sort.Strings(out)

	return out
}

func runReal(rt RealTable, shard, shards int) {
	t := make([]kind, len(rt.Routes))
	for i, r := range rt.Routes {
		t[i] = mkKind(r[0], r[1])
	}

	all := make([]int, len(t))
	for i := range all {
		all[i] = i
	}

	m, routes := newRouter(t, all)

	singles := make([]*router.Router, len(t))
	singleRoutes := make([][]*router.Route, len(t))

	for i := range t {
		singles[i], singleRoutes[i] = newRouter(t[i:i+1], []int{0})
	}

	ps := realPaths(t)
	if shard == 0 {
		res.Tables++
	}

	reqNo := 0
	probe := make([]int, len(t))
	order := make([]*router.Route, len(t))

	for _, p := range ps {
		for _, method := range rt.ReqMethods {
			reqNo++

			if reqNo%shards != shard {
				continue
			}

			q := request{method, p}

			var cand, rest []int

			for i := range t {
				_, st := find(singles[i], singleRoutes[i], method, p)
				res.Probes++
				probe[i] = st

				if st != 404 {
					cand = append(cand, i)
				} else {
					rest = append(rest, i)
				}
			}

			res.Requests++
			res.RealRequests[rt.Name]++

			if len(cand) > res.MaxCand {
				res.MaxCand = len(cand)
			}

			// All orders of the candidates; for a candidate set too large for that
			// (k! orders), every choice of the first two candidates with the others
			// ascending and descending -- a stated cut, reported as such.
			var pp [][]int

			if len(cand) > rt.MaxPerm {
				res.CappedRequests[rt.Name]++

				k := len(cand)

				for a := 0; a < k; a++ {
					for b := 0; b < k; b++ {
						if a == b {
							continue
						}

						up := []int{a, b}
						down := []int{a, b}

						for c := 0; c < k; c++ {
							if c != a && c != b {
								up = append(up, c)
							}
						}

						for c := k - 1; c >= 0; c-- {
							if c != a && c != b {
								down = append(down, c)
							}
						}

						pp = append(pp, up, down)
					}
				}
			} else {
				pp = perms(len(cand))
			}

			var (
				outs   []outcome
				orders [][]int
			)

			// Routes that cannot become candidates sit after (pass 0) or, in
			// reverse, before (pass 1) the permuted candidates.
			for pass := 0; pass < 2; pass++ {
				for _, perm := range pp {
					ord := make([]int, 0, len(t))

					if pass == 1 {
						for i := len(rest) - 1; i >= 0; i-- {
							ord = append(ord, rest[i])
						}
					}

					for _, c := range perm {
						ord = append(ord, cand[c])
					}

					if pass == 0 {
						ord = append(ord, rest...)
					}

					for i, k := range ord {
						order[i] = routes[k]
					}

					r, st := find(m, order, method, p)
					res.Evals++

					ix := indexOf(routes, r)
					if ix == -2 {
						fatal("FindRoute returned a route that is not in the table")
					}

					outs = append(outs, outcome{ix, st})
					orders = append(orders, ord)
				}
			}

			if len(cand) >= 2 {
				res.Ambiguous++

				var sig []string
				for _, c := range cand {
					sig = append(sig, t[c].String())
				}

				nm, np := normalize(method, p)
				addDistinct(rt.Name + "|" + strings.Join(sig, ";") + "|" + nm + "|" + np)

				if len(res.Samples) < 5 && len(cand) >= 3 {
					res.Samples = append(res.Samples, Witness{Table: [][2]string{{"(" + rt.Name + ")", fmt.Sprint(len(t), " routes")}}, Method: method, Path: p,
						Matching: candNames(t, cand), ResultA: outs[0].describe(t)})
				}
			}

			// The witness names only the candidates' order; the table is the real one.
			candOnly := func(i int) []string {
				var out []string

				for _, k := range orders[i] {
					if probe[k] != 404 {
						out = append(out, t[k].String())
					}
				}

				return out
			}

			// Judge on the candidate sub-table so that the witness replays on its own.
			sub := make([]kind, len(cand))
			subProbe := make([]int, len(cand))
			back := map[int]int{}

			for i, c := range cand {
				sub[i], subProbe[i] = t[c], probe[c]
				back[c] = i
			}

			subOuts := make([]outcome, len(outs))

			for i, o := range outs {
				subOuts[i] = o

				if o.route >= 0 {
					b, ok := back[o.route]
					if !ok {
						// The sub-table argument rests on this: a route that answers 404
						// on its own never becomes a candidate. If it is chosen anyway the
						// harness's reduction is unsound -- a harness problem, not a verdict.
						fatal("%s %s resolves to %q in the %s table although that route alone answers 404", method, p, t[o.route], rt.Name)
					}

					subOuts[i].route = b
				}
			}

			judge("server:", rt.Name, sub, q, subOuts, candOnly, subProbe)
		}
	}
}

func candNames(t []kind, cand []int) []string {
	var out []string
	for _, c := range cand {
		out = append(out, t[c].String())
	}

	return out
}

func replayPrefix(family string) string {
	if strings.HasPrefix(family, "server") {
		return "server:"
	}

	return ""
}

// replay re-runs one witness: its table, every order, that one request.
func replay(w Witness) {
	t := make([]kind, len(w.Table))
	for i, r := range w.Table {
		t[i] = mkKind(r[0], r[1])
	}

	sort.Slice(t, func(i, j int) bool { return t[i].String() < t[j].String() })

	q := request{w.Method, w.Path}
	probe := make([]int, len(t))

	for i := range t {
		m, routes := newRouter(t[i:i+1], []int{0})
		_, probe[i] = find(m, routes, q.method, q.path)
		res.Probes++
	}

	pp := perms(len(t))
	outs := make([]outcome, len(pp))

	for i, p := range pp {
		m, routes := newRouter(t, p)
		r, st := find(m, routes, q.method, q.path)

		ix := indexOf(routes, r)
		if ix >= 0 {
			ix = p[ix]
		}

		outs[i] = outcome{ix, st}
		res.Evals++
	}

	res.Requests++
	res.Tables++

	judge(replayPrefix(w.Family), w.Family, t, q, outs, func(i int) []string { return names(t, pp[i]) }, probe)
}

func main() {
	b, err := os.ReadFile(os.Getenv("VERIF_C32_CFG"))
	if err != nil {
		fmt.Fprintln(os.Stderr, "c32 worker:", err)
		os.Exit(2)
	}

	var cfg Config
	if err := json.Unmarshal(b, &cfg); err != nil {
		fmt.Fprintln(os.Stderr, "c32 worker:", err)
		os.Exit(2)
	}

	// The rewrite must be live: one lookup must pass through verifC32Range, and
	// the order handed in must be the order the candidates are considered in.
	selfTest()

	if cfg.Replay != nil {
		replay(*cfg.Replay)
		writeResult()

		return
	}

	if cfg.ReplayConc != nil {
		replayConc(*cfg.ReplayConc)
		writeResult()

		return
	}

	if cfg.Mode == "race" {
		racePass(cfg.Conc, cfg.RaceGoroutines, cfg.RaceReps)
		writeResult()

		return
	}

	debug := os.Getenv("VERIF_C32_DEBUG") != ""

	if pf := os.Getenv("VERIF_C32_PROF"); pf != "" {
		if f, err := os.Create(pf); err == nil {
			_ = pprof.StartCPUProfile(f)

			defer pprof.StopCPUProfile()
		}
	}
	t0 := time.Now()

	for _, f := range cfg.Families {
		runFamily(f, cfg.Shard, cfg.Shards)

		if debug {
			fmt.Fprintf(os.Stderr, "c32 worker %d: family %s done at %.1fs, evals %d\n", cfg.Shard, f.Name, time.Since(t0).Seconds(), res.Evals)
		}
	}

	for _, rt := range cfg.Real {
		runReal(rt, cfg.Shard, cfg.Shards)

		if debug {
			fmt.Fprintf(os.Stderr, "c32 worker %d: table %s done at %.1fs, evals %d probes %d\n", cfg.Shard, rt.Name, time.Since(t0).Seconds(), res.Evals, res.Probes)
		}
	}

	runConc(cfg.Conc, cfg.Shard, cfg.Shards)

	if debug {
		fmt.Fprintf(os.Stderr, "c32 worker %d: concurrent part done at %.1fs, scenarios %d schedules %d\n", cfg.Shard, time.Since(t0).Seconds(), res.ConcScenarios, res.ConcSchedules)
	}

	writeResult()
}

// selfTest proves that this binary's FindRoute iterates in the order the
// harness sets: the hook counter moves, and a table with two routes that are
// indistinguishable to every tie-break except position in the candidate list
// (same shape, same length) returns the first one in BOTH orders. If FindRoute
// were ever changed to be insensitive to that, the second half is skipped —
// only the counter is mandatory.
func selfTest() {
	before := router.VerifC32RangeCalls
	t := []kind{mkKind("/{{x}}/b", "GET"), mkKind("/a/{{y}}", "GET")}
	m, routes := newRouter(t, []int{0, 1})
	_, _ = find(m, routes, "GET", "/a/b")

	if router.VerifC32RangeCalls != before+1 {
		fatal("the range rewrite is not live in this binary (hook calls %d -> %d)", before, router.VerifC32RangeCalls)
	}

	res.Panics = 0
}

// Concurrent lookups on one router (second part of the C32 check).
//
// "The route chosen for a request depends only on its method and path" must
// also hold when several requests are resolved at the same time. Two modes,
// the same thread body (one FindRoute call, answer recorded):
//
//   - conc: k lookups for different (method, path) pairs run as managed threads
//     under the controlled scheduler; EVERY interleaving with at most `bound`
//     preemptions is executed. Scheduling points: every lock acquisition in
//     internal/router (sync is woven) and, inside FindRoute, the rewritten
//     range: before each route is visited and after the last one.
//   - race: the same lookups on real goroutines in a binary built with -race
//     (auxiliary: it can only ever show a problem, never its absence).
//
// In both, every concurrent answer must equal the answer the same request gets
// when it is resolved alone on the same router.
package main

import (
	"fmt"
	"os"
	"runtime"
	"strings"
	gosync "sync"

	"github.com/tucats/ego/internal/router"
	"github.com/tucats/ego/internal/verifrt/explore"
	"github.com/tucats/ego/internal/verifrt/vsched"
	vsync "github.com/tucats/ego/internal/verifrt/vsync"
)

// ConcTable is one route table with the requests that are combined on it.
type ConcTable struct {
	Name     string      `json:"name"`
	Routes   [][2]string `json:"routes"`   // endpoint, method
	Requests [][2]string `json:"requests"` // method, path
	Threads  int         `json:"threads"`  // lookups per scenario
	Bound    int         `json:"bound"`    // preemption bound
}

// ConcWitness is a failing schedule.
type ConcWitness struct {
	Part     string      `json:"part"` // conc
	Table    string      `json:"table_name"`
	Routes   [][2]string `json:"routes"`
	Requests [][2]string `json:"requests"`
	Bound    int         `json:"bound"`
	Schedule []int       `json:"schedule"`
	Serial   []string    `json:"serial_answers"`
	Got      []string    `json:"concurrent_answers"`
	Trace    []string    `json:"trace,omitempty"`
}

// ConcViolation is a cell of the concurrent part.
type ConcViolation struct {
	Cell    string      `json:"cell"`
	Size    int         `json:"size"`
	Witness ConcWitness `json:"witness"`
	Message string      `json:"message"`
	Count   int64       `json:"count"`
}

func buildRouter(routes [][2]string) *router.Router {
	m := router.NewRouter("c32-conc")
	for _, r := range routes {
		m.New(r[0], nil, r[1])
	}

	return m
}

// lookup is THE thread body of both modes.
func lookup(m *router.Router, q [2]string) string {
	rt, st := m.FindRoute(q[0], q[1], false)
	if rt == nil {
		return fmt.Sprintf("no route, status %d", st)
	}

	return fmt.Sprintf("%s %s (status %d)", rt.VerifC32Method(), rt.VerifC32Endpoint(), st)
}

func serialAnswers(routes [][2]string, reqs [][2]string) []string {
	m := buildRouter(routes)
	out := make([]string, len(reqs))

	for i, q := range reqs {
		out[i] = lookup(m, q)

		// resolved alone, a request must of course answer the same every time
		if again := lookup(m, q); again != out[i] {
			fatal("serial lookup of %v is not stable: %q then %q", q, out[i], again)
		}
	}

	return out
}

func concViolation(cell string, size int, w ConcWitness, msg string) {
	v := res.ConcViolations[cell]
	if v == nil {
		res.ConcViolations[cell] = &ConcViolation{Cell: cell, Size: size, Witness: w, Message: msg, Count: 1}

		return
	}

	v.Count++

	if size < v.Size {
		v.Size, v.Witness, v.Message = size, w, msg
	}
}

// combos calls f with every k-subset of 0..n-1 (ascending).
func combos(n, k int, f func(idx []int)) {
	idx := make([]int, 0, k)

	var rec func(start int)

	rec = func(start int) {
		if len(idx) == k {
			f(idx)

			return
		}

		for i := start; i < n; i++ {
			idx = append(idx, i)
			rec(i + 1)
			idx = idx[:len(idx)-1]
		}
	}

	rec(0)
}

func scenario(t ConcTable, reqs [][2]string, serial []string, got *[]string) *explore.Scenario {
	var m *router.Router

	return &explore.Scenario{
		Name: t.Name, Bound: t.Bound, Horizon: 200000,
		Focus: func(kind string, _ any) bool {
			return kind == "yield" || strings.HasPrefix(kind, "Mutex.") || strings.HasPrefix(kind, "RWMutex.")
		},
		Setup: func() {
			m = buildRouter(t.Routes)
			*got = make([]string, len(reqs))
		},
		Body: func() {
			var wg vsync.WaitGroup

			for i, q := range reqs {
				i, q := i, q

				wg.Add(1)
				vsched.Go(func() {
					defer wg.Done()

					(*got)[i] = lookup(m, q)
				})
			}

			wg.Wait()
		},
		Observe: func() any { return fmt.Sprint(*got) },
	}
}

func judgeConc(t ConcTable, reqs [][2]string, serial, got []string, out vsched.Outcome) {
	w := ConcWitness{Part: "conc", Table: t.Name, Routes: t.Routes, Requests: reqs, Bound: t.Bound, Schedule: out.Choices(), Serial: serial, Got: append([]string(nil), got...)}
	size := len(out.Points)*10 + vsched.Preemptions(out.Points) + len(t.Routes)*1000

	if out.Panic != nil || out.Deadlock {
		w.Trace = out.Describe()
		concViolation("conc:crash", size, w, fmt.Sprintf("concurrent lookups %v: panic=%v deadlock=%v %v", reqs, out.Panic, out.Deadlock, out.BlockedOn))

		return
	}

	if out.Horizon {
		res.Capped = append(res.Capped, "step horizon reached in concurrent scenario "+t.Name)

		return
	}

	for i := range reqs {
		if got[i] == serial[i] {
			continue
		}

		cell := "conc:lookup-differs-from-serial"

		for j := range reqs {
			if j != i && got[i] == serial[j] {
				cell = "conc:lookup-answers-another-request"
			}
		}

		w.Trace = out.Describe()
		concViolation(cell, size, w, fmt.Sprintf("%s %q resolves to %q on its own but to %q while %v are being resolved at the same time (schedule %v)",
			reqs[i][0], reqs[i][1], serial[i], got[i], others(reqs, i), out.Choices()))

		return
	}
}

func others(reqs [][2]string, i int) []string {
	var out []string

	for j, q := range reqs {
		if j != i {
			out = append(out, q[0]+" "+q[1])
		}
	}

	return out
}

// runConc explores this shard's scenarios of every table.
func runConc(tables []ConcTable, shard, shards int) {
	no := 0

	for _, t := range tables {
		t := t
		serialAll := serialAnswers(t.Routes, t.Requests)

		combos(len(t.Requests), t.Threads, func(idx []int) {
			no++

			if no%shards != shard {
				return
			}

			reqs := make([][2]string, len(idx))
			serial := make([]string, len(idx))

			for i, k := range idx {
				reqs[i], serial[i] = t.Requests[k], serialAll[k]
			}

			var got []string

			ex := scenario(t, reqs, serial, &got)
			ex.Check = func(out vsched.Outcome) {
				res.ConcSchedules++
				res.ConcTransitions += int64(len(out.Points))
				judgeConc(t, reqs, serial, got, out)
			}

			if err := ex.Determinism(); err != nil {
				fatal("%v", err)
			}

			r := ex.Explore()
			if r.MaxPoints < 2*len(reqs) {
				fatal("concurrent scenario %s %v has only %d choice points: the scheduling seams (woven locks, rewritten range) are lost", t.Name, reqs, r.MaxPoints)
			}

			if !r.Completed {
				res.Capped = append(res.Capped, "exploration of a concurrent scenario of "+t.Name+" was cut")
			}

			res.ConcScenarios++
			res.ConcPerTable[t.Name+":scenarios"]++
			res.ConcPerTable[t.Name+":schedules"] += int64(r.Schedules)

			if int64(r.MaxPoints) > res.ConcPerTable[t.Name+":max_points"] {
				res.ConcPerTable[t.Name+":max_points"] = int64(r.MaxPoints)
			}

			addDistinct(fmt.Sprint("conc|", t.Name, reqs))

			if len(res.ConcSamples) < 2 {
				res.ConcSamples = append(res.ConcSamples, map[string]any{"concurrent_lookups": reqs, "table": t.Name, "routes": len(t.Routes),
					"schedules": r.Schedules, "preemption_bound": t.Bound, "choice_points_max": r.MaxPoints, "serial_answers": serial})
			}
		})
	}
}

// replayConc runs one recorded schedule again.
func replayConc(w ConcWitness) {
	t := ConcTable{Name: w.Table, Routes: w.Routes, Requests: w.Requests, Threads: len(w.Requests), Bound: w.Bound}
	serial := serialAnswers(t.Routes, t.Requests)

	var got []string

	ex := scenario(t, w.Requests, serial, &got)
	out := ex.Replay(w.Schedule)

	res.ConcSchedules++
	judgeConc(t, w.Requests, serial, got, out)
}

// ---- free-running pass (run from the -race build of this worker) -------------

// racePass resolves the requests of every table from `goroutines` real
// goroutines at once and compares each answer with the serial one. The race
// detector's reports go to stderr; the harness reads them.
func racePass(tables []ConcTable, goroutines, reps int) {
	for _, t := range tables {
		serial := serialAnswers(t.Routes, t.Requests)
		m := buildRouter(t.Routes)

		for _, procs := range []int{2, 8} {
			runtime.GOMAXPROCS(procs)

			var (
				wg gosync.WaitGroup
				mu gosync.Mutex
			)

			for g := 0; g < goroutines; g++ {
				g := g

				wg.Add(1)

				go func() {
					defer wg.Done()

					for rep := 0; rep < reps; rep++ {
						for k := range t.Requests {
							i := (k + g*7 + rep) % len(t.Requests)
							a := lookup(m, t.Requests[i])

							if a != serial[i] {
								mu.Lock()
								res.RaceMismatches++

								if res.RaceFirstMismatch == "" {
									res.RaceFirstMismatch = fmt.Sprintf("%s table, %d goroutines: %s %q resolves to %q on its own but to %q under concurrent lookups",
										t.Name, goroutines, t.Requests[i][0], t.Requests[i][1], serial[i], a)
								}

								mu.Unlock()
							}
						}
					}
				}()
			}

			wg.Wait()

			res.RaceLookups += int64(goroutines * reps * len(t.Requests))
		}
	}

	fmt.Fprintln(os.Stderr, "RACEPASS-DONE")
}

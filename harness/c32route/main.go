// C32: route resolution is deterministic and most specific.
//
// Router.FindRoute ranges over a Go map, so the order in which candidate
// routes are collected is chosen by the runtime. This harness takes that
// choice over: at check time it rewrites the one `range m.routes` of FindRoute
// (in a scratch copy of the CURRENT internal/router/router.go, nothing else is
// touched) into `range verifC32Range(m)` (inject/internal/router), builds the
// worker (./worker) against that copy, and lets up to 12 worker processes run the
// real FindRoute over
//
//   - every route table of up to N routes over an alphabet of endpoints and
//     methods, every request path of up to K segments, and
//   - the server's actual route table with requests derived from it,
//
// under EVERY iteration order (= every registration order) of the table
// (for the 94-route server table: every order of the routes that can become
// candidates for that request). Oracle = the property statement: the same
// route and status for every order; and never a chosen route that has more
// path variables than another route that also matches.
package main

import (
	"encoding/json"
	"fmt"
	"go/ast"
	"go/parser"
	"go/token"
	"os"
	"os/exec"
	"os/user"
	"path/filepath"
	"runtime"
	"sort"
	"strings"
	"sync"
	"syscall"

	"github.com/tucats/ego/internal/cli/settings"
	"github.com/tucats/ego/internal/commands"
	"github.com/tucats/ego/internal/defs"
	"github.com/tucats/ego/internal/verifrt/report"
)

// The JSON shapes shared with ./worker (kept in step by hand; both are small).
type family struct {
	Name         string   `json:"name"`
	Endpoints    []string `json:"endpoints"`
	RouteMethods []string `json:"route_methods"`
	MaxRoutes    int      `json:"max_routes"`
	Segments     []string `json:"segments"`
	MaxSegments  int      `json:"max_segments"`
	ReqMethods   []string `json:"req_methods"`
}

type realTable struct {
	Name       string      `json:"name"`
	Routes     [][2]string `json:"routes"`
	ReqMethods []string    `json:"req_methods"`
	MaxPerm    int         `json:"max_perm"`
}

type config struct {
	Families []family        `json:"families"`
	Real     []realTable     `json:"real"`
	Shard    int             `json:"shard"`
	Shards   int             `json:"shards"`
	Replay   json.RawMessage `json:"replay,omitempty"`

	Conc           []concTable     `json:"conc,omitempty"`
	Mode           string          `json:"mode,omitempty"`
	RaceGoroutines int             `json:"race_goroutines,omitempty"`
	RaceReps       int             `json:"race_reps,omitempty"`
	ReplayConc     json.RawMessage `json:"replay_conc,omitempty"`
}

// concTable: a route table and the requests that are resolved concurrently on it.
type concTable struct {
	Name     string      `json:"name"`
	Routes   [][2]string `json:"routes"`
	Requests [][2]string `json:"requests"`
	Threads  int         `json:"threads"`
	Bound    int         `json:"bound"`
}

type violation struct {
	Cell    string          `json:"cell"`
	Size    int             `json:"size"`
	Witness json.RawMessage `json:"witness"`
	Message string          `json:"message"`
	Count   int64           `json:"count"`
}

type result struct {
	Evals          int64                 `json:"evals"`
	Requests       int64                 `json:"requests"`
	Tables         int64                 `json:"tables"`
	Probes         int64                 `json:"probes"`
	Ambiguous      int64                 `json:"ambiguous"`
	MaxCand        int                   `json:"max_candidates"`
	Panics         int64                 `json:"panics"`
	HookCalls      int64                 `json:"hook_calls"`
	Distinct       []string              `json:"distinct"`
	Violations     map[string]*violation `json:"violations"`
	Samples        []json.RawMessage     `json:"samples"`
	Capped         []string              `json:"capped"`
	PerFamily      map[string]int64      `json:"per_family"`
	RealRequests   map[string]int64      `json:"real_requests"`
	CappedRequests map[string]int64      `json:"capped_requests"`
	Error          string                `json:"error"`
	CPUSeconds     float64               `json:"cpu_s"`

	ConcScenarios     int64                 `json:"conc_scenarios"`
	ConcSchedules     int64                 `json:"conc_schedules"`
	ConcTransitions   int64                 `json:"conc_transitions"`
	ConcPerTable      map[string]int64      `json:"conc_per_table"`
	ConcViolations    map[string]*violation `json:"conc_violations"`
	ConcSamples       []json.RawMessage     `json:"conc_samples"`
	RaceLookups       int64                 `json:"race_lookups"`
	RaceMismatches    int64                 `json:"race_mismatches"`
	RaceFirstMismatch string                `json:"race_first_mismatch"`
}

// rewriteRouter returns router.go with every `range <recv>.routes` inside
// func (…) FindRoute replaced by `range verifC32Range(<recv>)`. The edit is a
// byte splice at the positions the Go parser reports, so every other byte of
// the file — and every line number — is the working tree's.
func rewriteRouter(src []byte) ([]byte, int, error) {
	fset := token.NewFileSet()

	f, err := parser.ParseFile(fset, "router.go", src, parser.SkipObjectResolution)
	if err != nil {
		return nil, 0, err
	}

	type splice struct {
		from, to int
		text     string
	}

	var edits []splice

	for _, d := range f.Decls {
		fd, ok := d.(*ast.FuncDecl)
		if !ok || fd.Name.Name != "FindRoute" || fd.Recv == nil || fd.Body == nil {
			continue
		}

		ast.Inspect(fd.Body, func(n ast.Node) bool {
			rs, ok := n.(*ast.RangeStmt)
			if !ok {
				return true
			}

			sel, ok := rs.X.(*ast.SelectorExpr)
			if !ok || sel.Sel.Name != "routes" {
				return true
			}

			recv := src[fset.Position(sel.X.Pos()).Offset:fset.Position(sel.X.End()).Offset]
			edits = append(edits, splice{fset.Position(rs.X.Pos()).Offset, fset.Position(rs.X.End()).Offset, "verifC32Range(" + string(recv) + ")"})

			return true
		})
	}

	sort.Slice(edits, func(i, j int) bool { return edits[i].from > edits[j].from })

	out := append([]byte(nil), src...)
	for _, e := range edits {
		out = append(out[:e.from:e.from], append([]byte(e.text), out[e.to:]...)...)
	}

	return out, len(edits), nil
}

// buildWorker builds ./worker twice against the rewritten router.go: plain
// (iteration orders, controlled scheduler) and with -race (free-running pass).
// When the check weaves internal/router (sync -> verifrt/vsync, for the
// controlled scheduler) the overlay already replaces router.go by the woven
// copy; the range splice is then applied to that copy.
func buildWorker(scratch string) (bin, raceBin string) {
	repo := os.Getenv("VERIF_REPO")
	orig := filepath.Join(repo, "internal/router/router.go")

	b, err := os.ReadFile(os.Getenv("VERIF_OVERLAY"))
	if err != nil {
		report.Fatal("cannot read the overlay: %v", err)
	}

	var ov struct{ Replace map[string]string }
	if err := json.Unmarshal(b, &ov); err != nil {
		report.Fatal("cannot parse the overlay: %v", err)
	}

	from := orig
	if woven, ok := ov.Replace[orig]; ok {
		from = woven
	}

	src, err := os.ReadFile(from)
	if err != nil {
		report.Fatal("cannot read %s: %v", from, err)
	}

	out, n, err := rewriteRouter(src)
	if err != nil {
		report.Fatal("cannot parse %s: %v", from, err)
	}

	if n == 0 {
		report.Fatal("no `range <router>.routes` found in FindRoute of %s: the C32 harness must be adapted to the new code", orig)
	}

	dir := filepath.Join(scratch, "c32")
	if err := os.MkdirAll(dir, 0o755); err != nil {
		report.Fatal("%v", err)
	}

	spliced := filepath.Join(dir, "router.go")
	if err := os.WriteFile(spliced, out, 0o644); err != nil {
		report.Fatal("%v", err)
	}

	ov.Replace[orig] = spliced
	b, _ = json.Marshal(ov)
	ovPath := filepath.Join(dir, "overlay.json")

	if err := os.WriteFile(ovPath, b, 0o644); err != nil {
		report.Fatal("%v", err)
	}

	bin = filepath.Join(dir, "worker.bin")
	raceBin = filepath.Join(dir, "worker.race.bin")

	var (
		wg   sync.WaitGroup
		errs [2]string
	)

	for i, args := range [][]string{
		{"build", "-tags", "verif", "-overlay", ovPath, "-o", bin, "./internal/verifharness/c32route/worker"},
		{"build", "-race", "-tags", "verif", "-overlay", ovPath, "-o", raceBin, "./internal/verifharness/c32route/worker"},
	} {
		wg.Add(1)

		go func(i int, args []string) {
			defer wg.Done()

			cmd := exec.Command("go", args...)
			cmd.Dir = repo
			cmd.Env = goEnv()

			if o, err := cmd.CombinedOutput(); err != nil {
				errs[i] = fmt.Sprintf("go %s: %v\n%s", strings.Join(args, " "), err, o)
			}
		}(i, args)
	}

	wg.Wait()

	for _, e := range errs {
		if e != "" {
			report.Fatal("building the worker against the rewritten router.go failed: %s", e)
		}
	}

	if d := os.Getenv("VERIF_C32_DEBUG"); d != "" && d != "1" {
		_ = os.MkdirAll(d, 0o755)
		b, _ := os.ReadFile(bin)
		_ = os.WriteFile(filepath.Join(d, "worker.bin"), b, 0o755)
		_ = os.WriteFile(filepath.Join(d, "router.go"), out, 0o644)
	}

	return bin, raceBin
}

// goEnv is the environment for the nested go build: the harness runs with a
// scratch HOME, the Go caches live under the real one.
func goEnv() []string {
	var env []string

	for _, e := range os.Environ() {
		if strings.HasPrefix(e, "HOME=") || strings.HasPrefix(e, "GOFLAGS=") || strings.HasPrefix(e, "GOPROXY=") || strings.HasPrefix(e, "GOTOOLCHAIN=") {
			continue
		}

		env = append(env, e)
	}

	home := "/root"
	if u, err := user.Current(); err == nil && u.HomeDir != "" {
		home = u.HomeDir
	}

	return append(env, "HOME="+home, "GOFLAGS=-mod=mod", "GOPROXY=off")
}

func main() {
	r := report.New("exploration")
	scratch := os.Getenv("VERIF_SCRATCH")

	quickEndpoints := []string{"/", "/a", "/a/", "/a/b", "/{{x}}", "/a/{{x}}", "/{{x}}/b", "/{{x}}/{{y}}", "/a/{{x}}/{{y}}", "/a/{{x...}}"}
	moreEndpoints := append(append([]string{}, quickEndpoints...), "/a/{{x}}/b", "/{{x...}}", "/a/{{x}}/")
	segs := []string{"a", "b", ""}

	var fams []family

	if !r.Thorough() {
		fams = []family{{Name: "gen4", Endpoints: quickEndpoints, RouteMethods: []string{"GET", "ANY"}, MaxRoutes: 4,
			Segments: segs, MaxSegments: 3, ReqMethods: []string{"GET", "POST"}}}
	} else {
		fams = []family{
			{Name: "gen4-long", Endpoints: quickEndpoints, RouteMethods: []string{"GET", "ANY"}, MaxRoutes: 4,
				Segments: segs, MaxSegments: 4, ReqMethods: []string{"GET", "POST"}},
			{Name: "gen5", Endpoints: quickEndpoints, RouteMethods: []string{"GET", "ANY"}, MaxRoutes: 5,
				Segments: segs, MaxSegments: 3, ReqMethods: []string{"GET", "POST"}},
			{Name: "wide3", Endpoints: moreEndpoints, RouteMethods: []string{"GET", "POST", "ANY"}, MaxRoutes: 3,
				Segments: segs, MaxSegments: 3, ReqMethods: []string{"GET", "POST", "get"}},
		}
	}

	var text []string
	for _, f := range fams {
		text = append(text, fmt.Sprintf("%s: every table of 1..%d distinct routes over endpoints %q x methods %q, every path of 0..%d segments over %q with and without trailing slash, request methods %q",
			f.Name, f.MaxRoutes, f.Endpoints, f.RouteMethods, f.MaxSegments, f.Segments, f.ReqMethods))
	}

	r.Rule("generated tables (" + strings.Join(text, "; ") + ") and the server's actual route table(s) with paths derived from its endpoints (each variable <- a fresh word, the empty segment, every literal found at that position; one segment more/less; trailing slash) x 7 methods. " +
		"Each (table, method, path) is resolved by the real FindRoute under EVERY iteration order of the table (server table: every order of the routes that are not 404 on their own, placed before and after the rest). " +
		"Part 2, concurrent lookups on one router: every pair (thorough: also every triple) of 8 requests on a 6-route table and every pair of 8 requests on the server's table run as managed threads under the controlled scheduler, every interleaving with at most 2 preemptions (server table: 1, thorough 2; triples: 3) executed, each answer compared with the answer the request gets alone; plus, as auxiliary evidence only, the same lookups from 8 real goroutines in a -race build. " +
		"evaluations = FindRoute calls on ordered tables + schedules executed + lookups of the free-running pass. distinct non-trivial = distinct (set of routes that can become candidates, method, normalized path) with >= 2 such routes, and distinct concurrent scenarios")
	r.Assume(
		"the iteration order of Router.routes is the only order FindRoute can observe: registration order reaches it only through the map; every order is both registered and iterated in that order",
		"the one `range m.routes` of FindRoute is rewritten to range over a harness-chosen order (byte splice of the range expression only; checked live by a counter in the worker)",
		"'matches' (for the fewer-variables half) is decided by the real matcher: the route is returned with 200 when it is the only route of the table; the catch-all endpoint \"/\" takes part in that comparison only for the request path \"/\" (whether 'everything' must beat a pattern is not settled by the statement)",
		"server table: a route that answers 404 as a single-route table never enters the candidate list (the loop body keeps no state between routes); the worker aborts with a harness error if such a route is ever chosen",
	)

	bin, raceBin := buildWorker(scratch)

	cfg := config{Families: fams}

	if r.Replay != "" {
		var w json.RawMessage
		if err := report.LoadReplay(r.Replay, &w); err != nil {
			report.Fatal("%v", err)
		}

		var part struct {
			Part string `json:"part"`
		}

		_ = json.Unmarshal(w, &part)

		switch part.Part {
		case "conc":
			cfg.ReplayConc = w
		case "race":
			report.Fatal("a finding of the free-running -race pass has no schedule to replay; re-run the check")
		default:
			cfg.Replay = w
		}

		cfg.Families = nil
		cfg.Shards = 1
		results := runWorkers(bin, scratch, cfg, 1)
		mergeConc(r, results)
		merge(r, results)
		r.Finish()
	}

	// The server's own table, built by the server's own set-up code.
	methods := []string{"GET", "HEAD", "POST", "PUT", "PATCH", "DELETE", "OPTIONS"}

	rt, err := commands.VerifC32ServerRoutes()
	if err != nil {
		report.Fatal("cannot build the server route table: %v", err)
	}

	if len(rt) < 50 {
		report.Fatal("the server route table has only %d routes: set-up did not run as in the server", len(rt))
	}

	cfg.Real = append(cfg.Real, realTable{Name: "server", Routes: rt, ReqMethods: methods, MaxPerm: 7})
	r.Set("server_routes", len(rt))

	// The same with the OAuth2 authorization-server role switched on.
	settings.SetDefault(defs.OAuthASEnabledSetting, "true")
	settings.SetDefault(defs.OAuthASIssuerSetting, "http://localhost:443")

	if rt2, err := commands.VerifC32ServerRoutes(); err == nil && len(rt2) > len(rt) {
		cfg.Real = append(cfg.Real, realTable{Name: "server+oauth", Routes: rt2, ReqMethods: methods, MaxPerm: 7})
		r.Set("server_oauth_routes", len(rt2))
	} else {
		r.Set("server_oauth_routes", "not built (authorization server set-up did not register its routes in the sandbox)")
	}

	shards := runtime.NumCPU()
	if shards > 12 {
		shards = 12
	}

	// Part 2: concurrent lookups on one router. A small generated table and the
	// server's table; every pair (thorough: also every triple on the small
	// table) of these requests is resolved at the same time.
	small := concTable{Name: "small", Threads: 2, Bound: 2,
		Routes:   [][2]string{{"/a", "GET"}, {"/a/b", "ANY"}, {"/a/{{x}}", "GET"}, {"/a/{{x}}", "POST"}, {"/{{x}}/b", "GET"}, {"/a/{{x...}}", "ANY"}},
		Requests: [][2]string{{"GET", "/a"}, {"GET", "/a/b"}, {"POST", "/a/c"}, {"GET", "/a/c"}, {"GET", "/b/b"}, {"GET", "/a/b/c"}, {"DELETE", "/zz"}, {"POST", "/a"}}}
	server := concTable{Name: "server", Threads: 2, Bound: r.Pick(1, 2), Routes: rt,
		Requests: [][2]string{{"GET", "/dsns"}, {"GET", "/admin/users/zz"}, {"DELETE", "/admin/tokens/zz"}, {"GET", "/assets/a/b.js"},
			{"POST", "/dsns/zz/tables/@sql"}, {"GET", "/dsns/zz/tables/t1/rows"}, {"GET", "/services/up"}, {"PUT", "/nope"}}}

	cfg.Conc = []concTable{small, server}

	if r.Thorough() {
		three := small
		three.Name, three.Threads, three.Bound = "small-3-threads", 3, 3
		cfg.Conc = append(cfg.Conc, three)
	}

	r.Assume(
		"concurrent part: scheduling points are the lock acquisitions of internal/router (sync woven to verifrt/vsync) and, inside FindRoute, the rewritten range (before each route is visited and after the last); code between two such points runs atomically in the exploration, which is why a free-running -race pass of the same thread body is added as auxiliary evidence",
		"concurrent part: the expected answer of a lookup is the answer the same request gets when resolved alone on an identically built router (iteration order fixed: sorted)",
	)

	cfg.Shards = shards
	results := runWorkers(bin, scratch, cfg, shards)

	// Auxiliary: the same lookups on real goroutines, -race build of the same worker.
	raceCfg := config{Conc: cfg.Conc[:2], Mode: "race", RaceGoroutines: 8, RaceReps: r.Pick(150, 600), Shards: 1}
	raceRes, raceErr, raceText := runOne(raceBin, scratch, raceCfg, "race", []string{"GORACE=halt_on_error=0 exitcode=0"})

	mergeConc(r, results)
	merge(r, results)
	judgeRace(r, raceCfg, raceRes, raceErr, raceText)
	r.Finish()
}

// runOne runs a single worker process and returns its result, its error and its stderr.
func runOne(bin, scratch string, cfg config, tag string, env []string) (result, error, string) {
	var out result

	b, _ := json.Marshal(cfg)
	cfgPath := filepath.Join(scratch, "c32", "cfg-"+tag+".json")
	outPath := filepath.Join(scratch, "c32", "out-"+tag+".json")

	if err := os.WriteFile(cfgPath, b, 0o644); err != nil {
		return out, err, ""
	}

	var stderr strings.Builder

	cmd := exec.Command(bin)
	cmd.Env = append(append(os.Environ(), "VERIF_C32_CFG="+cfgPath, "VERIF_C32_OUT="+outPath), env...)
	cmd.Stderr = &stderr
	cmd.SysProcAttr = &syscall.SysProcAttr{Pdeathsig: syscall.SIGKILL}
	runErr := cmd.Run()

	if rb, err := os.ReadFile(outPath); err == nil {
		_ = json.Unmarshal(rb, &out)
	}

	return out, runErr, stderr.String()
}

// judgeRace turns the free-running pass into cells: a race-detector report
// (named by the racing functions of internal/router), an answer that differs
// from the serial one, or a crash.
func judgeRace(r *report.R, cfg config, res result, runErr error, text string) {
	r.Set("race_pass", map[string]any{"lookups": res.RaceLookups, "goroutines": cfg.RaceGoroutines, "gomaxprocs": []int{2, 8}, "tables": len(cfg.Conc),
		"answers_differing_from_serial": res.RaceMismatches, "data_race_reports": strings.Count(text, "WARNING: DATA RACE")})
	r.Eval(int(res.RaceLookups))

	if strings.Contains(text, "WARNING: DATA RACE") {
		r.Violation("race:"+raceFrames(text), 1, map[string]any{"part": "race", "report": firstRace(text)},
			"the Go race detector reports an unsynchronized access in internal/router while lookups run concurrently on one router")
	}

	if res.RaceMismatches > 0 {
		r.Violation("racepass:lookup-differs-from-serial", 2, map[string]any{"part": "race", "first": res.RaceFirstMismatch, "mismatches": res.RaceMismatches, "lookups": res.RaceLookups},
			res.RaceFirstMismatch)
	}

	switch {
	case strings.Contains(text, "RACEPASS-DONE") && res.Error == "":
		return
	case strings.Contains(text, "panic:") || strings.Contains(text, "fatal error"):
		r.Violation("racepass:crash", 3, map[string]any{"part": "race", "output": tail(text, 1500)}, "concurrent lookups on one router crashed the free-running pass")
	default:
		report.Fatal("race pass failed: %v %s\n%s", runErr, res.Error, tail(text, 1500))
	}
}

func tail(s string, n int) string {
	if len(s) > n {
		return s[len(s)-n:]
	}

	return s
}

func firstRace(s string) string {
	s = s[strings.Index(s, "WARNING: DATA RACE"):]

	if j := strings.Index(s, "=================="); j > 0 {
		s = s[:j]
	}

	if len(s) > 3000 {
		s = s[:3000]
	}

	return s
}

// raceFrames names the racing functions of internal/router (the cell key).
func raceFrames(s string) string {
	const pkg = "github.com/tucats/ego/internal/router."

	seen := map[string]bool{}

	var fns []string

	for _, line := range strings.Split(firstRace(s), "\n") {
		line = strings.TrimSpace(line)
		if !strings.HasPrefix(line, pkg) || strings.Contains(line, "verifC32") || strings.Contains(line, "VerifC32") {
			continue
		}

		fn := strings.TrimPrefix(line, pkg)
		if i := strings.LastIndex(fn, "("); i > 0 {
			fn = fn[:i]
		}

		for _, cut := range []string{".func", "-range"} {
			if i := strings.Index(fn, cut); i > 0 {
				fn = fn[:i]
			}
		}

		if !seen[fn] {
			seen[fn] = true
			fns = append(fns, fn)
		}
	}

	sort.Strings(fns)

	if len(fns) > 2 {
		fns = fns[:2]
	}

	if len(fns) == 0 {
		return "outside-internal/router"
	}

	return strings.Join(fns, "+")
}

// mergeConc folds the controlled-scheduler part of the workers' results into the report.
func mergeConc(r *report.R, results []result) {
	var scenarios, schedules, transitions int64

	per := map[string]int64{}
	cells := map[string]*violation{}

	for _, x := range results {
		scenarios += x.ConcScenarios
		schedules += x.ConcSchedules
		transitions += x.ConcTransitions

		for k, v := range x.ConcPerTable {
			if strings.HasSuffix(k, ":max_points") {
				if v > per[k] {
					per[k] = v
				}
			} else {
				per[k] += v
			}
		}

		for c, v := range x.ConcViolations {
			cur := cells[c]
			if cur == nil {
				cp := *v
				cells[c] = &cp

				continue
			}

			cur.Count += v.Count

			if v.Size < cur.Size || (v.Size == cur.Size && string(v.Witness) < string(cur.Witness)) {
				cur.Size, cur.Witness, cur.Message = v.Size, v.Witness, v.Message
			}
		}
	}

	names := make([]string, 0, len(cells))
	for c := range cells {
		names = append(names, c)
	}

	sort.Strings(names)

	for _, c := range names {
		r.Violation(c, cells[c].Size, cells[c].Witness, cells[c].Message)
	}

	for _, x := range results {
		for _, smp := range x.ConcSamples {
			if len(smp) > 0 {
				r.Sample(smp)

				break
			}
		}

		break
	}

	r.Eval(int(schedules))
	r.Set("concurrent_scenarios", scenarios)
	r.Set("concurrent_schedules", schedules)
	r.Set("concurrent_choice_points", transitions)
	r.Set("concurrent_per_table", per)
}

func runWorkers(bin, scratch string, cfg config, shards int) []result {
	out := make([]result, shards)
	errs := make([]string, shards)

	var wg sync.WaitGroup

	for i := 0; i < shards; i++ {
		wg.Add(1)

		go func(i int) {
			defer wg.Done()

			c := cfg
			c.Shard = i
			b, _ := json.Marshal(c)
			cfgPath := filepath.Join(scratch, "c32", fmt.Sprintf("cfg-%d.json", i))
			outPath := filepath.Join(scratch, "c32", fmt.Sprintf("out-%d.json", i))

			if d := os.Getenv("VERIF_C32_DEBUG"); d != "" && d != "1" && i == 0 {
				_ = os.WriteFile(filepath.Join(d, "cfg-0.json"), b, 0o644)
			}

			if err := os.WriteFile(cfgPath, b, 0o644); err != nil {
				errs[i] = err.Error()

				return
			}

			cmd := exec.Command(bin)
			// The lookups allocate heavily on a tiny live heap: a lazier GC halves the cost.
			cmd.Env = append(os.Environ(), "VERIF_C32_CFG="+cfgPath, "VERIF_C32_OUT="+outPath, "GOMAXPROCS=2", "GOGC=800")
			cmd.SysProcAttr = &syscall.SysProcAttr{Pdeathsig: syscall.SIGKILL} // no strays if the harness is killed
			cmd.Stderr = os.Stderr
			runErr := cmd.Run()

			rb, err := os.ReadFile(outPath)
			if err != nil {
				errs[i] = fmt.Sprintf("worker %d left no result (%v, %v)", i, runErr, err)

				return
			}

			if err := json.Unmarshal(rb, &out[i]); err != nil {
				errs[i] = fmt.Sprintf("worker %d: %v", i, err)

				return
			}

			if out[i].Error != "" {
				errs[i] = fmt.Sprintf("worker %d: %s", i, out[i].Error)
			} else if runErr != nil {
				errs[i] = fmt.Sprintf("worker %d: %v", i, runErr)
			}
		}(i)
	}

	wg.Wait()

	for _, e := range errs {
		if e != "" {
			report.Fatal("%s", e)
		}
	}

	return out
}

func merge(r *report.R, results []result) {
	var (
		total   result
		per     = map[string]int64{}
		realReq = map[string]int64{}
		capped  = map[string]int64{}
	)

	for _, x := range results {
		total.Evals += x.Evals
		total.Requests += x.Requests
		total.Tables += x.Tables
		total.Probes += x.Probes
		total.Ambiguous += x.Ambiguous
		total.Panics += x.Panics
		total.HookCalls += x.HookCalls
		total.CPUSeconds += x.CPUSeconds

		if x.MaxCand > total.MaxCand {
			total.MaxCand = x.MaxCand
		}

		for _, d := range x.Distinct {
			r.Distinct(d)
		}

		for k, v := range x.PerFamily {
			per[k] += v
		}

		for k, v := range x.RealRequests {
			realReq[k] += v
		}

		for _, c := range x.Capped {
			r.Capped(c)
		}

		for k, v := range x.CappedRequests {
			capped[k] += v
		}
	}

	// Violations: smallest witness per cell over all workers; counts added.
	cells := map[string]*violation{}

	for _, x := range results {
		for c, v := range x.Violations {
			cur := cells[c]
			if cur == nil {
				cp := *v
				cells[c] = &cp

				continue
			}

			cur.Count += v.Count

			if v.Size < cur.Size || (v.Size == cur.Size && string(v.Witness) < string(cur.Witness)) {
				cur.Size, cur.Witness, cur.Message = v.Size, v.Witness, v.Message
			}
		}
	}

	names := make([]string, 0, len(cells))
	for c := range cells {
		names = append(names, c)
	}

	sort.Strings(names)

	counts := map[string]int64{}

	for _, c := range names {
		v := cells[c]
		r.Violation(c, v.Size, v.Witness, v.Message)
		counts[c] = v.Count
	}

	if len(counts) > 0 {
		r.Set("violating_requests_per_cell", counts)
	}

	// Samples: shard 0 first, deterministic.
	for _, x := range results {
		for _, s := range x.Samples {
			r.Sample(s)
		}
	}

	if total.HookCalls < total.Evals {
		report.Fatal("the rewritten range ran %d times for %d lookups: the order was not owned", total.HookCalls, total.Evals)
	}

	r.Eval(int(total.Evals))
	r.Set("tables", total.Tables)
	r.Set("requests", total.Requests)
	r.Set("requests_with_2_or_more_candidates", total.Ambiguous)
	r.Set("max_candidates", total.MaxCand)
	r.Set("single_route_probes", total.Probes)
	r.Set("panics_in_FindRoute", total.Panics)
	r.Set("worker_cpu_s", float64(int(total.CPUSeconds*10))/10)
	r.Set("per_family", per)
	r.Set("server_table_requests", realReq)

	names = names[:0]
	for k := range capped {
		names = append(names, k)
	}

	sort.Strings(names)

	for _, k := range names {
		r.Capped(fmt.Sprintf("%s table: %d of %d requests have more than 7 routes that can become candidates (up to %d); for those, instead of all k! orders, every choice of the first two candidates was run with the others ascending and descending (and the non-candidates before and after)", k, capped[k], realReq[k], total.MaxCand))
	}
}

// C44: stored secrets never appear in responses.
//
// No response from any endpoint, including administrator-only ones, contains a
// stored secret: user password hashes, DSN passwords, the server token key,
// logon or refresh tokens held in the configuration, OAuth client secrets, or
// signing keys.
//
// E-enum on the real server router with its real handlers, in-process: distinct
// canary strings are planted exactly where those secrets live (both user
// stores, both DSN stores, the settings, the OAuth client registry; the
// generated signing key is read back from its file); then every GET route of
// the real route table (every path variable replaced by every planted object
// name, every declared response media type) and every reading POST route is
// called as administrator (Basic and bearer), as a plain user and without
// credentials; the single-setting endpoint is asked for every setting name
// alone and in pairs; the all-settings endpoint is read. Every response (status
// line excluded, headers and body included) is scanned for every canary: raw,
// inside decoded JSON strings, JSON/HTML/URL-escaped, base64 (all alignments,
// std and url alphabets, also by decoding every base64-looking run) and hex.
package main

import (
	"bytes"
	"crypto/aes"
	"crypto/cipher"
	"crypto/rand"
	"crypto/x509"
	"database/sql"
	"encoding/base64"
	"encoding/hex"
	"encoding/json"
	"encoding/pem"
	"fmt"
	"html"
	"io"
	"net/http"
	"net/http/httptest"
	"net/url"
	"os"
	"path/filepath"
	"regexp"
	"runtime/pprof"
	"sort"
	"strings"

	"github.com/google/uuid"
	"golang.org/x/crypto/argon2"
	"golang.org/x/crypto/bcrypt"

	"github.com/tucats/ego/internal/cli/settings"
	"github.com/tucats/ego/internal/cli/ui"
	"github.com/tucats/ego/internal/commands"
	"github.com/tucats/ego/internal/defs"
	"github.com/tucats/ego/internal/dsns"
	"github.com/tucats/ego/internal/language/tokens"
	"github.com/tucats/ego/internal/router"
	"github.com/tucats/ego/internal/runtime/profile"
	"github.com/tucats/ego/internal/server/auth"
	"github.com/tucats/ego/internal/verifrt/report"
)

// ---- canaries ------------------------------------------------------------------

type canary struct {
	Kind        string // secret kind (cell component)
	Where       string // where it is planted
	Value       []byte
	InStatement bool // one of the kinds the property statement lists
}

const (
	cTokenKey     = "cnryTOKENKEY5f1c2a9e7b3d4c6a8e0f1357924680"
	cLogonToken   = "cnryLOGONTOKEN9b7d5f3a1c8e6a4b2d0f97531eca"
	cRefreshToken = "cnryREFRESHTOK2468ace013579bdf0a1b2c3d4e5f"
	cClientSecret = "cnryRSCLIENTSECRET7a6b5c4d3e2f1a0b9c8d7e6f"
	cDefaultCred  = "cnryDEFAULTCREDPW1a2b3c4d5e6f7a8b9c0d1e2f3a"
	cUserdataKey  = "cnryUSERDATAKEY0f9e8d7c6b5a49382716a5b4c3d2"
	cDSNSqlite    = "cnrySQLITEDSNPW8a6c4e2a0b9d7f5b3d1f0e2c4a6b"
	cASSecret     = "cnryASCLIENTSECRET4d3c2b1a0f9e8d7c6b5a4f3e"
)

type response struct {
	Label   string
	Method  string
	Path    string
	Ident   string
	Body    string
	Status  int
	Headers string
	RawBody []byte
}

type env struct {
	mode     string // file | sqlite
	scratch  string
	canaries []canary
	rt       *router.Router
	routes   []router.VerifC20Flags
	users    []string
	dsnNames []string
	tokens   map[string]string
}

func bcryptHash(pw string) string {
	h, err := bcrypt.GenerateFromPassword([]byte(pw), bcrypt.MinCost)
	if err != nil {
		report.Fatal("%v", err)
	}

	return string(h)
}

func password(u string) string { return "pw-" + u + "-c44" }

// sealDSNPassword produces what dsns.encrypt stores for a password: the hex of
// the server's v3 ciphertext (magic, salt, nonce, AES-256-GCM; key =
// Argon2id(token key + the dsns package salt, salt)). All passwords are sealed
// under ONE salt so that the (memoised) key derivation is paid once; the
// server decrypts them with its own code. A round trip through the server's
// dsns.Connection is checked in setup.
var sealSalt = []byte("verif-c44-salt!!")

func sealDSNPassword(plain string, key []byte) string {
	block, err := aes.NewCipher(key)
	if err != nil {
		report.Fatal("%v", err)
	}

	gcm, err := cipher.NewGCM(block)
	if err != nil {
		report.Fatal("%v", err)
	}

	nonce := make([]byte, gcm.NonceSize())
	if _, err := rand.Read(nonce); err != nil {
		report.Fatal("%v", err)
	}

	out := append([]byte{0xFF, 0x45, 0x47, 0x33}, sealSalt...)
	out = append(out, gcm.Seal(nonce, nonce, []byte(plain), nil)...)

	return hex.EncodeToString(out)
}

// setup plants the secrets and builds the server router for one store mode.
func setup(scratch, mode string) *env {
	e := &env{mode: mode, scratch: filepath.Join(scratch, mode), tokens: map[string]string{}}
	egoPath := filepath.Join(e.scratch, "egopath")

	if err := os.MkdirAll(egoPath, 0o700); err != nil {
		report.Fatal("%v", err)
	}

	add := func(kind, where string, v []byte, in bool) {
		e.canaries = append(e.canaries, canary{Kind: kind, Where: where, Value: v, InStatement: in})
	}

	// --- settings
	settings.ClearDefaults()
	settings.SetDefault(defs.EgoPathSetting, egoPath)
	settings.SetDefault(defs.EgoLibPathSetting, filepath.Join(os.Getenv("VERIF_REPO"), "lib"))
	settings.SetDefault(defs.ServerTokenKeySetting, cTokenKey)
	settings.SetDefault(defs.LogonTokenSetting, cLogonToken)
	settings.SetDefault(defs.LogonRefreshTokenSetting, cRefreshToken)
	settings.SetDefault(defs.OAuthClientSecretSetting, cClientSecret)
	settings.SetDefault(defs.DefaultCredentialSetting, "vadmin:"+cDefaultCred)
	settings.SetDefault(defs.OAuthASEnabledSetting, "true")
	settings.SetDefault(defs.OAuthASIssuerSetting, "https://ego.verif.test")
	settings.SetDefault(defs.OAuthASClientFileSetting, filepath.Join(egoPath, "clients.json"))
	settings.SetDefault(defs.OAuthASKeyFileSetting, filepath.Join(egoPath, "oauth", "as-key.pem"))

	// the remaining defaults a server start-up puts into the profile (auto-import etc.)
	if err := settings.Load("ego", "default"); err != nil {
		report.Fatal("cannot load the (scratch) profile: %v", err)
	}

	if err := profile.InitProfileDefaults(profile.AllDefaults); err != nil {
		report.Fatal("profile defaults: %v", err)
	}

	settings.SetDefault(defs.EgoPathSetting, egoPath)

	add("server-token-key", defs.ServerTokenKeySetting, []byte(cTokenKey), true)
	add("logon-token", defs.LogonTokenSetting, []byte(cLogonToken), true)
	add("refresh-token", defs.LogonRefreshTokenSetting, []byte(cRefreshToken), true)
	add("oauth-client-secret", defs.OAuthClientSecretSetting, []byte(cClientSecret), true)
	add("default-credential", defs.DefaultCredentialSetting, []byte(cDefaultCred), false)
	add("userdata-key", defs.LogonUserdataKeySetting, []byte(cUserdataKey), false)

	// --- user store
	var err error

	userPath := filepath.Join(e.scratch, "users.json")
	if mode == "sqlite" {
		userPath = "sqlite3://" + filepath.Join(e.scratch, "credentials.db")
		auth.AuthService, err = auth.NewDatabaseService(userPath, "vbootstrap", "")
	} else {
		auth.AuthService, err = auth.NewFileService(userPath, "vbootstrap", "")
	}

	if err != nil {
		report.Fatal("user store (%s): %v", mode, err)
	}

	_ = tokens.SetDatabasePath("sqlite3://" + filepath.Join(e.scratch, "blacklist.db"))

	for _, u := range []struct {
		name  string
		perms []string
	}{
		{"vadmin", []string{defs.RootPermission, defs.LogonPermission}},
		{"vplain", []string{defs.LogonPermission}},
		{"vpower", []string{defs.LogonPermission, defs.ServerAdminPermission, defs.DSNAdminPermission, defs.SQLPermission, defs.CodeRunPermission, defs.TableReadPermission}},
	} {
		h := bcryptHash(password(u.name))
		if err := auth.AuthService.WriteUser(0, defs.User{Name: u.name, ID: uuid.New(), Password: h, Permissions: u.perms}); err != nil {
			report.Fatal("cannot write user: %v", err)
		}

		e.users = append(e.users, u.name)
		add("user-password-hash", "user "+u.name+" ("+mode+" store)", []byte(h), true)
		// the part after the cost prefix identifies the hash as well
		add("user-password-hash", "user "+u.name+" ("+mode+" store), salt+digest part", []byte(h[7:]), true)
	}

	_ = auth.AuthService.Flush()

	// --- DSN store
	if mode == "sqlite" {
		dsns.DSNService, err = dsns.NewDatabaseService(userPath)
	} else {
		dsns.DSNService, err = dsns.NewFileService(filepath.Join(e.scratch, "users_dsns.json"))
	}

	if err != nil {
		report.Fatal("DSN store (%s): %v", mode, err)
	}

	// a small SQLite database so that table routes have something to read
	dbFile := filepath.Join(e.scratch, "data.db")

	if db, err := sql.Open("sqlite", dbFile); err == nil {
		for _, q := range []string{"create table if not exists t1 (id integer, name text)", "insert into t1 values (1, 'one'), (2, 'two')"} {
			if _, err := db.Exec(q); err != nil {
				report.Fatal("cannot prepare the data database: %v", err)
			}
		}

		_ = db.Close()
	} else {
		report.Fatal("cannot open the data database: %v", err)
	}

	dsnKey := argon2.IDKey([]byte(cTokenKey+"f4b3eead"), sealSalt, 2, 32*1024, 1, 32)

	plant := func(d *defs.DSN, full, core string) {
		d.Password = sealDSNPassword(full, dsnKey)

		if d.Provider == "postgres" {
			// the server's own code must read the password back
			if conn, err := dsns.Connection(d); err != nil || !strings.Contains(conn, full) {
				report.Fatal("a DSN password sealed by the harness is not read back by dsns.Connection (%v): the storage format changed, adapt sealDSNPassword", err)
			}
		}

		if err := dsns.DSNService.WriteDSN(0, "vadmin", *d); err != nil {
			report.Fatal("cannot write DSN: %v", err)
		}

		e.dsnNames = append(e.dsnNames, d.Name)
		add("dsn-password", "DSN "+d.Name+" ("+mode+" store), plaintext", []byte(core), true)
		add("dsn-password-stored-form", "DSN "+d.Name+" ("+mode+" store), as stored", []byte(d.Password), true)
	}

	// PostgreSQL DSNs nobody listens for (connection refused at once). Each password is a
	// distinct canary followed by characters that are legal in a password (the create
	// endpoint accepts any string) but awkward inside a connection URL.
	for i, suffix := range []string{"", "%zz", "#f", "/p", "?q=1", " sp", "@h", ":x", "<\"&>"} {
		core := fmt.Sprintf("cnryDSNPASSWORD%02dx3c5e7a9b1d2f4a6c8e0b2d4f6a8c", i)
		plant(dsns.NewDSN(fmt.Sprintf("vpg%d", i), "postgres", "vdb", "vdbuser", "", "127.0.0.1", 81, false, false), core+suffix, core)
	}

	plant(dsns.NewDSN("vlite", "sqlite", dbFile, "vdbuser", "", "", 0, false, false), cDSNSqlite, cDSNSqlite)
	_ = dsns.DSNService.Flush()

	// the user-data encryption key is set once the stores are written (every flush under it derives a key)
	settings.SetDefault(defs.LogonUserdataKeySetting, cUserdataKey)

	// --- OAuth authorization server: client registry with secrets
	asHash := bcryptHash(cASSecret)
	clients := []map[string]any{
		{"client_id": "vclient-hash", "client_secret_hash": asHash, "redirect_uris": []string{"https://app/cb"}, "grant_types": []string{"authorization_code", "client_credentials"}, "scopes": []string{"openid"}},
		{"client_id": "vclient-plain", "client_secret": cASSecret, "redirect_uris": []string{"https://app/cb"}, "grant_types": []string{"authorization_code", "client_credentials"}, "scopes": []string{"openid"}},
	}
	b, _ := json.Marshal(clients)

	if err := os.WriteFile(filepath.Join(egoPath, "clients.json"), b, 0o600); err != nil {
		report.Fatal("%v", err)
	}

	add("oauth-client-secret", "AS client registry, plaintext secret", []byte(cASSecret), true)
	add("oauth-client-secret", "AS client registry, stored hash", []byte(asHash), true)

	// --- the router, built by the server's own set-up code, real handlers
	e.rt, err = commands.VerifC20ServerRouter()
	if err != nil {
		report.Fatal("cannot build the server route table: %v", err)
	}

	for _, r := range router.VerifC20Routes(e.rt) {
		e.routes = append(e.routes, r.VerifC20Flags())
	}

	if len(e.routes) < 50 {
		report.Fatal("the server route table has only %d routes", len(e.routes))
	}

	// --- signing key generated by the authorization server set-up
	if pemBytes, err := os.ReadFile(filepath.Join(egoPath, "oauth", "as-key.pem")); err == nil {
		if blk, _ := pem.Decode(pemBytes); blk != nil {
			add("signing-key", "AS private key, DER", blk.Bytes, true)

			if k, err := x509.ParseECPrivateKey(blk.Bytes); err == nil {
				add("signing-key", "AS private key, scalar d", k.D.FillBytes(make([]byte, 32)), true)
			} else if k8, err := x509.ParsePKCS8PrivateKey(blk.Bytes); err == nil {
				if ek, ok := k8.(interface{ Bytes() ([]byte, error) }); ok {
					if raw, err := ek.Bytes(); err == nil {
						add("signing-key", "AS private key, raw", raw, true)
					}
				}
			}
		}
	}

	// bearer tokens for the identities
	for _, u := range []string{"vadmin", "vplain"} {
		t, err := tokens.New(u, "", "1h", "8c1f5a0e-3d5b-4f57-9a5e-1f4f2b7c9d10", 0)
		if err != nil {
			report.Fatal("cannot issue a token: %v", err)
		}

		e.tokens[u] = t
	}

	return e
}

// ---- scanning ------------------------------------------------------------------

var (
	b64Run = regexp.MustCompile(`[A-Za-z0-9+/_-]{16,}={0,2}`)
	hexRun = regexp.MustCompile(`(?i)[0-9a-f]{32,}`)
)

// needles returns the byte strings whose presence in a raw response betrays the canary.
func needles(c canary) map[string][]byte {
	out := map[string][]byte{"raw": c.Value}

	if j, err := json.Marshal(string(c.Value)); err == nil && len(j) > 2 {
		out["json-escaped"] = j[1 : len(j)-1]
	}

	var buf bytes.Buffer

	enc := json.NewEncoder(&buf)
	enc.SetEscapeHTML(false)

	if enc.Encode(string(c.Value)) == nil {
		s := strings.TrimSpace(buf.String())
		out["json-escaped-plain"] = []byte(s[1 : len(s)-1])
	}

	out["html-escaped"] = []byte(html.EscapeString(string(c.Value)))
	out["url-escaped"] = []byte(url.QueryEscape(string(c.Value)))
	out["path-escaped"] = []byte(url.PathEscape(string(c.Value)))
	out["hex"] = []byte(hex.EncodeToString(c.Value))
	out["HEX"] = []byte(strings.ToUpper(hex.EncodeToString(c.Value)))

	// base64 at the three alignments: drop the characters that depend on neighbours
	for off := 0; off < 3; off++ {
		padded := append(bytes.Repeat([]byte{0}, off), c.Value...)
		for name, encd := range map[string]*base64.Encoding{"base64": base64.RawStdEncoding, "base64url": base64.RawURLEncoding} {
			s := encd.EncodeToString(padded)
			start := (off*8 + 5) / 6 // first character fully determined by the canary

			end := len(s)
			if (len(padded)*8)%6 != 0 {
				end-- // last character also carries bits of what follows
			}

			if end-start >= 16 {
				out[fmt.Sprintf("%s@%d", name, off)] = []byte(s[start:end])
			}
		}
	}

	return out
}

// haystacks returns the response text and every decoding of it worth searching for the raw value.
func haystacks(r *response) map[string][]byte {
	all := append([]byte(r.Headers+"\n"), r.RawBody...)
	out := map[string][]byte{"response": all}

	// decoded JSON strings (keys and values)
	var v any
	if json.Unmarshal(r.RawBody, &v) == nil {
		var sb bytes.Buffer

		var walk func(x any)
		walk = func(x any) {
			switch t := x.(type) {
			case string:
				sb.WriteString(t)
				sb.WriteByte('\n')
			case []any:
				for _, e := range t {
					walk(e)
				}
			case map[string]any:
				for k, e := range t {
					sb.WriteString(k)
					sb.WriteByte('\n')
					walk(e)
				}
			}
		}
		walk(v)
		out["json-strings"] = sb.Bytes()
	}

	out["html-unescaped"] = []byte(html.UnescapeString(string(all)))

	if u, err := url.QueryUnescape(string(all)); err == nil {
		out["url-unescaped"] = []byte(u)
	}

	var dec bytes.Buffer

	for _, run := range b64Run.FindAll(all, -1) {
		s := strings.TrimRight(string(run), "=")
		for _, encd := range []*base64.Encoding{base64.RawStdEncoding, base64.RawURLEncoding} {
			for cut := 0; cut < 4 && cut < len(s); cut++ {
				t := s[cut:]
				t = t[:len(t)-len(t)%4]

				if b, err := encd.DecodeString(t); err == nil {
					dec.Write(b)
					dec.WriteByte('\n')
				}
			}
		}
	}

	out["base64-decoded-runs"] = dec.Bytes()

	var hx bytes.Buffer

	for _, run := range hexRun.FindAll(all, -1) {
		s := string(run)
		s = s[:len(s)-len(s)%2]

		if b, err := hex.DecodeString(s); err == nil {
			hx.Write(b)
			hx.WriteByte('\n')
		}
	}

	out["hex-decoded-runs"] = hx.Bytes()

	return out
}

type finding struct {
	canary canary
	form   string
}

func scan(e *env, r *response, ndl []map[string][]byte) []finding {
	var out []finding

	hs := haystacks(r)
	hkeys := make([]string, 0, len(hs))

	for k := range hs {
		hkeys = append(hkeys, k)
	}

	sort.Strings(hkeys)

	for i, c := range e.canaries {
		found := ""

		nkeys := make([]string, 0, len(ndl[i]))
		for k := range ndl[i] {
			nkeys = append(nkeys, k)
		}

		sort.Strings(nkeys)
		nkeys = append([]string{"raw"}, nkeys...)

		for _, nk := range nkeys {
			if bytes.Contains(hs["response"], ndl[i][nk]) {
				found = nk

				break
			}
		}

		if found == "" {
			for _, hk := range hkeys {
				if hk != "response" && bytes.Contains(hs[hk], c.Value) {
					found = "raw in " + hk

					break
				}
			}
		}

		if found != "" {
			out = append(out, finding{c, found})
		}
	}

	return out
}

// ---- requests ------------------------------------------------------------------

var (
	adminStatus = map[string]string{}
	errorBodies = map[string]string{}
)

func truncate(s string, n int) string {
	if len(s) > n {
		return s[:n] + "…"
	}

	return s
}

// loggerChanges records requests after which the set of active loggers differed.
var loggerChanges = map[string]string{}

type identity struct {
	Name   string
	Header string
}

func (e *env) identities() []identity {
	b := func(u string) string {
		return "Basic " + base64.StdEncoding.EncodeToString([]byte(u+":"+password(u)))
	}

	return []identity{
		{"admin-basic", b("vadmin")},
		{"admin-bearer", "Bearer " + e.tokens["vadmin"]},
		{"power-user-basic", b("vpower")},
		{"plain-user-basic", b("vplain")},
		{"plain-user-bearer", "Bearer " + e.tokens["vplain"]},
		{"anonymous", ""},
	}
}

func (e *env) do(method, path, accept, contentType string, body []byte, id identity, label string) *response {
	var rd io.Reader
	if body != nil {
		rd = bytes.NewReader(body)
	}

	req := httptest.NewRequest(method, path, rd)

	if id.Header != "" {
		req.Header.Set("Authorization", id.Header)
	}

	if accept != "" {
		req.Header.Set("Accept", accept)
	}

	if contentType != "" {
		req.Header.Set("Content-Type", contentType)
	}

	rec := httptest.NewRecorder()

	router.VerifC20ResetLogins()

	before := ui.ActiveLoggers()

	e.rt.ServeHTTP(rec, req)

	if after := ui.ActiveLoggers(); after != before {
		loggerChanges[method+" "+path+" ("+id.Name+")"] = before + " -> " + after
	}

	var hb strings.Builder

	keys := make([]string, 0, len(rec.Header()))
	for k := range rec.Header() {
		keys = append(keys, k)
	}

	sort.Strings(keys)

	for _, k := range keys {
		for _, v := range rec.Header()[k] {
			hb.WriteString(k + ": " + v + "\n")
		}
	}

	return &response{Label: label, Method: method, Path: path, Ident: id.Name, Status: rec.Code, Headers: hb.String(), RawBody: rec.Body.Bytes()}
}

// pathVariants replaces every path variable of an endpoint by every planted object name that fits it.
func (e *env) pathVariants(endpoint string) []string {
	values := func(name string, ep string) []string {
		switch {
		case strings.HasSuffix(name, "..."):
			return []string{"dashboard/dashboard-core.js", "test.asset.md", "notfound.html"}
		case name == "dsn":
			return e.dsnNames
		case name == "table":
			return []string{"t1", "nosuchtable"}
		case name == "name" && strings.Contains(ep, "/users/"):
			return append(append([]string{}, e.users...), "nosuchuser")
		case name == "name" && strings.Contains(ep, "/dsns/"):
			return append(append([]string{}, e.dsnNames...), "nosuchdsn")
		case name == "code":
			return []string{"200"}
		case name == "value":
			return []string{"12"}
		default:
			return []string{"vadmin", "verifx"}
		}
	}

	out := []string{""}

	for i, p := range strings.Split(endpoint, "/") {
		var opts []string

		if strings.HasPrefix(p, "{{") && strings.HasSuffix(p, "}}") {
			opts = values(strings.TrimSuffix(strings.TrimPrefix(p, "{{"), "}}"), endpoint)
		} else {
			opts = []string{p}
		}

		var next []string

		for _, prefix := range out {
			for _, o := range opts {
				if i == 0 {
					next = append(next, o)
				} else {
					next = append(next, prefix+"/"+o)
				}
			}
		}

		out = next
	}

	return out
}

func acceptVariants(f router.VerifC20Flags) []string {
	out := append([]string{}, f.AcceptMedia...)
	if len(out) == 0 {
		out = []string{"application/json", "text/plain", "*/*"}
	}

	return out
}

// ---- main ------------------------------------------------------------------------

type witness struct {
	Mode     string   `json:"store_mode"`
	Request  string   `json:"request"`
	Identity string   `json:"identity"`
	Body     string   `json:"request_body,omitempty"`
	Status   int      `json:"status"`
	Secret   string   `json:"secret_kind"`
	Planted  string   `json:"planted_in"`
	Form     string   `json:"found_as"`
	Excerpt  string   `json:"response_excerpt"`
	Settings []string `json:"settings_requested,omitempty"`
}

func excerpt(r *response, c canary) string {
	s := r.Headers + string(r.RawBody)
	if i := strings.Index(s, string(c.Value)); i >= 0 {
		from := i - 80
		if from < 0 {
			from = 0
		}

		to := i + len(c.Value) + 40
		if to > len(s) {
			to = len(s)
		}

		return s[from:to]
	}

	if len(s) > 300 {
		s = s[:300]
	}

	return s
}

func cellName(s string) string {
	s = strings.NewReplacer("{{", "", "}}", "", " ", "_", "...", "").Replace(s)

	return s
}

type runner struct {
	r        *report.R
	e        *env
	ndl      []map[string][]byte
	outside  map[string]int
	statuses map[string]int
	replay   *witness
}

// configClass names the setting whose value carried the canary in a configuration response.
func configClass(prefix string, res *response) func(c canary) string {
	var doc struct {
		Items map[string]struct {
			Value string `json:"value"`
		} `json:"items"`
	}

	_ = json.Unmarshal(res.RawBody, &doc)

	return func(c canary) string {
		names := make([]string, 0, len(doc.Items))
		for n := range doc.Items {
			names = append(names, n)
		}

		sort.Strings(names)

		for _, n := range names {
			if bytes.Contains([]byte(doc.Items[n].Value), c.Value) {
				// a name the caller spelled differently (case, padding) is one root cause per setting
				if plain := strings.ToLower(strings.TrimSpace(n)); plain != n {
					return prefix + ":respelled-name:" + plain
				}

				return prefix + ":" + n
			}
		}

		return prefix
	}
}

func (x *runner) check(res *response, class string, body string, names []string) {
	x.checkWith(res, func(canary) string { return class }, body, names)
}

func (x *runner) checkWith(res *response, classOf func(canary) string, body string, names []string) {
	x.r.Eval(1)
	x.r.Distinct(x.e.mode + "|" + res.Method + " " + res.Path + "|" + res.Ident + "|" + body)
	x.statuses[fmt.Sprint(res.Status)]++

	for _, f := range scan(x.e, res, x.ndl) {
		w := witness{Mode: x.e.mode, Request: res.Method + " " + res.Path, Identity: res.Ident, Body: body, Status: res.Status,
			Secret: f.canary.Kind, Planted: f.canary.Where, Form: f.form, Excerpt: excerpt(res, f.canary), Settings: names}

		class := classOf(f.canary)
		if f.canary.Kind == "dsn-password" && res.Status >= 400 {
			// one root cause (the connection string inside an error text), whatever route reports the error
			class = "error-response"
		}

		if !f.canary.InStatement {
			// not one of the secret kinds the statement lists: recorded, not a violation
			x.outside[f.canary.Kind+" via "+class]++

			continue
		}

		cell := cellName(class + ":" + f.canary.Kind)
		x.r.Violation(cell, len(body)+len(res.Path), w, fmt.Sprintf("the response to %s %s (%s, status %d) contains the %s planted in %s (found %s)", res.Method, res.Path, res.Ident, res.Status, f.canary.Kind, f.canary.Where, f.form))
	}
}

func (x *runner) sample(res *response) {
	b := string(res.RawBody)
	if len(b) > 160 {
		b = b[:160] + "…"
	}

	x.r.Sample(map[string]any{"mode": x.e.mode, "request": res.Method + " " + res.Path, "identity": res.Ident, "status": res.Status, "body": b})
}

func allSettingNames() []string {
	seen := map[string]bool{}

	for k := range defs.ValidSettings {
		seen[k] = true
	}

	for k := range defs.RestrictedSettings {
		seen[k] = true
	}

	for k := range defs.ReadonlySetting {
		seen[k] = true
	}

	for _, k := range settings.Keys() {
		seen[k] = true
	}

	for _, k := range []string{"ego.server.token", "ego.server.oauth.as.client.secret", "ego.server.password", "ego.server.credentials"} {
		seen[k] = true
	}

	out := make([]string, 0, len(seen))
	for k := range seen {
		out = append(out, k)
	}

	sort.Strings(out)

	return out
}

func (x *runner) sweep(thorough bool) {
	e := x.e
	ids := e.identities()
	admin := ids[0]
	reached, total := 0, 0

	// A. every GET route
	for _, f := range e.routes {
		if f.Method != http.MethodGet && f.Method != router.AnyMethod {
			continue
		}

		total++

		ok := false

		for _, p := range e.pathVariants(f.Endpoint) {
			for _, acc := range acceptVariants(f) {
				for _, id := range ids {
					res := e.do(http.MethodGet, p, acc, "", nil, id, "GET "+f.Endpoint)

					if f.Endpoint == defs.AdminConfigPath {
						x.checkWith(res, configClass("all-settings", res), "", nil)
					} else {
						x.check(res, "GET_"+f.Endpoint, "", nil)
					}

					if id.Name == admin.Name {
						k := e.mode + " GET " + f.Endpoint
						if !strings.Contains(adminStatus[k], fmt.Sprint(res.Status)) {
							adminStatus[k] = strings.TrimSpace(adminStatus[k] + " " + fmt.Sprint(res.Status))
						}

						if res.Status >= 500 && len(errorBodies) < 12 {
							errorBodies[res.Method+" "+res.Path] = truncate(string(res.RawBody), 200)
						}
					}

					if res.Status == 200 && id.Name == admin.Name {
						if !ok {
							x.sample(res)
						}

						ok = true
					}
				}
			}
		}

		if ok {
			reached++
		}
	}

	x.r.Add("get_routes", int64(total))
	x.r.Add("get_routes_answering_200_to_the_administrator", int64(reached))

	// B. POST routes that read
	type post struct {
		path, ctype, accept, body string
	}

	posts := []post{
		{defs.ServicesLogonPath, "application/json", "application/json", ""},
		{defs.ServicesLogonPath, "application/json", "application/json", `{"username":"vadmin","password":"` + password("vadmin") + `"}`},
		{defs.AdminASTPath, "application/json", "application/json", `{"code":"x := 1"}`},
		{defs.AdminFormatPath, "application/json", "application/json", `{"code":"x := 1"}`},
		{defs.OAuthTokenPath, "application/x-www-form-urlencoded", "application/json", "grant_type=client_credentials&client_id=vclient-plain&client_secret=wrong"},
		{defs.OAuthTokenPath, "application/x-www-form-urlencoded", "application/json", "grant_type=client_credentials&client_id=vclient-hash&client_secret=wrong"},
		{defs.OAuthRevokePath, "application/x-www-form-urlencoded", "application/json", "token=abc&client_id=vclient-plain"},
	}

	for _, d := range e.dsnNames {
		for _, sql := range []string{`["select * from t1"]`, `"select * from t1"`, `["select name from sqlite_master"]`} {
			posts = append(posts, post{"/dsns/" + d + "/tables/@sql", "application/json", "application/json", sql})
		}
	}

	for _, name := range []string{defs.ServerTokenKeySetting, defs.LogonTokenSetting, defs.LogonRefreshTokenSetting, defs.OAuthClientSecretSetting, defs.DefaultCredentialSetting, defs.LogonUserdataKeySetting} {
		code := fmt.Sprintf("import \"profile\"\nfmt.Println(profile.Get(%q))\n", name)
		b, _ := json.Marshal(map[string]any{"code": code})
		posts = append(posts, post{defs.AdminRunPath, "application/json", "application/json", string(b)})
	}

	for _, p := range posts {
		for _, id := range ids {
			var body []byte
			if p.body != "" {
				body = []byte(p.body)
			}

			res := e.do(http.MethodPost, p.path, p.accept, p.ctype, body, id, "POST "+p.path)
			x.check(res, "POST_"+strings.ReplaceAll(p.path, "/dsns/"+dsnOf(p.path), "/dsns/dsn"), p.body, nil)

			if id.Name == admin.Name {
				x.sample(res)
			}
		}
	}

	// B2. the creating POSTs answer with the object they stored: the secret they just stored must not be in the answer
	{
		name := "vnew" + e.mode
		body := fmt.Sprintf(`{"name":%q,"password":"pw-created-by-c44","permissions":["ego.logon"]}`, name)
		res := e.do(http.MethodPost, defs.AdminUsersPath, defs.UserMediaType, "application/json", []byte(body), admin, "POST "+defs.AdminUsersPath)

		if u, err := auth.AuthService.ReadUser(0, name, true); err == nil && u.Password != "" {
			x.withExtra(canary{Kind: "user-password-hash", Where: "user " + name + " just created (" + e.mode + " store)", Value: []byte(u.Password), InStatement: true}, func() {
				x.check(res, "POST_"+defs.AdminUsersPath, body, nil)
				x.check(e.do(http.MethodGet, defs.AdminUsersPath+name, defs.UserMediaType, "", nil, admin, "GET "+defs.AdminUsersPath+"{{name}}"), "GET_"+defs.AdminUsersPath+"{{name}}", "", nil)
				x.check(e.do(http.MethodGet, defs.AdminUsersPath, "application/json", "", nil, admin, "GET "+defs.AdminUsersPath), "GET_"+defs.AdminUsersPath, "", nil)
			})
		} else {
			x.check(res, "POST_"+defs.AdminUsersPath, body, nil)
		}

		dname := "vnewdsn" + e.mode
		dbody := fmt.Sprintf(`{"name":%q,"provider":"postgres","database":"vdb","host":"127.0.0.1","port":81,"user":"vdbuser","password":"pw-of-created-dsn-c44"}`, dname)
		dres := e.do(http.MethodPost, defs.DSNPath, defs.DSNMediaType, "application/json", []byte(dbody), admin, "POST "+defs.DSNPath)

		if d, err := dsns.DSNService.ReadDSN(0, "vadmin", dname, true); err == nil && len(d.Password) > 40 {
			x.withExtra(canary{Kind: "dsn-password-stored-form", Where: "DSN " + dname + " just created (" + e.mode + " store), as stored", Value: []byte(d.Password), InStatement: true}, func() {
				x.check(dres, "POST_"+defs.DSNPath, dbody, nil)
				x.check(e.do(http.MethodGet, defs.DSNPath+dname, defs.DSNMediaType, "", nil, admin, "GET "+defs.DSNPath+"{{dsn}}"), "GET_"+defs.DSNPath+"{{dsn}}", "", nil)
				x.check(e.do(http.MethodGet, defs.DSNPath, defs.DSNListMediaType, "", nil, admin, "GET "+defs.DSNPath), "GET_"+defs.DSNPath, "", nil)
			})
		} else {
			x.check(dres, "POST_"+defs.DSNPath, dbody, nil)
		}

		x.r.Add("creating_posts_answered_2xx", int64(b2i(res.Status/100 == 2)+b2i(dres.Status/100 == 2)))
	}

	// C. the single-setting endpoint: every name alone, then pairs
	names := allSettingNames()
	x.r.Set("setting_names", len(names))

	ask := func(id identity, ns ...string) {
		b, _ := json.Marshal(ns)
		res := e.do(http.MethodPost, defs.AdminConfigPath, defs.ConfigMediaType, "application/json", b, id, "POST "+defs.AdminConfigPath)

		x.checkWith(res, configClass("single-setting", res), string(b), ns)
	}

	for _, n := range names {
		for _, id := range ids {
			ask(id, n)
		}

		ask(admin, strings.ToUpper(n))
	}

	secretNames := []string{defs.ServerTokenKeySetting, defs.LogonTokenSetting, defs.LogonRefreshTokenSetting, defs.OAuthClientSecretSetting, defs.DefaultCredentialSetting, defs.LogonUserdataKeySetting, "ego.server.token"}

	// C2. other spellings of the same names: white space around them (blank, tab,
	// newline, no-break space), and for the secret names case changes with and
	// without padding; alone and paired (both orders) with a plainly spelled name.
	pads := [][2]string{{" ", ""}, {"", " "}, {"\t", ""}, {"", "\t"}, {"", "\n"}, {" ", " "}, {"\t ", " \t"}, {"\u00a0", ""}, {"", "\u00a0"}}
	plainName := defs.ServerTokenExpirationSetting
	respelled := 0

	title := func(n string) string {
		parts := strings.Split(n, ".")
		for i, p := range parts {
			if p != "" {
				parts[i] = strings.ToUpper(p[:1]) + p[1:]
			}
		}

		return strings.Join(parts, ".")
	}

	for _, n := range names {
		spellings := []string{}

		for _, pd := range pads {
			spellings = append(spellings, pd[0]+n+pd[1])
		}

		if inList(n, secretNames) {
			for _, cased := range []string{strings.ToUpper(n), title(n)} {
				spellings = append(spellings, cased)

				for _, pd := range pads {
					spellings = append(spellings, pd[0]+cased+pd[1])
				}
			}
		}

		for _, sp := range spellings {
			ask(admin, sp)
			respelled++

			if inList(n, secretNames) || thorough {
				ask(admin, sp, plainName)
				ask(admin, plainName, sp)
				ask(admin, n, sp)

				respelled += 3
			}
		}
	}

	x.r.Add("single_setting_requests_with_respelled_names", int64(respelled))

	for i, a := range names {
		for j, b := range names {
			if i == j {
				continue
			}

			if !thorough && !inList(a, secretNames) && !inList(b, secretNames) {
				continue
			}

			ask(admin, a, b)
		}
	}

	ask(admin, names...)
	ask(admin)

	// D. the all-settings endpoint
	for _, id := range ids {
		res := e.do(http.MethodGet, defs.AdminConfigPath, defs.ConfigMediaType, "", nil, id, "GET "+defs.AdminConfigPath)

		// one cell per setting that is not elided
		x.checkWith(res, configClass("all-settings", res), "", nil)
	}
}

func b2i(b bool) int {
	if b {
		return 1
	}

	return 0
}

// withExtra runs f with one more canary in force.
func (x *runner) withExtra(c canary, f func()) {
	x.e.canaries = append(x.e.canaries, c)
	x.ndl = append(x.ndl, needles(c))

	f()

	x.e.canaries = x.e.canaries[:len(x.e.canaries)-1]
	x.ndl = x.ndl[:len(x.ndl)-1]
}

func dsnOf(p string) string {
	if !strings.HasPrefix(p, "/dsns/") {
		return "\x00"
	}

	rest := strings.TrimPrefix(p, "/dsns/")
	if i := strings.Index(rest, "/"); i > 0 {
		return rest[:i]
	}

	return rest
}

func inList(s string, l []string) bool {
	for _, x := range l {
		if x == s {
			return true
		}
	}

	return false
}

func main() {
	if pf := os.Getenv("VERIF_C44_PROF"); pf != "" {
		f, _ := os.Create(pf)
		_ = pprof.StartCPUProfile(f)

		defer pprof.StopCPUProfile()
	}

	r := report.New("exploration")
	scratch := os.Getenv("VERIF_SCRATCH")

	r.Rule("for each store mode (JSON-file user+DSN stores, SQLite user+DSN stores): canaries planted in every place the statement names; every GET route of the real table x every planted object name for each path variable x every declared response media type x {administrator Basic, administrator bearer, power user, plain user Basic, plain user bearer, anonymous}; the reading POST routes (logon, @sql on every DSN, code parse/format, code run reading the profile, OAuth token/revoke); POST /admin/config for every setting name alone (as every identity, and upper-cased) and in ordered pairs (quick: pairs with a secret setting; thorough: all pairs), for all names at once and for none; GET /admin/config. " +
		"evaluations = responses scanned. distinct non-trivial = distinct (store mode, request line, identity, request body)")
	r.Assume(
		"canaries are fixed distinct strings of >= 40 characters (user hashes: the real cost-4 bcrypt hashes; signing key: the generated key read back from its PEM file)",
		"a response contains a secret when the canary occurs in headers or body raw, JSON-escaped (both encoders), HTML/URL-escaped, in any decoded JSON string, hex (either case), base64 std/url at any alignment, or inside any decoded base64/hex run",
		"secret kinds outside the statement's list (default credential, user-data encryption key) are planted and reported under coverage.outside_statement only",
		"real handlers run in-process against scratch stores; routes that change state (PUT/PATCH/DELETE and non-reading POST) are not called",
	)

	if r.Replay != "" {
		var w witness
		if err := report.LoadReplay(r.Replay, &w); err != nil {
			report.Fatal("%v", err)
		}

		e := setup(scratch, w.Mode)
		x := &runner{r: r, e: e, outside: map[string]int{}, statuses: map[string]int{}}

		for _, c := range e.canaries {
			x.ndl = append(x.ndl, needles(c))
		}

		parts := strings.SplitN(w.Request, " ", 2)

		for _, id := range e.identities() {
			if id.Name != w.Identity {
				continue
			}

			var body []byte
			ctype, accept := "", "application/json"

			if w.Body != "" {
				body, ctype = []byte(w.Body), "application/json"
			}

			if parts[1] == defs.AdminConfigPath {
				accept = defs.ConfigMediaType
			}

			res := e.do(parts[0], parts[1], accept, ctype, body, id, w.Request)
			x.check(res, "replay", w.Body, w.Settings)
		}

		r.Finish()
	}

	outside := map[string]int{}
	statuses := map[string]int{}

	// the server writes its log to a file (and serves it through the log endpoint)
	ui.Active(ui.ServerLogger, true)

	if err := ui.OpenLogFile(filepath.Join(scratch, "server.log"), false); err != nil {
		report.Fatal("cannot open the server log: %v", err)
	}

	for _, mode := range []string{"file", "sqlite"} {
		e := setup(scratch, mode)
		x := &runner{r: r, e: e, outside: outside, statuses: statuses}

		for _, c := range e.canaries {
			x.ndl = append(x.ndl, needles(c))
		}

		// the scanner must find what it is looking for: self-test on a synthetic response
		for i, c := range e.canaries {
			probe := &response{RawBody: []byte(`{"x":"` + base64.StdEncoding.EncodeToString(append([]byte("ab"), c.Value...)) + `"}`)}
			if len(scan(e, probe, x.ndl)) == 0 {
				report.Fatal("scanner self-test failed for canary %d (%s)", i, c.Kind)
			}
		}

		r.Set("canaries_"+mode, len(e.canaries))
		r.Set("routes_"+mode, len(e.routes))
		x.sweep(r.Thorough())
	}

	r.Set("loggers_changed_by", loggerChanges)
	r.Set("get_route_statuses_for_administrator", adminStatus)
	r.Set("sample_5xx_bodies", errorBodies)
	r.Set("outside_statement", outside)
	r.Set("status_histogram", statuses)
	pprof.StopCPUProfile()
	r.Finish()
}

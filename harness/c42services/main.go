// C42: for a service that keeps no package-level state, the response to each
// request is the same whether requests are served one at a time or concurrently
// in any interleaving.
//
// E-sched on the woven VM + services: generated stateless services are served by
// the real ServiceHandler; first each request of a batch alone on fresh state
// (the expected response), then the batch as concurrent threads under every
// interleaving within the preemption bound, with a cold service cache (the first
// request compiles) and with a warm one; choice points are every lock of the
// service/cache/symbol-table code and (instr level) every bytecode instruction.
// Oracle: every response (status, body, content type) equals its serial response
// in every schedule; no panic, no deadlock.
package main

import (
	"fmt"
	"net/http"
	"net/http/httptest"
	"os"
	"os/exec"
	"path/filepath"
	"runtime"
	"sort"
	"strconv"
	"strings"
	gosync "sync"
	"unsafe"

	"github.com/tucats/ego/internal/cli/settings"
	"github.com/tucats/ego/internal/defs"
	"github.com/tucats/ego/internal/language/bytecode"
	"github.com/tucats/ego/internal/router"
	"github.com/tucats/ego/internal/server/services"
	"github.com/tucats/ego/internal/verifrt/enum"
	"github.com/tucats/ego/internal/verifrt/explore"
	"github.com/tucats/ego/internal/verifrt/report"
	vatomic "github.com/tucats/ego/internal/verifrt/vatomic"
	"github.com/tucats/ego/internal/verifrt/vsched"
	vsync "github.com/tucats/ego/internal/verifrt/vsync"
)

type service struct {
	Name string
	Path string // endpoint pattern
	Text string
}

// stateless services: everything they touch is a parameter or a local
var servicesSrc = []service{
	{"echo", "/services/v/echo", `@endpoint get path="/services/v/echo"

import "http"
import "strings"

func tag(user string, p string) string {
    t := ""
    for i := 0; i < 2; i++ {
        t = t + user + ":" + p + ";"
    }
    return t
}

func handler(req http.Request, w *http.ResponseWriter) {
    p := ""
    if v, ok := req.Parameters["p"]; ok {
        p = v[0]
    }
    user := req.Username
    body := req.Body
    result := tag(user, p) + "body=" + body + " P=" + strings.ToUpper(p) + strings.Repeat("!", len(user))
    w.WriteHeader(200)
    w.Write(result)
}
`},
	{"parts", "/services/v/parts/{{item}}", `@endpoint get path="/services/v/parts/{{item}}"

import "http"
import "fmt"

func handler(req http.Request, w *http.ResponseWriter) {
    item := req.URL.Parts["item"]
    n := 0
    for i := 0; i < 3; i++ {
        n = n + len(item)
    }
    w.WriteHeader(200)
    w.Write(fmt.Sprintf("item=%s n=%d admin=%v user=%s", item, n, req.IsAdmin, req.Username))
}
`},
	{"status", "/services/v/status", `@endpoint post path="/services/v/status"

import "http"

func classify(text string) int {
    if len(text) > 3 {
        return 202
    }
    return 200
}

func handler(req http.Request, w *http.ResponseWriter) {
    code := classify(req.Body)
    w.Header().Add("X-Echo", req.Body)
    w.WriteHeader(code)
    w.Write("len=" + string(len(req.Body)) + " user=" + req.Username)
}
`},
}

type reqSpec struct {
	User   string
	Admin  bool
	Param  string
	Item   string
	Body   string
	Method string
}

type response struct {
	Status int
	Body   string
	Echo   string
	CT     string
}

func (r response) String() string {
	return fmt.Sprintf("%d %q echo=%q ct=%q", r.Status, r.Body, r.Echo, r.CT)
}

var dir string

func writeServices() {
	dir = filepath.Join(os.Getenv("VERIF_SCRATCH"), "services")
	_ = os.MkdirAll(dir, 0o755)

	// Worker processes share this directory and start at different times: a
	// file is written only if it is not there yet with the right content, and
	// then atomically (rename), so that no process ever reads a half-written
	// service source.
	for _, s := range servicesSrc {
		path := filepath.Join(dir, s.Name+".ego")

		if cur, err := os.ReadFile(path); err == nil && string(cur) == s.Text {
			continue
		}

		tmp := fmt.Sprintf("%s.%d.tmp", path, os.Getpid())
		if err := os.WriteFile(tmp, []byte(s.Text), 0o644); err != nil {
			report.Fatal("%v", err)
		}

		if err := os.Rename(tmp, path); err != nil {
			report.Fatal("%v", err)
		}
	}
}

var nextSession int

var serialDisagreements int

func serve(svc service, rq reqSpec) response {
	nextSession++

	method := rq.Method
	if method == "" {
		method = http.MethodGet
		if svc.Name == "status" {
			method = http.MethodPost
		}
	}

	url := strings.ReplaceAll(svc.Path, "{{item}}", rq.Item)
	if rq.Param != "" {
		url += "?p=" + rq.Param
	}

	r := httptest.NewRequest(method, url, strings.NewReader(rq.Body))
	w := httptest.NewRecorder()

	sess := &router.Session{
		ID: nextSession, Path: svc.Path, Filename: filepath.Join(dir, svc.Name+".ego"),
		User: rq.User, Admin: rq.Admin, Authenticated: rq.User != "", AcceptsText: true,
		URLParts: map[string]any{},
	}

	if rq.Item != "" {
		sess.URLParts["item"] = rq.Item
	}

	status := services.ServiceHandler(sess, w, r)

	return response{Status: status, Body: w.Body.String(), Echo: strings.Join(w.Header().Values("X-Echo"), ","), CT: w.Header().Get("Content-Type")}
}

type batch struct {
	Svc  int
	Reqs []reqSpec
	Warm bool // one unrelated request first, so the service is compiled and cached
}

func batches() []batch {
	a := reqSpec{User: "alice", Param: "red", Item: "apple", Body: "AAAA"}
	b := reqSpec{User: "bob", Admin: true, Param: "blue", Item: "fig", Body: "bb"}
	c := reqSpec{User: "", Param: "green", Item: "kiwi", Body: "c"}

	var out []batch

	for s := range servicesSrc {
		for _, warm := range []bool{false, true} {
			out = append(out, batch{s, []reqSpec{a, b}, warm})
		}

		out = append(out, batch{s, []reqSpec{a, b, c}, true})
	}

	return out
}

func (b batch) name() string {
	w := "cold"
	if b.Warm {
		w = "warm"
	}

	return fmt.Sprintf("%s/%d-requests/%s", servicesSrc[b.Svc].Name, len(b.Reqs), w)
}

func reset() {
	services.VerifReset()

	nextSession = 100
}

type witness struct {
	Batch    string   `json:"batch"`
	Level    string   `json:"level"`
	Requests []string `json:"requests"`
	Got      []string `json:"got"`
	Want     []string `json:"want"`
	Schedule []int    `json:"schedule"`
	Error    string   `json:"error,omitempty"`
	Trace    []string `json:"trace,omitempty"`
}

func focus(level string) func(string, any) bool {
	instr := unsafe.Pointer(&bytecode.InstructionsExecuted)

	return func(kind string, obj any) bool {
		if strings.HasPrefix(kind, "Mutex.") || strings.HasPrefix(kind, "RWMutex.") || strings.HasPrefix(kind, "WaitGroup.") || strings.HasPrefix(kind, "chan.") {
			return true
		}

		if level == "instr" && kind == "atomic.Add" {
			if p, ok := obj.(unsafe.Pointer); ok && p == instr {
				return true
			}
		}

		return false
	}
}

func serial(b batch) []response {
	out := make([]response, len(b.Reqs))

	// always on fresh, cold state: a stateless service must answer a request
	// the same way whatever was served (and cached) before it
	for i, rq := range b.Reqs {
		// The serial answer is the answer of the majority of five fresh
		// sequential servings (they have always agreed since the harness stopped
		// rewriting the shared service files from every worker, see DESIGN.md
		// 8.3; a disagreement is counted in the evidence).
		votes := map[response]int{}

		for k := 0; k < 5; k++ {
			reset()

			votes[serve(servicesSrc[b.Svc], rq)]++
		}

		best := 0

		for v, n := range votes {
			if n > best {
				best, out[i] = n, v
			}
		}

		if len(votes) > 1 {
			serialDisagreements++
		}
	}

	return out
}

func exploreBatch(r *report.R, bi int, level string, bound int) {
	b := batches()[bi]
	svc := servicesSrc[b.Svc]
	vatomic.Yield = level == "instr"

	want := serial(b)

	for i, w := range want {
		if w.Status < 200 || w.Status > 299 {
			report.Fatal("serial request %d of %s failed: %v", i, b.name(), w)
		}
	}

	if serialDisagreements > 0 {
		r.Add("serial_servings_that_disagreed_with_their_majority", int64(serialDisagreements))
	}

	got := make([]response, len(b.Reqs))

	sc := &explore.Scenario{
		Name: b.name() + "/" + level, Bound: bound, Horizon: 3000000, Focus: focus(level),
		MaxExec: r.Pick(20000, 300000),
		Setup: func() {
			reset()

			if b.Warm {
				serve(svc, reqSpec{User: "warmup", Param: "w", Item: "w", Body: "w"})
			}
		},
		Body: func() {
			var wg vsync.WaitGroup

			for i := range b.Reqs {
				i := i

				wg.Add(1)
				vsched.Go(func() {
					defer wg.Done()

					got[i] = serve(svc, b.Reqs[i])
				})
			}

			wg.Wait()
		},
		Observe: func() any { return fmt.Sprint(got) },
	}

	strs := func(rs []response) []string {
		out := make([]string, len(rs))
		for i, x := range rs {
			out[i] = x.String()
		}

		return out
	}

	reqs := make([]string, len(b.Reqs))
	for i, q := range b.Reqs {
		reqs[i] = fmt.Sprintf("%+v", q)
	}

	var dbg *os.File
	if d := os.Getenv("C42_DEBUG_DIR"); d != "" {
		dbg, _ = os.Create(filepath.Join(d, strings.ReplaceAll(b.name()+"-"+level, "/", "_")+os.Getenv("VERIF_SHARD")[:min(1, len(os.Getenv("VERIF_SHARD")))]+".log"))
	}

	sc.Check = func(o vsched.Outcome) {
		r.Eval(1)

		if dbg != nil {
			okAll := true
			for i := range got {
				if got[i] != want[i] {
					okAll = false
				}
			}

			fmt.Fprintf(dbg, "%v %v\n", okAll, o.Choices())
		}
		r.Add("transitions", int64(len(o.Points)+1))
		r.Distinct(sc.Name + fmt.Sprint(o.Choices()))

		w := witness{Batch: b.name(), Level: level, Requests: reqs, Got: strs(got), Want: strs(want), Schedule: o.Choices()}
		size := len(o.Points)*10 + vsched.Preemptions(o.Points)

		switch {
		case o.Panic != nil:
			w.Error = fmt.Sprint(o.Panic) + "\n" + o.PanicStk
			r.Violation("go-panic:"+svc.Name, size, w, "serving concurrent requests panicked: "+fmt.Sprint(o.Panic))
		case o.Deadlock:
			w.Error = fmt.Sprint(o.BlockedOn)
			w.Trace = tailTrace(o)
			r.Violation("deadlock:"+svc.Name, size, w, "concurrent requests deadlocked")
		case o.Horizon:
			r.Capped("step horizon reached in " + sc.Name)
		default:
			for i := range got {
				if got[i] != want[i] {
					// Confirm before believing: the same schedule is replayed; a
					// difference that does not show again is nondeterminism the
					// scheduler does not own (it is counted and sampled in the
					// evidence, never reported as a violation).
					first := append([]response(nil), got...)
					again := false

					for k := 0; k < 3 && !again; k++ {
						sc.Replay(o.Choices())

						for j := range got {
							if got[j] != want[j] {
								again = true
							}
						}
					}

					if !again {
						r.Add("unconfirmed_differences", 1)
						r.Set("unconfirmed_sample", map[string]any{"batch": b.name(), "level": level, "schedule": o.Choices(), "got": strs(first), "want": strs(want)})

						break
					}

					copy(got, first)
					kind := "differs"

					for j := range want {
						if j != i && (strings.Contains(got[i].Body, b.Reqs[j].Param) && b.Reqs[j].Param != "" || strings.Contains(got[i].Body, b.Reqs[j].Item) && b.Reqs[j].Item != "" || b.Reqs[j].User != "" && strings.Contains(got[i].Body, b.Reqs[j].User)) {
							kind = "sees-other-request"
						}
					}

					if got[i].Status >= 500 {
						kind = "fails"
					}

					w.Trace = tailTrace(o)
					r.Violation(fmt.Sprintf("response-%s:%s:%s", kind, svc.Name, map[bool]string{true: "warm", false: "cold"}[b.Warm]), size, w,
						fmt.Sprintf("request %d got %v, served alone it gets %v", i, got[i], want[i]))

					break
				}
			}
		}
	}

	shardTag := ""
	if sh := os.Getenv("VERIF_SHARD"); sh != "" {
		fmt.Sscanf(sh, "%d/%d", &sc.ShardIndex, &sc.ShardCount)
		shardTag = "#" + sh
	}

	if derr := sc.Determinism(); derr != nil {
		report.Fatal("%v", derr)
	}

	res := sc.Explore()
	if res.MaxPoints == 0 {
		report.Fatal("%s: no choice points, the seams are lost", sc.Name)
	}

	if res.Capped {
		r.Capped(fmt.Sprintf("%s: execution cap reached before the bound-%d space was exhausted", sc.Name, bound))
	}

	r.Add("states", int64(res.Schedules))
	r.Set("scenario:"+sc.Name+shardTag, map[string]any{"schedules": res.Schedules, "preemption_bound": bound, "points_min": res.MinPoints, "points_max": res.MaxPoints, "capped": res.Capped})
	r.Sample(map[string]any{"batch": b.name(), "granularity": level, "requests": reqs, "serial_responses": strs(want), "schedules": res.Schedules, "preemption_bound": bound})
}

func tailTrace(o vsched.Outcome) []string {
	d := o.Describe()
	if len(d) > 40 {
		d = d[len(d)-40:]
	}

	return d
}

func racePass() {
	bad := 0

	for _, procs := range []int{1, 2, 4, 16} {
		runtime.GOMAXPROCS(procs)

		for rep := 0; rep < 5; rep++ {
			for _, b := range batches() {
				want := serial(b)

				reset()

				if b.Warm {
					serve(servicesSrc[b.Svc], reqSpec{User: "warmup", Param: "w", Item: "w", Body: "w"})
				}

				got := make([]response, len(b.Reqs))

				var (
					wg gosync.WaitGroup
					mu gosync.Mutex
				)

				for i := range b.Reqs {
					i := i

					wg.Add(1)

					go func() {
						defer wg.Done()

						mu.Lock()
						nextSession++
						mu.Unlock()

						got[i] = serveFree(servicesSrc[b.Svc], b.Reqs[i], 1000+i)
					}()
				}

				wg.Wait()

				for i := range got {
					if got[i] != want[i] && bad < 5 {
						bad++

						fmt.Printf("RACEPASS-DIFF %s request %d got %v want %v\n", b.name(), i, got[i], want[i])
					}
				}
			}
		}
	}

	fmt.Println("RACEPASS-DONE")
}

// serveFree is serve with an explicit session id (free-running goroutines).
func serveFree(svc service, rq reqSpec, id int) response {
	method := http.MethodGet
	if svc.Name == "status" {
		method = http.MethodPost
	}

	url := strings.ReplaceAll(svc.Path, "{{item}}", rq.Item)
	if rq.Param != "" {
		url += "?p=" + rq.Param
	}

	r := httptest.NewRequest(method, url, strings.NewReader(rq.Body))
	w := httptest.NewRecorder()
	sess := &router.Session{ID: id, Path: svc.Path, Filename: filepath.Join(dir, svc.Name+".ego"), User: rq.User, Admin: rq.Admin, Authenticated: rq.User != "", AcceptsText: true, URLParts: map[string]any{}}

	if rq.Item != "" {
		sess.URLParts["item"] = rq.Item
	}

	status := services.ServiceHandler(sess, w, r)

	return response{Status: status, Body: w.Body.String(), Echo: strings.Join(w.Header().Values("X-Echo"), ","), CT: w.Header().Get("Content-Type")}
}

type job struct {
	batch int
	level string
	bound int
	shard int
	of    int
}

func main() {
	settings.SetDefault(defs.ChildServicesSetting, "false")
	writeServices()

	if len(os.Args) > 1 && os.Args[1] == "seqloop" {
		// diagnostic: many sequential requests in one process, cold and warm
		n, bad := 0, 0
		want := map[string]response{}

		for k := 0; k < 30000; k++ {
			cold := k%3 == 0
			if cold {
				reset()
			}

			for _, rq := range []reqSpec{{User: "alice", Param: "red", Item: "apple", Body: "AAAA"}, {User: "bob", Admin: true, Param: "blue", Item: "fig", Body: "bb"}} {
				got := serve(servicesSrc[0], rq)
				n++

				if w, ok := want[rq.User]; !ok {
					want[rq.User] = got
				} else if w != got {
					bad++

					if bad < 4 {
						fmt.Println("SEQLOOP-DIFF at", n, "cold", cold, got)
					}
				}
			}
		}

		fmt.Println("SEQLOOP-DONE", n, "requests", bad, "differ")

		return
	}

	if len(os.Args) > 1 && os.Args[1] == "seqonce" {
		reset()
		got := serve(servicesSrc[0], reqSpec{User: "alice", Param: "red", Item: "apple", Body: "AAAA"})
		fmt.Println("SEQONCE", got.Status, strings.ReplaceAll(got.Body, "\n", " "))

		return
	}

	if len(os.Args) > 1 && os.Args[1] == "freshloop" {
		bad := 0

		for k := 0; k < 120; k++ {
			out, _ := exec.Command(os.Args[0], "seqonce").CombinedOutput()
			if !strings.Contains(string(out), "SEQONCE 200") {
				bad++

				if bad < 4 {
					fmt.Println("FRESH-DIFF", k, tail(string(out), 300))
				}
			}
		}

		fmt.Println("FRESHLOOP-DONE", bad, "of 120 fresh processes failed their first request")

		return
	}

	if len(os.Args) > 1 && os.Args[1] == "concloop" {
		// diagnostic: many free-running concurrent batches (no scheduler)
		bad := 0
		b := batches()[0] // echo, 2 requests, cold
		want := serial(b)

		for k := 0; k < 6000; k++ {
			reset()

			if k%2 == 1 {
				serve(servicesSrc[b.Svc], reqSpec{User: "warmup", Param: "w", Item: "w", Body: "w"})
			}

			got := make([]response, len(b.Reqs))

			var wg gosync.WaitGroup

			for i := range b.Reqs {
				i := i

				wg.Add(1)

				go func() {
					defer wg.Done()

					got[i] = serveFree(servicesSrc[b.Svc], b.Reqs[i], 2000+i)
				}()
			}

			wg.Wait()

			for i := range got {
				if got[i] != want[i] {
					bad++

					if bad < 4 {
						fmt.Println("CONCLOOP-DIFF batch", k, "warm", k%2 == 1, "request", i, got[i])
					}
				}
			}
		}

		fmt.Println("CONCLOOP-DONE", bad, "responses differ")

		return
	}

	if len(os.Args) > 1 && os.Args[1] == "racepass" {
		racePass()

		return
	}

	r := report.New("model_checking")

	if len(os.Args) > 5 && os.Args[1] == "job" {
		i, _ := strconv.Atoi(os.Args[2])
		bd, _ := strconv.Atoi(os.Args[4])
		exploreBatch(r, i, os.Args[3], bd)
		r.SavePartial(os.Args[5])
	}

	if r.Replay != "" {
		var w witness
		if err := report.LoadReplay(r.Replay, &w); err != nil {
			report.Fatal("%v", err)
		}

		for bi, b := range batches() {
			if b.name() != w.Batch {
				continue
			}

			vatomic.Yield = w.Level == "instr"
			want := serial(b)
			got := make([]response, len(b.Reqs))

			reps, _ := strconv.Atoi(os.Getenv("C42_REPEAT"))
			fails := 0

			for k := 0; k < reps; k++ {
				g2 := make([]response, len(b.Reqs))

				vsched.Run(vsched.Config{Prefix: w.Schedule, Horizon: 3000000, Focus: focus(w.Level)}, func() {
					reset()

					if b.Warm {
						serve(servicesSrc[b.Svc], reqSpec{User: "warmup", Param: "w", Item: "w", Body: "w"})
					}

					var wg vsync.WaitGroup

					for i := range b.Reqs {
						i := i

						wg.Add(1)
						vsched.Go(func() {
							defer wg.Done()

							g2[i] = serve(servicesSrc[b.Svc], b.Reqs[i])
						})
					}

					wg.Wait()
				})

				if fmt.Sprint(g2) != fmt.Sprint(want) {
					fails++
				}
			}

			if reps > 0 {
				fmt.Printf("repeat: %d of %d replays of this schedule differ from the serial responses\n", fails, reps)
			}

			o := vsched.Run(vsched.Config{Prefix: w.Schedule, Horizon: 3000000, Focus: focus(w.Level)}, func() {
				reset()

				if b.Warm {
					serve(servicesSrc[b.Svc], reqSpec{User: "warmup", Param: "w", Item: "w", Body: "w"})
				}

				var wg vsync.WaitGroup

				for i := range b.Reqs {
					i := i

					wg.Add(1)
					vsched.Go(func() {
						defer wg.Done()

						got[i] = serve(servicesSrc[b.Svc], b.Reqs[i])
					})
				}

				wg.Wait()
			})

			fmt.Printf("replay batch %d %s: got %v want %v panic=%v deadlock=%v\n", bi, b.name(), got, want, o.Panic, o.Deadlock)

			if fmt.Sprint(got) != fmt.Sprint(want) || o.Panic != nil || o.Deadlock {
				r.Violation("replayed:"+b.name(), 1, w, "the recorded schedule still fails")
			}
		}

		r.Eval(1)
		r.Finish()
	}

	syncBound, instrBound := 2, r.Pick(1, 2)

	var jobs []job

	for i, b := range batches() {
		jobs = append(jobs, job{i, "instr", instrBound, 0, 1})

		// lock-granularity with two preemptions: in the quick tier only where
		// the bound can be completed (two requests, warm cache)
		if r.Thorough() || (len(b.Reqs) == 2 && b.Warm) {
			for sh := 0; sh < 4; sh++ {
				jobs = append(jobs, job{i, "sync", syncBound, sh, 4})
			}
		}
	}

	type res struct {
		path string
		err  error
		out  []byte
	}

	results := make([]res, len(jobs))

	enum.Par(len(jobs), func(k int) {
		j := jobs[k]
		part := filepath.Join(os.Getenv("VERIF_SCRATCH"), fmt.Sprintf("part-%d.json", k))
		cmd := exec.Command(os.Args[0], "job", strconv.Itoa(j.batch), j.level, strconv.Itoa(j.bound), part)
		cmd.Env = append(os.Environ(), "GOMAXPROCS=2")
		if j.of > 1 {
			cmd.Env = append(cmd.Env, fmt.Sprintf("VERIF_SHARD=%d/%d", j.shard, j.of))
		}

		out, err := cmd.CombinedOutput()
		results[k] = res{part, err, out}
	})

	for k, rs := range results {
		if rs.err != nil {
			report.Fatal("worker %v failed: %v\n%s", jobs[k], rs.err, tail(string(rs.out), 3000))
		}

		r.MergePartial(rs.path)
	}

	r.Set("traces_validated_against_impl", r.IntCov("states"))

	if rb := os.Getenv("VERIF_RACE_BIN"); rb != "" {
		cmd := exec.Command(rb, "racepass")
		cmd.Env = append(os.Environ(), "GORACE=halt_on_error=0 exitcode=0")

		out, err := cmd.CombinedOutput()
		text := string(out)

		switch {
		case strings.Contains(text, "WARNING: DATA RACE"):
			for _, rep := range allRaces(text) {
				r.Violation("race:"+raceFrames(rep), 1, map[string]any{"report": tail(rep, 3000)}, "the Go race detector reports an unsynchronized access while stateless services are served concurrently")
			}
		case strings.Contains(text, "fatal error"):
			r.Violation("race:fatal", 1, map[string]any{"output": tail(text, 2000)}, "the free-running pass died with a Go fatal error")
		case strings.Contains(text, "RACEPASS-DIFF"):
			r.Violation("race:response-differs", 1, map[string]any{"output": tail(text, 2000)}, "a free-running concurrent request got a response different from its serial response")
		case err != nil || !strings.Contains(text, "RACEPASS-DONE"):
			report.Fatal("race pass failed: %v\n%s", err, tail(text, 2000))
		}

		r.Set("race_pass", fmt.Sprintf("%d batches x 5 repetitions x GOMAXPROCS{1,2,4,16}, real goroutines, -race", len(batches())))
	}

	r.Rule(fmt.Sprintf("%d stateless generated services x batches of 2 and 3 requests with distinct user/parameter/URL part/body (cold and warm service cache) x every interleaving with <=%d preemptions at every lock operation of services, caches, symbol tables and interpreter (quick tier: the two-request warm-cache batches only) and with <=%d preemptions at every bytecode instruction and lock operation (all batches); each response compared with the response the request gets when served alone", len(servicesSrc), syncBound, instrBound))
	r.Assume("a request served alone on fresh state defines the expected response", "a difference is reported only if replaying the same schedule shows it again (up to 3 replays); differences that do not repeat are counted under unconfirmed_differences with a sample, because they come from nondeterminism the scheduler does not own (Go map iteration order inside the interpreter)", "scheduling points: woven sync operations module-wide and the per-instruction atomic counter; plain memory accesses between them are covered only by the auxiliary -race pass")
	r.Finish()
}

func tail(s string, n int) string {
	if len(s) > n {
		return s[len(s)-n:]
	}

	return s
}

func raceFrames(rep string) string {
	var fns []string

	for _, part := range strings.SplitN(rep, "Previous ", 2) {
		if i := strings.Index(part, "Goroutine "); i > 0 {
			part = part[:i]
		}

		for _, line := range strings.Split(part, "\n") {
			line = strings.TrimSpace(line)
			if strings.HasPrefix(line, "github.com/tucats/ego/internal/") && !strings.Contains(line, "verifharness") && !strings.Contains(line, "verifrt") {
				fn := strings.TrimPrefix(line, "github.com/tucats/ego/internal/")
				if i := strings.Index(fn, "("); i > 0 && !strings.HasPrefix(fn[i:], "(*") {
					fn = fn[:i]
				}

				fn = strings.NewReplacer("(", "", ")", "", "*", "").Replace(fn)
				fns = append(fns, fn)

				break
			}
		}
	}

	sort.Strings(fns)

	return strings.Join(fns, "+")
}

func allRaces(s string) []string {
	var out []string

	for {
		i := strings.Index(s, "WARNING: DATA RACE")
		if i < 0 {
			return out
		}

		s = s[i:]
		j := strings.Index(s[10:], "==================")

		if j < 0 {
			return append(out, s)
		}

		out = append(out, s[:j+10])
		s = s[j+10:]
	}
}

// C40: no request can crash a handler.
//
// Every HTTP request to every route, with any method, path, query, headers and
// body, is answered by the handler's own success or error response; no request
// makes a handler panic, so the server's last-resort panic recovery never fires.
//
// E-enum by deviations on the real server: the route table is built by the
// server's own set-up code (static routes, the services under lib/services, the
// native admin, cluster, WebAuthn and OAuth handlers, redirects) with the real
// handlers, over scratch stores. For every route a well-formed request is
// derived from the route's declaration and a table of payloads, and every
// combination of at most one (thorough: two) deviations of it is sent, as
// administrator, as a non-administrator holding every other permission and as
// a plain user. Requests travel as HTTP/1.1 bytes over an in-memory connection
// into a real net/http server, so a request is exactly what a client can
// deliver. ego.server.panic.recovery is false: a panic that reaches the
// recovery at the top of Router.ServeHTTP is handed on to the harness's
// wrapper, which records its value and stack. Oracle: that never happens.
package main

import (
	"bufio"
	"bytes"
	"encoding/json"
	"fmt"
	"os"
	"os/exec"
	"path/filepath"
	"regexp"
	"runtime"
	"runtime/pprof"
	"sort"
	"strconv"
	"strings"
	"sync"
	"time"

	"github.com/tucats/ego/internal/router"
	"github.com/tucats/ego/internal/verifrt/report"
	vos "github.com/tucats/ego/internal/verifrt/vos"
)

// dev is one deviation from the well-formed request of a route.
type dev struct {
	Slot  string `json:"slot"`  // what is deviated (one value per slot in a case)
	Kind  string `json:"kind"`  // coarse class (part of the cell)
	Label string `json:"label"` // the exact deviation
}

// kase is one request to send (twice: cold caches, then warm) in a pristine world.
type kase struct {
	Seq     int     `json:"seq"`
	Route   string  `json:"route"`
	Variant string  `json:"variant,omitempty"` // which well-formed request of the route
	Ident   string  `json:"identity"`
	Loggers string  `json:"loggers"` // "server" | "all"
	Devs    []dev   `json:"deviations"`
	Passes  int     `json:"passes"` // 2: the request is sent a second time with warm caches
	Req     request `json:"request"`
	// Prelude, when set, is sent (and observed) before Req in the same pristine world: a two-request sequence
	Prelude *request `json:"prelude,omitempty"`
}

// result is what a worker observed for a case.
type result struct {
	Seq           int      `json:"seq"`
	Fatal         string   `json:"fatal,omitempty"`
	Status        [2]int   `json:"status"`
	Reached       [2]bool  `json:"reached"`
	Panic         string   `json:"panic,omitempty"`
	Pass          int      `json:"pass"`
	Site          string   `json:"site,omitempty"`
	Frames        []string `json:"frames,omitempty"`
	Shutdown      bool     `json:"shutdown,omitempty"`
	Exiting       bool     `json:"exiting,omitempty"`
	Hung          bool     `json:"hung,omitempty"`
	Repaired      []string `json:"repaired,omitempty"`
	Micros        int64    `json:"us"`
	PreludeStatus int      `json:"prelude_status,omitempty"`
	Note5xx       string   `json:"note_5xx,omitempty"` // start of the body of a 5xx answer that is not a recovered panic
}

var caseLimit = 600 * time.Second

var trace = os.Getenv("C40_TRACE") != ""

var scratchRE = regexp.MustCompile(`/[^ "']*vcheck-[A-Za-z0-9]+-[0-9]+/w[0-9]+`)

func init() {
	if d, err := time.ParseDuration(os.Getenv("C40_LIMIT")); err == nil && d > 0 {
		caseLimit = d
	}
}

// ---- worker --------------------------------------------------------------------------

// exitCalled receives the status of every os.Exit the router package attempts.
var exitCalled = make(chan int, 64)

func workerMain() {
	vos.Exit = func(code int) {
		exitCalled <- code

		select {} // the calling goroutine ends here, as it would in a dying process
	}

	in := os.NewFile(3, "cases")
	out := os.NewFile(4, "results")
	enc := json.NewEncoder(out)

	// a worker never outlives its parent (the parent may be killed by the driver's watchdog)
	parent := os.Getppid()

	go func() {
		for {
			time.Sleep(time.Second)

			if os.Getppid() != parent {
				os.Exit(3)
			}
		}
	}()

	if pf := os.Getenv("C40_PROF"); pf != "" {
		f, _ := os.Create(pf + "." + strconv.Itoa(os.Getpid()))
		_ = pprof.StartCPUProfile(f)
	}

	w := newWorld(os.Getenv("C40_WORKER_SCRATCH"))
	srv := newServer(w.rt)

	// self-test: a handler that panics must be observed, with its site
	{
		probe := request{Method: "GET", Target: lit(selfTestPath)}
		a := srv.roundTrip(probe.wire(), caseLimit)
		site, frames := panicSite(a.Obs.Stack)

		if a.Obs.Panic == "" || !strings.Contains(a.Obs.Panic, "index out of range") || len(frames) == 0 || !strings.Contains(frames[0], "newWorld") {
			_ = enc.Encode(result{Seq: -1, Fatal: fmt.Sprintf("self-test failed: a panicking handler was not observed (status %d, panic %q, site %q)", a.Status, a.Obs.Panic, site)})

			os.Exit(2)
		}

		// warm-up: the first bearer token a process validates costs one Argon2id
		// derivation of the sealing key (memoised afterwards by rt/vargon2); it
		// is paid here, outside any case and its time limit
		warm := request{Method: "GET", Target: lit("/admin/memory"), Headers: []header{{"Accept", lit("application/json")}, {"Authorization", lit("Bearer " + w.tokens[adminName])}}}
		if a := srv.roundTrip(warm.wire(), 30*time.Minute); a.Status != 200 {
			_ = enc.Encode(result{Seq: -1, Fatal: fmt.Sprintf("warm-up: the administrator's bearer token was answered %d", a.Status)})

			os.Exit(2)
		}

		w.restore()
	}

	_ = enc.Encode(result{Seq: -1})

	sc := bufio.NewScanner(in)
	sc.Buffer(make([]byte, 1<<20), 1<<28)

	for sc.Scan() {
		var k kase

		if err := json.Unmarshal(sc.Bytes(), &k); err != nil {
			_ = enc.Encode(result{Seq: -1, Fatal: "bad case: " + err.Error()})

			os.Exit(2)
		}

		res := runCase(w, srv, &k)
		_ = enc.Encode(res)

		if res.Exiting || res.Hung {
			// the process is going down (the handler asked for it) or a handler is stuck: a new worker takes over
			pprof.StopCPUProfile()
			os.Exit(0)
		}
	}

	pprof.StopCPUProfile()
	os.Exit(0)
}

func runCase(w *world, srv *server, k *kase) result {
	res := result{Seq: k.Seq, Pass: -1}
	raw := k.Req.wire()
	start := time.Now()

	w.setLoggers(k.Loggers == "all")

	passes := k.Passes
	if passes < 1 || passes > 2 {
		passes = 2
	}

	if k.Prelude != nil {
		a := srv.roundTrip(k.Prelude.wire(), caseLimit)
		res.PreludeStatus = a.Status

		if a.Obs.Panic != "" {
			res.Panic = a.Obs.Panic
			res.Pass = 2
			res.Site, res.Frames = panicSite(a.Obs.Stack)
		}

		if a.Err != "" && a.Status == 0 && (strings.Contains(a.Err, "timeout") || strings.Contains(a.Err, "deadline")) {
			res.Hung = true

			return res
		}
	}

	for pass := 0; pass < passes; pass++ {
		a := srv.roundTrip(raw, caseLimit)

		res.Status[pass] = a.Status
		res.Reached[pass] = a.Obs.Reached

		if (a.Status >= 500 || (a.Status >= 400 && len(k.Devs) == 0)) && a.Obs.Panic == "" && res.Note5xx == "" {
			if i := bytes.Index(a.Raw, []byte("\r\n\r\n")); i >= 0 {
				res.Note5xx = shorten(strings.Join(strings.Fields(string(a.Raw[i+4:])), " "), 300)
			}
		}

		if a.Obs.Panic != "" && res.Panic == "" {
			res.Panic = a.Obs.Panic
			res.Pass = pass
			res.Site, res.Frames = panicSite(a.Obs.Stack)
		}

		if a.Err != "" && a.Status == 0 {
			if strings.Contains(a.Err, "timeout") || strings.Contains(a.Err, "deadline") {
				res.Hung = true

				if trace {
					_ = pprof.Lookup("goroutine").WriteTo(os.Stderr, 1)
				}

				return res
			}
		}

		if router.VerifC40ShutdownRequested() {
			// The handler asked for the process to stop: RequestShutdown holds
			// ServerShutdownLock for good and a goroutine calls os.Exit once the
			// request is answered. os.Exit is the stub below (internal/router is
			// woven so that its os.Exit is a variable); when the stub has been
			// reached the lock is released and the world restored, as if a new
			// process had been started.
			res.Shutdown = true

			select {
			case <-exitCalled:
				router.ServerShutdownLock.Unlock()
			case <-time.After(30 * time.Second):
				// not stubbed after all: this process is about to end; the parent starts another one
				if trace {
					fmt.Fprintf(os.Stderr, "NO-EXIT case %d: requests active %d\n", k.Seq, router.RequestsActive.Load())
					_ = pprof.Lookup("goroutine").WriteTo(os.Stderr, 1)
				}
				res.Micros = time.Since(start).Microseconds()
				res.Exiting = true

				return res
			}

			break
		}
	}

	res.Repaired = w.restore()
	res.Micros = time.Since(start).Microseconds()

	return res
}

// panicSite finds where the (innermost, first) panic was raised: the first
// frame of the ego module below the runtime's panic frames, plus the call chain.
func panicSite(stack string) (string, []string) {
	lines := strings.Split(stack, "\n")
	last := -1

	for i, l := range lines {
		if strings.HasPrefix(l, "panic(") {
			last = i
		}
	}

	var frames []string

	site := ""

	for i := last + 1; i < len(lines); i++ {
		l := lines[i]
		if l == "" || strings.HasPrefix(l, "\t") || strings.HasPrefix(l, "goroutine ") || strings.HasPrefix(l, "created by") {
			continue
		}

		fn := l
		if j := strings.LastIndex(fn, "("); j > 0 {
			fn = fn[:j]
		}

		if strings.HasPrefix(fn, "runtime.") {
			continue
		}

		loc := ""
		if i+1 < len(lines) {
			loc = strings.TrimSpace(lines[i+1])
			if j := strings.Index(loc, " +0x"); j > 0 {
				loc = loc[:j]
			}

			if j := strings.Index(loc, "/internal/"); j >= 0 {
				loc = loc[j+1:]
			}
		}

		short := strings.TrimPrefix(fn, "github.com/tucats/ego/internal/")

		if strings.HasPrefix(fn, "main.(*observer)") || strings.HasPrefix(fn, "net/http.serverHandler") || strings.HasPrefix(fn, "net/http.(*conn)") {
			break
		}

		if len(frames) < 12 {
			frames = append(frames, short+" "+loc)
		}

		if site == "" && strings.HasPrefix(fn, "github.com/tucats/ego/") {
			site = short
		}
	}

	if site == "" && len(frames) > 0 {
		site = strings.Fields(frames[0])[0]
	}

	// closures: func1, func2.1 … stay; generic brackets go
	site = strings.NewReplacer("(", "", ")", "", "*", "", "[...]", "").Replace(site)

	return site, frames
}

// panicClass reduces a panic value to its kind.
func panicClass(v string) string {
	switch {
	case strings.Contains(v, "nil pointer dereference"):
		return "nil-deref"
	case strings.Contains(v, "index out of range"):
		return "index"
	case strings.Contains(v, "slice bounds out of range"):
		return "slice-bounds"
	case strings.Contains(v, "interface conversion"):
		return "type-assertion"
	case strings.Contains(v, "nil map"):
		return "nil-map"
	case strings.Contains(v, "makeslice") || strings.Contains(v, "len out of range") || strings.Contains(v, "cap out of range"):
		return "make-size"
	case strings.Contains(v, "divide by zero"):
		return "div-zero"
	case strings.Contains(v, "negative Repeat count") || strings.Contains(v, "Repeat"):
		return "repeat-count"
	case strings.Contains(v, "closed channel"):
		return "closed-channel"
	case strings.HasPrefix(v, "reflect:"):
		return "reflect"
	case strings.Contains(v, "invalid WriteHeader code"):
		return "invalid-status-code"
	default:
		return "other"
	}
}

// ---- parent ------------------------------------------------------------------------------

type worker struct {
	id      int
	cmd     *exec.Cmd
	in      *os.File
	sc      *bufio.Scanner
	logPath string
	scratch string
}

var spawnSeq struct {
	sync.Mutex
	n int
}

func startWorker(root string) (*worker, error) {
	spawnSeq.Lock()
	spawnSeq.n++
	id := spawnSeq.n
	spawnSeq.Unlock()

	scratch := filepath.Join(root, "w"+strconv.Itoa(id))
	if err := os.MkdirAll(filepath.Join(scratch, "home"), 0o700); err != nil {
		return nil, err
	}

	jr, jw, err := os.Pipe()
	if err != nil {
		return nil, err
	}

	rr, rw, err := os.Pipe()
	if err != nil {
		return nil, err
	}

	cmd := exec.Command(os.Args[0])
	cmd.Env = append(os.Environ(), "C40_WORKER=1", "C40_WORKER_SCRATCH="+scratch, "HOME="+filepath.Join(scratch, "home"), "GOMAXPROCS=2", "GOGC=400")
	cmd.Dir = scratch
	cmd.ExtraFiles = []*os.File{jr, rw}

	logPath := filepath.Join(scratch, "worker.log")

	logf, err := os.Create(logPath)
	if err != nil {
		return nil, err
	}

	cmd.Stdout, cmd.Stderr = logf, logf

	if err := cmd.Start(); err != nil {
		return nil, err
	}

	jr.Close()
	rw.Close()
	logf.Close()

	w := &worker{id: id, cmd: cmd, in: jw, sc: bufio.NewScanner(rr), logPath: logPath, scratch: scratch}
	w.sc.Buffer(make([]byte, 1<<20), 1<<26)

	r, err := w.recv()
	if err != nil {
		return nil, fmt.Errorf("worker %d did not start: %v\n%s", id, err, tail(logPath, 4000))
	}

	if r.Fatal != "" {
		return nil, fmt.Errorf("worker %d: %s", id, r.Fatal)
	}

	return w, nil
}

func (w *worker) recv() (result, error) {
	var r result

	if !w.sc.Scan() {
		if err := w.sc.Err(); err != nil {
			return r, err
		}

		return r, fmt.Errorf("worker ended")
	}

	err := json.Unmarshal(w.sc.Bytes(), &r)

	return r, err
}

func (w *worker) stop() {
	_ = w.in.Close()

	done := make(chan struct{})

	go func() {
		_, _ = w.cmd.Process.Wait()
		close(done)
	}()

	select {
	case <-done:
	case <-time.After(3 * time.Second):
		_ = w.cmd.Process.Kill()
		<-done
	}

	_ = os.RemoveAll(w.scratch)
}

func tail(path string, n int) string {
	b, _ := os.ReadFile(path)
	if len(b) > n {
		b = b[len(b)-n:]
	}

	return string(b)
}

// outcome is a case with its result, as the parent keeps it for the verdict.
type outcome struct {
	k   kase
	res result
	// a worker process died while serving this case
	crashLog string
}

// runAll sends every case the generator produces through a pool of worker processes.
func runAll(root string, workers int, gen func(yield func(kase)), each func(outcome)) {
	cases := make(chan kase, 256)

	go func() {
		gen(func(k kase) { cases <- k })
		close(cases)
	}()

	var (
		wg  sync.WaitGroup
		mu  sync.Mutex
		bad string
	)

	for i := 0; i < workers; i++ {
		wg.Add(1)

		go func() {
			defer wg.Done()

			var w *worker

			defer func() {
				if w != nil {
					w.stop()
				}
			}()

			for k := range cases {
				mu.Lock()
				stop := bad != ""
				mu.Unlock()

				if stop {
					continue
				}

				var out outcome

				for attempt := 0; ; attempt++ {
					if w == nil {
						var err error

						if w, err = startWorker(root); err != nil {
							mu.Lock()
							bad = err.Error()
							mu.Unlock()

							break
						}
					}

					b, _ := json.Marshal(k)
					began := time.Now()
					_, werr := w.in.Write(append(b, '\n'))

					res, rerr := w.recv()

					if trace && time.Since(began) > 3*time.Second {
						fmt.Fprintf(os.Stderr, "SLOW %.1fs case %d %s as %s: %s (hung=%v err=%v)\n", time.Since(began).Seconds(), k.Seq, k.Route, k.Ident, k.Req.show(), res.Hung, rerr)
					}
					if werr == nil && rerr == nil && res.Fatal == "" && res.Seq == k.Seq {
						out = outcome{k: k, res: res}

						if res.Exiting || res.Hung {
							if trace {
								fmt.Fprintf(os.Stderr, "WORKER LOG: %s\n", tail(w.logPath, 6000))
							}

							w.stop()
							w = nil
						}

						break
					}

					// the worker is gone
					logText := tail(w.logPath, 20000)
					w.stop()
					w = nil

					if res.Fatal != "" || strings.Contains(logText, "HARNESS-ERROR") {
						mu.Lock()
						bad = "worker: " + res.Fatal + " " + lastLines(logText, 5)
						mu.Unlock()

						break
					}

					if strings.Contains(logText, "panic: ") || strings.Contains(logText, "fatal error: ") {
						out = outcome{k: k, crashLog: logText}

						break
					}

					if attempt >= 2 {
						mu.Lock()
						bad = fmt.Sprintf("a worker ended three times without an answer on case %d (%s): %s", k.Seq, k.Req.show(), lastLines(logText, 5))
						mu.Unlock()

						break
					}
				}

				mu.Lock()
				stop = bad != ""
				mu.Unlock()

				if !stop {
					each(out)
				}
			}
		}()
	}

	wg.Wait()

	if bad != "" {
		report.Fatal("%s", bad)
	}
}

func lastLines(s string, n int) string {
	l := strings.Split(strings.TrimSpace(s), "\n")
	if len(l) > n {
		l = l[len(l)-n:]
	}

	return strings.Join(l, " / ")
}

// ---- verdict ---------------------------------------------------------------------------

type witness struct {
	Route        string   `json:"route"`
	Identity     string   `json:"identity"`
	Loggers      string   `json:"loggers"`
	Deviations   []dev    `json:"deviations"`
	Prelude      *request `json:"prelude,omitempty"`
	PreludeShown string   `json:"prelude_shown,omitempty"`
	Request      request  `json:"request"`
	Shown        string   `json:"request_shown"`
	Pass         string   `json:"pass,omitempty"`
	Panic        string   `json:"panic"`
	Site         string   `json:"site"`
	Frames       []string `json:"frames,omitempty"`
}

type hit struct {
	k     kase
	res   result
	crash string
}

func routeCell(route string) string {
	return strings.NewReplacer("{{", "", "}}", "", " ", "_", "...", "").Replace(route)
}

func devKinds(ds []dev) []string {
	out := []string{}
	for _, d := range ds {
		out = append(out, slotKind(d))
	}

	sort.Strings(out)

	return out
}

// slotKind names what deviates, for the cell: the slot (path variable,
// parameter, header by name; body fields as one class), not the value. The
// value class stays in the witness.
func slotKind(d dev) string {
	switch {
	case strings.HasPrefix(d.Slot, "field:"), strings.HasPrefix(d.Slot, "form:"):
		return "body-field"
	case d.Slot == "path":
		return "path-shape"
	case d.Slot == "query":
		return "query-shape"
	}

	return strings.NewReplacer("...", "", " ", "_").Replace(d.Slot)
}

func main() {
	if os.Getenv("C40_WORKER") != "" {
		workerMain()

		return
	}

	r := report.New("exploration")
	scratch := os.Getenv("VERIF_SCRATCH")

	if scratch == "" {
		report.Fatal("VERIF_SCRATCH is not set")
	}

	// the parent builds the route table once, to derive the cases from it
	psc := filepath.Join(scratch, "parent")
	must(os.MkdirAll(filepath.Join(psc, "home"), 0o700), "scratch")
	must(os.Setenv("HOME", filepath.Join(psc, "home")), "setenv")

	w := newWorld(psc)
	plan := newPlan(w, r.Thorough())

	if os.Getenv("C40_DUMP") != "" {
		plan.dump()

		return
	}

	tierRule := "quick: administrator - the core values of every slot; non-administrator with all permissions - one value per slot; plain user - the well-formed request only; the well-formed request also with every logger active; the request is repeated with warm caches for GET/HEAD routes and well-formed requests"
	if plan.thorough {
		tierRule = "thorough: administrator - core values of every slot plus every value of the path-variable, parameter, query, path and whole-body slots, and pairs (first core value of each slot) of every two path-variable/parameter/body/body-field slots and of each of those with method, Authorization, Content-Type, Accept; non-administrator - core values; plain user - one value per slot; every case is sent twice (cold, then warm caches)"

		if os.Getenv("C40_DEPTH") == "full" {
			tierRule = "thorough, C40_DEPTH=full: every value of every slot for every identity, core values also with every logger active, pairs over all compatible slots; every case is sent twice"
		}
	}

	r.Rule("for every route of the server's real route table: each well-formed request of the route (path variables naming existing objects, the payload the handler documents) and its deviations in at most " + strconv.Itoa(plan.maxDevs) +
		" slot(s) of {method, each path variable, the whole path, each declared query parameter, the whole query, the headers Range/Accept/Accept-Language/Authorization/Content-Type/If-None-Match/Cookie and 8 more, the body as a whole, each node of a JSON body / field of a form} x identities {administrator, non-administrator with every other permission, plain user}; " + tierRule +
		"; plus two-request sequences as administrator (a well-formed GET, then the request deviated in Range / If-None-Match / Accept-Encoding / Accept; on the asset routes every Range option on six fixtures, two of them cached in minified, shorter form); requests travel as HTTP/1.1 bytes over an in-memory connection into net/http; the world is restored after every case. evaluations = requests answered. distinct non-trivial = distinct (route, identity, loggers, set of deviations) whose request reached the router")
	r.Assume(
		"the last-resort recovery is switched off by ego.server.panic.recovery=false (checked before and after every case); a panic that reaches it is re-raised by reportRequestPanic and caught, with its stack, by the harness's wrapper around Router.ServeHTTP",
		"a panic that a handler (or the Ego run time under it) recovers itself and answers with its own error response is not a firing of the last-resort recovery and is not flagged",
		"requests are HTTP/1.1 byte strings parsed by the real net/http server; what net/http refuses itself (400 before any handler) is counted, not judged",
		"stores (users, DSNs, SQLite data base, token blacklist, profile, HOME, log, library/asset root) are scratch copies, rebuilt after every case that changed them",
		"routes whose purpose is to stop the process are listed in coverage.stop_routes: their handlers run for real in a disposable worker process that ends right after answering",
		"PostgreSQL is not available: the postgres DSN points at a closed local port; outbound calls of the OAuth resource server go to an in-process identity provider",
	)

	if r.Replay != "" {
		var wit witness

		must(report.LoadReplay(r.Replay, &wit), "replay file")

		k := kase{Seq: 0, Route: wit.Route, Ident: wit.Identity, Loggers: wit.Loggers, Devs: wit.Deviations, Passes: 2, Req: wit.Request, Prelude: wit.Prelude}
		v := newVerdict(r, plan)

		runAll(scratch, 1, func(yield func(kase)) { yield(k) }, v.add)
		v.finish()
		r.Finish()
	}

	workers := runtime.NumCPU()
	if workers > 16 {
		workers = 16
	}

	if n, err := strconv.Atoi(os.Getenv("C40_WORKERS")); err == nil && n > 0 {
		workers = n
	}

	v := newVerdict(r, plan)

	runAll(scratch, workers, plan.generate, v.add)
	v.finish()
	plan.coverage(r)
	r.Finish()
}

// ---- verdict bookkeeping -------------------------------------------------------------------

type verdict struct {
	mu          sync.Mutex
	r           *report.R
	plan        *plan
	hits        []hit
	statuses    map[string]int64
	perRoute    map[string]*routeStats
	notParsed   int64
	repaired    map[string]int64
	shutdowns   map[string]int64
	hung        []string
	slowest     []slow
	cands       []cand
	fivexx      map[string]map[string]int
	baseStatus  map[string]map[string]string
	baseRefusal map[string]string
	done        int
	began       time.Time
}

type cand struct {
	seq int
	v   any
}

type slow struct {
	us   int64
	what string
}

type routeStats struct {
	Seconds  float64          `json:"worker_seconds"`
	Cases    int64            `json:"cases"`
	Reached  int64            `json:"reached_router"`
	Statuses map[string]int64 `json:"statuses"`
}

func newVerdict(r *report.R, p *plan) *verdict {
	return &verdict{began: time.Now(), r: r, plan: p, statuses: map[string]int64{}, perRoute: map[string]*routeStats{}, repaired: map[string]int64{}, shutdowns: map[string]int64{}, fivexx: map[string]map[string]int{}, baseStatus: map[string]map[string]string{}, baseRefusal: map[string]string{}}
}

func (v *verdict) add(o outcome) {
	v.mu.Lock()
	defer v.mu.Unlock()

	k, res := o.k, o.res

	v.done++
	if trace && v.done%5000 == 0 {
		fmt.Fprintf(os.Stderr, "PROGRESS %d cases, %d panicking, %.0fs\n", v.done, len(v.hits), time.Since(v.began).Seconds())
	}

	rs := v.perRoute[k.Route]
	if rs == nil {
		rs = &routeStats{Statuses: map[string]int64{}}
		v.perRoute[k.Route] = rs
	}

	rs.Cases++
	rs.Seconds += float64(res.Micros) / 1e6

	if o.crashLog != "" {
		v.hits = append(v.hits, hit{k: k, crash: o.crashLog})
		v.r.Eval(1)

		return
	}

	if res.Hung {
		v.hung = append(v.hung, k.Req.show())

		return
	}

	passes := k.Passes
	if passes < 1 || passes > 2 {
		passes = 2
	}

	if res.Shutdown {
		passes = 1
		v.shutdowns[k.Route]++
	}

	if k.Prelude != nil {
		v.r.Eval(1)
		v.statuses[strconv.Itoa(res.PreludeStatus)]++
		rs.Statuses[strconv.Itoa(res.PreludeStatus)]++
	}

	for p := 0; p < passes; p++ {
		v.r.Eval(1)
		v.statuses[strconv.Itoa(res.Status[p])]++
		rs.Statuses[strconv.Itoa(res.Status[p])]++

		if !res.Reached[p] {
			v.notParsed++
		}
	}

	if res.Reached[0] {
		rs.Reached++

		kinds := devKinds(k.Devs)
		labels := []string{}

		for _, d := range k.Devs {
			labels = append(labels, d.Slot+"="+d.Label)
		}

		sort.Strings(labels)
		v.r.Distinct(k.Route + "|" + k.Ident + "|" + k.Loggers + "|" + strings.Join(labels, "&"))

		if (len(kinds) == 1 && k.Seq%9973 == 3) || k.Seq <= 3 {
			v.cands = append(v.cands, cand{k.Seq, map[string]any{"route": k.Route, "identity": k.Ident, "loggers": k.Loggers, "deviations": k.Devs, "request": k.Req.show(), "status_cold_warm": res.Status}})
		}
	}

	for _, x := range res.Repaired {
		v.repaired[x]++
	}

	if len(k.Devs) == 0 && k.Loggers == "server" {
		key := k.Route
		if k.Variant != "" {
			key += " [" + k.Variant + "]"
		}

		if v.baseStatus[key] == nil {
			v.baseStatus[key] = map[string]string{}
		}

		v.baseStatus[key][k.Ident] = fmt.Sprintf("%d,%d", res.Status[0], res.Status[1])
	}

	if res.Note5xx != "" && res.Status[0] < 500 && res.Status[1] < 500 {
		v.baseRefusal[k.Route+" ["+k.Variant+"] as "+k.Ident] = res.Note5xx
	} else if res.Note5xx != "" {
		if v.fivexx[k.Route] == nil {
			v.fivexx[k.Route] = map[string]int{}
		}

		msg := res.Note5xx
		if i := strings.Index(msg, `"msg":`); i >= 0 {
			msg = msg[i:]
		}

		msg = scratchRE.ReplaceAllString(msg, "<scratch>")

		if len(v.fivexx[k.Route]) < 5000 || v.fivexx[k.Route][msg] > 0 {
			v.fivexx[k.Route][msg]++
		}
	}

	if len(v.slowest) < 8 || res.Micros > v.slowest[len(v.slowest)-1].us {
		v.slowest = append(v.slowest, slow{res.Micros, k.Ident + " " + k.Req.show()})
		sort.Slice(v.slowest, func(i, j int) bool { return v.slowest[i].us > v.slowest[j].us })

		if len(v.slowest) > 8 {
			v.slowest = v.slowest[:8]
		}
	}

	if res.Panic != "" {
		if trace {
			fmt.Fprintf(os.Stderr, "PANIC %s as %s (%s) [%s] at %s: %s :: %s\n", k.Route, k.Ident, k.Loggers, strings.Join(devKinds(k.Devs), "+"), res.Site, res.Panic, k.Req.show())
		}

		if len(v.hits) < 200000 {
			v.hits = append(v.hits, hit{k: k, res: res})
		} else {
			v.r.Capped("more than 200000 panicking cases: the remainder is not grouped")
		}
	}
}

// finish groups the panics into cells: route x deviation kind x panic site. A
// case with several deviations is attributed to the smaller case (the
// well-formed request, or one of its deviations alone) that panics at the same
// site on the same route as the same identity, if there is one.
func (v *verdict) finish() {
	type key struct{ route, ident, site string }

	baseHit := map[key]bool{}
	singleHit := map[key]map[string]bool{}
	anyIdentBase := map[[2]string]bool{}

	for _, h := range v.hits {
		if h.crash != "" {
			continue
		}

		ky := key{h.k.Route, h.k.Ident, h.res.Site}

		switch len(h.k.Devs) {
		case 0:
			baseHit[ky] = true
			anyIdentBase[[2]string{h.k.Route, h.res.Site}] = true
		case 1:
			if singleHit[ky] == nil {
				singleHit[ky] = map[string]bool{}
			}

			singleHit[ky][slotKind(h.k.Devs[0])] = true
		}
	}

	for _, h := range v.hits {
		if h.crash != "" {
			cell := routeCell(h.k.Route) + ":process-crash"
			v.r.Violation(cell, 1<<20, map[string]any{"route": h.k.Route, "identity": h.k.Ident, "deviations": h.k.Devs, "request": h.k.Req, "request_shown": h.k.Req.show(), "worker_log_tail": lastLines(h.crash, 40)},
				"the worker process serving this request died (a panic outside the request's goroutine is not recoverable by the router): "+lastLines(firstPanicLine(h.crash), 1))

			continue
		}

		ky := key{h.k.Route, h.k.Ident, h.res.Site}
		kind := ""

		switch {
		case baseHit[ky] || anyIdentBase[[2]string{h.k.Route, h.res.Site}]:
			kind = "well-formed"
		case len(h.k.Devs) == 1:
			kind = slotKind(h.k.Devs[0])
		default:
			var alone []string

			for _, d := range h.k.Devs {
				if singleHit[ky][slotKind(d)] {
					alone = append(alone, slotKind(d))
				}
			}

			sort.Strings(alone)

			if len(alone) > 0 {
				kind = alone[0]
			} else {
				kind = strings.Join(devKinds(h.k.Devs), "+")
			}
		}

		cell := routeCell(h.k.Route) + ":" + kind + ":" + h.res.Site + ":" + panicClass(h.res.Panic)
		size := len(h.k.Devs)*100000 + h.k.Req.Target.Len() + h.k.Req.Body.Len()

		for _, hd := range h.k.Req.Headers {
			size += hd.Value.Len()
		}

		if h.k.Loggers != "server" {
			size += 50000
		}

		wit := witness{Route: h.k.Route, Identity: h.k.Ident, Loggers: h.k.Loggers, Deviations: h.k.Devs, Request: h.k.Req, Shown: h.k.Req.show(),
			Pass: []string{"first request (cold caches)", "second, identical request (warm caches)", "the preceding well-formed request"}[h.res.Pass], Panic: h.res.Panic, Site: h.res.Site, Frames: h.res.Frames}

		if h.k.Prelude != nil {
			wit.Prelude, wit.PreludeShown = h.k.Prelude, h.k.Prelude.show()
		}

		v.r.Violation(cell, size, wit, fmt.Sprintf("the handler of %s panicked (%s) in %s and the panic reached the router's last-resort recovery; request: %s, as %s", h.k.Route, h.res.Panic, h.res.Site, h.k.Req.show(), h.k.Ident))
	}

	sort.Slice(v.cands, func(i, j int) bool { return v.cands[i].seq < v.cands[j].seq })

	for _, c := range v.cands {
		v.r.Sample(c.v)
	}

	v.r.Set("status_histogram", v.statuses)
	v.r.Set("per_route", v.perRoute)
	v.r.Set("requests_refused_by_net_http_before_the_router", v.notParsed)
	v.r.Set("world_repairs", v.repaired)
	v.r.Set("cases_that_stopped_the_process", v.shutdowns)
	v.r.Set("panicking_cases", len(v.hits))
	// (the six alphabetically first messages per route)
	shown := map[string]map[string]int{}

	for route, msgs := range v.fivexx {
		keys := make([]string, 0, len(msgs))
		for m := range msgs {
			keys = append(keys, m)
		}

		sort.Strings(keys)

		if len(keys) > 6 {
			keys = keys[:6]
		}

		shown[route] = map[string]int{}
		for _, m := range keys {
			shown[route][m] = msgs[m]
		}
	}

	v.r.Set("own_5xx_answers_of_handlers", shown)
	v.r.Set("status_of_the_well_formed_requests_cold_warm", v.baseStatus)
	v.r.Set("refusals_of_well_formed_requests", v.baseRefusal)

	sl := []string{}
	for _, s := range v.slowest {
		sl = append(sl, fmt.Sprintf("%.1f ms: %s", float64(s.us)/1000, s.what))
	}

	v.r.Set("slowest_cases", sl)

	if len(v.hung) > 0 {
		sort.Strings(v.hung)
		v.r.Set("hung_cases", v.hung)
		v.r.Capped(fmt.Sprintf("%d case(s) were not answered within %s and were abandoned (not a verdict)", len(v.hung), caseLimit))
	}
}

func firstPanicLine(log string) string {
	for _, l := range strings.Split(log, "\n") {
		if strings.HasPrefix(l, "panic: ") || strings.HasPrefix(l, "fatal error: ") {
			return l
		}
	}

	return ""
}

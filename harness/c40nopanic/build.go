package main

// A well-formed request kept in structured form (so that a deviation can touch
// one path variable, one parameter, one header, one field), and its rendering.

import (
	"encoding/json"
	"regexp"
	"strconv"
	"strings"
)

type kv struct{ K, V string }

const (
	bodyNone = iota
	bodyJSON
	bodyForm
	bodyRaw
)

// build is a request under construction. Every string is raw (already
// percent-encoded where that matters) and may contain repeat markers (see mark).
type build struct {
	method   string
	endpoint string            // route pattern
	vars     map[string]string // path variable -> value
	path     string            // non-empty: sent instead of the rendered pattern
	query    []kv
	rawQuery *string
	headers  []kv

	bodyKind int
	json     any
	form     []kv
	raw      string
}

func (b *build) clone() *build {
	c := *b
	c.vars = map[string]string{}

	for k, v := range b.vars {
		c.vars[k] = v
	}

	c.query = append([]kv(nil), b.query...)
	c.headers = append([]kv(nil), b.headers...)
	c.form = append([]kv(nil), b.form...)
	c.json = deepCopy(b.json)

	if b.rawQuery != nil {
		s := *b.rawQuery
		c.rawQuery = &s
	}

	return &c
}

func deepCopy(v any) any {
	switch t := v.(type) {
	case map[string]any:
		m := make(map[string]any, len(t))
		for k, e := range t {
			m[k] = deepCopy(e)
		}

		return m
	case []any:
		a := make([]any, len(t))
		for i, e := range t {
			a[i] = deepCopy(e)
		}

		return a
	default:
		return v
	}
}

func (b *build) setHeader(name, value string) {
	for i := range b.headers {
		if strings.EqualFold(b.headers[i].K, name) {
			b.headers[i].V = value

			return
		}
	}

	b.headers = append(b.headers, kv{name, value})
}

func (b *build) dropHeader(name string) {
	out := b.headers[:0:0]

	for _, h := range b.headers {
		if !strings.EqualFold(h.K, name) {
			out = append(out, h)
		}
	}

	b.headers = out
}

func (b *build) header(name string) (string, bool) {
	for _, h := range b.headers {
		if strings.EqualFold(h.K, name) {
			return h.V, true
		}
	}

	return "", false
}

func (b *build) setQuery(name, value string) {
	for i := range b.query {
		if b.query[i].K == name {
			b.query[i].V = value

			return
		}
	}

	b.query = append(b.query, kv{name, value})
}

func (b *build) dropQuery(name string) {
	out := b.query[:0:0]

	for _, q := range b.query {
		if q.K != name {
			out = append(out, q)
		}
	}

	b.query = out
}

func (b *build) setForm(name, value string) {
	for i := range b.form {
		if b.form[i].K == name {
			b.form[i].V = value

			return
		}
	}

	b.form = append(b.form, kv{name, value})
}

func (b *build) dropForm(name string) {
	out := b.form[:0:0]

	for _, q := range b.form {
		if q.K != name {
			out = append(out, q)
		}
	}

	b.form = out
}

// pathVars lists the variables of a route pattern in order.
func pathVars(endpoint string) []string {
	var out []string

	for _, p := range strings.Split(endpoint, "/") {
		if strings.HasPrefix(p, "{{") && strings.HasSuffix(p, "}}") {
			out = append(out, strings.TrimSuffix(strings.TrimPrefix(p, "{{"), "}}"))
		}
	}

	return out
}

func (b *build) renderPath() string {
	if b.path != "" {
		return b.path
	}

	parts := strings.Split(b.endpoint, "/")

	for i, p := range parts {
		if strings.HasPrefix(p, "{{") && strings.HasSuffix(p, "}}") {
			parts[i] = b.vars[strings.TrimSuffix(strings.TrimPrefix(p, "{{"), "}}")]
		}
	}

	return strings.Join(parts, "/")
}

func joinKV(list []kv) string {
	var parts []string

	for _, q := range list {
		if q.V == "\x00flag" {
			parts = append(parts, q.K)
		} else {
			parts = append(parts, q.K+"="+q.V)
		}
	}

	return strings.Join(parts, "&")
}

// render produces the request a client would send.
func (b *build) render() request {
	target := b.renderPath()

	q := joinKV(b.query)
	if b.rawQuery != nil {
		q = *b.rawQuery
	}

	if q != "" || b.rawQuery != nil {
		target += "?" + q
	}

	req := request{Method: b.method, Target: unmark(target)}

	for _, h := range b.headers {
		req.Headers = append(req.Headers, header{h.K, unmark(h.V)})
	}

	switch b.bodyKind {
	case bodyJSON:
		j, err := json.Marshal(b.json)
		if err != nil {
			j = []byte("null")
		}

		req.HasBody = true
		req.Body = unmark(unwrapRaw(string(j)))
	case bodyForm:
		req.HasBody = true
		req.Body = unmark(joinKV(b.form))
	case bodyRaw:
		req.HasBody = true
		req.Body = unmark(b.raw)
	}

	return req
}

// ---- repeat markers ------------------------------------------------------------------------

// mark returns a placeholder for unit repeated n times; unmark turns a string
// with placeholders into pieces. The placeholder survives JSON encoding.
func mark(unit string, n int) string {
	return "⟦" + strconv.Itoa(n) + "⟧" + unit + "⟦/⟧"
}

var markRE = regexp.MustCompile(`⟦([0-9]+)⟧(.*?)⟦/⟧`)

func unmark(s string) text {
	var out text

	for {
		loc := markRE.FindStringSubmatchIndex(s)
		if loc == nil {
			break
		}

		if loc[0] > 0 {
			out = append(out, seg{S: s[:loc[0]]})
		}

		n, _ := strconv.Atoi(s[loc[2]:loc[3]])
		out = append(out, seg{S: s[loc[4]:loc[5]], N: n})
		s = s[loc[1]:]
	}

	if s != "" || len(out) == 0 {
		out = append(out, seg{S: s})
	}

	return out
}

// rawJSON is a JSON value given as text (numbers beyond float64, deep nesting …).
// It is encoded as a string with a sentinel and unwrapped after marshalling.
type rawJSON string

func (r rawJSON) MarshalJSON() ([]byte, error) {
	return json.Marshal("⟪" + string(r) + "⟫")
}

var rawRE = regexp.MustCompile(`"⟪(.*?)⟫"`)

func unwrapRaw(s string) string {
	return rawRE.ReplaceAllStringFunc(s, func(m string) string {
		var inner string

		_ = json.Unmarshal([]byte(m), &inner)

		return strings.TrimSuffix(strings.TrimPrefix(inner, "⟪"), "⟫")
	})
}

// ---- JSON tree access --------------------------------------------------------------------------

type jpath []any // string keys and int indexes

func (p jpath) String() string {
	var sb strings.Builder

	for _, e := range p {
		switch t := e.(type) {
		case string:
			sb.WriteString("/" + t)
		case int:
			sb.WriteString("/" + strconv.Itoa(t))
		}
	}

	if sb.Len() == 0 {
		return "/"
	}

	return sb.String()
}

func (p jpath) isPrefixOf(q jpath) bool {
	if len(p) > len(q) {
		return false
	}

	for i := range p {
		if p[i] != q[i] {
			return false
		}
	}

	return true
}

// walkJSON calls f for every node below the root (not the root itself).
func walkJSON(v any, at jpath, f func(p jpath, node any)) {
	switch t := v.(type) {
	case map[string]any:
		keys := make([]string, 0, len(t))
		for k := range t {
			keys = append(keys, k)
		}

		sortStrings(keys)

		for _, k := range keys {
			p := append(append(jpath{}, at...), k)
			f(p, t[k])
			walkJSON(t[k], p, f)
		}
	case []any:
		for i, e := range t {
			p := append(append(jpath{}, at...), i)
			f(p, e)
			walkJSON(e, p, f)
		}
	}
}

// setJSON replaces (or, with del, removes) the node at p. It returns the new root.
func setJSON(root any, p jpath, val any, del bool) any {
	if len(p) == 0 {
		return val
	}

	switch t := root.(type) {
	case map[string]any:
		k, ok := p[0].(string)
		if !ok {
			return root
		}

		if len(p) == 1 {
			if del {
				delete(t, k)
			} else {
				t[k] = val
			}

			return t
		}

		t[k] = setJSON(t[k], p[1:], val, del)

		return t
	case []any:
		i, ok := p[0].(int)
		if !ok || i < 0 || i >= len(t) {
			return root
		}

		if len(p) == 1 {
			if del {
				return append(t[:i:i], t[i+1:]...)
			}

			t[i] = val

			return t
		}

		t[i] = setJSON(t[i], p[1:], val, del)

		return t
	}

	return root
}

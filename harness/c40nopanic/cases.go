package main

// The plan: for every route its well-formed requests (variants), the deviation
// slots of each, and the enumeration of cases.

import (
	"encoding/base64"
	"fmt"
	"os"
	"sort"
	"strings"

	"github.com/tucats/ego/internal/router"
	"github.com/tucats/ego/internal/verifrt/report"
)

func sortStrings(s []string) { sort.Strings(s) }

// option is one value a slot can take.
type option struct {
	kind  string // coarse class, goes into the cell
	label string
	core  bool // also used in combinations of two deviations
	// onlyFirstIdent: the resulting request does not depend on the identity, so it is generated for the first one only
	onlyFirstIdent bool
	apply          func(b *build)
}

// slot is one thing that can deviate; a case holds at most one option per slot.
type slot struct {
	name  string
	class string // method | pathvar | path | param | query | header | body | field
	at    jpath  // class field: where
	opts  []option
}

func conflict(a, b *slot) bool {
	switch {
	case a.class == "path" && b.class == "pathvar", a.class == "pathvar" && b.class == "path":
		return true
	case a.class == "query" && b.class == "param", a.class == "param" && b.class == "query":
		return true
	case a.class == "body" && b.class == "field", a.class == "field" && b.class == "body":
		return true
	case a.class == "field" && b.class == "field":
		return a.at.isPrefixOf(b.at) || b.at.isPrefixOf(a.at)
	case a.class == "method" && (b.class == "body" || b.class == "field"), b.class == "method" && (a.class == "body" || a.class == "field"):
		return false
	}

	return false
}

type identity struct {
	Name   string
	User   string
	Bearer string
	Basic  string
}

// variant is one well-formed request of a route.
type variant struct {
	name  string
	route string // METHOD endpoint
	flags router.VerifC20Flags
	lean  bool // costly handler: core values only, no pairs
	mk    func(id identity) *build
}

type plan struct {
	w         *world
	thorough  bool
	maxDevs   int
	idents    []identity
	variants  []variant
	generic   []string // routes without a hand-written payload
	stop      []string
	counts    map[string]int64
	slotCount map[string]int
}

var stopRoutes = map[string]string{
	"POST /services/admin/down/":      "router.DownHandler calls RequestShutdown (takes ServerShutdownLock for good, then os.Exit)",
	"POST /services/cluster/shutdown": "cluster.ClusterShutdownHandler ends in router.DownHandler",
}

func newPlan(w *world, thorough bool) *plan {
	p := &plan{w: w, thorough: thorough, maxDevs: 1, counts: map[string]int64{}, slotCount: map[string]int{}}
	if thorough {
		p.maxDevs = 2
	}

	for _, u := range []struct{ label, user string }{{"administrator", adminName}, {"non-admin-all-permissions", powerName}, {"plain-user", plainName}} {
		p.idents = append(p.idents, identity{
			Name: u.label, User: u.user, Bearer: "Bearer " + w.tokens[u.user],
			Basic: "Basic " + base64.StdEncoding.EncodeToString([]byte(u.user+":"+password(u.user))),
		})
	}

	for _, f := range w.routes {
		vs := p.variantsOf(f)
		p.variants = append(p.variants, vs...)

		if _, ok := stopRoutes[f.Method+" "+f.Endpoint]; ok {
			p.stop = append(p.stop, f.Method+" "+f.Endpoint+": "+stopRoutes[f.Method+" "+f.Endpoint])
		}
	}

	if len(p.stop) != len(stopRoutes) {
		report.Fatal("the routes that stop the process are not where the harness expects them: found %v", p.stop)
	}

	return p
}

// ---- enumeration ------------------------------------------------------------------------------

// What a tier enumerates (see the claim): per identity, which values of a slot
// are used alone, and which pairs of slots are combined.
//
//	quick     administrator: the core values of every slot; non-admin with all
//	          permissions: one value per slot; plain user: the well-formed request.
//	          The well-formed request also with every logger active. The second
//	          (warm-cache) request only for GET/HEAD routes and well-formed requests.
//	thorough  administrator: core values of every slot plus every value of the
//	          path-variable, parameter, query, path and whole-body slots; non-admin:
//	          core values; plain user: one value per slot. Pairs (administrator):
//	          every two of the path-variable/parameter/body/body-field slots, and each
//	          of those with method, Authorization, Content-Type and Accept (first core
//	          value of each). Always both requests (cold, warm).
//	full      (C40_DEPTH=full, thorough tier) every value of every slot for every
//	          identity, core values also with every logger, pairs over all slots.
//
// Costly well-formed requests (lean: an Argon2id or bcrypt run or a /proc walk
// per accepted request) use one value per slot in quick and core values above.
func (p *plan) generate(yield func(kase)) {
	seq := 0

	emit := func(v *variant, id identity, loggers string, b *build, devs []dev, passes int) {
		seq++
		yield(kase{Seq: seq, Route: v.route, Variant: v.name, Ident: id.Name, Loggers: loggers, Devs: devs, Passes: passes, Req: b.render()})
	}

	emitSeq := func(v *variant, id identity, pre, b *build, devs []dev) {
		seq++

		pr := pre.render()
		yield(kase{Seq: seq, Route: v.route, Variant: v.name, Ident: id.Name, Loggers: "server", Devs: devs, Passes: 1, Req: b.render(), Prelude: &pr})
		p.counts["after-a-well-formed-request"]++
	}

	only := os.Getenv("C40_ONLY")
	full := p.thorough && os.Getenv("C40_DEPTH") == "full"
	deep := map[string]bool{"pathvar": true, "param": true, "body": true, "field": true}
	wide := map[string]bool{"pathvar": true, "param": true, "body": true, "path": true, "query": true}
	partner := map[string]bool{"method": true, "header:Authorization": true, "header:Content-Type": true, "header:Accept": true}

	for vi := range p.variants {
		v := &p.variants[vi]

		if only != "" {
			hit := false

			for _, o := range strings.Split(only, "|") {
				if strings.Contains(v.route, o) {
					hit = true
				}
			}

			if !hit {
				continue
			}
		}

		for ii, id := range p.idents {
			base := v.mk(id)
			slots := p.slotsOf(v, base, id)
			admin, plain := ii == 0, ii == len(p.idents)-1
			reads := base.method == "GET" || base.method == "HEAD"

			passes := func(isBase bool) int {
				if p.thorough || isBase || reads {
					return 2
				}

				return 1
			}

			if admin {
				n := 0
				for _, s := range slots {
					n += len(s.opts)
				}

				p.slotCount[v.route+" ["+v.name+"]"] = n
			}

			// the well-formed request, with the usual loggers and with all of them
			emit(v, id, "server", base, nil, 2)
			emit(v, id, "all", base, nil, 2)
			p.counts["well-formed"] += 2

			if os.Getenv("C40_BASES") != "" {
				continue
			}

			// level of this identity: 0 nothing, 1 one value per slot, 2 core values, 3 core + every value of the wide slots, 4 everything
			level := 0

			switch {
			case full:
				level = 4
			case p.thorough && admin:
				level = 3
			case p.thorough && !plain, !p.thorough && admin:
				level = 2
			case p.thorough && plain, !p.thorough && !plain:
				level = 1
			}

			if v.lean && level > 0 {
				if p.thorough {
					level = 2
				} else {
					level = 1
				}
			}

			for si := range slots {
				s := &slots[si]
				firstCore := true

				for oi := range s.opts {
					o := &s.opts[oi]
					rep := o.core && firstCore

					if o.core {
						firstCore = false
					}

					if o.onlyFirstIdent && !admin {
						continue
					}

					use := false

					switch level {
					case 1:
						use = rep
					case 2:
						use = o.core
					case 3:
						use = o.core || wide[s.class]
					case 4:
						use = true
					}

					if !use {
						continue
					}

					b := base.clone()
					o.apply(b)
					d := []dev{{Slot: s.name, Kind: o.kind, Label: o.label}}
					emit(v, id, "server", b, d, passes(false))
					p.counts["one-deviation"]++

					if (full && o.core) || (p.thorough && admin && rep && deep[s.class]) {
						emit(v, id, "all", b, d, 2)
						p.counts["one-deviation-all-loggers"]++
					}
				}
			}

			// two-request sequences (administrator): the deviated request is preceded, in the same pristine
			// world, by the well-formed request, so that what the first one cached is what the second one meets
			if admin && reads {
				p.sequences(v, id, base, slots, emitSeq)
			}

			if p.maxDevs < 2 || v.lean || (!admin && !full) {
				continue
			}

			// two deviations in different, compatible slots (the first core value of each slot)
			first := func(s *slot) *option {
				for oi := range s.opts {
					if s.opts[oi].core {
						return &s.opts[oi]
					}
				}

				return nil
			}

			for si := range slots {
				for sj := si + 1; sj < len(slots); sj++ {
					a, c := &slots[si], &slots[sj]
					if conflict(a, c) {
						continue
					}

					if !full {
						da, dc := deep[a.class], deep[c.class]
						if !(da && dc) && !(da && partner[c.name]) && !(dc && partner[a.name]) {
							continue
						}
					}

					oa, oc := first(a), first(c)
					if oa == nil || oc == nil {
						continue
					}

					if oa.onlyFirstIdent && oc.onlyFirstIdent && !admin {
						continue
					}

					b := base.clone()
					oa.apply(b)
					oc.apply(b)
					emit(v, id, "server", b, []dev{{Slot: a.name, Kind: oa.kind, Label: oa.label}, {Slot: c.name, Kind: oc.kind, Label: oc.label}}, 2)
					p.counts["two-deviations"]++
				}
			}
		}
	}
}

// assetFixtures are the assets the sequences of the asset routes are run on: two
// that are cached in minified (shorter) form, one rendered, three served as they are.
var assetFixtures = []string{"verif/app.js", "verif/app.css", "dashboard/dashboard-core.js", "test.asset.md", "verif/plain.txt", "dashboard/logo.png"}

// sequences emits, for a GET/HEAD route, cases of two requests: a plain
// well-formed GET first, then the deviated request. Asset routes: every Range
// value on every fixture (the first request is always a GET, also for the HEAD
// route). Other routes: the first core value of Range, If-None-Match,
// Accept-Encoding and Accept.
func (p *plan) sequences(v *variant, id identity, base *build, slots []slot, emit func(v *variant, id identity, pre, b *build, devs []dev)) {
	after := dev{Slot: "after-full-GET", Kind: "sequence", Label: "preceded by the well-formed GET of the same object"}
	isAsset := strings.HasPrefix(v.flags.Endpoint, "/assets/")

	for si := range slots {
		s := &slots[si]

		switch {
		case isAsset && s.name == "header:Range":
			for _, item := range assetFixtures {
				pre := base.clone()
				pre.method = "GET"
				pre.vars["item..."] = item

				for oi := range s.opts {
					o := &s.opts[oi]
					b := base.clone()
					b.vars["item..."] = item
					o.apply(b)
					emit(v, id, pre, b, []dev{after, {Slot: s.name, Kind: o.kind, Label: o.label + " on " + item}})
				}
			}
		case s.name == "header:Range" || s.name == "header:If-None-Match" || s.name == "header:Accept-Encoding" || s.name == "header:Accept":
			for oi := range s.opts {
				o := &s.opts[oi]
				if !o.core {
					continue
				}

				pre := base.clone()
				pre.method = "GET"
				b := base.clone()
				o.apply(b)
				emit(v, id, pre, b, []dev{after, {Slot: s.name, Kind: o.kind, Label: o.label}})

				break
			}
		}
	}
}

func (p *plan) coverage(r *report.R) {
	r.Set("routes", len(p.w.routes))
	r.Set("well_formed_requests", len(p.variants))
	r.Set("identities", len(p.idents))
	r.Set("cases_by_size", p.counts)
	r.Set("deviation_options_per_well_formed_request", p.slotCount)
	r.Set("stop_routes", p.stop)
	r.Set("routes_with_generic_payload", p.generic)

	names := []string{}
	for _, f := range p.w.routes {
		names = append(names, f.Method+" "+f.Endpoint)
	}

	r.Set("route_list", names)
}

func (p *plan) dump() {
	for _, f := range p.w.routes {
		fmt.Printf("%-7s %-55s auth=%v perms=%v light=%v accept=%v params=%v valid=%v redirect=%q file=%q\n", f.Method, f.Endpoint, f.MustAuthenticate, f.RequiredPermissions, f.Lightweight, f.AcceptMedia, f.Parameters, f.Validations, f.Redirect, f.Filename)
	}

	n := 0

	p.generate(func(k kase) {
		n++

		if len(k.Devs) == 0 && k.Ident == "administrator" && k.Loggers == "server" {
			fmt.Println("BASE", k.Route, "::", k.Req.show())
		}
	})

	fmt.Println("cases:", n, p.counts)

	keys := []string{}
	for k := range p.slotCount {
		keys = append(keys, k)
	}

	sort.Strings(keys)

	for _, k := range keys {
		fmt.Println("  options", p.slotCount[k], k)
	}

	fmt.Println("generic:", strings.Join(p.generic, "; "))
}

package main

// The well-formed request(s) of every route: what the route table declares
// (method, path variables, media types, parameters) completed by payloads and
// object names taken from the handlers' documentation.

import (
	"strings"

	"github.com/tucats/ego/internal/router"
)

const someUUID = "6f1c1b9e-2a53-4c3d-9a51-0e5c3f7a9b21"

// value of a path variable in the well-formed request
func varValue(endpoint, name string) string {
	switch {
	case strings.HasSuffix(name, "..."):
		return "dashboard/dashboard-core.js"
	case name == "dsn":
		return "vlite"
	case name == "table":
		return "t1"
	case name == "name" && strings.Contains(endpoint, "/cluster/"):
		return "verifcluster"
	case name == "name" && strings.Contains(endpoint, "/sample/users/"):
		return "tom"
	case name == "field" && strings.Contains(endpoint, "/sample/users/"):
		return "age"
	case name == "name":
		return plainName
	case name == "id":
		return someUUID
	case name == "value":
		return "12"
	case name == "code":
		return "204"
	case name == "field":
		return "name"
	}

	return "x1"
}

// a valid value of a declared parameter
func paramValue(name, typ string) string {
	switch name {
	case "start":
		return "1"
	case "limit":
		return "2"
	case "columns":
		return "id,name"
	case "sort", "order-by":
		return "id"
	case "filter":
		return "EQ(id,1)"
	case "user":
		return plainName
	case "class":
		return "server"
	case "since":
		return "2020-01-01"
	case "until":
		return "2099-01-01"
	case "lang", "language":
		return "fr"
	case "method":
		return "POST"
	case "path":
		return "/admin/users/"
	case "entry":
		return "@user"
	case "response_type":
		return "code"
	case "client_id":
		return "vclient"
	case "redirect_uri":
		return "https%3A%2F%2Fapp.verif.test%2Fcb"
	case "scope":
		return "openid"
	case "code_challenge":
		return "E9Melhoa2OwvFrEMTJguCHaoeK1t8URWbuGJSstw-cM"
	case "code_challenge_method":
		return "S256"
	}

	switch strings.ToLower(typ) {
	case "int":
		return "1"
	case "bool":
		return "true"
	case "duration":
		return "5m"
	case "list":
		return "a,b"
	}

	return "abc"
}

func obj(kvs ...any) map[string]any {
	m := map[string]any{}
	for i := 0; i+1 < len(kvs); i += 2 {
		m[kvs[i].(string)] = kvs[i+1]
	}

	return m
}

func arr(v ...any) []any { return v }

type payload struct {
	name  string
	ctype string
	json  any
	form  []kv
	raw   string
	kind  int
	query []kv
	lean  bool
	tweak func(b *build, id identity)
}

func jsonBody(name string, v any) payload {
	return payload{name: name, ctype: "application/json", json: v, kind: bodyJSON}
}

func formBody(name string, f ...kv) payload {
	return payload{name: name, ctype: "application/x-www-form-urlencoded", form: f, kind: bodyForm}
}

const sampleCode = "x := 40 + 2\nfmt.Println(x)\n"

// payloads of the routes that take one. The key is METHOD endpoint.
func payloadsOf(route string) []payload {
	switch route {
	case "POST /admin/ast", "POST /admin/format":
		return []payload{jsonBody("", obj("code", sampleCode)),
			{name: "text", ctype: "text/plain", raw: sampleCode, kind: bodyRaw}}
	case "POST /admin/run":
		return []payload{jsonBody("", obj("code", sampleCode, "trace", false, "debug", false, "console", false, "session", "", "debugInput", ""))}
	case "POST /admin/caches":
		return []payload{jsonBody("", obj("serviceSize", 10, "assetSize", 1000))}
	case "PATCH /admin/config":
		return []payload{jsonBody("", obj("ego.compiler.extensions", true, "ego.compiler.normalized", false))}
	case "POST /admin/config":
		return []payload{jsonBody("", arr("ego.compiler.extensions", "ego.server.token.key"))}
	case "POST /admin/loggers/":
		return []payload{jsonBody("", obj("loggers", obj("REST", true, "AUTH", false), "keep", 3))}
	case "PUT /admin/tokens/":
		return []payload{jsonBody("", arr(someUUID, "0b8f7c1e-9d6a-4b5c-8e7f-1a2b3c4d5e6f"))}
	case "POST /admin/users/":
		// a password costs one bcrypt run of cost 12 per accepted request: the variant with one is kept lean
		return []payload{jsonBody("", obj("name", "vnew", "permissions", arr("ego.logon", "ego.table.read"))),
			jsonBody("password", obj("name", "vnew", "password", "pw-new-c40", "permissions", arr("ego.logon"))).leanOne()}
	case "PATCH /admin/users/{{name}}":
		return []payload{jsonBody("", obj("name", plainName, "permissions", arr("+ego.table.read", "-ego.logon"))),
			jsonBody("password", obj("name", plainName, "password", "pw-changed-c40", "permissions", arr("+ego.table.read"))).leanOne()}
	case "POST /dsns/":
		return []payload{jsonBody("", obj("name", "vnewdsn", "provider", "sqlite", "database", "/nonexistent/c40.db", "host", "", "port", 0, "user", "u", "password", "p", "schema", "", "secured", false, "restricted", true, "rowid", true))}
	case "PATCH /dsns/{{dsn}}/":
		return []payload{jsonBody("", obj("name", "vlite", "provider", "sqlite", "database", "/nonexistent/c40.db", "restricted", true, "rowid", true)),
			{name: "postgres", ctype: "application/json", kind: bodyJSON, json: obj("name", "vpg", "provider", "postgres", "database", "vdb2", "host", "127.0.0.1", "port", 82, "user", "u2", "password", "p2", "schema", "s", "secured", true),
				lean: true, tweak: func(b *build, id identity) { b.vars["dsn"] = "vpg" }}}
	case "POST /dsns/@permissions":
		return []payload{
			// (the route's payload validation admits read|write|admin with an optional sign, the handler then
			// wants ego.dsn.read|write|admin: no action name satisfies both, the handler's own 400 is as far as a request gets)
			jsonBody("", obj("dsn", "vsecret", "user", plainName, "actions", arr("+read", "-write"))),
		}
	case "POST /dsns/{{dsn}}/tables/@generate":
		return []payload{jsonBody("", "list the names in t1"), jsonBody("parts", arr("list the", "names in t1"))}
	case "POST /dsns/{{dsn}}/tables/@sql", "PUT /dsns/{{dsn}}/tables/@sql":
		return []payload{
			jsonBody("", arr("select id, name from t1 where id > 0")),
			jsonBody("string", "update t1 set name = 'uno' where id = 1"),
			jsonBody("many", arr("insert into t1 (id, name) values (9, 'nine')", "delete from t1 where id = 9;")),
		}
	case "POST /dsns/{{dsn}}/tables/@transaction":
		return []payload{jsonBody("", arr(
			obj("operation", "symbols", "data", obj("who", "one", "n", 1)),
			obj("operation", "select", "table", "t1", "filters", arr("EQ(id,1)"), "columns", arr("name"), "emptyError", true),
			obj("operation", "readrows", "table", "t1", "filters", arr("GT(id,0)"), "columns", arr("id", "name")),
			obj("operation", "update", "table", "t1", "filters", arr("EQ(id,2)"), "data", obj("name", "{{who}}"), "columns", arr("name")),
			obj("operation", "insert", "table", "t1", "data", obj("id", 7, "name", "seven", "score", 7.5)),
			obj("operation", "delete", "table", "t1", "filters", arr("EQ(id,7)"), "errors", arr(obj("condition", "EQ(_rows_,0)", "status", 404, "msg", "none"))),
			obj("operation", "sql", "sql", "update t2 set v = v + 1"),
			obj("operation", "drop", "table", "t2"),
		))}
	case "PUT /dsns/{{dsn}}/tables/{{table}}":
		return []payload{jsonBody("", arr(obj("name", "id", "type", "int", "size", 0, "nullable", obj("specified", true, "value", false), "unique", obj("specified", true, "value", true)), obj("name", "label", "type", "string", "size", 20))).with(func(b *build, id identity) {
			b.vars["table"] = "tnew"
		})}
	case "PUT /dsns/{{dsn}}/tables/{{table}}/permissions", "DELETE /dsns/{{dsn}}/tables/{{table}}/permissions":
		return []payload{jsonBody("", arr("ego.table.read", "+ego.table.update", "-ego.table.delete"))}
	case "PUT /dsns/{{dsn}}/tables/{{table}}/rows":
		return []payload{
			jsonBody("", obj("id", 5, "name", "five", "score", 5.5)),
			jsonBody("array", arr(obj("id", 5, "name", "five", "score", 5.5), obj("id", 6, "name", "six", "score", nil))),
			jsonBody("rowset", obj("rows", arr(obj("id", 5, "name", "five", "score", 5.5)), "count", 1)),
			{name: "abstract", ctype: "application/json", kind: bodyJSON, query: []kv{{"abstract", "true"}},
				json: obj("columns", arr(obj("name", "id", "type", "int"), obj("name", "name", "type", "string")), "rows", arr(arr(5, "five"), arr(6, "six")), "count", 2)},
			{name: "upsert", ctype: "application/json", kind: bodyJSON, query: []kv{{"upsert", "id"}}, json: obj("id", 1, "name", "uno", "score", 1.25)},
		}
	case "PATCH /dsns/{{dsn}}/tables/{{table}}/rows":
		return []payload{
			{name: "", ctype: "application/json", kind: bodyJSON, query: []kv{{"filter", "EQ(id,1)"}}, json: obj("name", "uno", "score", 1.25)},
			{name: "abstract", ctype: "application/json", kind: bodyJSON, query: []kv{{"abstract", "true"}, {"filter", "EQ(id,1)"}},
				json: obj("columns", arr(obj("name", "name", "type", "string")), "rows", arr(arr("uno")), "count", 1)},
		}
	case "DELETE /dsns/{{dsn}}/tables/{{table}}/rows":
		return []payload{{name: "", kind: bodyNone, query: []kv{{"filter", "EQ(id,3)"}}}}
	case "GET /dsns/{{dsn}}/tables/{{table}}/rows":
		return []payload{{name: "", kind: bodyNone}, {name: "abstract", kind: bodyNone, query: []kv{{"abstract", "true"}, {"columns", "id,name"}, {"sort", "id"}, {"filter", "GT(id,0)"}, {"start", "1"}, {"limit", "2"}}}}
	case "GET /dsns/{{dsn}}/commit", "GET /dsns/{{dsn}}/rollback":
		return []payload{{name: "", kind: bodyNone, query: []kv{{"transaction", someUUID}}}}
	case "GET /services/admin/authenticate":
		// answers for token credentials only
		return []payload{{name: "", kind: bodyNone, tweak: func(b *build, id identity) { b.setHeader("Authorization", id.Bearer) }}}
	case "POST /services/admin/logon":
		return []payload{
			{name: "basic", kind: bodyNone},
			{name: "body", ctype: "application/json", kind: bodyJSON, json: obj("username", "?", "password", "?", "expiration", "1h"),
				tweak: func(b *build, id identity) {
					b.dropHeader("Authorization")
					b.json = obj("username", id.User, "password", password(id.User), "expiration", "1h")
				}},
		}
	case "POST /services/admin/webauthn/login/begin":
		return []payload{jsonBody("", obj("username", plainName)), jsonBody("discoverable", obj())}
	case "POST /services/admin/webauthn/login/finish", "POST /services/admin/webauthn/register/finish":
		cred := obj("id", "AQIDBAUGBwg", "rawId", "AQIDBAUGBwg", "type", "public-key", "authenticatorAttachment", "platform",
			"response", obj("clientDataJSON", "eyJ0eXBlIjoid2ViYXV0aG4uZ2V0IiwiY2hhbGxlbmdlIjoiYWJjIiwib3JpZ2luIjoiaHR0cHM6Ly9lZ28udmVyaWYudGVzdCJ9",
				"authenticatorData", "SZYN5YgOjGh0NBcPZHZgW4_krrmihjLHmVzzuoMdl2MFAAAAAQ", "signature", "MEUCIQDx", "userHandle", "dnBsYWlu", "attestationObject", "o2NmbXRkbm9uZWdhdHRTdG10oGhhdXRoRGF0YVjF"),
			"clientExtensionResults", obj())

		return []payload{{name: "", ctype: "application/json", kind: bodyJSON, json: cred, tweak: func(b *build, id identity) {
			b.setHeader("Cookie", "webauthn_challenge="+someUUID)
		}}}
	case "POST /services/admin/webauthn/register/begin":
		return []payload{jsonBody("", obj())}
	case "POST /services/cluster/flush":
		return []payload{jsonBody("", obj("cache_id", 2, "sender_id", "node-1", "hops", 0))}
	case "POST /services/cluster/shutdown":
		return []payload{jsonBody("", obj())}
	case "POST /services/cluster/remove":
		return []payload{{name: "", ctype: "application/json", kind: bodyJSON, json: obj(), query: []kv{{"node_id", "node-1"}}}}
	case "POST /oauth2/authorize":
		return []payload{formBody("", kv{"client_id", "vclient"}, kv{"redirect_uri", "https%3A%2F%2Fapp.verif.test%2Fcb"}, kv{"scope", "openid"}, kv{"state", "st4te"},
			kv{"code_challenge", "E9Melhoa2OwvFrEMTJguCHaoeK1t8URWbuGJSstw-cM"}, kv{"code_challenge_method", "S256"}, kv{"username", plainName}, kv{"password", "pw-vplain-c40"}, kv{"csrf_token", "csrf123"}).with(func(b *build, id identity) {
			b.setHeader("Cookie", "ego_oauth_csrf=csrf123")
			b.setForm("username", id.User)
			b.setForm("password", password(id.User))
		})}
	case "POST /oauth2/token":
		// the client authenticates in the form; an Authorization header would be read as client credentials
		noAuth := func(b *build, id identity) { b.dropHeader("Authorization") }

		return []payload{
			formBody("client_credentials", kv{"grant_type", "client_credentials"}, kv{"client_id", "vclient"}, kv{"client_secret", asSecret}, kv{"scope", "openid"}).with(noAuth),
			formBody("authorization_code", kv{"grant_type", "authorization_code"}, kv{"client_id", "vpublic"}, kv{"code", "nosuchcode"}, kv{"redirect_uri", "https%3A%2F%2Fapp.verif.test%2Fcb"}, kv{"code_verifier", "dBjftJeZ4CVP-mB92K27uhbUJU1p1r_wW1gFWFOEjXk"}).with(noAuth),
			formBody("refresh_token", kv{"grant_type", "refresh_token"}, kv{"client_id", "vpublic"}, kv{"refresh_token", "nosuchtoken"}).with(noAuth),
		}
	case "POST /oauth2/revoke":
		return []payload{formBody("", kv{"token", "abc.def.ghi"}, kv{"token_type_hint", "access_token"}, kv{"client_id", "vclient"}, kv{"client_secret", asSecret}).with(func(b *build, id identity) { b.dropHeader("Authorization") })}
	case "GET /oauth2/authorize":
		return []payload{{name: "", kind: bodyNone, query: []kv{{"response_type", "code"}, {"client_id", "vclient"}, {"redirect_uri", "https%3A%2F%2Fapp.verif.test%2Fcb"}, {"scope", "openid"},
			{"state", "st4te"}, {"code_challenge", "E9Melhoa2OwvFrEMTJguCHaoeK1t8URWbuGJSstw-cM"}, {"code_challenge_method", "S256"}}}}
	case "GET /services/admin/oauth/callback":
		return []payload{{name: "", kind: bodyNone, query: []kv{{"code", "idpcode"}, {"state", "nosuchstate"}}},
			{name: "error", kind: bodyNone, query: []kv{{"error", "access_denied"}, {"error_description", "the+user+said+no"}}}}
	case "GET /admin/validation/":
		return []payload{{name: "", kind: bodyNone}, {name: "entry", kind: bodyNone, query: []kv{{"entry", "@user"}}}, {name: "path", kind: bodyNone, query: []kv{{"method", "POST"}, {"path", "/admin/users/"}}}}
	case "GET /services/admin/log":
		return []payload{{name: "", kind: bodyNone}, {name: "filtered", kind: bodyNone, query: []kv{{"tail", "5"}, {"session", "1"}, {"class", "server,auth"}, {"msg", "server.*"}, {"since", "2020-01-01"}, {"until", "2099-01-01"}, {"archive", "false"}}}}
	case "DELETE /admin/caches":
		return []payload{{name: "", kind: bodyNone}, {name: "class", kind: bodyNone, query: []kv{{"class", "dsn,auth,tokens"}}}}
	case "POST /services/unit-test/echo", "PUT /services/unit-test/echo", "PATCH /services/unit-test/echo":
		return []payload{jsonBody("", obj("msg", "hello", "n", 1)), {name: "text", ctype: "text/plain", raw: "hello", kind: bodyRaw}}
	}

	return nil
}

// leanRoutes are routes whose handler is costly whatever the request says.
var leanRoutes = map[string]string{
	"GET /admin/serverinfo":      "gopsutil host.Info walks /proc",
	"POST /services/admin/logon": "every accepted logon seals a token under a fresh salt: one Argon2id run (32 MiB)",
}

func (p payload) leanOne() payload {
	p.lean = true

	return p
}

func (p payload) with(f func(b *build, id identity)) payload {
	p.tweak = f

	return p
}

func (p *plan) variantsOf(f router.VerifC20Flags) []variant {
	route := f.Method + " " + f.Endpoint
	pls := payloadsOf(route)

	if pls == nil {
		switch f.Method {
		case "POST", "PUT", "PATCH":
			// no hand-written payload: an empty object
			pls = []payload{jsonBody("", obj())}
			p.generic = append(p.generic, route)
		default:
			pls = []payload{{kind: bodyNone}}
		}
	}

	var out []variant

	for _, pl := range pls {
		pl := pl
		out = append(out, variant{name: pl.name, route: route, flags: f, lean: pl.lean || leanRoutes[route] != "", mk: func(id identity) *build {
			b := &build{method: f.Method, endpoint: f.Endpoint, vars: map[string]string{}}

			if b.method == router.AnyMethod || b.method == "" {
				b.method = "GET"
			}

			for _, v := range pathVars(f.Endpoint) {
				b.vars[v] = varValue(f.Endpoint, v)
			}

			accept := "application/json"
			if len(f.AcceptMedia) > 0 {
				accept = f.AcceptMedia[0]
			}

			b.setHeader("Accept", accept)
			// Basic credentials are the well-formed form (a bearer token costs the server an Argon2id
			// derivation per new salt; tokens appear among the deviations of the Authorization header)
			b.setHeader("Authorization", id.Basic)

			b.query = append(b.query, pl.query...)
			b.bodyKind = pl.kind

			switch pl.kind {
			case bodyJSON:
				b.json = deepCopy(pl.json)
			case bodyForm:
				b.form = append([]kv(nil), pl.form...)
			case bodyRaw:
				b.raw = pl.raw
			}

			if pl.ctype != "" {
				b.setHeader("Content-Type", pl.ctype)
			}

			if pl.tweak != nil {
				pl.tweak(b, id)
			}

			return b
		}})
	}

	return out
}

package main

// Requests as data (self-contained JSON, long runs kept as repeat counts), their
// HTTP/1.1 wire form, and the in-memory connection to a real net/http server
// whose handler is the server's router wrapped in a panic observer.

import (
	"bufio"
	"bytes"
	"fmt"
	"io"
	"net"
	"net/http"
	"runtime/debug"
	"strconv"
	"strings"
	"sync"
	"time"

	"github.com/tucats/ego/internal/router"
)

// seg is a piece of text: S repeated N times (N == 0 means once).
type seg struct {
	S string `json:"s"`
	N int    `json:"n,omitempty"`
}

// text is a string kept as pieces so that a megabyte of "x" stays small in a witness.
type text []seg

func lit(s string) text { return text{{S: s}} }

func rep(s string, n int) text { return text{{S: s, N: n}} }

func (t text) String() string {
	var sb strings.Builder

	for _, p := range t {
		n := p.N
		if n == 0 {
			n = 1
		}

		for i := 0; i < n; i++ {
			sb.WriteString(p.S)
		}
	}

	return sb.String()
}

func (t text) Len() int {
	n := 0

	for _, p := range t {
		k := p.N
		if k == 0 {
			k = 1
		}

		n += k * len(p.S)
	}

	return n
}

func cat(parts ...text) text {
	var out text

	for _, p := range parts {
		out = append(out, p...)
	}

	return out
}

type header struct {
	Name  string `json:"name"`
	Value text   `json:"value"`
}

// request is one HTTP request as the client sends it.
type request struct {
	Method  string   `json:"method"`
	Target  text     `json:"target"` // request-target: path and query, as sent
	Headers []header `json:"headers,omitempty"`
	Body    text     `json:"body,omitempty"`
	HasBody bool     `json:"has_body,omitempty"` // false: no body and no Content-Length
}

// wire renders the request as HTTP/1.1 bytes.
func (q *request) wire() []byte {
	var b bytes.Buffer

	b.WriteString(q.Method)
	b.WriteByte(' ')
	b.WriteString(q.Target.String())
	b.WriteString(" HTTP/1.1\r\nHost: " + hostName + "\r\nConnection: close\r\n")

	for _, h := range q.Headers {
		b.WriteString(h.Name)
		b.WriteString(": ")
		b.WriteString(h.Value.String())
		b.WriteString("\r\n")
	}

	if q.HasBody {
		body := q.Body.String()
		b.WriteString("Content-Length: " + strconv.Itoa(len(body)) + "\r\n\r\n")
		b.WriteString(body)
	} else {
		b.WriteString("\r\n")
	}

	return b.Bytes()
}

func (q *request) clone() request {
	c := *q
	c.Headers = append([]header(nil), q.Headers...)

	return c
}

func (q *request) setHeader(name string, v text) {
	for i := range q.Headers {
		if strings.EqualFold(q.Headers[i].Name, name) {
			q.Headers[i].Value = v

			return
		}
	}

	q.Headers = append(q.Headers, header{name, v})
}

func (q *request) dropHeader(name string) {
	out := q.Headers[:0:0]

	for _, h := range q.Headers {
		if !strings.EqualFold(h.Name, name) {
			out = append(out, h)
		}
	}

	q.Headers = out
}

func (q *request) show() string {
	s := q.Method + " " + shorten(q.Target.String(), 160)

	for _, h := range q.Headers {
		v := h.Value.String()
		if strings.EqualFold(h.Name, "Authorization") && len(v) > 40 {
			v = v[:30] + "…"
		}

		s += " | " + h.Name + ": " + shorten(v, 80)
	}

	if q.HasBody {
		s += " | body(" + strconv.Itoa(q.Body.Len()) + "): " + shorten(q.Body.String(), 160)
	}

	return s
}

func shorten(s string, n int) string {
	if len(s) > n {
		return s[:n] + "…(" + strconv.Itoa(len(s)) + " bytes)"
	}

	return s
}

// ---- the server side ---------------------------------------------------------------

type observation struct {
	Reached bool   // the router was called
	Panic   string // value of a panic that reached the top of Router.ServeHTTP's recovery
	Stack   string
}

type observer struct {
	mu  sync.Mutex
	rt  *router.Router
	obs observation
}

func (o *observer) ServeHTTP(w http.ResponseWriter, r *http.Request) {
	o.mu.Lock()
	o.obs.Reached = true
	o.mu.Unlock()

	defer func() {
		if p := recover(); p != nil {
			o.mu.Lock()
			o.obs.Panic = fmt.Sprint(p)
			o.obs.Stack = string(debug.Stack())
			o.mu.Unlock()

			// end the exchange the way the recovery would have
			w.WriteHeader(http.StatusInternalServerError)
		}
	}()

	o.rt.ServeHTTP(w, r)
}

func (o *observer) take() observation {
	o.mu.Lock()
	defer o.mu.Unlock()

	out := o.obs
	o.obs = observation{}

	return out
}

type tcpLikeConn struct {
	net.Conn
	local, remote net.Addr
}

func (c tcpLikeConn) LocalAddr() net.Addr  { return c.local }
func (c tcpLikeConn) RemoteAddr() net.Addr { return c.remote }

type memListener struct {
	ch   chan net.Conn
	done chan struct{}
}

func (l *memListener) Accept() (net.Conn, error) {
	select {
	case c := <-l.ch:
		return c, nil
	case <-l.done:
		return nil, net.ErrClosed
	}
}

func (l *memListener) Close() error   { return nil }
func (l *memListener) Addr() net.Addr { return &net.TCPAddr{IP: net.IPv4(127, 0, 0, 1), Port: 443} }

type server struct {
	l   *memListener
	obs *observer
}

func newServer(rt *router.Router) *server {
	s := &server{l: &memListener{ch: make(chan net.Conn), done: make(chan struct{})}, obs: &observer{rt: rt}}
	srv := &http.Server{Handler: s.obs, ErrorLog: nil}

	go func() { _ = srv.Serve(s.l) }()

	return s
}

type answer struct {
	Status  int
	Raw     []byte // the whole response
	Err     string // transport problem (time-out)
	Obs     observation
	Elapsed time.Duration
}

// roundTrip sends raw over a fresh in-memory connection and reads the answer to the end.
func (s *server) roundTrip(raw []byte, limit time.Duration) answer {
	cli, srv := net.Pipe()
	start := time.Now()

	s.l.ch <- tcpLikeConn{Conn: srv, local: &net.TCPAddr{IP: net.IPv4(127, 0, 0, 1), Port: 443}, remote: &net.TCPAddr{IP: net.IPv4(127, 0, 0, 1), Port: 50123}}

	_ = cli.SetDeadline(time.Now().Add(limit))

	go func() {
		// the server may answer (and close) before it has read everything
		_, _ = cli.Write(raw)
	}()

	resp, err := io.ReadAll(cli)
	_ = cli.Close()

	a := answer{Raw: resp, Elapsed: time.Since(start)}

	if err != nil && len(resp) == 0 {
		a.Err = err.Error()
	}

	if r, perr := http.ReadResponse(bufio.NewReader(bytes.NewReader(resp)), nil); perr == nil {
		a.Status = r.StatusCode
		_ = r.Body.Close()
	} else if a.Err == "" {
		a.Err = "unreadable response: " + perr.Error()
	}

	a.Obs = s.obs.take()

	return a
}

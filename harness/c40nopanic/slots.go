package main

// The deviation alphabet: what can be wrong with each part of a request.

import (
	"encoding/base64"
	"fmt"
	"sort"
	"strings"
)

const (
	longN = 5000   // "very long" for something inside the request line
	hugeN = 100000 // "huge" for a value
	mib   = 1 << 20
)

func opt(kind, label string, core bool, f func(b *build)) option {
	return option{kind: kind, label: label, core: core, apply: f}
}

func b64(s string) string { return base64.StdEncoding.EncodeToString([]byte(s)) }

// odd strings for a path segment (raw, as sent)
var oddSegments = []struct {
	label, v string
	core     bool
}{
	{"space", "%20", false}, {"dot", ".", false}, {"dotdot", "..", true}, {"encoded-dotdot-slash", "%2e%2e%2f", false}, {"encoded-slash", "a%2Fb", false},
	{"nul", "%00", true}, {"invalid-utf8", "%ff%fe", false}, {"quote", "'", true}, {"double-quote", "%22", false}, {"semicolon", "x;drop", false}, {"star", "*", false},
	{"percent", "%25", false}, {"braces", "%7B%7Bx%7D%7D", false}, {"minus-one", "-1", true}, {"zero", "0", false}, {"float", "1e9", false}, {"beyond-int64", "99999999999999999999", true},
	{"unicode", "%C3%BC%E2%82%AC", false}, {"upper-case", "VLITE", false}, {"at", "@sql", false}, {"newline", "%0A", false}, {"backslash", "%5C", false}, {"plus", "a+b", false}, {"colon", "a:b", false}, {"question", "%3F", false},
}

// odd strings for a query value (raw)
var oddValues = []struct {
	label, v string
	core     bool
}{
	{"quote", "'", true}, {"double-quote", "%22", false}, {"nul", "%00", true}, {"comma", ",", false}, {"commas", "a,,b", false}, {"open-paren", "(", false}, {"close-paren", ")", false},
	{"unicode", "%C3%BC%E2%82%AC", false}, {"invalid-utf8", "%ff", false}, {"bad-escape", "%zz", true}, {"space", "+", false}, {"newline", "%0A", false}, {"semicolon", "a;b", false},
	{"star", "*", false}, {"dotdot", "..%2F..", false}, {"percent", "%25s%25d", false}, {"braces", "%7B%7Bx%7D%7D", false}, {"minus", "-", false}, {"tilde", "~", false}, {"equals", "=", false}, {"ampersand-encoded", "%26", false},
}

var wrongInts = []string{"abc", "1.5", "-1", "0", "99999999999999999999", "-9223372036854775809", "%201", "1e3", "0x10", "1_000", "%2B1", "٣"}
var wrongBools = []string{"maybe", "2", "TRUE%20", "tru", "-1"}
var wrongDurations = []string{"5", "5x", "-5m", "1e9h", "9999999999h", "5m5", "m", "1.5.5s", "%2B5m"}

var namedOdd = map[string][]string{
	"filter":                {"EQ(", "EQ(id", "EQ(id,)", "EQ()", ")", "AND()", "NOT", "EQ(id,1", "EQ(id,1))", "EQ(nosuch,1)", "CONTAINS(name)", "EQ(id,1),", ",EQ(id,1)", "EQ(id,%22one)", "EQ(id,'one)", "NOT()", "AND(EQ(id,1))", "OR(EQ(id,1),)", "EQ(id,1)EQ(id,2)", "eq(id,1)", "EQ%20(id,1)", "HAS(name,)", "EQ(,)", "(((", "EQ(id,-)", "EQ(id,1.2.3)", "EQ(id,1e999)", mark("NOT(", 3000) + "EQ(id,1)" + mark(")", 3000)},
	"sort":                  {"~id", "-id", "id%20desc", "nosuch", ",", "~", "id,", ",id", "id,id", "~~id", "1", "id;drop"},
	"columns":               {"nosuch", "id,,name", "*", "count(*)", ",", "id,", "count(", "id%20as%20x", "_row_id_", "id,id"},
	"user":                  {"nosuchuser", adminName, "%2A", ""},
	"transaction":           {"nosuchtx", someUUID + "x", "00000000-0000-0000-0000-000000000000", "not-a-uuid"},
	"upsert":                {"nosuch", "id,name", ",", "id,", "_row_id_", "*"},
	"class":                 {"nosuch", "server,", ",", "server,,auth", "all", "SERVER", "-server"},
	"msg":                   {"*", "[", "\\", "server.[", "**", "?"},
	"since":                 {"yesterday", "2020-13-45", "0", "-1", "9999999999999", "2020-01-01T25:00:00Z", "12:00"},
	"until":                 {"tomorrow", "2020-13-45", "0", "1999-01-01"},
	"tail":                  {"-5", "0", "999999999"},
	"session":               {"-1", "0", "999999999"},
	"keep":                  {"-1", "0", "1", "999999999"},
	"order-by":              {"nosuch", ",", "size", "hits", "-name"},
	"lang":                  {"xx", "en-US", "*", "fr;q=1", "-"},
	"entry":                 {"nosuch", "@", "@nosuch", "user", "@user:"},
	"method":                {"BREW", "get", ""},
	"path":                  {"/nosuch", "admin/users", "/", "//", "/admin/users/%7B%7Bname%7D%7D"},
	"expires":               {"0s", "1ns", "87600h"},
	"grace":                 {"0s", "1ns", "-1s", "87600h"},
	"redirect_uri":          {"https%3A%2F%2Fevil.test%2Fcb", "notaurl", "%3A%2F%2F", "https%3A%2F%2Fapp.verif.test%2Fcb%23frag", "javascript%3Aalert(1)"},
	"response_type":         {"token", "code%20token", ""},
	"client_id":             {"nosuchclient", "vpublic"},
	"code_challenge_method": {"plain", "S512", ""},
	"code_challenge":        {"short", mark("A", 200)},
	"scope":                 {"nosuchscope", "openid%20profile%20email", "%20", "openid%20openid"},
	"state":                 {"", "%0d%0aSet-Cookie:x=1"},
	"error":                 {"", "server_error"},
	"code":                  {"", "%00"},
	"node_id":               {"", "nosuchnode"},
}

var rangeValues = []struct {
	v    string
	core bool
}{
	{"bytes=0-10", true}, {"bytes=5", true}, {"bytes=", true}, {"bytes=-", false}, {"bytes=5-", false}, {"bytes=-5", true}, {"bytes=10-5", true}, {"bytes=0-999999999999", false},
	{"bytes=99999999-", true}, {"bytes=0-1,3-4", false}, {"bytes=a-b", false}, {"items=0-1", false}, {"garbage", false}, {"", false}, {"bytes=-0", false},
	{"bytes=9223372036854775807-", false}, {"bytes=0-9223372036854775808", false}, {"bytes=%200%20-%201", false}, {"=", false}, {"bytes==0-1", false}, {"bytes=0--1", false},
	{"bytes=-1-2", false}, {"bytes=0-0", false}, {"bytes=-99999999999999999999", false}, {"bytes=1-", false}, {"bytes=0-,", false}, {"bytes=,", false}, {"bytes=0-1-2", false}, {"BYTES=0-1", false}, {"bytes 0-1", false},
	{"bytes=" + mark("0-1,", 2000) + "0-1", false},
}

var acceptValues = []struct {
	v    string
	core bool
}{
	{"", true}, {"*/*;q=", true}, {"text/html", true}, {"application/json;q=abc, */*", false}, {mark("*/*,", 2000) + "*/*", false}, {"application/vnd.ego.nosuch+json, */*", false}, {",", false}, {";", false},
	{"*/*, text/html", false}, {"text/html, */*", false}, {"text/plain", false}, {"application/json", false}, {"TEXT/PLAIN", false}, {"*", false}, {"/", false}, {"*/*;q=0", false}, {"application/*", false},
	{"text", false}, {"json", false}, {"text/html;q=0.9", false}, {mark("a", hugeN), false},
}

var languageValues = []struct {
	v    string
	core bool
}{
	{"fr", true}, {"es-MX,es;q=0.9,en;q=0.8", false}, {"", true}, {"*", false}, {"xx-YY", false}, {";q=1", true}, {"en;q=", false}, {"en;q=abc", false}, {",,,", false}, {"-", false}, {"fr-", false},
	{mark("a", hugeN), false}, {"en-US-x-twain-" + mark("a-", 500) + "z", false}, {"a-b-c-d-e-f-g-h-i", false}, {"fr;q=-1", false}, {"fr;q=2", false}, {"fr;;", false}, {"=", false}, {"fr, ", false}, {"q=1", false},
	{"en;q=1e400", false}, {"en;q=NaN", false}, {"_", false}, {"fr_FR", false}, {"i-klingon", false}, {"zh-Hant-TW", false}, {mark("fr,", 3000) + "es", false},
}

var contentTypeValues = []struct {
	v    string
	core bool
}{
	{"", true}, {"text/plain", true}, {"application/json; charset=", false}, {"application/json;;;", false}, {"multipart/form-data", true}, {"multipart/form-data; boundary=", false}, {"a/b/c", false}, {"/", false},
	{mark("a", hugeN), false}, {"application/vnd.ego.nosuch+json", false}, {"APPLICATION/JSON", false}, {"application/json; charset=utf-16", false}, {"text/html", false}, {"json", false}, {"text", false}, {";", false}, {"application/xml", false},
}

var etagValues = []struct {
	v    string
	core bool
}{
	{`"abc"`, true}, {"*", true}, {`W/"x"`, false}, {`""`, false}, {`"`, true}, {"garbage", false}, {mark("a", hugeN), false}, {`"a","b"`, false}, {"", false}, {`W/`, false}, {`,`, false},
}

var cookieValues = []struct {
	v    string
	core bool
}{
	{"", false}, {"webauthn_challenge=garbage", true}, {"webauthn_challenge=", true}, {"=;=", false}, {mark("a", hugeN), false}, {"ego_oauth_csrf=", false}, {"ego_oauth_csrf=x; ego_oauth_csrf=y", false},
	{"webauthn_challenge=" + someUUID + "; webauthn_challenge=other", false}, {";", false}, {"webauthn_challenge=\"", false}, {"a=b; c", false},
}

var otherHeaders = []struct {
	name string
	vals []string
}{
	{"Accept-Encoding", []string{"gzip", "gzip;q=0", "", "gzip, deflate, br", ";", "GZIP", "identity;q=0, *;q=0", "gzip;q=abc"}},
	{"X-Forwarded-For", []string{"1.2.3.4", "garbage", "", "1.2.3.4, 5.6.7.8", "::1", "[::1]:80", ","}},
	{"X-Forwarded-Proto", []string{"https", "garbage", ""}},
	{"Origin", []string{"https://ego.verif.test", "null", "garbage", ""}},
	{"X-Cluster-Node", []string{"node-1", ""}},
	{"X-Cluster-Token", []string{"garbage", ""}},
	{"If-Modified-Since", []string{"Mon, 02 Jan 2006 15:04:05 GMT", "garbage", "", "0"}},
	{"User-Agent", []string{"", mark("a", hugeN)}},
}

func (p *plan) authOptions(id identity) []option {
	var out []option

	free := func(label, v string, core bool) {
		o := opt("header-Authorization", label, core, func(b *build) { b.setHeader("Authorization", v) })
		o.onlyFirstIdent = true
		out = append(out, o)
	}

	dep := func(label, v string, core bool) {
		out = append(out, opt("header-Authorization", label, core, func(b *build) { b.setHeader("Authorization", v) }))
	}

	miss := opt("header-Authorization", "missing", true, func(b *build) { b.dropHeader("Authorization") })
	miss.onlyFirstIdent = true
	out = append(out, miss)

	tok := strings.TrimPrefix(id.Bearer, "Bearer ")
	flipped := tok[:len(tok)-1] + string("0123456789abcdef"[(strings.IndexByte("0123456789abcdef", tok[len(tok)-1])+1)%16])

	free("empty", "", true)
	free("Bearer", "Bearer", true)
	free("Bearer-space", "Bearer ", false)
	free("Basic", "Basic", true)
	free("Basic-space", "Basic ", false)
	free("Basic-not-base64", "Basic !!!notbase64", true)
	free("Basic-no-colon", "Basic "+b64("nocolon"), true)
	free("Basic-only-colon", "Basic "+b64(":"), false)
	free("Basic-no-password", "Basic "+b64(adminName+":"), false)
	free("Basic-no-user", "Basic "+b64(":pw"), false)
	free("Basic-wrong-password", "Basic "+b64(adminName+":wrong"), false)
	free("Basic-unknown-user", "Basic "+b64("nosuchuser:pw"), false)
	free("Basic-many-colons", "Basic "+b64("a:b:c:d"), false)
	free("Basic-nul", "Basic "+b64("a\x00b:c\x00d"), false)
	free("Basic-huge", "Basic "+mark(b64("aaa"), hugeN/4), false)
	free("Bearer-short", "Bearer x", true)
	free("Bearer-odd-hex", "Bearer abc", false)
	free("Bearer-hex-too-short", "Bearer ff454733", true)
	free("Bearer-magic-only", "Bearer ff45473300000000000000000000000000000000", false)
	free("Bearer-not-hex", "Bearer zzzzzzzzzzzzzzzzzzzzzzzzzzzzzzzzzzzzzzzzzzzzzzzzzzzzzzzzzzzzzzzz", false)
	free("Bearer-jwt-shaped", "Bearer a.b.c", true)
	free("Bearer-jwt-bad-payload", "Bearer eyJhbGciOiJFUzI1NiIsImtpZCI6InZlcmlmLWsxIn0.e30.", false)
	free("Bearer-jwt-alg-none", "Bearer eyJhbGciOiJub25lIn0.eyJzdWIiOiJ2YWRtaW4ifQ.", false)
	free("Bearer-jwt-two-dots-only", "Bearer ..", false)
	free("Bearer-jwt-header-not-json", "Bearer bm90anNvbg.e30.c2ln", false)
	free("Bearer-jwt-null-claims", "Bearer eyJhbGciOiJFUzI1NiIsImtpZCI6InZlcmlmLWsxIn0.bnVsbA.AAAA", false)
	free("Bearer-huge", "Bearer "+mark("ab", hugeN/2), false)
	free("Token-scheme", "Token abc", false)
	free("Negotiate", "Negotiate", false)
	free("Digest", `Digest username="vadmin", realm="verif", nonce="x", uri="/", response="y"`, false)
	free("Basic-oauth-client", "Basic "+b64("vclient:"+asSecret), false)
	free("Basic-oauth-client-wrong-secret", "Basic "+b64("vclient:wrong"), false)
	free("tab", "Bearer \t", false)
	free("only-spaces", "   ", false)

	dep("valid-Bearer", id.Bearer, true)
	dep("lower-case-basic-scheme", "basic "+strings.TrimPrefix(id.Basic, "Basic "), false)
	dep("lower-case-scheme", "bearer "+tok, false)
	dep("Bearer-truncated", "Bearer "+tok[:len(tok)/2], true)
	dep("Bearer-odd-length", "Bearer "+tok[:len(tok)-1], false)
	dep("Bearer-last-digit-changed", "Bearer "+flipped, false)
	dep("Bearer-trailing-garbage", id.Bearer+"zz", false)
	dep("Bearer-double-space", "Bearer  "+tok, false)
	dep("Bearer-token-twice", "Bearer "+tok+tok, false)
	dep("Basic-trailing-garbage", id.Basic+"!!", false)
	dep("two-headers", id.Bearer+"\r\nAuthorization: "+id.Basic, false)

	return out
}

func headerSlot(name string, vals []struct {
	v    string
	core bool
}, present bool) slot {
	s := slot{name: "header:" + name, class: "header"}

	for _, v := range vals {
		v := v
		s.opts = append(s.opts, opt("header-"+name, v.v, v.core, func(b *build) { b.setHeader(name, v.v) }))
	}

	if present {
		s.opts = append(s.opts, opt("header-"+name, "missing", true, func(b *build) { b.dropHeader(name) }))
	}

	if len(vals) > 0 {
		first := vals[0].v
		s.opts = append(s.opts, opt("header-"+name, "sent-twice", false, func(b *build) {
			cur, _ := b.header(name)
			b.setHeader(name, cur+"\r\n"+name+": "+first)
		}))
	}

	return s
}

func (p *plan) slotsOf(v *variant, base *build, id identity) []slot {
	var slots []slot

	f := v.flags

	// --- method
	{
		s := slot{name: "method", class: "method"}

		for _, m := range []string{"GET", "HEAD", "POST", "PUT", "PATCH", "DELETE", "OPTIONS", "TRACE", "CONNECT", "get", "BREW"} {
			m := m
			if m == base.method {
				continue
			}

			s.opts = append(s.opts, opt("method", m, m == "HEAD" || m == "POST" || m == "DELETE", func(b *build) { b.method = m }))
		}

		slots = append(slots, s)
	}

	// --- path variables
	for _, name := range pathVars(f.Endpoint) {
		name := name
		s := slot{name: "path:" + name, class: "pathvar"}
		set := func(val string) func(b *build) { return func(b *build) { b.vars[name] = val } }

		s.opts = append(s.opts, opt("path-empty", "empty", true, set("")))

		for _, o := range oddSegments {
			s.opts = append(s.opts, opt("path-odd", o.label+" "+o.v, o.core, set(o.v)))
		}

		s.opts = append(s.opts,
			opt("path-long", fmt.Sprintf("a x %d", longN), true, set(mark("a", longN))),
			opt("path-long", fmt.Sprintf("a x %d", hugeN), false, set(mark("a", hugeN))),
			opt("path-unknown", "nosuchobject", true, set("nosuchobject")),
		)

		switch {
		case strings.HasSuffix(name, "..."):
			for _, x := range []string{"a/b/../../../../etc/passwd", "dashboard/", "dashboard", ".", "dashboard/../dashboard/dashboard-core.js", "test.asset.md", "notfound.html", "dashboard//dashboard-core.js",
				"dashboard/dashboard-core.js/", "dashboard/nosuch.js", "%2e%2e/%2e%2e/defaults.json", "/etc/passwd", "dashboard/dashboard-core.js%00.png", "x.md", "x.", ".md", "dashboard/DASHBOARD-CORE.JS", "a/" + mark("b/", 2000) + "c"} {
				s.opts = append(s.opts, opt("path-odd", x, false, set(x)))
			}
		case name == "dsn":
			for _, x := range []string{"vpg", "vsecret", "VLITE"} {
				s.opts = append(s.opts, opt("path-other-object", x, x == "vpg", set(x)))
			}
		case name == "table":
			for _, x := range []string{"t2", "sqlite_master", "T1", "t1%20t2", "main.t1", "t1.x.y", "%22t1%22", "t1;", "@permissions", "@sql", "_row_id_"} {
				s.opts = append(s.opts, opt("path-other-object", x, x == "t2", set(x)))
			}
		case name == "name":
			for _, x := range []string{adminName, powerName, "VPLAIN", "vbootstrap"} {
				s.opts = append(s.opts, opt("path-other-object", x, x == adminName, set(x)))
			}
		case name == "code":
			for _, x := range []string{"99", "100", "600", "1000", "200", "404", "500", "-204", "204.0", "0"} {
				s.opts = append(s.opts, opt("path-odd", x, false, set(x)))
			}
		case name == "value":
			// (no large primes: the factor service counts up to the value, which takes minutes in the interpreter)
			for _, x := range []string{"1", "2", "-12", "1.5", "97", "65536"} {
				s.opts = append(s.opts, opt("path-odd", x, false, set(x)))
			}
		case name == "id":
			for _, x := range []string{strings.ToUpper(someUUID), someUUID[:35], "{" + someUUID + "}", "00000000-0000-0000-0000-000000000000"} {
				s.opts = append(s.opts, opt("path-odd", x, false, set(x)))
			}
		}

		slots = append(slots, s)
	}

	// --- the path as a whole
	{
		s := slot{name: "path", class: "path"}
		whole := func(label string, core bool, f func(p string) string) {
			s.opts = append(s.opts, opt("path-shape", label, core, func(b *build) { b.path = f(b.renderPath()) }))
		}

		whole("trailing-slash-toggled", true, func(p string) string {
			if strings.HasSuffix(p, "/") && len(p) > 1 {
				return strings.TrimSuffix(p, "/")
			}

			return p + "/"
		})
		whole("double-slashes", true, func(p string) string { return strings.ReplaceAll(p, "/", "//") })
		whole("extra-segment", true, func(p string) string { return strings.TrimSuffix(p, "/") + "/extra" })
		whole("two-extra-segments", false, func(p string) string { return strings.TrimSuffix(p, "/") + "/extra/more/" })
		whole("last-segment-removed", false, func(p string) string {
			q := strings.TrimSuffix(p, "/")
			if i := strings.LastIndex(q, "/"); i > 0 {
				return q[:i]
			}

			return p
		})
		whole("upper-case", false, strings.ToUpper)
		whole("dot-segments", false, func(p string) string { return "/." + strings.ReplaceAll(p, "/", "/./") })
		whole("dotdot-round-trip", false, func(p string) string { return "/x/.." + p })
		whole("encoded-slashes", false, func(p string) string { return "/" + strings.ReplaceAll(strings.TrimPrefix(p, "/"), "/", "%2F") })
		whole("very-long", false, func(p string) string { return strings.TrimSuffix(p, "/") + "/" + mark("a/", longN) })
		whole("matrix-parameters", false, func(p string) string { return p + ";v=1" })
		whole("encoded-question-mark", false, func(p string) string { return p + "%3Fx=1" })
		whole("fragment", false, func(p string) string { return p + "%23frag" })
		whole("nul", false, func(p string) string { return p + "%00" })
		whole("space", false, func(p string) string { return p + "%20" })
		whole("absolute-uri", false, func(p string) string { return "http://" + hostName + p })
		whole("absolute-uri-other-host", false, func(p string) string { return "http://other.test:99999" + p })
		whole("no-leading-slash-encoded", false, func(p string) string { return "/%2F" + strings.TrimPrefix(p, "/") })
		whole("backslashes", false, func(p string) string { return strings.ReplaceAll(p, "/", "%5C") })

		slots = append(slots, s)
	}

	// --- declared parameters
	pnames := make([]string, 0, len(f.Parameters))
	for n := range f.Parameters {
		pnames = append(pnames, n)
	}

	sort.Strings(pnames)

	inBase := map[string]string{}
	for _, q := range base.query {
		inBase[q.K] = q.V
	}

	// parameters the well-formed request carries although the route does not declare them
	for _, q := range base.query {
		if _, ok := f.Parameters[q.K]; !ok {
			pnames = append(pnames, q.K)
		}
	}

	for _, name := range pnames {
		name := name
		typ := strings.ToLower(f.Parameters[name])
		valid := paramValue(name, typ)

		if v, ok := inBase[name]; ok {
			valid = v
		}

		s := slot{name: "query:" + name, class: "param"}
		set := func(val string) func(b *build) { return func(b *build) { b.setQuery(name, val) } }

		if _, ok := inBase[name]; ok {
			s.opts = append(s.opts, opt("query-missing", "missing", true, func(b *build) { b.dropQuery(name) }))
		} else {
			s.opts = append(s.opts, opt("query-valid", valid, true, set(valid)))
		}

		s.opts = append(s.opts,
			opt("query-empty", "empty value", true, set("")),
			opt("query-empty", "no equals sign", false, set("\x00flag")),
			opt("query-duplicated", "twice", true, func(b *build) { b.setQuery(name, valid); b.query = append(b.query, kv{name, valid}) }),
			opt("query-duplicated", "twice, different", false, func(b *build) { b.setQuery(name, valid); b.query = append(b.query, kv{name, "zz"}) }),
			opt("query-duplicated", "three times empty", false, func(b *build) { b.setQuery(name, ""); b.query = append(b.query, kv{name, ""}, kv{name, ""}) }),
			opt("query-huge", fmt.Sprintf("a x %d", hugeN), true, set(mark("a", hugeN))),
			opt("query-huge", fmt.Sprintf("1 x %d", longN), false, set(mark("1", longN))),
			opt("query-case", "upper-case name", false, func(b *build) { b.dropQuery(name); b.setQuery(strings.ToUpper(name), valid) }),
		)

		var wrong []string

		switch typ {
		case "int":
			wrong = wrongInts
		case "bool":
			wrong = wrongBools
		case "duration":
			wrong = wrongDurations
		case "list":
			wrong = []string{",", ",,", "a,,b", ",a", "a,"}
		}

		for i, x := range wrong {
			s.opts = append(s.opts, opt("query-wrong-type", x, i < 2, set(x)))
		}

		if typ != "int" && typ != "bool" && typ != "duration" {
			for _, o := range oddValues {
				s.opts = append(s.opts, opt("query-odd", o.label+" "+o.v, o.core, set(o.v)))
			}
		}

		for i, x := range namedOdd[name] {
			s.opts = append(s.opts, opt("query-odd", x, i < 2, set(x)))
		}

		slots = append(slots, s)
	}

	// --- the query as a whole
	{
		s := slot{name: "query", class: "query"}
		add := func(label string, core bool, f func(q string) string) {
			s.opts = append(s.opts, opt("query-shape", label, core, func(b *build) {
				q := joinKV(b.query)
				if b.rawQuery != nil {
					q = *b.rawQuery
				}

				n := f(q)
				b.rawQuery = &n
			}))
		}
		amp := func(q, x string) string {
			if q == "" {
				return x
			}

			return q + "&" + x
		}

		add("undeclared parameter", true, func(q string) string { return amp(q, "bogus=1") })
		add("undeclared flag", false, func(q string) string { return amp(q, "bogus") })
		add("empty name", true, func(q string) string { return amp(q, "=1") })
		add("only separators", false, func(q string) string { return amp(q, "&&&") })
		add("bad escape", true, func(q string) string { return amp(q, "a=%zz") })
		add("bad escape in name", false, func(q string) string { return amp(q, "%zz=1") })
		add("semicolon separator", false, func(q string) string { return amp(q, "a=1;b=2") })
		add("bare question mark", false, func(q string) string { return "" })
		add("second question mark", false, func(q string) string { return amp(q, "?x=1") })
		add("2000 parameters", false, func(q string) string { return amp(q, mark("p=1&", 2000)+"p=1") })
		add("huge name", false, func(q string) string { return amp(q, mark("n", hugeN)+"=1") })
		add("nul name", false, func(q string) string { return amp(q, "%00=%00") })
		add("start and limit undeclared", false, func(q string) string { return amp(q, "start=-1&limit=0") })
		add("raw space", false, func(q string) string { return amp(q, "a=b+c%20d") })
		add("raw unicode", false, func(q string) string { return amp(q, "ü=€") })

		slots = append(slots, s)
	}

	// --- headers
	_, hasCT := base.header("Content-Type")
	_, hasCookie := base.header("Cookie")

	slots = append(slots,
		headerSlot("Range", rangeValues, false),
		headerSlot("Accept", acceptValues, true),
		headerSlot("Accept-Language", languageValues, false),
		slot{name: "header:Authorization", class: "header", opts: p.authOptions(id)},
		headerSlot("Content-Type", contentTypeValues, hasCT),
		headerSlot("If-None-Match", etagValues, false),
		headerSlot("Cookie", cookieValues, hasCookie),
	)

	for _, mt := range f.AcceptMedia {
		mt := mt
		hs := &slots[len(slots)-6]
		hs.opts = append(hs.opts, opt("header-Accept", mt, false, func(b *build) { b.setHeader("Accept", mt) }))
	}

	if base.bodyKind == bodyForm {
		cs := &slots[len(slots)-3]
		cs.opts = append(cs.opts, opt("header-Content-Type", "application/json", true, func(b *build) { b.setHeader("Content-Type", "application/json") }))
	} else {
		cs := &slots[len(slots)-3]
		cs.opts = append(cs.opts, opt("header-Content-Type", "application/x-www-form-urlencoded", true, func(b *build) { b.setHeader("Content-Type", "application/x-www-form-urlencoded") }),
			opt("header-Content-Type", "application/json", false, func(b *build) { b.setHeader("Content-Type", "application/json") }))
	}

	for _, h := range otherHeaders {
		h := h
		s := slot{name: "header:" + h.name, class: "header"}

		for i, x := range h.vals {
			x := x
			s.opts = append(s.opts, opt("header-"+h.name, x, i == 0, func(b *build) { b.setHeader(h.name, x) }))
		}

		slots = append(slots, s)
	}

	// --- the body as a whole
	{
		s := slot{name: "body", class: "body"}
		raw := func(kind, label string, core bool, body string) {
			s.opts = append(s.opts, opt(kind, label, core, func(b *build) {
				b.bodyKind, b.raw = bodyRaw, body
				if _, ok := b.header("Content-Type"); !ok {
					b.setHeader("Content-Type", "application/json")
				}
			}))
		}

		if base.bodyKind != bodyNone {
			s.opts = append(s.opts, opt("body-absent", "no body, no Content-Length", true, func(b *build) { b.bodyKind = bodyNone }))
		}

		raw("body-empty", "Content-Length: 0", true, "")

		for i, x := range []string{`{`, `{"a":`, `}{`, `nul`, `{"a":1,}`, `[1,2`, `"unterminated`, "\xff\xfe{}", "\xef\xbb\xbf{}", `{"a":1}{"b":2}`, `{"a":1} trailing`, `{'a':1}`, `{"a":01}`, `[,]`, "{\"a\":\"\x01\"}", `{"a":"\ud800"}`, `{"a":"\x"}`, ` `, "\n", `{"a":1e}`, `-`, `{"a" 1}`} {
			raw("body-invalid-json", x, i < 3, x)
		}

		for i, x := range []string{`[]`, `{}`, `null`, `"str"`, `1`, `true`, `[[]]`, `[null]`, `[{}]`, `{"":null}`, `[1,"a",null,{},[]]`, `0.5`, `-1`, `""`, `[""]`, `{"a":{"b":{"c":null}}}`, `[[[[[[1]]]]]]`, `1e400`, `99999999999999999999`, `{"a":1,"a":2}`} {
			raw("body-wrong-top-level-type", x, i < 4, x)
		}

		raw("body-huge", "1 MiB of x", true, mark("x", mib))
		raw("body-huge", "1 MiB JSON string", true, `"`+mark("x", mib)+`"`)
		raw("body-huge", "array of 300000 zeros", false, `[`+mark("0,", 300000)+`0]`)
		raw("body-huge", "nested 10001 arrays", true, mark("[", 10001)+mark("]", 10001))
		raw("body-huge", "nested 5000 objects", false, mark(`{"a":`, 5000)+"1"+mark("}", 5000))
		raw("body-huge", "object with 50000 keys", false, `{`+mark(`"k":1,`, 50000)+`"z":1}`)
		raw("body-huge", "1 MiB of spaces before a value", false, mark(" ", mib)+`{}`)
		raw("body-huge", "array of 100000 empty objects", false, `[`+mark("{},", 100000)+`{}]`)
		raw("body-huge", "array of 100000 strings", false, `[`+mark(`"select 1",`, 100000)+`"select 1"]`)

		if p.thorough {
			raw("body-huge", "33 MiB (beyond the 32 MiB cap)", false, mark("x", 33*mib))
		}

		for i, x := range []string{"a=1&b=2", "%zz", "&&&", "=", "a=1;b=2", mark("a=1&", 20000) + "a=1", "a=" + mark("x", mib)} {
			s.opts = append(s.opts, opt("body-form", x, i < 2, func(b *build) {
				b.bodyKind, b.raw = bodyRaw, x
				b.setHeader("Content-Type", "application/x-www-form-urlencoded")
			}))
		}

		s.opts = append(s.opts, opt("body-multipart", "multipart without parts", false, func(b *build) {
			b.bodyKind, b.raw = bodyRaw, "--x--\r\n"
			b.setHeader("Content-Type", "multipart/form-data; boundary=x")
		}))

		slots = append(slots, s)
	}

	// --- fields of the body
	switch base.bodyKind {
	case bodyJSON:
		walkJSON(base.json, nil, func(at jpath, node any) {
			slots = append(slots, fieldSlot(at, node))
		})

		// one more element / one more key at the top
		s := slot{name: "field:+", class: "field", at: jpath{"\x00extra"}}
		s.opts = append(s.opts, opt("body-field-unknown", "unknown key or element added", true, func(b *build) {
			switch t := b.json.(type) {
			case map[string]any:
				t["verif_unknown"] = "x"
			case []any:
				b.json = append(t, obj("verif_unknown", "x"))
			}
		}))
		slots = append(slots, s)
	case bodyForm:
		for _, fld := range base.form {
			name, valid := fld.K, fld.V
			s := slot{name: "form:" + name, class: "field", at: jpath{name}}
			set := func(val string) func(b *build) { return func(b *build) { b.setForm(name, val) } }

			s.opts = append(s.opts,
				opt("form-missing", "missing", true, func(b *build) { b.dropForm(name) }),
				opt("form-empty", "empty", true, set("")),
				opt("form-duplicated", "twice", false, func(b *build) { b.form = append(b.form, kv{name, valid}) }),
				opt("form-duplicated", "twice, different", false, func(b *build) { b.form = append(b.form, kv{name, "zz"}) }),
				opt("form-huge", fmt.Sprintf("a x %d", hugeN), true, set(mark("a", hugeN))),
			)

			for _, o := range oddValues {
				s.opts = append(s.opts, opt("form-odd", o.label+" "+o.v, o.core, set(o.v)))
			}

			for i, x := range namedOdd[name] {
				s.opts = append(s.opts, opt("form-odd", x, i < 2, set(x)))
			}

			switch name {
			case "grant_type":
				for _, x := range []string{"password", "implicit", "urn%3Aietf%3Aparams%3Aoauth%3Agrant-type%3Ajwt-bearer"} {
					s.opts = append(s.opts, opt("form-odd", x, false, set(x)))
				}
			case "token":
				for _, x := range []string{"a.b", "..", "eyJhbGciOiJFUzI1NiJ9.e30.AAAA", "eyJhbGciOiJub25lIn0.eyJqdGkiOiJ4In0.", "eyJhbGciOiJFUzI1NiJ9.bnVsbA.AAAA"} {
					s.opts = append(s.opts, opt("form-odd", x, false, set(x)))
				}
			case "password":
				s.opts = append(s.opts, opt("form-odd", "wrong password", true, set("wrong")))
			case "csrf_token":
				s.opts = append(s.opts, opt("form-odd", "other token", true, set("other")))
			}

			slots = append(slots, s)
		}
	}

	return slots
}

// fieldSlot lists what can be wrong with one node of a JSON body.
func fieldSlot(at jpath, node any) slot {
	s := slot{name: "field:" + at.String(), class: "field", at: at}
	set := func(kind, label string, core bool, val any) {
		s.opts = append(s.opts, opt(kind, label, core, func(b *build) { b.json = setJSON(b.json, at, val, false) }))
	}

	s.opts = append(s.opts, opt("body-field-absent", "absent", true, func(b *build) { b.json = setJSON(b.json, at, nil, true) }))
	set("body-field-null", "null", true, nil)

	wrong := func(vals ...any) {
		for i, v := range vals {
			set("body-field-wrong-type", fmt.Sprintf("%T %v", v, shorten(fmt.Sprint(v), 30)), i < 2, v)
		}
	}

	hugeStr := mark("A", hugeN)
	bigNums := func() {
		set("body-field-huge", "1e400", true, rawJSON("1e400"))
		set("body-field-huge", "99999999999999999999", true, rawJSON("99999999999999999999"))
		set("body-field-huge", "-9223372036854775809", false, rawJSON("-9223372036854775809"))
		set("body-field-huge", "9223372036854775807", false, rawJSON("9223372036854775807"))
		set("body-field-huge", "1e-400", false, rawJSON("1e-400"))
	}

	switch t := node.(type) {
	case string:
		wrong(123, true, arr("x"), obj("x", 1), 1.5, arr(), obj())
		set("body-field-huge", fmt.Sprintf("string of %d", hugeN), true, hugeStr)
		set("body-field-huge", "string of 1 MiB", false, mark("A", mib))
		set("body-field-empty", `""`, true, "")

		for i, x := range []string{"'", "\x00", "../../etc/passwd", "ü€", "{{x}}", "%s%d%n", " ", "\n", "*", ";", `"`, "\\", "a,b", "-1", "0", "true", "null", "�", strings.ToUpper(t), t + " "} {
			set("body-field-odd", fmt.Sprintf("%q", x), i < 2, x)
		}
	case bool:
		wrong("yes", 2, arr(true), obj(), 0, "")
		set("body-field-other-value", fmt.Sprint(!t), true, !t)
	case int, float64:
		wrong("abc", true, arr(1), obj(), "1", "")
		bigNums()

		for i, x := range []any{-1, 0, 1.5, 2147483648, -2147483649, 65536, 1} {
			set("body-field-odd", fmt.Sprint(x), i < 2, x)
		}
	case nil:
		wrong("abc", 1, arr(), obj())
	case []any:
		wrong("x", 1, obj(), obj("0", "a"), true)
		set("body-field-empty", "[]", true, arr())
		set("body-field-odd", "[null]", true, arr(nil))
		set("body-field-odd", "[[]]", false, arr(arr()))
		set("body-field-odd", "[{}]", false, arr(obj()))
		set("body-field-odd", `[1,"a",null,true]`, false, arr(1, "a", nil, true))
		set("body-field-huge", "100000 copies of the first element", false, rawJSON("["+mark(`"x",`, hugeN)+`"x"]`))

		if len(t) > 0 {
			set("body-field-odd", "first element twice", false, append(append([]any{}, deepCopy(t).([]any)...), deepCopy(t[0])))
		}
	case map[string]any:
		wrong("x", 1, arr(), arr(obj()), true)
		set("body-field-empty", "{}", true, obj())
		set("body-field-odd", `{"":null}`, false, obj("", nil))
		set("body-field-huge", "50000 keys", false, rawJSON("{"+mark(`"k":1,`, 50000)+`"z":1}`))
	}

	return s
}

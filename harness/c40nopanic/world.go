package main

// The world every case runs in: scratch copies of the library (asset root,
// services), a scratch profile, JSON-file user and DSN stores, a small SQLite
// database, the OAuth authorization-server and resource-server roles, and the
// server's real route table with its real handlers. After every case the world
// is put back to the same start (restore), so a case is self-contained.

import (
	"bytes"
	"crypto/aes"
	"crypto/cipher"
	"crypto/ecdsa"
	"crypto/elliptic"
	"crypto/rand"
	"database/sql"
	"encoding/base64"
	"encoding/hex"
	"encoding/json"
	"fmt"
	"io"
	"io/fs"
	"net/http"
	"os"
	"path/filepath"
	"sort"
	"strings"
	"time"

	"github.com/google/uuid"
	"golang.org/x/crypto/argon2"
	"golang.org/x/crypto/bcrypt"

	"github.com/tucats/ego/internal/caches"
	"github.com/tucats/ego/internal/cli/settings"
	"github.com/tucats/ego/internal/cli/ui"
	"github.com/tucats/ego/internal/commands"
	"github.com/tucats/ego/internal/defs"
	"github.com/tucats/ego/internal/dsns"
	"github.com/tucats/ego/internal/language/symbols"
	"github.com/tucats/ego/internal/language/tokens"
	"github.com/tucats/ego/internal/router"
	"github.com/tucats/ego/internal/runtime/profile"
	"github.com/tucats/ego/internal/server/assets"
	"github.com/tucats/ego/internal/server/auth"
	"github.com/tucats/ego/internal/server/oauth"
	"github.com/tucats/ego/internal/util"
	"github.com/tucats/ego/internal/verifrt/report"
)

const selfTestPath = "/verif/c40/panics"

const (
	tokenKey  = "verif-c40-token-key-0123456789abcdefghijklmnopqrstuvwxyz"
	instance  = "8c1f5a0e-3d5b-4f57-9a5e-1f4f2b7c9d10"
	provider  = "https://idp.verif.test"
	kid       = "verif-k1"
	hostName  = "ego.verif.test"
	asIssuer  = "https://ego.verif.test"
	asSecret  = "c40-client-secret"
	adminName = "vadmin"
	powerName = "vpower"
	plainName = "vplain"
)

var sealSalt = []byte("verif-c40-salt!!")

type world struct {
	scratch  string
	lib      string
	rt       *router.Router
	routes   []router.VerifC20Flags
	tokens   map[string]string
	idpKey   *ecdsa.PrivateKey
	settings map[string]string
	loggers  string

	userFile, dsnFile, dbFile, blacklist string
	pristine                             map[string][]byte // file -> bytes
	users                                map[string]defs.User
	dbStamp, blStamp                     string
	logFile                              string
}

func password(u string) string { return "pw-" + u + "-c40" }

func must(err error, what string) {
	if err != nil {
		report.Fatal("%s: %v", what, err)
	}
}

// copyTree copies a directory (regular files and directories only).
func copyTree(src, dst string) error {
	return filepath.WalkDir(src, func(p string, d fs.DirEntry, err error) error {
		if err != nil {
			return err
		}

		rel, _ := filepath.Rel(src, p)
		to := filepath.Join(dst, rel)

		if d.IsDir() {
			return os.MkdirAll(to, 0o755)
		}

		if !d.Type().IsRegular() {
			return nil
		}

		b, err := os.ReadFile(p)
		if err != nil {
			return err
		}

		return os.WriteFile(to, b, 0o644)
	})
}

// sealToken produces a native token in the server's v3 wire format (magic,
// salt, nonce, AES-256-GCM of the JSON of tokens.Token; key = Argon2id(token
// key, salt)) under one fixed salt.
func sealToken(key []byte, t tokens.Token) string {
	b, _ := json.Marshal(t)

	block, err := aes.NewCipher(key)
	must(err, "aes")

	gcm, err := cipher.NewGCM(block)
	must(err, "gcm")

	nonce := make([]byte, gcm.NonceSize())
	_, err = rand.Read(nonce)
	must(err, "nonce")

	out := append([]byte{0xFF, 0x45, 0x47, 0x33}, sealSalt...)
	out = append(out, gcm.Seal(nonce, nonce, b, nil)...)

	return hex.EncodeToString(out)
}

type idpTransport struct{ w *world }

func (t idpTransport) RoundTrip(r *http.Request) (*http.Response, error) {
	var body []byte

	switch r.URL.Path {
	case "/.well-known/openid-configuration":
		body, _ = json.Marshal(map[string]any{
			"issuer": provider, "jwks_uri": provider + "/jwks", "token_endpoint": provider + "/token",
			"authorization_endpoint": provider + "/authorize", "userinfo_endpoint": provider + "/userinfo",
		})
	case "/jwks":
		pub := t.w.idpKey.PublicKey
		b64 := func(b []byte) string { return base64.RawURLEncoding.EncodeToString(b) }
		x, y := pub.X.FillBytes(make([]byte, 32)), pub.Y.FillBytes(make([]byte, 32))
		body, _ = json.Marshal(map[string]any{"keys": []any{map[string]any{
			"kty": "EC", "crv": "P-256", "kid": kid, "use": "sig", "alg": "ES256", "x": b64(x), "y": b64(y)}}})
	default:
		// token endpoint etc.: the provider refuses (invalid_grant)
		body = []byte(`{"error":"invalid_grant"}`)

		return &http.Response{StatusCode: 400, Body: io.NopCloser(bytes.NewReader(body)), Header: http.Header{"Content-Type": {"application/json"}}, Request: r}, nil
	}

	return &http.Response{StatusCode: 200, Body: io.NopCloser(bytes.NewReader(body)), Header: http.Header{"Content-Type": {"application/json"}}, Request: r}, nil
}

// newWorld builds everything under scratch.
func newWorld(scratch string) *world {
	w := &world{scratch: scratch, tokens: map[string]string{}, pristine: map[string][]byte{}}
	egoPath := filepath.Join(scratch, "egopath")
	w.lib = filepath.Join(egoPath, "lib")

	must(os.MkdirAll(filepath.Join(egoPath, "oauth"), 0o700), "scratch")
	must(copyTree(filepath.Join(os.Getenv("VERIF_REPO"), "lib"), w.lib), "copy of the library")

	// fixtures of the harness's own in the scratch asset root: a script and a style
	// sheet that minification shortens (what is cached is then shorter than the file)
	must(os.MkdirAll(filepath.Join(w.lib, "assets", "verif"), 0o755), "asset fixtures")
	must(os.WriteFile(filepath.Join(w.lib, "assets", "verif", "app.js"), []byte("// a long leading comment that minification removes entirely ..............\n"+
		strings.Repeat("function   f ( a ,  b )  {\n    // add\n    return   a  +  b ;\n}\n\n", 20)), 0o644), "asset fixtures")
	must(os.WriteFile(filepath.Join(w.lib, "assets", "verif", "app.css"), []byte("/* a long leading comment that minification removes entirely .............. */\n"+
		strings.Repeat("body   {\n    margin :  0 ;\n    /* none */\n    padding :  0 ;\n}\n\n", 20)), 0o644), "asset fixtures")
	must(os.WriteFile(filepath.Join(w.lib, "assets", "verif", "plain.txt"), []byte(strings.Repeat("0123456789abcdef\n", 40)), 0o644), "asset fixtures")

	// the process environment names only scratch places
	must(os.Setenv("EGO_PATH", egoPath), "setenv")

	// --- settings
	settings.ClearDefaults()
	settings.SetDefault(defs.EgoPathSetting, egoPath)
	settings.SetDefault(defs.EgoLibPathSetting, w.lib)
	settings.SetDefault(defs.ServerTokenKeySetting, tokenKey)

	must(settings.Load("ego", "default"), "scratch profile")
	must(profile.InitProfileDefaults(profile.AllDefaults), "profile defaults")

	settings.SetDefault(defs.EgoPathSetting, egoPath)
	settings.SetDefault(defs.EgoLibPathSetting, w.lib)
	settings.SetDefault(defs.ServerTokenKeySetting, tokenKey)
	settings.SetDefault(defs.RuntimeDeepScopeSetting, "true")
	settings.SetDefault(defs.AllowFunctionRedefinitionSetting, "true")
	settings.SetDefault(defs.RuntimePanicsSetting, "false")
	settings.SetDefault(defs.JSMinifySetting, "true") // the documented default
	settings.SetDefault(defs.OAuthASEnabledSetting, "true")
	settings.SetDefault(defs.OAuthASIssuerSetting, asIssuer)
	settings.SetDefault(defs.OAuthASClientFileSetting, filepath.Join(egoPath, "clients.json"))
	settings.SetDefault(defs.OAuthASKeyFileSetting, filepath.Join(egoPath, "oauth", "as-key.pem"))

	// The last-resort recovery hands the panic on instead of answering 500:
	// the harness's own wrapper around the router sees it with its stack.
	settings.SetDefault(defs.ServerPanicRecoverySetting, "false")

	if util.PanicRecoveryEnabled() {
		report.Fatal("the last-resort panic recovery cannot be switched off through %s", defs.ServerPanicRecoverySetting)
	}

	defs.InstanceID = instance
	router.Realm = "verif"

	// what RunServer sets before it builds the route table
	started := time.Now()
	router.StartTime = started.Format(time.UnixDate)
	router.ServerStartTime = &started
	router.Version = "verif-c40"
	symbols.RootSymbolTable.SetAlways(defs.UserCodeRunningVariable, true)

	// --- user store
	var err error

	w.userFile = filepath.Join(scratch, "users.json")
	auth.AuthService, err = auth.NewFileService(w.userFile, "vbootstrap", "")
	must(err, "user store")

	w.blacklist = filepath.Join(scratch, "blacklist.db")
	must(tokens.SetDatabasePath("sqlite3://"+w.blacklist), "token blacklist")

	nonRoot := []string{defs.LogonPermission, defs.CodeRunPermission, defs.SQLPermission, defs.TableReadPermission, defs.TableWritePermission,
		defs.TableUpdatePermission, defs.TableDeletePermission, defs.TableAdminPermission, defs.DSNAdminPermission, defs.DSNReadPermission,
		defs.DSNWritePermission, defs.ServerAdminPermission}

	for _, u := range []struct {
		name  string
		perms []string
	}{
		{adminName, []string{defs.RootPermission, defs.LogonPermission}},
		{powerName, nonRoot},
		{plainName, []string{defs.LogonPermission}},
	} {
		h, err := bcrypt.GenerateFromPassword([]byte(password(u.name)), bcrypt.MinCost)
		must(err, "bcrypt")
		must(auth.AuthService.WriteUser(0, defs.User{Name: u.name, ID: uuid.New(), Password: string(h), Permissions: u.perms}), "user")
	}

	_ = auth.AuthService.DeleteUser(0, "vbootstrap")
	must(auth.AuthService.Flush(), "user store flush")

	// --- data base and DSN store
	w.dbFile = filepath.Join(scratch, "data.db")
	db, err := sql.Open("sqlite", w.dbFile)
	must(err, "data base")

	for _, q := range []string{
		"create table t1 (id integer, name text, score real, _row_id_ text)",
		"insert into t1 values (1, 'one', 1.5, 'r1'), (2, 'two', 2.5, 'r2'), (3, 'three', 3.5, 'r3')",
		"create table t2 (k text, v integer)",
		"insert into t2 values ('a', 1)",
	} {
		_, err := db.Exec(q)
		must(err, "data base: "+q)
	}

	_ = db.Close()

	w.dsnFile = filepath.Join(scratch, "dsns.json")
	dsns.DSNService, err = dsns.NewFileService(w.dsnFile)
	must(err, "DSN store")

	lite := dsns.NewDSN("vlite", "sqlite", "file:"+w.dbFile+"?_pragma=synchronous(off)", "", "", "", 0, false, false)
	must(dsns.DSNService.WriteDSN(0, adminName, *lite), "DSN")

	restricted := dsns.NewDSN("vsecret", "sqlite", "file:"+w.dbFile+"?_pragma=synchronous(off)", "", "", "", 0, true, false)
	must(dsns.DSNService.WriteDSN(0, adminName, *restricted), "DSN")
	must(dsns.DSNService.GrantDSN(0, powerName, "vsecret", dsns.DSNReadAction, true), "DSN grant")

	pg := dsns.NewDSN("vpg", "postgres", "vdb", "vdbuser", "", "127.0.0.1", 81, false, false)
	must(dsns.DSNService.WriteDSN(0, adminName, *pg), "DSN")
	must(dsns.DSNService.Flush(), "DSN store flush")

	// --- OAuth: resource-server role against an in-process identity provider,
	// authorization-server role with two registered clients
	w.idpKey, err = ecdsa.GenerateKey(elliptic.P256(), rand.Reader)
	must(err, "idp key")

	oauth.VerifC20SetIDPTransport(idpTransport{w})
	settings.SetDefault(defs.OAuthProviderSetting, provider)
	settings.SetDefault(defs.OAuthClientIDSetting, "ego-c40")
	settings.SetDefault(defs.OAuthClientSecretSetting, "ego-c40-secret")
	settings.SetDefault(defs.OAuthPermissionMapSetting, "sroot="+defs.RootPermission+",slogon="+defs.LogonPermission)
	settings.SetDefault(defs.OAuthRedirectURISetting, "https://"+hostName+"/services/admin/oauth/callback")

	// passkeys are offered, and the AI helper points at a closed local port (refused at once)
	settings.SetDefault(defs.WebAuthnAllowPasskeysSetting, "true")
	settings.SetDefault(defs.WebAuthnRPIDSetting, hostName)
	settings.SetDefault(defs.ServerAIEndpointSetting, "http://127.0.0.1:81/api/generate")
	settings.SetDefault(defs.ServerAIModelSetting, "verif")
	settings.SetDefault(defs.ServerAITimeoutSetting, "5s")

	asHash, err := bcrypt.GenerateFromPassword([]byte(asSecret), bcrypt.MinCost)
	must(err, "bcrypt")

	clients := []map[string]any{
		{"client_id": "vclient", "client_secret_hash": string(asHash), "redirect_uris": []string{"https://app.verif.test/cb"},
			"grant_types": []string{"authorization_code", "client_credentials", "refresh_token"}, "scopes": []string{"openid", "profile"}},
		{"client_id": "vpublic", "redirect_uris": []string{"https://app.verif.test/cb"},
			"grant_types": []string{"authorization_code", "refresh_token"}, "scopes": []string{"openid"}},
	}
	b, _ := json.Marshal(clients)
	must(os.WriteFile(filepath.Join(egoPath, "clients.json"), b, 0o600), "client registry")

	// --- the server log goes to a scratch file (the log endpoint serves it)
	w.logFile = filepath.Join(scratch, "server.log")
	ui.Active(ui.ServerLogger, true)

	// (RunServer writes a JSON log unless the profile says otherwise)
	settings.SetDefault(defs.LogFormatSetting, "json")
	ui.LogFormat = ui.JSONFormat

	must(ui.OpenLogFile(w.logFile, false), "server log")

	// --- the route table, built by the server's own set-up code, real handlers
	w.rt, err = commands.VerifC20ServerRouter()
	must(err, "route table")

	for _, r := range router.VerifC20Routes(w.rt) {
		w.routes = append(w.routes, r.VerifC20Flags())
	}

	if len(w.routes) < 90 {
		report.Fatal("the server route table has only %d routes", len(w.routes))
	}

	for _, need := range []string{"POST /oauth2/token", "GET /services/admin/oauth/callback", "POST /services/admin/down/", "GET /services/hello"} {
		found := false

		for _, f := range w.routes {
			if f.Method+" "+f.Endpoint == need {
				found = true
			}
		}

		if !found {
			b, _ := os.ReadFile(w.logFile)
			report.Fatal("the route table lacks %s; server log: %s", need, lastLines(string(b), 12))
		}
	}

	// --- a route of the harness's own whose handler panics: the run starts by
	// checking that such a panic is seen (it is not part of the enumerated table)
	w.rt.New(selfTestPath, func(session *router.Session, rw http.ResponseWriter, r *http.Request) int {
		var list []int

		return list[len(r.URL.Path)]
	}, http.MethodGet)

	// --- bearer tokens
	// (sealed once, by the parent: every derivation of the sealing key costs an Argon2id run)
	if js := os.Getenv("C40_TOKENS"); js != "" {
		must(json.Unmarshal([]byte(js), &w.tokens), "tokens handed down by the parent")
	} else {
		now := time.Now().UTC().Round(0)
		key := argon2.IDKey([]byte(tokenKey), sealSalt, 2, 32*1024, 1, 32)

		for _, u := range []string{adminName, powerName, plainName} {
			w.tokens[u] = sealToken(key, tokens.Token{Name: u, TokenID: uuid.New(), Created: now, Expires: now.Add(12 * time.Hour), AuthID: uuid.MustParse(instance)})
		}

		js, _ := json.Marshal(w.tokens)
		must(os.Setenv("C40_TOKENS", string(js)), "setenv")
	}

	// --- what "the same start" is
	for _, f := range []string{w.userFile, w.dsnFile, w.dbFile} {
		b, err := os.ReadFile(f)
		must(err, "pristine copy")

		w.pristine[f] = b
	}

	w.users = map[string]defs.User{}
	for n, u := range auth.AuthService.ListUsers(false) {
		u.Permissions = append([]string(nil), u.Permissions...)
		w.users[n] = u
	}

	w.settings = map[string]string{}
	for _, k := range settings.Keys() {
		w.settings[k] = settings.Get(k)
	}

	w.loggers = ui.ActiveLoggers()
	w.dbStamp = stamp(w.dbFile)
	w.blStamp = stamp(w.blacklist)

	return w
}

// stamp tells whether a SQLite data base was written: size and modification
// time of the file and of its journal / write-ahead log.
func stamp(path string) string {
	out := ""

	for _, side := range []string{"", "-wal", "-journal"} {
		st, err := os.Stat(path + side)
		if err != nil {
			out += "absent;"

			continue
		}

		out += fmt.Sprintf("%d/%d;", st.Size(), st.ModTime().UnixNano())
	}

	return out
}

var allCaches = []int{caches.DSNCache, caches.AuthCache, caches.UserCache, caches.TokenCache, caches.BlacklistCache, caches.SchemaCache,
	caches.SymbolTableCache, caches.DebugSessionCache, caches.WebAuthnChallengeCache, caches.OAuthCodeCache, caches.OAuthRefreshCache, caches.OAuthJWTCache}

// coldCaches empties every server cache and forgets failed logins.
func (w *world) coldCaches() {
	for _, c := range allCaches {
		caches.PurgeLocal(c)
	}

	router.VerifC20ResetLogins()
	router.VerifC40Reset()
}

// setLoggers activates exactly the named loggers ("" = the start set).
func (w *world) setLoggers(all bool) {
	ui.Active(ui.AllLoggers, all)

	if !all {
		for _, n := range strings.Split(w.loggers, ",") {
			if id := ui.LoggerByName(n); id >= 0 {
				ui.Active(id, true)
			}
		}
	}
}

// restore puts back whatever a case changed. It returns what it had to repair.
func (w *world) restore() []string {
	var repaired []string

	// settings
	changed := false

	for _, k := range settings.Keys() {
		if _, ok := w.settings[k]; !ok {
			_ = settings.Delete(k)
			changed = true
		}
	}

	keys := make([]string, 0, len(w.settings))
	for k := range w.settings {
		keys = append(keys, k)
	}

	sort.Strings(keys)

	for _, k := range keys {
		if settings.Get(k) != w.settings[k] || !settings.Exists(k) {
			settings.SetDefault(k, w.settings[k])

			changed = true
		}
	}

	if changed {
		repaired = append(repaired, "settings")
	}

	if util.PanicRecoveryEnabled() {
		report.Fatal("panic recovery is enabled after restoring the settings")
	}

	// user store (the files carry a comment header with the time of the last flush)
	if w.usersDiffer() {
		must(os.WriteFile(w.userFile, w.pristine[w.userFile], 0o600), "user store restore")

		svc, err := auth.NewFileService(w.userFile, "vbootstrap", "")
		must(err, "user store reload")

		auth.AuthService = svc

		repaired = append(repaired, "users")
	}

	// DSN store
	if b, err := os.ReadFile(w.dsnFile); err != nil || stripComments(b) != stripComments(w.pristine[w.dsnFile]) {
		must(os.WriteFile(w.dsnFile, w.pristine[w.dsnFile], 0o600), "DSN store restore")

		svc, err := dsns.NewFileService(w.dsnFile)
		must(err, "DSN store reload")

		dsns.DSNService = svc

		repaired = append(repaired, "dsns")
	}

	// data base
	if stamp(w.dbFile) != w.dbStamp {
		tmp := w.dbFile + ".new"
		must(os.WriteFile(tmp, w.pristine[w.dbFile], 0o600), "data base restore")
		must(os.Rename(tmp, w.dbFile), "data base restore")

		for _, side := range []string{"-journal", "-wal", "-shm"} {
			_ = os.Remove(w.dbFile + side)
		}

		w.dbStamp = stamp(w.dbFile)

		repaired = append(repaired, "database")
	}

	// revoked tokens (the blacklist data base is only touched when its file changed)
	if st := stamp(w.blacklist); st != w.blStamp {
		if n, err := tokens.Flush(); err != nil {
			report.Fatal("cannot empty the token blacklist: %v", err)
		} else if n > 0 {
			repaired = append(repaired, "blacklist")
		}

		w.blStamp = stamp(w.blacklist)
	}

	// stray files of the database kind next to the data base (created by odd DSN or table names)
	w.setLoggers(false)
	w.coldCaches()
	assets.FlushAssetCache()

	// the log never grows beyond one case
	_ = os.Truncate(w.logFile, 0)

	return repaired
}

func (w *world) usersDiffer() bool {
	have := auth.AuthService.ListUsers(false)
	if len(have) != len(w.users) {
		return true
	}

	for n, u := range w.users {
		h, ok := have[n]
		if !ok || h.Password != u.Password || strings.Join(h.Permissions, ",") != strings.Join(u.Permissions, ",") ||
			string(h.Passkeys) != string(u.Passkeys) || h.ID != u.ID || h.LastTokenAt != u.LastTokenAt {
			return true
		}
	}

	return false
}

// stripComments drops the comment lines of a store file.
func stripComments(b []byte) string {
	var sb strings.Builder

	for _, l := range strings.Split(string(b), "\n") {
		if t := strings.TrimSpace(l); t == "" || strings.HasPrefix(t, "//") || strings.HasPrefix(t, "#") {
			continue
		}

		sb.WriteString(l)
		sb.WriteByte('\n')
	}

	return sb.String()
}

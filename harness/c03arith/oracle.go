package main

// The reference table of C03, transcribed from docs/LANGUAGE.md
// (#typeConversion, "Combining values in an expression" and "Assigning to a
// variable") and from the property statement. It asserts only what those two
// texts state; every cell they leave open is marked skip and never judged.
//
//   E1  both operands of one type: no conversion; the result has that type and
//       fixed-width results wrap like Go.
//   E2  dynamic/relaxed, two non-constant operands of different types: both
//       are converted to "whichever type loses the least precision". Asserted
//       as: when every value of one type is exactly representable in the other
//       (int8 in int32, int32 in float64, float32 in complex64 ...) the result
//       has the wider type; when neither (or each) type holds the other
//       (int32/uint32, int64/float64, int/int64) the document does not name
//       the winner, so either operand type is accepted, with the value Go
//       computes in that type.
//   E3  dynamic/relaxed, one constant literal: the constant adapts to the
//       non-constant operand's type, even with loss (Go conversion: fraction
//       dropped toward zero, integer overflow wraps - the documented behaviour
//       with ego.runtime.precision.error=false). A float constant outside the
//       integer range has no documented result: open.
//   E4  strict, two non-constant operands of different types: rejected.
//   E5  strict, one constant literal: adapts only losslessly, otherwise
//       rejected. A float constant that merely rounds in a float32/complex64
//       target (2.7) is open (Go accepts it, the sentence "loses no
//       information" can be read either way).
//   Open on purpose: two constants of different kinds; comparisons with a
//   constant that does not fit losslessly (the document's examples are all
//   arithmetic; Ego answers them numerically); % on non-integers; ordering of
//   complex values; any zero divisor; negative "constants" (a minus sign is an
//   operator); unary minus on unsigned and complex values.
//   Assignment (used by the statement forms x = x + k, x += k, x++): dynamic -
//   the variable takes the type of the new value; relaxed - the value is
//   converted to the variable's type; strict - a non-constant value of another
//   type is rejected.

import (
	"strconv"

	ev "github.com/tucats/ego/internal/verifrt/egoeval"
)

// operand is one side of an operation.
type operand struct {
	N     ev.Num `json:"value"`
	Const bool   `json:"const"`
}

// tv is an acceptable printed result.
type tv struct {
	T string `json:"type"`
	V string `json:"value"`
}

// expect is one cell of the reference table.
type expect struct {
	Skip   bool     `json:"open,omitempty"`
	Reject bool     `json:"reject,omitempty"`
	Vals   []tv     `json:"accept,omitempty"`
	nums   []ev.Num // numeric results behind Vals (arithmetic only)
	Rule   string   `json:"rule,omitempty"`
}

var arithOps = []string{"+", "-", "*", "/", "%"}
var cmpOps = []string{"==", "!=", "<", "<=", ">", ">="}

var opNames = map[string]string{"+": "add", "-": "sub", "*": "mul", "/": "div", "%": "mod", "==": "eq", "!=": "ne", "<": "lt", "<=": "le", ">": "gt", ">=": "ge"}

func isCmp(op string) bool {
	switch op {
	case "==", "!=", "<", "<=", ">", ">=":
		return true
	}

	return false
}

func isInteger(t ev.TID) bool { return t.Class() == ev.Signed || t.Class() == ev.Unsigned }

// expectBin is the table cell of `l op r` in a type mode.
func expectBin(mode int, op string, l, r operand) expect {
	lt, rt := l.N.T, r.N.T

	var (
		cands []ev.TID
		rule  string
	)

	switch {
	case l.Const && r.Const:
		if lt != rt {
			return expect{Skip: true}
		}

		cands, rule = []ev.TID{lt}, "E1"

	case l.Const != r.Const:
		c, v := l, r
		if r.Const {
			c, v = r, l
		}

		target := v.N.T
		cands = []ev.TID{target}

		if c.N.T == target {
			rule = "E1"

			break
		}

		lossless := ev.Lossless(c.N, target)
		rule = "E3"

		if mode == ev.Strict {
			rule = "E5"
		}

		if !lossless {
			if isCmp(op) {
				return expect{Skip: true}
			}

			if mode == ev.Strict {
				if !isInteger(target) && !(c.N.T == ev.C128 && target.Class() != ev.Complex) {
					return expect{Skip: true} // the constant only rounds
				}

				return expect{Reject: true, Rule: rule}
			}
		}

	default:
		switch {
		case lt == rt:
			cands, rule = []ev.TID{lt}, "E1"
		case mode == ev.Strict:
			return expect{Reject: true, Rule: "E4"}
		default:
			rule = "E2"
			e1, e2 := ev.Embeds(lt, rt), ev.Embeds(rt, lt)

			switch {
			case e1 && !e2:
				cands = []ev.TID{rt}
			case e2 && !e1:
				cands = []ev.TID{lt}
			default:
				cands = []ev.TID{lt, rt}
			}
		}
	}

	e := expect{Rule: rule}

	for _, c := range cands {
		a, ok1 := ev.Conv(l.N, c)
		b, ok2 := ev.Conv(r.N, c)

		if !ok1 || !ok2 {
			return expect{Skip: true}
		}

		if (op == "/" || op == "%") && b.IsZero() {
			return expect{Skip: true}
		}

		if op == "%" && !isInteger(c) {
			return expect{Skip: true}
		}

		if isCmp(op) {
			res, ok := ev.Compare(op, a, b)
			if !ok {
				return expect{Skip: true}
			}

			e.addVal(tv{"bool", strconv.FormatBool(res)}, ev.Num{})

			continue
		}

		res, ok := ev.Arith(op, a, b)
		if !ok {
			return expect{Skip: true}
		}

		e.addVal(tv{c.String(), res.Text()}, res)
	}

	return e
}

func (e *expect) addVal(v tv, n ev.Num) {
	for _, x := range e.Vals {
		if x == v {
			return
		}
	}

	e.Vals = append(e.Vals, v)
	e.nums = append(e.nums, n)
}

// expectNeg is the cell of `-x` for a non-constant x: defined by the statement
// for every signed and floating type, in every mode.
func expectNeg(x ev.Num) expect {
	if c := x.T.Class(); c != ev.Signed && c != ev.Float {
		return expect{Skip: true}
	}

	n := ev.Neg(x)

	return expect{Vals: []tv{{n.T.String(), n.Text()}}, nums: []ev.Num{n}, Rule: "unary minus"}
}

// expectForm is the cell of the variable x after `x = x ± k`, which the
// statement also demands of `x ±= k` and `x++`/`x--` (k = the constant 1).
func expectForm(mode int, x ev.Num, sign string, k operand) expect {
	e := expectBin(mode, sign, operand{N: x}, k)
	if e.Skip || e.Reject {
		return e
	}

	out := expect{Rule: e.Rule + "+assign"}

	for _, n := range e.nums {
		switch mode {
		case ev.Dynamic:
			out.addVal(tv{n.T.String(), n.Text()}, n)
		case ev.Relaxed:
			c, ok := ev.Conv(n, x.T)
			if !ok {
				return expect{Skip: true}
			}

			out.addVal(tv{c.T.String(), c.Text()}, c)
		default:
			if n.T != x.T {
				return expect{Reject: true, Rule: out.Rule}
			}

			out.addVal(tv{n.T.String(), n.Text()}, n)
		}
	}

	return out
}

// C03: every numeric operation yields the value and type the language
// reference prescribes for its operand types, constness and type mode.
//
// E-enum against a reference table (oracle.go) transcribed from
// docs/LANGUAGE.md#typeConversion. Every operand pair of the bounded domain
// (14 numeric types x boundary values x constant/variable) is put through all
// arithmetic and comparison operators, unary minus and the statement forms
// x++ / x += k / x = x + k (and the -- / -= counterparts) in the three type
// modes. Programs are compiled and run in-process with the repository's
// compiler and bytecode packages exactly the way `ego run` drives them (one
// fresh compiler and symbol table per program); a stratified subset also runs
// in fresh processes of the real binary, and every disagreement with the table
// is re-run as a one-operation program in a fresh `ego run` process before it
// is reported.
package main

import (
	"fmt"
	"sort"
	"strings"
	"sync"
	"time"

	ev "github.com/tucats/ego/internal/verifrt/egoeval"
	"github.com/tucats/ego/internal/verifrt/enum"
	"github.com/tucats/ego/internal/verifrt/report"
)

// finding is one disagreement between a run and the reference table.
type finding struct {
	S       spec
	E       expect
	Got     string // what was observed: "type|value" or "error: ..."
	Failure string // rejected | accepted | type=<t> | value | cast
	Group   string // construct:failure (the root-cause class)
	Label   string // operand type label
	Size    int
	Via     string // inproc | ego
}

// outcome of judging one observed result against a table cell.
func judgeOne(e expect, o ev.Obs, present bool, errText string) (failure, got string) {
	if !present {
		if errText == "" {
			errText = "no result"
		}

		if e.Reject {
			return "", ""
		}

		return "rejected", "error: " + errText
	}

	typ := o.T
	if t, ok := ev.TypeByName(typ); ok {
		typ = t.String()
	}

	val := ev.CanonText(o.V)
	got = typ + "|" + val

	if e.Reject {
		return "accepted", got
	}

	typeSeen := false

	for _, v := range e.Vals {
		if v.T == typ {
			typeSeen = true

			if v.V == val {
				return "", got
			}
		}
	}

	if !typeSeen {
		return "type=" + typ, got
	}

	return "value", got
}

func shape(l, r operand) string {
	switch {
	case l.Const && r.Const:
		return "cc"
	case l.Const || r.Const:
		return "cv"
	case l.N.T == r.N.T:
		return "vv"
	}

	return "vx"
}

func constKind(n ev.Num) string {
	switch n.T {
	case ev.Int:
		return "int"
	case ev.F64:
		return "float"
	}

	return "imag"
}

// label names the operand types of a spec for the cell signature.
func label(s spec) string {
	switch shape(s.L, s.R) {
	case "cc":
		return constKind(s.L.N) + "-const"
	case "cv":
		c, v := s.L, s.R
		if s.R.Const {
			c, v = s.R, s.L
		}

		if s.Kind == "form" {
			return v.N.T.Short()
		}

		return v.N.T.Short() + "~" + constKind(c.N)
	case "vx":
		return s.L.N.T.Short() + "*" + s.R.N.T.Short()
	}

	return s.L.N.T.Short()
}

func opClass(op string) string {
	switch op {
	case "==", "!=":
		return "cmpeq"
	case "<", "<=", ">", ">=":
		return "cmpord"
	}

	return opNames[op]
}

func groupOf(s spec, failure string) string {
	switch s.Kind {
	case "neg":
		return "neg:" + failure
	case "form":
		return "form:" + formClass(s.Form) + ":" + shape(s.L, s.R) + ":" + failure
	}

	return "bin:" + opClass(s.Op) + ":" + shape(s.L, s.R) + ":" + failure
}

func sizeOf(s spec) int {
	n := len(s.single())

	if s.Kind == "form" {
		n += 1000 * s.Opt
	}

	return n
}

func mkFinding(s spec, e expect, failure, got, via string) finding {
	return finding{S: s, E: e, Got: got, Failure: failure, Group: groupOf(s, failure), Label: label(s), Size: sizeOf(s), Via: via}
}

// collector gathers findings and counters from the parallel workers.
type collector struct {
	mu       sync.Mutex
	findings []finding
}

func (c *collector) add(f finding) {
	c.mu.Lock()
	c.findings = append(c.findings, f)
	c.mu.Unlock()
}

// checkOperand verifies that a declared variable holds the value the item
// assumes (the cast T(literal) is documented, so a wrong cast is a finding of
// its own).
func checkOperand(res ev.Result, tag string, o operand) (ok bool, got string) {
	if o.Const {
		return true, ""
	}

	obs, present := res.Get(tag)
	if !present {
		return false, "error: " + res.Err
	}

	typ := obs.T
	if t, isNum := ev.TypeByName(typ); isNum {
		typ = t.String()
	}

	got = typ + "|" + ev.CanonText(obs.V)

	return got == o.N.T.String()+"|"+o.N.Text(), got
}

// judgeBin judges the packed program of one operand pair.
func judgeBin(r *report.R, col *collector, it binItem, mode, opt int, res ev.Result, via string) {
	for i, o := range []operand{it.L, it.R} {
		tag := []string{"x", "y"}[i]

		if ok, got := checkOperand(res, tag, o); !ok {
			s := spec{Kind: "cast", L: o, Mode: mode, Opt: opt}
			col.add(finding{S: s, Got: got, Failure: "cast", Group: "cast:" + o.N.T.Short(), Label: o.N.T.Short(), Size: len(o.N.VarInit()), Via: via,
				E: expect{Vals: []tv{{o.N.T.String(), o.N.Text()}}}})

			return
		}
	}

	for _, op := range it.ops() {
		s := spec{Kind: "bin", Op: op, L: it.L, R: it.R, Mode: mode, Opt: opt}

		e := s.expect()
		if e.Skip {
			r.Add("open_cells_not_judged", 1)

			continue
		}

		o, present := res.Get(opNames[op])
		failure, got := judgeOne(e, o, present, res.Err)

		r.Eval(1)

		if via == "inproc" {
			r.Distinct(fmt.Sprint("bin|", op, "|", it.L, "|", it.R, "|", mode))
		}

		if failure != "" {
			col.add(mkFinding(s, e, failure, got, via))
		}
	}
}

// judgeSingle judges a one-operation program (unary minus, statement forms,
// confirmations). It returns the failure ("" = agrees with the table).
func judgeSingle(s spec, e expect, res ev.Result) (failure, got string) {
	o, present := res.Get("r")
	if res.Err != "" {
		present = false
	}

	return judgeOne(e, o, present, res.Err)
}

type work struct {
	kind string // bin | single
	bin  binItem
	s    spec
}

func (w work) program(opt int) string {
	if w.kind == "bin" {
		return w.bin.packed()
	}

	return w.s.single()
}

// buildWork enumerates the items of one tier (mode- and level-independent).
func buildWork(thorough bool) (bins []binItem, negs []ev.Num, forms []spec) {
	sameLevel, mixedLevel, cvLevel := 1, 0, 0
	if thorough {
		sameLevel, mixedLevel, cvLevel = 2, 2, 2
	}

	types := ev.AllTypes()

	// variable op variable
	for _, a := range types {
		for _, b := range types {
			level := mixedLevel
			if a == b {
				level = sameLevel
			}

			for _, x := range ev.Values(a, level) {
				for _, y := range ev.Values(b, level) {
					bins = append(bins, binItem{operand{N: x}, operand{N: y}})
				}
			}
		}
	}

	// constant op variable, variable op constant
	for _, a := range types {
		for _, x := range ev.Values(a, cvLevel) {
			// negative literals: the compiler folds -k into one constant, which
			// must adapt to an unsigned operand losslessly or be rejected (E5)
			ks := append(ev.Constants(thorough), ev.SI(ev.Int, -1), ev.SI(ev.Int, -3))

			for _, k := range ks {
				bins = append(bins, binItem{operand{N: x}, operand{N: k, Const: true}}, binItem{operand{N: k, Const: true}, operand{N: x}})
			}
		}
	}

	// constant op constant of one kind
	for _, p := range [][2]ev.Num{{ev.SI(ev.Int, 7), ev.SI(ev.Int, 2)}, {ev.SI(ev.Int, 2), ev.SI(ev.Int, 300)}, {ev.FL(ev.F64, 2.5), ev.FL(ev.F64, 0.5)}} {
		bins = append(bins, binItem{operand{N: p[0], Const: true}, operand{N: p[1], Const: true}})
	}

	// unary minus
	for _, a := range types {
		if c := a.Class(); c == ev.Signed || c == ev.Float {
			negs = append(negs, ev.Values(a, sameLevel)...)
		}
	}

	// statement forms (mode and optimizer level are filled in per phase)
	formLevel := 0
	if thorough {
		formLevel = 1
	}

	for _, a := range types {
		for _, x := range ev.Values(a, formLevel) {
			one := operand{N: ev.SI(ev.Int, 1), Const: true}

			ks := []operand{one, {N: ev.SI(ev.Int, 3), Const: true}, {N: ev.FL(ev.F64, 2.0), Const: true}, {N: ev.FL(ev.F64, 0.5), Const: true}, {N: ev.SI(ev.Int, 200), Const: true}}

			// k a variable of the same type, and of every other type
			for _, b := range types {
				vs := ev.Values(b, 0)
				if b != a && !thorough {
					vs = vs[:1]
				}

				for _, y := range vs {
					ks = append(ks, operand{N: y})
				}
			}

			for _, k := range ks {
				for _, f := range []string{"x++", "x+=k", "x=x+k", "x--", "x-=k", "x=x-k"} {
					if (f == "x++" || f == "x--") && k != one {
						continue
					}

					forms = append(forms, spec{Kind: "form", Form: f, L: operand{N: x}, R: k})
				}
			}
		}
	}

	return bins, negs, forms
}

// witness is the replayable description of a reported cell.
type witness struct {
	Cell     string   `json:"cell"`
	Spec     spec     `json:"spec"`
	Types    string   `json:"types_mode"`
	Optimize int      `json:"optimize"`
	Command  string   `json:"command"`
	Program  string   `json:"program"`
	Expected expect   `json:"expected"`
	Got      string   `json:"got_fresh_ego_run"`
	Affected []string `json:"affected,omitempty"`
}

func mkWitness(cell string, f finding, got string, affected []string) witness {
	return witness{
		Cell: cell, Spec: f.S, Types: ev.ModeNames[f.S.Mode], Optimize: f.S.Opt,
		Command:  fmt.Sprintf("ego run --types %s -o %d prog.ego", ev.ModeNames[f.S.Mode], f.S.Opt),
		Program:  ev.ForEgo(confirmProgram(f)),
		Expected: f.E, Got: got, Affected: affected,
	}
}

func castProgram(o operand) string {
	return "package main\nfunc main() {\n    x := " + o.N.VarInit() + "\n    emit(\"x\", x)\n}\n"
}

// confirmProgram is the one-operation program of a finding.
func confirmProgram(f finding) string {
	if f.S.Kind == "cast" {
		return castProgram(f.S.L)
	}

	return f.S.single()
}

// stillFails judges the result of a confirmation run alone.
func stillFails(f finding, res ev.Result) (bool, string) {
	if f.S.Kind == "cast" {
		ok, g := checkOperand(res, "x", f.S.L)

		return !ok, g
	}

	failure, g := judgeSingle(f.S, f.E, res)

	return failure == f.Failure, g
}

// confirm re-runs the one-operation program of a finding alone in a fresh
// process of the real binary and judges that run.
func confirm(f finding) (bool, string, error) {
	res, err := ev.RunEgo(confirmProgram(f), f.S.Mode, f.S.Opt)
	if err != nil {
		return false, "", err
	}

	still, g := stillFails(f, res)

	return still, g, nil
}

func replay(r *report.R) {
	var w witness

	if err := report.LoadReplay(r.Replay, &w); err != nil {
		report.Fatal("%v", err)
	}

	f := finding{S: w.Spec, E: w.Spec.expect(), Size: 1}
	if w.Spec.Kind == "cast" {
		f.E = w.Expected
		f.Failure = "cast"
	} else {
		res, err := ev.RunEgo(w.Spec.single(), w.Spec.Mode, w.Spec.Opt)
		if err != nil {
			report.Fatal("cannot run ego: %v", err)
		}

		f.Failure, f.Got = judgeSingle(w.Spec, f.E, res)
	}

	r.Eval(1)
	r.Distinct("replay")
	r.Distinct(w.Cell)
	r.Sample(w)

	if f.Failure != "" {
		still, got, err := confirm(f)
		if err != nil {
			report.Fatal("cannot run ego: %v", err)
		}

		if still {
			r.Violation(w.Cell, 1, mkWitness(w.Cell, f, got, nil), "replayed: "+describe(f, got))
		}
	}

	r.Finish()
}

func describe(f finding, got string) string {
	want := "rejection with an error"

	if !f.E.Reject {
		parts := []string{}
		for _, v := range f.E.Vals {
			parts = append(parts, v.T+" "+v.V)
		}

		want = strings.Join(parts, " or ")
	}

	return fmt.Sprintf("documented result %s (rule %s), fresh `ego run --types %s -o %d` gives %s", want, f.E.Rule, ev.ModeNames[f.S.Mode], f.S.Opt, got)
}

func main() {
	r := report.New("exploration")

	if !ev.EgoAvailable() {
		report.Fatal("VERIF_EGO is not set (checks/C03.json needs \"ego\": true)")
	}

	r.Rule("operand pairs = 14 numeric types x 14 numeric types x boundary values (quick: 6 per type for equal types, 3 for mixed types; thorough: 10-11) as variables, plus variable x untyped constant literal (integers around every width boundary, 2.0, 2.5, 2.7, an imaginary) in both orders; each pair under + - * / % == != < <= > >=, each signed/float value under unary minus, each type under x++, x+=k, x=x+k, x--, x-=k, x=x-k with k a constant or a variable of any type; all in strict, relaxed and dynamic mode (forms: optimizer levels 0-3). distinct = (operator, operand types+values+constness, mode) cells the reference table asserts")
	r.Assume(
		"the reference table asserts only what docs/LANGUAGE.md#typeConversion and the property statement say; open cells (winner between types that do not contain each other, lossy constants in comparisons, zero divisors, negative-zero sign) are not judged",
		"Go's own fixed-width arithmetic and conversions define wrap-around and truncation",
		"bulk evaluation is in-process through internal/language/compiler + bytecode driven like `ego run`; a stratified subset and every reported witness run in fresh processes of the real binary",
	)

	if r.Replay != "" {
		replay(r)
	}

	thorough := r.Thorough()
	bins, negs, forms := buildWork(thorough)
	col := &collector{}

	binOpts := []int{0}
	if thorough {
		binOpts = []int{0, 2, 3}
	}

	formOpts := []int{0, 1, 2, 3}

	type config struct{ mode, opt int }

	var configs []config

	egoWork := map[config][]work{}
	stride := r.Pick(37, 47)
	t0 := time.Now()

	for mode := ev.Strict; mode <= ev.Dynamic; mode++ {
		for _, opt := range formOpts {
			var ws []work

			runBins := false

			for _, o := range binOpts {
				if o == opt {
					runBins = true
				}
			}

			if runBins {
				for _, b := range bins {
					ws = append(ws, work{kind: "bin", bin: b})
				}

				for _, n := range negs {
					ws = append(ws, work{kind: "single", s: spec{Kind: "neg", L: operand{N: n}, Mode: mode, Opt: opt}})
				}
			}

			for _, f := range forms {
				f.Mode, f.Opt = mode, opt
				ws = append(ws, work{kind: "single", s: f})
			}

			ev.Configure(mode, opt)

			enum.Par(len(ws), func(i int) {
				w := ws[i]
				res := ev.Eval(w.program(opt), mode)

				r.Add("programs_inprocess", 1)
				judgeWork(r, col, w, mode, opt, res, "inproc")
			})

			// Stratified subset for the real binary: every stride-th item
			// of this configuration.
			cfg := config{mode, opt}
			configs = append(configs, cfg)

			for i := (mode*7 + opt*3) % stride; i < len(ws); i += stride {
				egoWork[cfg] = append(egoWork[cfg], ws[i])
			}

			if mode == ev.Dynamic && opt == 0 {
				for _, i := range []int{0, len(bins) / 2, len(bins) + 3, len(ws) - 1} {
					if i < len(ws) {
						w := ws[i]
						r.Sample(map[string]any{"mode": ev.ModeNames[mode], "optimize": opt, "program": w.program(opt)})
					}
				}
			}

			fmt.Printf("progress: %s -o %d: %d programs in-process, %.0fs\n", ev.ModeNames[mode], opt, len(ws), time.Since(t0).Seconds())
		}
	}

	// The same programs through the real binary: one fresh process per
	// configuration and chunk, items packed as functions of one file.
	type chunk struct {
		cfg config
		ws  []work
	}

	var chunks []chunk

	for _, cfg := range configs {
		ws := egoWork[cfg]
		for len(ws) > 0 {
			n := len(ws)
			if n > 400 {
				n = 400
			}

			chunks = append(chunks, chunk{cfg, ws[:n]})
			ws = ws[n:]
		}
	}

	var (
		infraErr error
		infraMu  sync.Mutex
	)

	enum.Par(len(chunks), func(i int) {
		c := chunks[i]
		progs := make([]string, len(c.ws))

		for k, w := range c.ws {
			progs[k] = w.program(c.cfg.opt)
		}

		results, err := ev.RunEgoPacked(progs, c.cfg.mode, c.cfg.opt)
		if err != nil {
			infraMu.Lock()
			infraErr = err
			infraMu.Unlock()

			return
		}

		for k, w := range c.ws {
			r.Add("programs_real_binary", 1)
			judgeWork(r, col, w, c.cfg.mode, c.cfg.opt, results[k], "ego")
		}
	})

	if infraErr != nil {
		report.Fatal("cannot run the ego binary: %v", infraErr)
	}

	fmt.Printf("progress: real-binary pass done, %.0fs\n", time.Since(t0).Seconds())

	reportFindings(r, col, binOpts, formOpts)

	r.Set("operand_pairs", len(bins))
	r.Set("unary_minus_values", len(negs))
	r.Set("statement_form_programs_per_configuration", len(forms))
	r.Set("type_modes", 3)
	r.Set("optimizer_levels_forms", formOpts)
	r.Set("optimizer_levels_operators", binOpts)
	r.Finish()
}

// judgeWork judges the result of one work item from either evaluator.
func judgeWork(r *report.R, col *collector, w work, mode, opt int, res ev.Result, via string) {
	if w.kind == "bin" {
		judgeBin(r, col, w.bin, mode, opt, res, via)

		return
	}

	e := w.s.expect()
	if e.Skip {
		r.Add("open_cells_not_judged", 1)

		return
	}

	r.Eval(1)

	if via == "inproc" {
		r.Distinct(fmt.Sprint(w.s.Kind, "|", w.s.Form, "|", w.s.L, "|", w.s.R, "|", mode, "|", opt))
	}

	if failure, got := judgeSingle(w.s, e, res); failure != "" {
		col.add(mkFinding(w.s, e, failure, got, via))
	}
}

// bucket is the set of findings sharing group, mode, level and type label.
type bucket struct {
	group   string
	mode    int
	opt     int
	label   string
	members []finding
	next    int  // next member to try
	ok      bool // a member was confirmed by the real binary
	got     string
	best    finding
}

// reportFindings turns the collected disagreements into violation cells.
// Stage 1: for every bucket its smallest member is re-run as a one-operation
// program by the real binary (one fresh process per configuration, the
// programs packed as functions; up to three members are tried). Stage 2: the
// confirmed buckets of one root-cause group form one cell, named after the
// group and the signature of what is affected; the cell's witness is run once
// more, alone, in a fresh `ego run` process and only then reported.
func reportFindings(r *report.R, col *collector, binOpts, formOpts []int) {
	buckets := map[string]*bucket{}

	for _, f := range col.findings {
		k := fmt.Sprint(f.Group, "|", f.S.Mode, "|", f.S.Opt, "|", f.Label)

		b := buckets[k]
		if b == nil {
			b = &bucket{group: f.Group, mode: f.S.Mode, opt: f.S.Opt, label: f.Label}
			buckets[k] = b
		}

		b.members = append(b.members, f)
	}

	keys := make([]string, 0, len(buckets))
	for k := range buckets {
		keys = append(keys, k)
	}

	sort.Strings(keys)

	for _, k := range keys {
		b := buckets[k]

		sort.SliceStable(b.members, func(x, y int) bool {
			if b.members[x].Size != b.members[y].Size {
				return b.members[x].Size < b.members[y].Size
			}

			return confirmProgram(b.members[x]) < confirmProgram(b.members[y])
		})
	}

	type cfg struct{ mode, opt int }

	for round := 0; round < 3; round++ {
		pending := map[cfg][]*bucket{}

		var cfgs []cfg

		for _, k := range keys {
			b := buckets[k]
			if b.ok || b.next >= len(b.members) {
				continue
			}

			c := cfg{b.mode, b.opt}
			if pending[c] == nil {
				cfgs = append(cfgs, c)
			}

			pending[c] = append(pending[c], b)
		}

		if len(cfgs) == 0 {
			break
		}

		var (
			infraErr error
			mu       sync.Mutex
		)

		enum.Par(len(cfgs), func(i int) {
			c := cfgs[i]
			bs := pending[c]
			progs := make([]string, len(bs))

			for k, b := range bs {
				progs[k] = confirmProgram(b.members[b.next])
			}

			results, err := ev.RunEgoPacked(progs, c.mode, c.opt)
			if err != nil {
				mu.Lock()
				infraErr = err
				mu.Unlock()

				return
			}

			for k, b := range bs {
				f := b.members[b.next]
				b.next++

				if still, got := stillFails(f, results[k]); still {
					b.ok, b.got, b.best = true, got, f
				}
			}
		})

		if infraErr != nil {
			report.Fatal("cannot run the ego binary: %v", infraErr)
		}
	}

	type agg struct {
		byMode  map[int]map[string]bool
		optMode map[int]map[int]bool
		cands   []*bucket
		count   int
	}

	groups := map[string]*agg{}
	unconfirmed, notes := 0, 0

	for _, k := range keys {
		b := buckets[k]
		if !b.ok {
			unconfirmed += len(b.members)
			notes++

			if notes <= 5 {
				fmt.Printf("NOTE: %d in-process disagreement(s) of %s (%s, -o %d, %s) did not reproduce with the real binary; not reported. e.g.\n%s", len(b.members), b.group, ev.ModeNames[b.mode], b.opt, b.label, confirmProgram(b.members[0]))
			}

			continue
		}

		a := groups[b.group]
		if a == nil {
			a = &agg{byMode: map[int]map[string]bool{}, optMode: map[int]map[int]bool{}}
			groups[b.group] = a
		}

		if a.byMode[b.mode] == nil {
			a.byMode[b.mode] = map[string]bool{}
			a.optMode[b.mode] = map[int]bool{}
		}

		a.byMode[b.mode][b.label] = true
		a.optMode[b.mode][b.opt] = true
		a.count += len(b.members)
		a.cands = append(a.cands, b)
	}

	r.Set("disagreements_not_reproduced_by_real_binary", unconfirmed)
	r.Set("disagreement_buckets_rechecked_by_real_binary", len(keys))

	gnames := make([]string, 0, len(groups))
	for g := range groups {
		gnames = append(gnames, g)
	}

	sort.Strings(gnames)

	type cellOut struct {
		cell     string
		affected []string
		a        *agg
		f        finding
		got      string
		ok       bool
	}

	cells := make([]*cellOut, len(gnames))

	for gi, g := range gnames {
		a := groups[g]
		levelsRun := formOpts

		if !strings.HasPrefix(g, "form:") {
			levelsRun = binOpts
		}

		var sig, affected []string

		for mode := ev.Strict; mode <= ev.Dynamic; mode++ {
			labels := a.byMode[mode]
			if labels == nil {
				continue
			}

			ls := make([]string, 0, len(labels))
			for l := range labels {
				ls = append(ls, l)
			}

			sort.Strings(ls)

			lv := ""
			all := true

			for _, o := range levelsRun {
				if a.optMode[mode][o] {
					lv += fmt.Sprint(o)
				} else {
					all = false
				}
			}

			if all {
				lv = "*"
			}

			sig = append(sig, fmt.Sprintf("%s.o%s[%s]", ev.ModeNames[mode][:1], lv, compress(ls)))
			affected = append(affected, fmt.Sprintf("%s -o %s: %s", ev.ModeNames[mode], lv, strings.Join(ls, ",")))
		}

		sort.SliceStable(a.cands, func(x, y int) bool { return a.cands[x].best.Size < a.cands[y].best.Size })

		cells[gi] = &cellOut{cell: g + ":" + strings.Join(sig, ""), affected: affected, a: a}
	}

	// Stage 2: the witness of every cell alone in a fresh process.
	var (
		infraErr error
		mu       sync.Mutex
	)

	enum.Par(len(cells), func(i int) {
		c := cells[i]

		for n, b := range c.a.cands {
			if n == 3 {
				break
			}

			still, got, err := confirm(b.best)
			if err != nil {
				mu.Lock()
				infraErr = err
				mu.Unlock()

				return
			}

			if still {
				c.ok, c.f, c.got = true, b.best, got

				return
			}
		}
	})

	if infraErr != nil {
		report.Fatal("cannot run the ego binary: %v", infraErr)
	}

	for _, c := range cells {
		if !c.ok {
			fmt.Printf("NOTE: cell %s was not reproduced by a program run alone in a fresh process; not reported\n", c.cell)
			r.Add("cells_not_reproduced_alone", 1)

			continue
		}

		w := mkWitness(c.cell, c.f, c.got, c.affected)
		msg := fmt.Sprintf("%s; %d disagreeing evaluations in this cell, witness confirmed alone in a fresh process", describe(c.f, c.got), c.a.count)

		for i := 0; i < c.a.count; i++ {
			r.Violation(c.cell, c.f.Size, w, msg)
		}
	}
}

// compress shortens a list of type labels: long lists of plain type names are
// written as the complement ("!int" = every numeric type but int); other long
// lists as a count and a short hash.
func compress(ls []string) string {
	if len(ls) <= 7 {
		return strings.Join(ls, ",")
	}

	plain := true
	seen := map[string]bool{}

	for _, l := range ls {
		if strings.ContainsAny(l, "*~") {
			plain = false
		}

		seen[l] = true
	}

	if plain {
		var missing []string

		for _, t := range ev.AllTypes() {
			if !seen[t.Short()] {
				missing = append(missing, t.Short())
			}
		}

		if len(missing) == 0 {
			return "all"
		}

		return "all-but-" + strings.Join(missing, ",")
	}

	h := uint32(2166136261)

	for _, l := range ls {
		for i := 0; i < len(l); i++ {
			h = (h ^ uint32(l[i])) * 16777619
		}

		h = (h ^ '|') * 16777619
	}

	return fmt.Sprintf("%d-labels-%08x", len(ls), h)
}

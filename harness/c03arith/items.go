package main

import (
	"fmt"
	"strings"
)

// spec identifies one judged operation; it is self-contained (replayable).
type spec struct {
	Kind string  `json:"kind"` // bin | neg | form
	Op   string  `json:"op,omitempty"`
	L    operand `json:"l"`
	R    operand `json:"r,omitempty"`
	Form string  `json:"form,omitempty"` // x++ | x+=k | x=x+k | x-- | x-=k | x=x-k
	Mode int     `json:"mode"`
	Opt  int     `json:"opt"`
}

func (s spec) expect() expect {
	switch s.Kind {
	case "bin":
		return expectBin(s.Mode, s.Op, s.L, s.R)
	case "neg":
		return expectNeg(s.L.N)
	case "form":
		return expectForm(s.Mode, s.L.N, formSign(s.Form), s.R)
	}

	return expect{Skip: true}
}

func formSign(form string) string {
	if strings.Contains(form, "-") {
		return "-"
	}

	return "+"
}

func formClass(form string) string {
	switch form {
	case "x++", "x--":
		return "incdec"
	}

	return "addk"
}

func (o operand) text(name string) string {
	if o.Const {
		return o.N.ConstLit()
	}

	return name
}

// padding makes main long enough for optimizer level 1, which leaves short
// functions alone (fewer than 50 instructions).
func padding(opt int) string {
	if opt != 1 {
		return ""
	}

	return "    pad := 1\n" + strings.Repeat("    pad = pad * 2\n", 16) + "    emit(\"pad\", pad)\n"
}

// single is the program holding exactly this one operation, unguarded: the
// result is printed under the tag r, a rejection ends the program with an
// error. It is what a fresh `ego run` confirms and the reproducer that is
// reported.
func (s spec) single() string {
	var b strings.Builder

	b.WriteString("package main\nfunc main() {\n" + padding(s.Opt))

	decl := func(name string, o operand) {
		if !o.Const {
			b.WriteString("    " + name + " := " + o.N.VarInit() + "\n")
		}
	}

	switch s.Kind {
	case "bin":
		decl("x", s.L)
		decl("y", s.R)
		b.WriteString("    z := " + s.L.text("x") + " " + s.Op + " " + s.R.text("y") + "\n    emit(\"r\", z)\n")
	case "neg":
		decl("x", s.L)
		b.WriteString("    z := -x\n    emit(\"r\", z)\n")
	case "form":
		decl("x", s.L)
		decl("y", s.R)

		k := s.R.text("y")

		switch s.Form {
		case "x++", "x--":
			b.WriteString("    " + s.Form + "\n")
		case "x+=k":
			b.WriteString("    x += " + k + "\n")
		case "x-=k":
			b.WriteString("    x -= " + k + "\n")
		case "x=x+k":
			b.WriteString("    x = x + " + k + "\n")
		case "x=x-k":
			b.WriteString("    x = x - " + k + "\n")
		}

		b.WriteString("    emit(\"r\", x)\n")
	}

	b.WriteString("}\n")

	return b.String()
}

// binItem is one operand pair; its packed program applies every operator to
// it, each inside its own try block.
type binItem struct {
	L, R operand
}

func (it binItem) ops() []string {
	return append(append([]string{}, arithOps...), cmpOps...)
}

func (it binItem) packed() string {
	var b strings.Builder

	b.WriteString("package main\nfunc main() {\n")

	if !it.L.Const {
		b.WriteString("    x := " + it.L.N.VarInit() + "\n    emit(\"x\", x)\n")
	}

	if !it.R.Const {
		b.WriteString("    y := " + it.R.N.VarInit() + "\n    emit(\"y\", y)\n")
	}

	for _, op := range it.ops() {
		n := opNames[op]
		fmt.Fprintf(&b, "    try {\n        z := %s %s %s\n        emit(\"%s\", z)\n    } catch {\n        emit(\"%s!\", 0)\n    }\n",
			it.L.text("x"), op, it.R.text("y"), n, n)
	}

	b.WriteString("}\n")

	return b.String()
}


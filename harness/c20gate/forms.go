package main

// Credential forms: everything a request can present in place of (or as)
// credentials, each with the reference answer "which identity, if any, does
// this genuinely authenticate".

import (
	"encoding/base64"
	"encoding/json"
	"fmt"
	"strings"
	"time"
)

type form struct {
	Name    string // stable name (used in witnesses and replay)
	Class   string // none | malformed | basic | token | jwt | body
	Header  string // Authorization header value
	HasHdr  bool
	Body    string // request body carrying credentials (only sent with POST/PUT)
	IsBody  bool
	Ident   string // identity this form genuinely authenticates ("" = none)
	Claimed string // local user name the request names without proving it
	Prep    string // "", warm, lock, revoke-warm, expired-cached, warm-good
	Payload string // a request body that PASSES the route's payload validation (no credentials in it that authenticate)
}

func basic(user, pass string) string {
	return "Basic " + base64.StdEncoding.EncodeToString([]byte(user+":"+pass))
}

func flipHex(s string, i int) string {
	b := []byte(s)
	if b[i] == '0' {
		b[i] = '1'
	} else {
		b[i] = '0'
	}

	return string(b)
}

func (w *world) idx(p string) int {
	for i, q := range w.universe {
		if strings.EqualFold(p, q) {
			return i
		}
	}

	return -1
}

// forms lists the credential forms for a route whose declaration names the
// permissions rel. withBody adds the forms that carry credentials in the body.
func (w *world) forms(rel []string, withBody bool) []form {
	var out []form

	hdr := func(name, class, header, ident, claimed, prep string) {
		out = append(out, form{Name: name, Class: class, Header: header, HasHdr: true, Ident: ident, Claimed: claimed, Prep: prep})
	}

	// identities relevant for this declaration
	users := []string{"vroot", "vrootonly", "vplain", "vnologon", "vall", "vdecoy"}
	tokUsers := []string{"vroot", "vplain", "vall"}
	jwtUsers := []string{"jroot", "jplain", "jall"}
	holders := []string{"vall"} // non-admin users that hold every relevant permission

	for _, p := range rel {
		i := w.idx(p)
		if i < 0 {
			continue
		}

		users = append(users, onlyName(i), butName(i))
		tokUsers = append(tokUsers, onlyName(i), butName(i))
		jwtUsers = append(jwtUsers, fmt.Sprintf("jonly%d", i), fmt.Sprintf("jbut%d", i))
		holders = append(holders, onlyName(i))
	}

	users, tokUsers, jwtUsers, holders = uniq(users), uniq(tokUsers), uniq(jwtUsers), uniq(holders)

	// --- nothing / not credentials at all
	out = append(out, form{Name: "none", Class: "none"})
	hdr("empty-header", "none", "", "", "", "")

	for i, h := range []string{"Basic", "Basic ", "Basic !!!not-base64!!!", "Basic " + base64.StdEncoding.EncodeToString([]byte("vall-without-colon")),
		"Digest username=\"vall\"", "Negotiate YIIB", "Bearer", "Bearer ", "Bearer not-a-token", "Bearer " + strings.Repeat("0", 128),
		"Bearer " + strings.Repeat("zz", 40), "Bearer a.b", "Bearer a.b.c.d"} {
		hdr(fmt.Sprintf("malformed-%02d", i), "malformed", h, "", "", "")
	}

	// a genuine token under an unusual scheme: refused today; were it accepted, the bearer is genuine
	hdr("odd-scheme-token", "malformed", "Token "+w.token("vroot"), "vroot", "vroot", "")
	hdr("odd-scheme-basic-token", "malformed", "Basic "+w.token("vroot"), "vroot", "vroot", "")

	// --- Basic: right password for every relevant user
	for _, u := range users {
		hdr("basic-right:"+u, "basic", basic(u, password(u)), u, u, "")
	}

	hdr("basic-right-uppercase-name:vall", "basic", basic("VALL", password("vall")), "vall", "vall", "")

	// --- Basic: wrong credentials naming users that hold the permissions
	for _, u := range append([]string{"vroot"}, holders...) {
		hdr("basic-wrong:"+u, "basic", basic(u, "wrong-password"), "", u, "")
		hdr("basic-empty-password:"+u, "basic", basic(u, ""), "", u, "")
		hdr("basic-password-prefix:"+u, "basic", basic(u, password(u)[:len(password(u))-1]), "", u, "")
		hdr("basic-password-extended:"+u, "basic", basic(u, password(u)+"x"), "", u, "")
		hdr("basic-password-of-vplain:"+u, "basic", basic(u, password("vplain")), "", u, "")
		hdr("basic-stored-hash-as-password:"+u, "basic", basic(u, w.hash[u]), "", u, "")
		hdr("basic-wrong-locked-out:"+u, "basic", basic(u, "wrong-password"), "", u, "lock")
	}

	hdr("basic-empty-user", "basic", basic("", "wrong-password"), "", "", "")
	hdr("basic-unknown-user", "basic", basic("vnobody", "wrong-password"), "", "vnobody", "")
	hdr("basic-ghost-user", "basic", basic("vghost", password("vghost")), "", "vghost", "")
	hdr("basic-right-locked-out:vall", "basic", basic("vall", password("vall")), "vall", "vall", "lock")

	// --- native tokens
	for _, u := range tokUsers {
		hdr("token-valid-cold:"+u, "token", "Bearer "+w.token(u), u, u, "")
		hdr("token-valid-warm:"+u, "token", "Bearer "+w.token(u), u, u, "warm")
	}

	hdr("token-valid-issued-by-tokens.New:vroot", "token", "Bearer "+w.issuedToken(), "vroot", "vroot", "")
	hdr("token-valid-lowercase-scheme:vall", "token", "bearer "+w.token("vall"), "vall", "vall", "")
	hdr("token-ghost-user", "token", "Bearer "+w.ghostTok, "vghost", "vghost", "")

	good := w.token("vroot")
	hdr("token-expired", "token", "Bearer "+w.expiredTok, "", "vroot", "")
	hdr("token-expired-but-cached", "token", "Bearer "+w.expiredTok, "", "vroot", "expired-cached")
	hdr("token-wrong-key", "token", "Bearer "+w.wrongKeyTok, "", "vroot", "")
	hdr("token-tampered-first", "token", "Bearer "+flipHex(good, 0), "", "vroot", "")
	hdr("token-tampered-salt", "token", "Bearer "+flipHex(good, 12), "", "vroot", "")
	hdr("token-tampered-middle", "token", "Bearer "+flipHex(good, len(good)/2), "", "vroot", "")
	hdr("token-tampered-last", "token", "Bearer "+flipHex(good, len(good)-1), "", "vroot", "")
	hdr("token-truncated", "token", "Bearer "+good[:len(good)-2], "", "vroot", "")
	hdr("token-extended", "token", "Bearer "+good+"00", "", "vroot", "")
	hdr("token-tampered-after-cached", "token", "Bearer "+flipHex(good, len(good)-1), "", "vroot", "warm-good")
	hdr("token-revoked-cold", "token", "Bearer "+w.revokedTok, "", "vroot", "")
	hdr("token-revoked-after-cached", "token", "Bearer "+w.warmRevTok, "", "vroot", "revoke-warm")

	// --- JWTs
	for _, u := range jwtUsers {
		hdr("jwt-valid-cold:"+u, "jwt", "Bearer "+w.goodJWT(u), u, "", "")
		hdr("jwt-valid-warm:"+u, "jwt", "Bearer "+w.goodJWT(u), u, "", "warm")
	}

	bad := func(name string, s jwtSpec) { hdr(name, "jwt", "Bearer "+w.makeJWT(s), "", "", "") }
	bad("jwt-expired", jwtSpec{Sub: "jroot", Issuer: provider, Exp: -time.Hour, Key: w.key, Kid: kid})
	// signed by the provider's key, unusual claims: refused today; the statement does not speak about them, so the reference is generous
	odd := func(name string, s jwtSpec) { hdr(name, "jwt", "Bearer "+w.makeJWT(s), "jroot", "", "") }
	odd("jwt-no-exp", jwtSpec{Sub: "jroot", Issuer: provider, Key: w.key, Kid: kid})
	odd("jwt-not-yet-valid", jwtSpec{Sub: "jroot", Issuer: provider, Exp: 2 * time.Hour, Nbf: time.Hour, Key: w.key, Kid: kid})
	odd("jwt-wrong-issuer", jwtSpec{Sub: "jroot", Issuer: "https://evil.test", Exp: time.Hour, Key: w.key, Kid: kid})
	bad("jwt-other-key-same-kid", jwtSpec{Sub: "jroot", Issuer: provider, Exp: time.Hour, Key: w.otherKey, Kid: kid})
	bad("jwt-other-key-no-kid", jwtSpec{Sub: "jroot", Issuer: provider, Exp: time.Hour, Key: w.otherKey})
	bad("jwt-unknown-kid", jwtSpec{Sub: "jroot", Issuer: provider, Exp: time.Hour, Key: w.otherKey, Kid: "rotated"})
	bad("jwt-alg-none", jwtSpec{Sub: "jroot", Issuer: provider, Exp: time.Hour, Alg: "none", Kid: kid})
	bad("jwt-alg-hs256-public-key", jwtSpec{Sub: "jroot", Issuer: provider, Exp: time.Hour, Alg: "HS256", Kid: kid})

	// payload of an administrator spliced between header and signature of a plain user's token
	plain, root := strings.Split(w.goodJWT("jplain"), "."), strings.Split(w.goodJWT("jroot"), ".")
	hdr("jwt-payload-swapped", "jwt", "Bearer "+plain[0]+"."+root[1]+"."+plain[2], "", "", "")
	hdr("jwt-signature-stripped", "jwt", "Bearer "+root[0]+"."+root[1]+".AAAA", "", "", "")
	// a local user's name as subject gives no local permission: the token carries only the plain scope
	hdr("jwt-valid-subject-named-like-local-admin", "jwt", "Bearer "+w.makeJWT(jwtSpec{Sub: "vroot", ScopeOf: "jplain", Issuer: provider, Exp: time.Hour, Key: w.key, Kid: kid}), "*jwt-as-local", "vroot", "")

	// --- credentials in the body (login style)
	if withBody {
		body := func(name, user, pass, ident string) {
			b, _ := json.Marshal(map[string]string{"username": user, "password": pass})
			out = append(out, form{Name: name, Class: "body", Body: string(b), IsBody: true, Ident: ident, Claimed: user})
		}

		for _, u := range users {
			body("body-right:"+u, u, password(u), u)
		}

		for _, u := range append([]string{"vroot"}, holders...) {
			body("body-wrong:"+u, u, "wrong-password", "")
			body("body-empty-password:"+u, u, "", "")
		}

		out = append(out, form{Name: "body-not-json", Class: "body", Body: "username=vall&password=" + password("vall"), IsBody: true})
		out = append(out, form{Name: "body-empty", Class: "body", Body: "", IsBody: true})
		out = append(out, form{Name: "body-wrong-with-extra-field", Class: "body", Body: `{"username":"vall","password":"nope","admin":true}`, IsBody: true, Claimed: "vall"})
		// a header, when present, wins over the body
		out = append(out, form{Name: "body-right-but-header-wrong", Class: "body", Body: `{"username":"vroot","password":"` + password("vroot") + `"}`, IsBody: true,
			Header: basic("vall", "wrong-password"), HasHdr: true, Ident: "vroot", Claimed: "vall"})
	}

	return out
}

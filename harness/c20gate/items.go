package main

// Route declarations under test: the server's real table, every sequence of
// builder calls up to the bound, and generated service files covering the
// @endpoint / @authenticated directive grammar.

import (
	"fmt"
	"net/http"
	"os"
	"path/filepath"
	"regexp"
	"strings"

	"github.com/tucats/ego/internal/commands"
	"github.com/tucats/ego/internal/defs"
	"github.com/tucats/ego/internal/router"
	"github.com/tucats/ego/internal/server/services"
	"github.com/tucats/ego/internal/util/validate"
	"github.com/tucats/ego/internal/verifrt/report"
)

// decl is a declaration read from the text of the declaration (builder calls
// or directive terms), independent of the flags the code computed from it.
type decl struct {
	Auth       bool     `json:"auth"`        // the caller must be authenticated
	AuthExempt bool     `json:"auth_exempt"` // contradictory declaration: authentication half not asserted
	Perms      []string `json:"perms"`
}

type item struct {
	Kind string   // real | builder | directive
	Key  string   // stable identification
	Seq  []string // builder calls (builder items)
	Text string   // directive text (directive items)
	Decl *decl

	rt    *router.Router
	route *router.Route
	flags router.VerifC20Flags
}

// hitInfo is what the observing handler recorded.
type hitInfo struct {
	key   string
	flags router.VerifC20Flags
	user  string
	auth  bool
	admin bool
	perms []string
}

var lastHit *hitInfo

func observe(key string, route *router.Route) {
	flags := route.VerifC20Flags()

	route.VerifC20SetHandler(func(s *router.Session, w http.ResponseWriter, r *http.Request) int {
		lastHit = &hitInfo{key: key, flags: flags, user: s.User, auth: s.Authenticated, admin: s.Admin, perms: append([]string{}, s.Permissions...)}

		w.WriteHeader(http.StatusOK)
		_, _ = w.Write([]byte("handler-ran"))

		return http.StatusOK
	})
}

func routeKey(f router.VerifC20Flags) string { return f.Method + " " + f.Endpoint }

// ---- the real table ----------------------------------------------------------

var serviceDirective = regexp.MustCompile(`(?m)^\s*@(endpoint|authenticated)\b(.*)$`)

// directiveDecl reads the declaration of a service file from its directive text.
func directiveDecl(text string) *decl {
	d := &decl{}

	for _, m := range serviceDirective.FindAllStringSubmatch(text, -1) {
		rest := m[2]

		switch m[1] {
		case "endpoint":
			// strip quoted strings so that bare words are only bare words
			bare := regexp.MustCompile(`"[^"]*"`).ReplaceAllString(rest, `""`)
			for _, word := range regexp.MustCompile(`[A-Za-z_]+`).FindAllString(bare, -1) {
				switch strings.ToLower(word) {
				case "authenticated":
					d.Auth = true
				case "admin", "root":
					d.Auth = true
					d.Perms = append(d.Perms, defs.RootPermission)
				}
			}

			if pm := regexp.MustCompile(`permissions\s*=\s*((?:"[^"]*"\s*,?\s*)+)`).FindStringSubmatch(rest); pm != nil {
				for _, q := range regexp.MustCompile(`"([^"]*)"`).FindAllStringSubmatch(pm[1], -1) {
					d.Perms = append(d.Perms, q[1])
					d.Auth = true
				}
			}
		case "authenticated":
			switch strings.ToLower(strings.TrimSpace(rest)) {
			case "user":
				d.Auth = true
			case "admin", "root", "admin_root":
				d.Auth = true
				d.Perms = append(d.Perms, defs.RootPermission)
			}
		}
	}

	d.Perms = uniq(d.Perms)

	return d
}

func realItems() []*item {
	rt, err := commands.VerifC20ServerRouter()
	if err != nil {
		report.Fatal("cannot build the server route table: %v", err)
	}

	routes := router.VerifC20Routes(rt)
	if len(routes) < 50 {
		report.Fatal("the server route table has only %d routes: set-up did not run as in the server", len(routes))
	}

	var out []*item

	for _, r := range routes {
		f := r.VerifC20Flags()
		it := &item{Kind: "real", Key: routeKey(f), rt: rt, route: r, flags: f}

		if f.Filename != "" {
			if b, err := os.ReadFile(f.Filename); err == nil {
				it.Text = strings.Join(serviceDirectiveLines(string(b)), "\n")
				it.Decl = directiveDecl(string(b))
			}
		}

		observe(it.Key, r)
		out = append(out, it)
	}

	return out
}

func serviceDirectiveLines(text string) []string {
	var out []string

	for _, m := range serviceDirective.FindAllString(text, -1) {
		out = append(out, strings.TrimSpace(m))
	}

	return out
}

// ---- builder sequences ---------------------------------------------------------

var builderAlphabet = []string{
	"Authentication(true)", "Authentication(false)", "Permissions(a)", "Permissions(b)",
	"LightWeight(true)", "LightWeight(false)", "CanAuthenticate(true)", "CanAuthenticate(false)", "Credentials(true)",
	"ValidateUsing(@credentials)",
}

func applyCall(r *router.Route, call string) {
	switch call {
	case "Authentication(true)":
		r.Authentication(true)
	case "Authentication(false)":
		r.Authentication(false)
	case "Permissions(a)":
		r.Permissions(permA)
	case "Permissions(b)":
		r.Permissions(permB)
	case "LightWeight(true)":
		r.LightWeight(true)
	case "LightWeight(false)":
		r.LightWeight(false)
	case "CanAuthenticate(true)":
		r.CanAuthenticate(true)
	case "CanAuthenticate(false)":
		r.CanAuthenticate(false)
	case "Credentials(true)":
		r.Credentials(true)
	case "ValidateUsing(@credentials)":
		r.ValidateUsing("@credentials")
	default:
		report.Fatal("unknown builder call %q", call)
	}
}

// builderDecl reads the declaration off the call sequence, following the
// documentation of the builder functions: Permissions names required
// permissions and implies authentication; the last Authentication call says
// whether authentication is required; LightWeight(true) "cannot require/use
// authentication", so a sequence that has both it and Authentication(true)
// contradicts itself and only its permission half is asserted.
func builderDecl(seq []string) *decl {
	d := &decl{}
	lastAuth, light, authTrue := false, false, false

	for _, c := range seq {
		switch c {
		case "Authentication(true)":
			lastAuth, authTrue = true, true
		case "Authentication(false)":
			lastAuth = false
		case "Permissions(a)":
			d.Perms = append(d.Perms, permA)
		case "Permissions(b)":
			d.Perms = append(d.Perms, permB)
		case "LightWeight(true)":
			light = true
		}
	}

	d.Perms = uniq(d.Perms)
	d.Auth = lastAuth || len(d.Perms) > 0
	d.AuthExempt = light && authTrue

	return d
}

func builderItem(seq []string) *item {
	rt := router.NewRouter("verif-c20")
	r := rt.New("/verif/gen", nil, router.AnyMethod)

	for _, c := range seq {
		applyCall(r, c)
	}

	it := &item{Kind: "builder", Key: strings.Join(seq, "."), Seq: append([]string{}, seq...), Decl: builderDecl(seq), rt: rt, route: r}
	if len(seq) == 0 {
		it.Key = "(no calls)"
	}

	observe(it.Key, r)
	it.flags = r.VerifC20Flags()

	return it
}

// builderSeqs enumerates every call sequence of length 0..max, shortest first.
func builderSeqs(max int) [][]string {
	out := [][]string{{}}
	prev := [][]string{{}}

	for l := 1; l <= max; l++ {
		var cur [][]string

		for _, p := range prev {
			for _, c := range builderAlphabet {
				cur = append(cur, append(append([]string{}, p...), c))
			}
		}

		out = append(out, cur...)
		prev = cur
	}

	return out
}

// ---- generated service files -----------------------------------------------------

func directiveTexts() []string {
	var out []string

	authTerms := []string{"", "authenticated", "admin", "root"}
	permTerms := []string{"", `permissions="verif.a"`, `permissions="verif.a","verif.b"`}
	legacy := []string{"", "@authenticated user", "@authenticated admin", "@authenticated none"}

	for _, a := range authTerms {
		for _, p := range permTerms {
			orders := [][]string{{a, p}}
			if a != "" && p != "" {
				orders = append(orders, []string{p, a})
			}

			for _, o := range orders {
				for _, l := range legacy {
					terms := strings.TrimSpace(strings.Join(strings.Fields(o[0]+" "+o[1]), " "))
					text := `@endpoint get path="/services/verif/dNNN" ` + terms

					if l != "" {
						text += "\n" + l
					}

					out = append(out, strings.TrimSpace(text))
				}
			}
		}
	}

	return out
}

func directiveItems(scratch, tag string) []*item {
	root := filepath.Join(scratch, "lib-"+tag)
	dir := filepath.Join(root, "services", "verif")

	if err := os.MkdirAll(dir, 0o755); err != nil {
		report.Fatal("%v", err)
	}

	texts := directiveTexts()
	byFile := map[string]int{}

	for i, t := range texts {
		t = strings.ReplaceAll(t, "dNNN", fmt.Sprintf("d%03d", i))
		texts[i] = t
		fn := filepath.Join(dir, fmt.Sprintf("d%03d.ego", i))
		byFile[fn] = i

		if err := os.WriteFile(fn, []byte(t+"\n\nfunc handler(req Request, resp Response) {\n}\n"), 0o644); err != nil {
			report.Fatal("%v", err)
		}
	}

	rt := router.NewRouter("verif-c20-services")
	if err := services.DefineLibHandlers(rt, root, "/services"); err != nil {
		report.Fatal("cannot define the generated services: %v", err)
	}

	out := make([]*item, len(texts))

	for _, r := range router.VerifC20Routes(rt) {
		f := r.VerifC20Flags()

		i, ok := byFile[f.Filename]
		if !ok {
			report.Fatal("generated service route %s has unknown file %q", f.Endpoint, f.Filename)
		}

		it := &item{Kind: "directive", Key: texts[i], Text: texts[i], Decl: directiveDecl(texts[i]), rt: rt, route: r, flags: f}
		observe(it.Key, r)
		out[i] = it
	}

	for i, it := range out {
		if it == nil {
			report.Fatal("generated service %q was not registered as a route", texts[i])
		}
	}

	return out
}

// payloadCandidates are request bodies tried against a route's payload
// validations (with the server's own validator) to find one that passes. None of
// them carries credentials that authenticate anybody.
var payloadCandidates = []string{
	`{"name":"vc20new","password":"pw-c20-new","permissions":["ego.logon"]}`,
	`{"keep":3,"loggers":{"auth":true}}`,
	`{"name":"vc20dsn","provider":"sqlite","database":"vc20.db"}`,
	`{"dsn":"vc20dsn","user":"vplain","actions":["read"]}`,
	`{"items":[{"dsn":"vc20dsn","user":"vplain","actions":["read"]}]}`,
	`[{"operation":"select","table":"t1"}]`,
	`{"username":"vnobody","password":"wrong-password"}`,
	`[]`,
	`{}`,
}

var payloadCache = map[string]string{}

// passingPayload returns a body that the route's payload validation accepts
// (the route accepts a body that satisfies any one of its validations), or "".
func passingPayload(f router.VerifC20Flags) string {
	if len(f.Validations) == 0 {
		return ""
	}

	key := strings.Join(f.Validations, "|")
	if p, ok := payloadCache[key]; ok {
		return p
	}

	found := ""

search:
	for _, c := range payloadCandidates {
		for _, v := range f.Validations {
			if validate.Validate([]byte(c), v) == nil {
				found = c

				break search
			}
		}
	}

	payloadCache[key] = found

	return found
}

// concretePath turns a route endpoint into a request path that selects it.
func concretePath(endpoint string) string {
	parts := strings.Split(endpoint, "/")
	for i, p := range parts {
		if strings.HasPrefix(p, "{{") && strings.HasSuffix(p, "...}}") {
			parts[i] = "verifx/verify"
		} else if strings.HasPrefix(p, "{{") && strings.HasSuffix(p, "}}") {
			parts[i] = "verifx"
		}
	}

	return strings.Join(parts, "/")
}

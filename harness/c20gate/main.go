// C20: routes run only for authorized requests.
//
// A request reaches a route's handler only if it satisfies the route's
// declared requirements — authentication when required and every required
// permission (or administrator status) for the authenticated identity — for
// every route declaration and every credential form.
//
// E-enum, on the real router: every route declaration (the server's actual
// route table, every sequence of route-builder calls up to the bound, generated
// service files covering the @endpoint/@authenticated grammar) x every
// credential form (nothing, malformed, right/wrong Basic, credentials in the
// body, native tokens valid/expired/tampered/revoked/foreign-key cold and
// cached, JWTs valid and forged) is sent through Router.ServeHTTP in-process.
// The handler of every route is replaced by an observer, so "the handler ran"
// is observed directly. Oracle, one-directional, in two layers:
//
//	gate     the route object is the declaration (flags read through an
//	         injected export): handler ran => (mustAuthenticate => the
//	         credential genuinely authenticates) and every required permission
//	         is held by the authenticated identity, or it is an administrator;
//	builder  the text is the declaration (builder-call documentation, directive
//	         terms): handler ran => every named permission is held and the
//	         caller is authenticated when the text says so.
//
// "Genuinely authenticates / holds" comes from the harness's own tables of
// users, tokens and JWTs, never from the session the router computed.
//
// The enumeration is sharded over worker processes (this same binary), each
// with its own user store, blacklist database and token set; every case starts
// from purged caches and an empty lock-out table.
package main

import (
	"bytes"
	"encoding/json"
	"fmt"
	"net/http"
	"net/http/httptest"
	"os"
	"os/exec"
	"path/filepath"
	"runtime"
	"runtime/pprof"
	"sort"
	"strings"
	"sync"
	"syscall"
	"time"

	"github.com/google/uuid"

	"github.com/tucats/ego/internal/caches"
	"github.com/tucats/ego/internal/defs"
	"github.com/tucats/ego/internal/language/tokens"
	"github.com/tucats/ego/internal/router"
	"github.com/tucats/ego/internal/verifrt/report"
)

type witness struct {
	Kind      string   `json:"kind"`
	Key       string   `json:"declaration"`
	Seq       []string `json:"builder_calls,omitempty"`
	Form      string   `json:"credential_form"`
	Class     string   `json:"credential_class"`
	Method    string   `json:"method"`
	Path      string   `json:"path"`
	Status    int      `json:"status"`
	Invoked   string   `json:"handler_invoked_for_route,omitempty"`
	Flags     any      `json:"route_flags,omitempty"`
	Decl      *decl    `json:"declared_by_text,omitempty"`
	Reference string   `json:"reference_identity"`
	RefPerms  []string `json:"reference_permissions"`
	Session   string   `json:"session_seen_by_handler,omitempty"`
}

type violation struct {
	Cell    string  `json:"cell"`
	Size    int     `json:"size"`
	Witness witness `json:"witness"`
	Message string  `json:"message"`
	Count   int64   `json:"count"`
}

type result struct {
	Evals      int64                 `json:"evals"`
	Invoked    int64                 `json:"invoked"`
	Refused    int64                 `json:"refused"`
	AuthzRun   int64                 `json:"authorized_and_ran"`
	AuthzDeny  int64                 `json:"authorized_but_refused"`
	Status     map[string]int64      `json:"status"`
	PerKind    map[string]int64      `json:"per_kind"`
	Items      map[string]int64      `json:"items"`
	Distinct   []string              `json:"distinct"`
	States     []string              `json:"states"`
	Reached    []string              `json:"reached"`
	RealRoutes []string              `json:"real_routes"`
	Violations map[string]*violation `json:"violations"`
	Samples    []witness             `json:"samples"`
	Forms      int                   `json:"forms_max"`
	Sanity     []string              `json:"valid_forms_refused_by_probe"`
	NoPayload  []string              `json:"validations_without_passing_body"`
	PayloadReq int64                 `json:"valid_body_requests"`
	PayloadRan int64                 `json:"valid_body_handler_ran"`
	Error      string                `json:"error"`
}

func newResult() *result {
	return &result{Status: map[string]int64{}, PerKind: map[string]int64{}, Items: map[string]int64{}, Violations: map[string]*violation{}}
}

func flagState(f router.VerifC20Flags) string {
	return fmt.Sprintf("auth=%v can=%v light=%v cred=%v perms=%v(%v) validations=%d", f.MustAuthenticate, f.CanAuthenticate, f.Lightweight, f.CheckCredentials, f.RequiredPermissions, f.HasPermissions, len(f.Validations))
}

// relevant lists the permissions a declaration names (flags and text), without ego.root.
func relevant(it *item) []string {
	var out []string

	add := func(ps []string) {
		for _, p := range ps {
			p = strings.ToLower(p)
			if p != defs.RootPermission {
				out = append(out, p)
			}
		}
	}

	add(it.flags.RequiredPermissions)

	if it.Decl != nil {
		add(it.Decl.Perms)
	}

	if it.Kind != "real" {
		add([]string{permA, permB})
	}

	out = uniq(out)
	sort.Strings(out)

	return out
}

type runner struct {
	w       *world
	res     *result
	probe   *router.Router
	states  map[string]bool
	dist    map[string]bool
	reached map[string]bool
}

func newRunner(w *world) *runner {
	p := router.NewRouter("verif-c20-probe")
	observe("probe", p.New("/verif/probe", nil, http.MethodGet).Authentication(true))

	return &runner{w: w, res: newResult(), probe: p, states: map[string]bool{}, dist: map[string]bool{}, reached: map[string]bool{}}
}

func (x *runner) send(rt *router.Router, method, path string, f form, flags router.VerifC20Flags) (int, *hitInfo) {
	var req *http.Request

	if f.Payload != "" {
		req = httptest.NewRequest(method, path, bytes.NewReader([]byte(f.Payload)))
	} else if f.IsBody {
		req = httptest.NewRequest(method, path, bytes.NewReader([]byte(f.Body)))
	} else {
		req = httptest.NewRequest(method, path, nil)

		if len(flags.Validations) > 0 && !flags.CheckCredentials {
			req.Body = nil // an absent body keeps payload validation out of the way of the gate
		}
	}

	if f.HasHdr {
		req.Header["Authorization"] = []string{f.Header}
	}

	accept := "application/json"
	if len(flags.AcceptMedia) > 0 {
		accept = flags.AcceptMedia[0]
	}

	req.Header.Set("Accept", accept)

	if len(flags.ContentMedia) > 0 {
		req.Header.Set("Content-Type", flags.ContentMedia[0])
	} else if f.IsBody || f.Payload != "" {
		req.Header.Set("Content-Type", "application/json")
	}

	rec := httptest.NewRecorder()
	lastHit = nil

	rt.ServeHTTP(rec, req)

	return rec.Code, lastHit
}

// prepare puts the world into the state the form asks for; the returned
// function undoes what must not leak into the next case.
func (x *runner) prepare(f form) func() {
	none := func() {}
	probeFlags := router.VerifC20Flags{}

	switch f.Prep {
	case "":
		return none
	case "warm":
		if f.Class == "token" {
			// the cache line of Authenticate, with the object auth.TokenUnwrap returned for this token
			x.warmToken(strings.TrimSpace(f.Header[len("Bearer "):]))
		} else {
			g := f
			g.Prep = ""
			x.send(x.probe, http.MethodGet, "/verif/probe", g, probeFlags)
		}
	case "warm-good":
		x.warmToken(x.w.token("vroot"))
	case "lock":
		for i := 0; i < 8; i++ {
			router.RecordFailure(0, f.Claimed)
		}
	case "expired-cached":
		caches.Add(caches.TokenCache, x.w.expiredTok, &tokens.Token{Name: "vroot", TokenID: uuid.New(), Expires: time.Now().Add(-time.Hour)})
	case "revoke-warm":
		x.warmToken(x.w.warmRevTok)

		if err := tokens.Blacklist(x.w.warmRevID); err != nil {
			report.Fatal("cannot revoke: %v", err)
		}

		return func() { _ = tokens.Delete(x.w.warmRevID) }
	default:
		report.Fatal("unknown preparation %q", f.Prep)
	}

	return none
}

func (x *runner) warmToken(t string) {
	tok := x.w.cached[t]
	if tok == nil {
		report.Fatal("no validated token object for a token the harness issued")
	}

	caches.Add(caches.TokenCache, t, tok)
}

func (x *runner) runItem(it *item, only string) {
	rel := relevant(it)
	methods := []string{it.flags.Method}

	if it.flags.Method == router.AnyMethod {
		methods = []string{http.MethodGet, http.MethodPost}
	}

	path := concretePath(it.flags.Endpoint)
	x.res.Items[it.Kind]++
	x.states[flagState(it.flags)] = true

	for _, m := range methods {
		bodyOK := m == http.MethodPost || m == http.MethodPut
		headerOK := !(it.flags.Method == router.AnyMethod && m == http.MethodPost)

		// A route with a payload validation is also requested with a body that passes
		// it, under every header form: a later step of the gate must not undo a refusal.
		payload := ""
		if m == http.MethodPost || m == http.MethodPut || m == http.MethodPatch {
			payload = passingPayload(it.flags)

			if len(it.flags.Validations) > 0 && payload == "" {
				x.res.NoPayload = append(x.res.NoPayload, it.Key)
			}
		}

		base := x.w.forms(rel, bodyOK)
		if len(base) > x.res.Forms {
			x.res.Forms = len(base)
		}

		var forms []form

		for _, f := range base {
			if f.IsBody || headerOK {
				forms = append(forms, f)
			}

			if !f.IsBody && payload != "" {
				g := f
				g.Name += "+valid-body"
				g.Payload = payload
				forms = append(forms, g)
			}
		}

		for fi, f := range forms {
			if only != "" && f.Name != only {
				continue
			}

			resetState()

			undo := x.prepare(f)
			status, hit := x.send(it.rt, m, path, f, it.flags)

			undo()

			x.res.Evals++

			if f.Payload != "" {
				x.res.PayloadReq++

				if hit != nil {
					x.res.PayloadRan++
				}
			}

			x.res.PerKind[it.Kind]++
			x.res.Status[fmt.Sprint(status)]++
			x.dist[flagState(it.flags)+"|"+m+"|"+f.Name] = true

			wit := witness{Kind: it.Kind, Key: it.Key, Seq: it.Seq, Form: f.Name, Class: f.Class, Method: m, Path: path, Status: status, Decl: it.Decl, Reference: f.Ident}
			if id := x.w.ids[f.Ident]; id != nil {
				wit.RefPerms = id.Perms
			}

			if hit == nil {
				x.res.Refused++

				if x.authorized(it.flags, it.Decl, f) {
					x.res.AuthzDeny++
				}

				if len(x.res.Samples) < 2 && f.Class != "none" {
					x.res.Samples = append(x.res.Samples, wit)
				}

				continue
			}

			x.res.Invoked++
			x.reached[hit.key] = true

			wit.Invoked, wit.Flags = routeKey(hit.flags), hit.flags
			wit.Session = fmt.Sprintf("user=%q authenticated=%v admin=%v permissions=%v", hit.user, hit.auth, hit.admin, hit.perms)

			var d *decl
			if hit.key == it.Key {
				d = it.Decl
			}

			if x.authorized(hit.flags, d, f) {
				x.res.AuthzRun++
			}

			if len(x.res.Samples) < 4 && f.Ident != "" {
				x.res.Samples = append(x.res.Samples, wit)
			}

			size := 100000*len(it.Seq) + 1000*len(hit.flags.RequiredPermissions) + fi
			if it.Kind != "builder" {
				size += 250000
			}

			for _, v := range x.judge(hit.flags, d, f) {
				x.record(v[0], size, wit, v[1])
			}
		}
	}
}

func (x *runner) record(cell string, size int, w witness, msg string) {
	v := x.res.Violations[cell]
	if v == nil {
		x.res.Violations[cell] = &violation{Cell: cell, Size: size, Witness: w, Message: msg, Count: 1}

		return
	}

	v.Count++

	if size < v.Size {
		v.Size, v.Witness, v.Message = size, w, msg
	}
}

// authorized: the reference says this request satisfies everything the route declares.
func (x *runner) authorized(flags router.VerifC20Flags, d *decl, f form) bool {
	return len(x.judge(flags, d, f)) == 0 && (f.Ident != "" || (!flags.MustAuthenticate && len(flags.RequiredPermissions) == 0))
}

// judge applies both oracle layers to a request whose handler ran. It returns
// (cell, message) pairs.
func (x *runner) judge(flags router.VerifC20Flags, d *decl, f form) [][2]string {
	var out [][2]string

	id := x.w.ids[f.Ident] // nil = the credential does not genuinely authenticate anybody
	authenticated := id != nil
	claimed := x.w.ids[f.Claimed]

	missing := func(perms []string) []string {
		var m []string

		for _, p := range perms {
			if !(authenticated && (id.admin() || id.holds(p))) {
				m = append(m, p)
			}
		}

		return m
	}

	permCell := func(layer string, miss []string) [2]string {
		kind := "authenticated-identity-lacks-it"

		if !authenticated {
			kind = "caller-not-authenticated"

			if claimed != nil && !claimed.JWT {
				all := true

				for _, p := range miss {
					if !(claimed.admin() || claimed.holds(p)) {
						all = false
					}
				}

				if all {
					kind = "held-only-by-the-unauthenticated-user-name"
				}
			}
		}

		return [2]string{layer + ":permission:" + kind + ":" + f.Class,
			fmt.Sprintf("the handler ran although required permission(s) %v are not held by an authenticated identity (reference identity %q, named user %q)", miss, f.Ident, f.Claimed)}
	}

	authCell := func(layer string) [2]string {
		if flags.Lightweight {
			return [2]string{layer + ":authentication:lightweight-route-skips-required-authentication",
				"the handler of a route that requires authentication ran for a request that does not authenticate: lightweight routes skip authentication and the remaining check depends on canAuthenticate"}
		}

		return [2]string{layer + ":authentication:unauthenticated-request-ran-handler:" + f.Class,
			"the handler of a route that requires authentication ran for a request whose credentials do not authenticate anybody"}
	}

	// layer 1: the route object is the declaration
	gateAuth := flags.MustAuthenticate && !authenticated
	gateMiss := missing(flags.RequiredPermissions)

	if gateAuth {
		out = append(out, authCell("gate"))
	}

	if len(gateMiss) > 0 {
		out = append(out, permCell("gate", gateMiss))
	}

	// layer 2: the text is the declaration; reported only where layer 1 is silent
	// (one root cause, one cell: the flags layer already names it)
	if d != nil && len(out) == 0 {
		if d.Auth && !d.AuthExempt && !authenticated && !gateAuth {
			c := authCell("text")
			c[1] += " (required by the text of the declaration; the route flags lost the requirement)"
			out = append(out, c)
		}

		if miss := missing(d.Perms); len(miss) > 0 && len(gateMiss) == 0 {
			c := permCell("text", miss)
			c[1] += " (required by the text of the declaration; the route flags lost the requirement)"
			out = append(out, c)
		}
	}

	return out
}

// ---- work distribution ---------------------------------------------------------

func allItems(scratch, tag string, depth int) ([]*item, []string) {
	real := realItems()

	var perms []string

	for _, it := range real {
		perms = append(perms, it.flags.RequiredPermissions...)
	}

	items := append([]*item{}, real...)
	items = append(items, directiveItems(scratch, tag)...)

	for _, s := range builderSeqs(depth) {
		items = append(items, builderItem(s))
	}

	return items, uniq(perms)
}

func runShard(scratch string, shard, shards, depth int, outPath string) {
	if pf := os.Getenv("VERIF_C20_PROF"); pf != "" {
		f, _ := os.Create(pf)
		_ = pprof.StartCPUProfile(f)

		defer pprof.StopCPUProfile()
	}

	tag := fmt.Sprintf("s%02d", shard)

	// The real table must be built after the world (OAuth routes depend on
	// settings), but the world needs the table's permissions: build twice.
	probe := realPermissions()
	w := newWorld(scratch, tag, probe)
	items, _ := allItems(scratch, tag, depth)
	x := newRunner(w)

	x.sanity()

	for i, it := range items {
		if it.Kind == "real" {
			x.res.RealRoutes = append(x.res.RealRoutes, it.Key)
		}

		if i%shards != shard {
			continue
		}

		t0 := time.Now()
		x.runItem(it, "")

		if os.Getenv("VERIF_C20_DEBUG") != "" && shard == 0 {
			fmt.Fprintf(os.Stderr, "DEBUG shard0 item %d %s %q: %v (evals %d)\n", i, it.Kind, it.Key, time.Since(t0), x.res.Evals)
		}
	}

	x.finish()

	b, _ := json.Marshal(x.res)
	if err := os.WriteFile(outPath, b, 0o644); err != nil {
		fmt.Fprintln(os.Stderr, err)
		os.Exit(3)
	}
}

func (x *runner) finish() {
	for k := range x.dist {
		x.res.Distinct = append(x.res.Distinct, k)
	}

	for k := range x.states {
		x.res.States = append(x.res.States, k)
	}

	for k := range x.reached {
		x.res.Reached = append(x.res.Reached, k)
	}
}

// sanity: in this world the valid credentials do authenticate (otherwise every
// case would be vacuous) — recorded, fatal only when nothing works at all.
func (x *runner) sanity() {
	ok, total := 0, 0

	for _, f := range x.w.forms([]string{permA}, false) {
		if f.Ident == "" || f.Prep != "" || strings.HasPrefix(f.Ident, "*") {
			continue
		}

		if f.Ident == "vnologon" || f.Ident == "vrootonly" || strings.HasPrefix(f.Name, "malformed") {
			continue
		}

		resetState()

		total++

		if _, hit := x.send(x.probe, http.MethodGet, "/verif/probe", f, router.VerifC20Flags{}); hit != nil {
			ok++
		} else {
			x.res.Sanity = append(x.res.Sanity, f.Name)
		}
	}

	if ok == 0 {
		report.Fatal("none of the %d valid credential forms reaches an authentication-only probe route: the harness world is broken", total)
	}

	resetState()

	if _, hit := x.send(x.probe, http.MethodGet, "/verif/probe", form{Header: "Bearer " + x.w.token("vroot"), HasHdr: true}, router.VerifC20Flags{}); hit == nil {
		resetState()

		if _, hit2 := x.send(x.probe, http.MethodGet, "/verif/probe", form{Header: "Bearer " + x.w.issuedToken(), HasHdr: true}, router.VerifC20Flags{}); hit2 != nil {
			report.Fatal("a token issued by tokens.New is accepted but a token sealed by the harness in the v3 wire format is not: the wire format changed, adapt world.go")
		}
	}
}

func realPermissions() []string {
	var perms []string

	for _, it := range realItems() {
		perms = append(perms, it.flags.RequiredPermissions...)
	}

	return uniq(perms)
}

func main() {
	scratch := os.Getenv("VERIF_SCRATCH")

	if s := os.Getenv("VERIF_C20_SHARD"); s != "" {
		var shard, shards, depth int

		fmt.Sscan(s, &shard)
		fmt.Sscan(os.Getenv("VERIF_C20_SHARDS"), &shards)
		fmt.Sscan(os.Getenv("VERIF_C20_DEPTH"), &depth)
		runShard(scratch, shard, shards, depth, os.Getenv("VERIF_C20_OUT"))

		return
	}

	r := report.New("exploration")
	depth := r.Pick(3, 4)

	r.Rule(fmt.Sprintf("declarations = every route of the server's real table (all roles on: services, native admin, cluster, OAuth AS + RS) + every sequence of 0..%d builder calls over %v on a fresh route + %d generated service files over the @endpoint/@authenticated auth grammar; "+
		"each x every credential form, on routes with a payload validation also with a body that passes it (none, malformed headers, Basic right/wrong/locked-out, body credentials on POST/PUT, native tokens valid/expired/tampered/foreign-key/revoked cold and cached, JWTs valid and forged), each from purged caches, through the real Router.ServeHTTP with observing handlers. "+
		"evaluations = requests judged. distinct non-trivial = distinct (route flag state, method, credential form) triples", depth, builderAlphabet, len(directiveTexts())))
	r.Assume(
		"reference truth (who a credential authenticates, which permissions that identity holds) comes from the harness's own user/token/JWT tables; generous where the statement is silent (a valid credential of a user without ego.logon, a locked-out user with the right password, a valid token of a deleted user, a JWT without exp/with wrong iss signed by the provider key count as authenticated), so only refusals the statement demands are demanded",
		"the handler of every route is replaced by an observer through an injected export; media-type, parameter and payload checks are satisfied or side-stepped (absent body) so that they do not mask the gate",
		"users are written straight into the in-memory user store with bcrypt cost-4 hashes; JWTs are verified against an in-process identity provider (injected transport), ES256",
		"native tokens are sealed by the harness in the server's own v3 wire format under one salt, and Argon2id is memoised (same function), so that the 32 MiB key derivation is paid once per process; a token issued by tokens.New is one of the forms, and 'cached' states are produced by the very cache line of Authenticate (caches.Add of the validated token)",
		"work is split over 8 worker processes, each with its own store, blacklist database and tokens; every case starts from purged token/JWT/blacklist caches and an empty lock-out table, so the verdict of a case does not depend on the cases before it",
		"one-directional: refusing more than declared is never a violation",
	)

	if r.Replay != "" {
		var w witness
		if err := report.LoadReplay(r.Replay, &w); err != nil {
			report.Fatal("%v", err)
		}

		replay(r, scratch, w)
		r.Finish()
	}

	shards := runtime.NumCPU()
	if shards > 8 {
		shards = 8
	}

	results := runWorkers(scratch, shards, depth)
	merge(r, results)
	r.Finish()
}

func replay(r *report.R, scratch string, w witness) {
	wd := newWorld(scratch, "replay", realPermissions())
	items, _ := allItems(scratch, "replay", len(w.Seq))
	x := newRunner(wd)

	for _, it := range items {
		if it.Kind == w.Kind && it.Key == w.Key {
			x.runItem(it, w.Form)
		}
	}

	x.finish()

	if x.res.Evals == 0 {
		report.Fatal("the replay witness names no known declaration/credential form")
	}

	merge(r, []*result{x.res})
}

func runWorkers(scratch string, shards, depth int) []*result {
	exe, err := os.Executable()
	if err != nil {
		report.Fatal("%v", err)
	}

	out := make([]*result, shards)
	errs := make([]string, shards)

	var wg sync.WaitGroup

	for i := 0; i < shards; i++ {
		wg.Add(1)

		go func(i int) {
			defer wg.Done()

			outPath := filepath.Join(scratch, fmt.Sprintf("c20-out-%02d.json", i))
			cmd := exec.Command(exe)
			cmd.Env = append(os.Environ(), fmt.Sprintf("VERIF_C20_SHARD=%d", i), fmt.Sprintf("VERIF_C20_SHARDS=%d", shards),
				fmt.Sprintf("VERIF_C20_DEPTH=%d", depth), "VERIF_C20_OUT="+outPath, "GOMAXPROCS=2")
			cmd.Stdout, cmd.Stderr = os.Stderr, os.Stderr
			cmd.SysProcAttr = &syscall.SysProcAttr{Pdeathsig: syscall.SIGKILL}
			runErr := cmd.Run()

			b, err := os.ReadFile(outPath)
			if err != nil {
				errs[i] = fmt.Sprintf("worker %d left no result (%v)", i, runErr)

				return
			}

			out[i] = newResult()
			if err := json.Unmarshal(b, out[i]); err != nil {
				errs[i] = fmt.Sprintf("worker %d: %v", i, err)
			} else if runErr != nil {
				errs[i] = fmt.Sprintf("worker %d: %v", i, runErr)
			}
		}(i)
	}

	wg.Wait()

	for _, e := range errs {
		if e != "" {
			report.Fatal("%s", e)
		}
	}

	return out
}

func merge(r *report.R, results []*result) {
	total := newResult()
	reached, states := map[string]bool{}, map[string]bool{}

	var realRoutes []string

	for _, x := range results {
		total.Evals += x.Evals
		total.Invoked += x.Invoked
		total.Refused += x.Refused
		total.AuthzRun += x.AuthzRun
		total.AuthzDeny += x.AuthzDeny

		for k, v := range x.Status {
			total.Status[k] += v
		}

		for k, v := range x.PerKind {
			total.PerKind[k] += v
		}

		for k, v := range x.Items {
			total.Items[k] += v
		}

		for _, k := range x.Distinct {
			r.Distinct(k)
		}

		for _, k := range x.States {
			states[k] = true
		}

		for _, k := range x.Reached {
			reached[k] = true
		}

		if len(x.RealRoutes) > 0 {
			realRoutes = x.RealRoutes
		}

		if x.Forms > total.Forms {
			total.Forms = x.Forms
		}

		if len(x.Sanity) > 0 {
			total.Sanity = x.Sanity
		}

		total.NoPayload = append(total.NoPayload, x.NoPayload...)
		total.PayloadReq += x.PayloadReq
		total.PayloadRan += x.PayloadRan

		for _, s := range x.Samples {
			r.Sample(s)
		}

		for _, v := range x.Violations {
			for i := int64(0); i < v.Count; i++ {
				r.Violation(v.Cell, v.Size, v.Witness, v.Message)
			}
		}
	}

	var unreached []string

	for _, k := range realRoutes {
		if !reached[k] {
			unreached = append(unreached, k)
		}
	}

	sort.Strings(unreached)

	r.Eval(int(total.Evals))
	r.Set("handler_ran", total.Invoked)
	r.Set("refused", total.Refused)
	r.Set("authorized_and_ran", total.AuthzRun)
	r.Set("authorized_but_refused", total.AuthzDeny)
	r.Set("status_histogram", total.Status)
	r.Set("requests_per_kind", total.PerKind)
	r.Set("declarations_per_kind", total.Items)
	r.Set("route_flag_states", len(states))
	r.Set("credential_forms_max", total.Forms)
	r.Set("generous_reference_forms_refused_by_an_authentication_only_route", total.Sanity)
	r.Set("valid_body_requests", total.PayloadReq)
	r.Set("valid_body_requests_whose_handler_ran", total.PayloadRan)
	r.Set("routes_with_validation_but_no_passing_body", uniq(total.NoPayload))
	r.Set("real_route_list", realRoutes)
	r.Set("real_routes", len(realRoutes))
	r.Set("real_routes_whose_handler_ran", len(realRoutes)-len(unreached))
	r.Set("real_routes_never_reached", unreached)
}

package main

// The world every case runs in: the user store, the identities with their
// permission sets, native tokens in every state, an in-process identity
// provider for JWTs. Everything here is the harness's own reference data: the
// oracle decides "authenticated / holds permission / administrator" from these
// tables only, never from what the router computed.

import (
	"bytes"
	"crypto/aes"
	"crypto/cipher"
	"crypto/ecdsa"
	"crypto/elliptic"
	"crypto/rand"
	"crypto/x509"
	"encoding/base64"
	"encoding/hex"
	"encoding/json"
	"fmt"
	"io"
	"net/http"
	"os"
	"path/filepath"
	"sort"
	"strings"
	"time"

	"github.com/golang-jwt/jwt/v5"
	"github.com/google/uuid"
	"golang.org/x/crypto/argon2"
	"golang.org/x/crypto/bcrypt"

	"github.com/tucats/ego/internal/caches"
	"github.com/tucats/ego/internal/cli/settings"
	"github.com/tucats/ego/internal/defs"
	"github.com/tucats/ego/internal/language/tokens"
	"github.com/tucats/ego/internal/router"
	"github.com/tucats/ego/internal/server/auth"
	"github.com/tucats/ego/internal/server/oauth"
	"github.com/tucats/ego/internal/verifrt/report"
)

const (
	permA     = "verif.a"
	permB     = "verif.b"
	permDecoy = "verif.decoy"
	tokenKey  = "verif-c20-token-key-0123456789abcdefghijklmnopqrstuvwxyz"
	provider  = "https://idp.verif.test"
	kid       = "verif-k1"
	instance  = "8c1f5a0e-3d5b-4f57-9a5e-1f4f2b7c9d10"
)

// identity is one principal of the reference model.
type identity struct {
	Name     string
	Perms    []string
	Password string
	JWT      bool // exists only as a JWT subject (no local user record)
}

func (id *identity) holds(p string) bool {
	for _, q := range id.Perms {
		if strings.EqualFold(p, q) {
			return true
		}
	}

	return false
}

func (id *identity) admin() bool { return id.holds(defs.RootPermission) }

type world struct {
	universe []string // every permission a route under test can require (without ego.root)
	ids      map[string]*identity
	tok      map[string]string // valid native token per local user (created on demand)
	hash     map[string]string // stored password hash per local user
	tokID    map[string]string
	cached   map[string]*tokens.Token // what the server caches for a valid token (auth.TokenUnwrap result)
	key      *ecdsa.PrivateKey
	otherKey *ecdsa.PrivateKey
	scope    map[string]string // permission -> scope name

	expiredTok, wrongKeyTok, ghostTok, revokedTok, revokedID string
	warmRevTok, warmRevID                                     string
	jwtCache                                                  map[string]string
	goodKey                                                   []byte
	issued                                                    string
}

func onlyName(i int) string { return fmt.Sprintf("vonly%d", i) }
func butName(i int) string  { return fmt.Sprintf("vbut%d", i) }

// newWorld creates the store, the users and the special tokens. perms is the
// set of permissions the routes under test require.
func newWorld(scratch string, tag string, perms []string) *world {
	w := &world{ids: map[string]*identity{}, tok: map[string]string{}, tokID: map[string]string{}, scope: map[string]string{}, jwtCache: map[string]string{}, hash: map[string]string{}, cached: map[string]*tokens.Token{}}

	seen := map[string]bool{}

	for _, p := range append([]string{permA, permB, defs.LogonPermission}, perms...) {
		p = strings.ToLower(p)
		if p == defs.RootPermission || seen[p] {
			continue
		}

		seen[p] = true
		w.universe = append(w.universe, p)
	}

	sort.Strings(w.universe)

	settings.SetDefault(defs.ServerTokenKeySetting, tokenKey)
	settings.SetDefault(defs.EgoPathSetting, filepath.Join(scratch, "egopath-"+tag))
	_ = os.MkdirAll(filepath.Join(scratch, "egopath-"+tag), 0o700)

	svc, err := auth.NewFileService("", "vbootstrap", "")
	if err != nil {
		report.Fatal("user store: %v", err)
	}

	auth.AuthService = svc
	_ = auth.AuthService.DeleteUser(0, "vbootstrap")

	if err := tokens.SetDatabasePath("sqlite3://" + filepath.Join(scratch, "blacklist-"+tag+".db")); err != nil {
		report.Fatal("blacklist database: %v", err)
	}

	without := func(p string) []string {
		out := []string{}

		for _, q := range w.universe {
			if q != p {
				out = append(out, q)
			}
		}

		return out
	}

	all := append([]string{}, w.universe...)

	w.addUser("vroot", []string{defs.RootPermission, defs.LogonPermission})
	w.addUser("vrootonly", []string{defs.RootPermission})
	w.addUser("vplain", []string{defs.LogonPermission})
	w.addUser("vnologon", without(defs.LogonPermission))
	w.addUser("vall", all)
	w.addUser("vdecoy", []string{defs.LogonPermission, permDecoy})

	for i, p := range w.universe {
		w.addUser(onlyName(i), uniq([]string{defs.LogonPermission, p}))
		w.addUser(butName(i), append(without(p), permDecoy))
	}

	// A user that existed when its token was issued and was deleted afterwards.
	w.ids["vghost"] = &identity{Name: "vghost", Perms: nil}

	// A JWT whose subject is spelled like a local administrator: whether the
	// local record counts is not for this check to decide (never flagged).
	w.ids["*jwt-as-local"] = &identity{Name: "*jwt-as-local", Perms: []string{defs.RootPermission, defs.LogonPermission}, JWT: true}

	// The identity provider and the JWT subjects (no local record).
	w.setupIDP()

	jw := func(name string, perms []string) { w.ids[name] = &identity{Name: name, Perms: perms, JWT: true} }

	jw("jroot", []string{defs.RootPermission, defs.LogonPermission})
	jw("jplain", []string{defs.LogonPermission})
	jw("jall", all)

	for i, p := range w.universe {
		jw(fmt.Sprintf("jonly%d", i), uniq([]string{defs.LogonPermission, p}))
		jw(fmt.Sprintf("jbut%d", i), without(p))
	}

	// Special native tokens.
	w.goodKey = sealKey(tokenKey)
	now := time.Now()
	w.expiredTok = w.seal(tokens.Token{Name: "vroot", TokenID: uuid.New(), Created: now.Add(-2 * time.Hour), Expires: now.Add(-time.Hour), AuthID: uuid.MustParse(instance)}, w.goodKey)
	w.wrongKeyTok = w.seal(tokens.Token{Name: "vroot", TokenID: uuid.New(), Created: now, Expires: now.Add(time.Hour), AuthID: uuid.MustParse(instance)}, sealKey("some-other-server-key"))
	w.ghostTok, _ = w.newToken("vghost")
	w.revokedTok, w.revokedID = w.newToken("vroot")
	w.warmRevTok, w.warmRevID = w.newToken("vroot")

	if err := tokens.Blacklist(w.revokedID); err != nil {
		report.Fatal("cannot revoke a token: %v", err)
	}

	return w
}

func uniq(in []string) []string {
	seen := map[string]bool{}
	out := []string{}

	for _, s := range in {
		if !seen[s] {
			seen[s] = true
			out = append(out, s)
		}
	}

	return out
}

func password(name string) string { return "pw-" + name + "-S3cret" }

func (w *world) addUser(name string, perms []string) {
	h, err := bcrypt.GenerateFromPassword([]byte(password(name)), bcrypt.MinCost)
	if err != nil {
		report.Fatal("bcrypt: %v", err)
	}

	u := defs.User{Name: name, ID: uuid.New(), Password: string(h), Permissions: append([]string{}, perms...)}
	if err := auth.AuthService.WriteUser(0, u); err != nil {
		report.Fatal("cannot write user %s: %v", name, err)
	}

	w.ids[name] = &identity{Name: name, Perms: perms, Password: password(name)}
	w.hash[name] = string(h)
}

// Native tokens. tokens.New seals every token under a fresh random salt, and
// each salt costs the server one Argon2id derivation (32 MiB) when the token is
// first presented. The harness therefore seals its tokens itself, in the
// server's own wire format (internal/util/crypto.go: magic, salt, nonce,
// AES-256-GCM of the JSON of tokens.Token, key = Argon2id(token key, salt)),
// all under ONE salt, so that the (memoised) derivation is paid once per
// process. One token really issued by tokens.New is presented as well, and the
// sanity pass refuses to continue if sealed tokens are not accepted.
var (
	v3Magic  = []byte{0xFF, 0x45, 0x47, 0x33}
	sealSalt = []byte("verif-c20-salt!!")
)

func sealKey(passphrase string) []byte {
	return argon2.IDKey([]byte(passphrase), sealSalt, 2, 32*1024, 1, 32)
}

func (w *world) seal(t tokens.Token, key []byte) string {
	b, _ := json.Marshal(t)

	block, err := aes.NewCipher(key)
	if err != nil {
		report.Fatal("%v", err)
	}

	gcm, err := cipher.NewGCM(block)
	if err != nil {
		report.Fatal("%v", err)
	}

	nonce := make([]byte, gcm.NonceSize())
	if _, err := rand.Read(nonce); err != nil {
		report.Fatal("%v", err)
	}

	out := append(append([]byte{}, v3Magic...), sealSalt...)
	out = append(out, gcm.Seal(nonce, nonce, b, nil)...)

	return hex.EncodeToString(out)
}

// newToken seals a valid one-hour token for name and remembers what the server
// would keep in its token cache after validating it.
func (w *world) newToken(name string) (string, string) {
	now := time.Now().UTC().Round(0)
	tk := tokens.Token{Name: name, TokenID: uuid.New(), Created: now, Expires: now.Add(time.Hour), AuthID: uuid.MustParse(instance)}
	t := w.seal(tk, w.goodKey)

	// the cache line of Authenticate stores the *tokens.Token that Unwrap decoded from the JSON
	var back tokens.Token

	b, _ := json.Marshal(tk)
	_ = json.Unmarshal(b, &back)
	w.cached[t] = &back

	return t, tk.TokenID.String()
}

func (w *world) token(name string) string {
	if t, ok := w.tok[name]; ok {
		return t
	}

	t, id := w.newToken(name)
	w.tok[name], w.tokID[name] = t, id

	return t
}

// issuedToken is a token really issued by tokens.New (random salt).
func (w *world) issuedToken() string {
	if w.issued == "" {
		t, err := tokens.New("vroot", "", "1h", instance, 0)
		if err != nil {
			report.Fatal("cannot issue a token: %v", err)
		}

		w.issued = t
	}

	return w.issued
}

// ---- identity provider -----------------------------------------------------

type idpTransport struct{ w *world }

func (t idpTransport) RoundTrip(r *http.Request) (*http.Response, error) {
	var body []byte

	switch r.URL.Path {
	case "/.well-known/openid-configuration":
		body, _ = json.Marshal(map[string]any{
			"issuer": provider, "jwks_uri": provider + "/jwks", "token_endpoint": provider + "/token",
			"authorization_endpoint": provider + "/authorize",
		})
	case "/jwks":
		pub := t.w.key.PublicKey
		b64 := func(b []byte) string { return base64.RawURLEncoding.EncodeToString(b) }
		x, y := pub.X.FillBytes(make([]byte, 32)), pub.Y.FillBytes(make([]byte, 32))
		body, _ = json.Marshal(map[string]any{"keys": []any{map[string]any{
			"kty": "EC", "crv": "P-256", "kid": kid, "use": "sig", "alg": "ES256", "x": b64(x), "y": b64(y)}}})
	default:
		return &http.Response{StatusCode: 404, Body: io.NopCloser(bytes.NewReader(nil)), Header: http.Header{}, Request: r}, nil
	}

	return &http.Response{StatusCode: 200, Body: io.NopCloser(bytes.NewReader(body)), Header: http.Header{"Content-Type": {"application/json"}}, Request: r}, nil
}

func (w *world) setupIDP() {
	var err error

	if w.key, err = ecdsa.GenerateKey(elliptic.P256(), rand.Reader); err != nil {
		report.Fatal("%v", err)
	}

	if w.otherKey, err = ecdsa.GenerateKey(elliptic.P256(), rand.Reader); err != nil {
		report.Fatal("%v", err)
	}

	pairs := []string{"sroot=" + defs.RootPermission}

	for i, p := range w.universe {
		w.scope[p] = fmt.Sprintf("s%d", i)
		pairs = append(pairs, w.scope[p]+"="+p)
	}

	w.scope[defs.RootPermission] = "sroot"

	oauth.VerifC20SetIDPTransport(idpTransport{w})
	settings.SetDefault(defs.OAuthProviderSetting, provider)
	settings.SetDefault(defs.OAuthPermissionMapSetting, strings.Join(pairs, ","))

	if err := oauth.Initialize(); err != nil {
		report.Fatal("resource-server initialization against the in-process identity provider failed: %v", err)
	}

	if !oauth.IsEnabled() {
		report.Fatal("resource-server mode is not enabled")
	}
}

type jwtSpec struct {
	Sub     string
	Issuer  string
	Exp     time.Duration // relative to now; 0 = no exp claim
	Nbf     time.Duration
	Key     *ecdsa.PrivateKey
	Kid     string
	Alg     string // ES256 | none | HS256
	JTI     string
	ScopeOf string // identity whose permissions become the scope claim ("" = Sub)
}

func (w *world) makeJWT(s jwtSpec) string {
	who := s.ScopeOf
	if who == "" {
		who = s.Sub
	}

	var scopes []string

	if id := w.ids[who]; id != nil {
		for _, p := range id.Perms {
			if sc, ok := w.scope[strings.ToLower(p)]; ok {
				scopes = append(scopes, sc)
			}
		}
	}

	now := time.Now()
	claims := jwt.MapClaims{"iss": s.Issuer, "sub": s.Sub, "iat": now.Add(-time.Minute).Unix(), "scope": strings.Join(scopes, " ")}

	if s.Exp != 0 {
		claims["exp"] = now.Add(s.Exp).Unix()
	}

	if s.Nbf != 0 {
		claims["nbf"] = now.Add(s.Nbf).Unix()
	}

	if s.JTI != "" {
		claims["jti"] = s.JTI
	}

	var (
		tok *jwt.Token
		key any
	)

	switch s.Alg {
	case "none":
		tok, key = jwt.NewWithClaims(jwt.SigningMethodNone, claims), jwt.UnsafeAllowNoneSignatureType
	case "HS256":
		der, _ := x509.MarshalPKIXPublicKey(&w.key.PublicKey)
		tok, key = jwt.NewWithClaims(jwt.SigningMethodHS256, claims), der
	default:
		tok, key = jwt.NewWithClaims(jwt.SigningMethodES256, claims), s.Key
	}

	if s.Kid != "" {
		tok.Header["kid"] = s.Kid
	}

	out, err := tok.SignedString(key)
	if err != nil {
		report.Fatal("cannot sign a JWT: %v", err)
	}

	return out
}

func (w *world) goodJWT(sub string) string {
	if t, ok := w.jwtCache[sub]; ok {
		return t
	}

	t := w.makeJWT(jwtSpec{Sub: sub, Issuer: provider, Exp: time.Hour, Key: w.key, Kid: kid, JTI: "jti-" + sub})
	w.jwtCache[sub] = t

	return t
}

// ---- state between cases -----------------------------------------------------

// resetState brings every piece of mutable global state a request can touch
// back to the same start: no cached tokens, no lock-outs.
func resetState() {
	for _, c := range []int{caches.TokenCache, caches.AuthCache, caches.BlacklistCache, caches.OAuthJWTCache, caches.UserCache} {
		caches.PurgeLocal(c)
	}

	router.VerifC20ResetLogins()
}

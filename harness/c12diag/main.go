// C12: diagnostics modes do not change behaviour.
//
// E-enum, differential. The program set of C02 (a generated set of small Ego
// programs, every line of output prefixed OUT|) and the repository's
// tests/**.ego corpus are run through the real `ego` command line plainly and
// under --profile, --profile-file, --trace (to the console and to a log
// file) and --debug with a scripted stream of `continue` commands. The OUT|
// lines, the error message (line numbers normalised) and the failure status
// must equal those of the plain run. The bulk runs packed in batch worker
// processes; every disagreement is re-run, alone, in fresh processes of the
// plain ego binary, twice per side, before it is reported.
package main

import (
	"fmt"

	"github.com/tucats/ego/internal/verifrt/pdiff"
	"github.com/tucats/ego/internal/verifrt/report"
)

var diags = []string{"profile", "profile-file", "trace", "trace-logfile", "debug"}

func group(base pdiff.Config, ds []string) pdiff.Group {
	g := pdiff.Group{Base: base}

	for _, d := range ds {
		c := base
		c.Diag = d
		g.Configs = append(g.Configs, c)
	}

	return g
}

func main() {
	pdiff.Dispatch()

	r := report.New("exploration")

	// Plain run with the default settings; thorough also with the optimizer
	// off and forced on, so that the diagnostics meet both kinds of bytecode.
	plain := pdiff.Config{Opt: -1, Reg: -1, Fold: -1, Cache: -1}
	groups := []pdiff.Group{group(plain, diags)}
	corpus := []pdiff.Group{group(plain, []string{"trace", "debug"})}
	modes := []string{"dynamic", "strict"}
	corpusModes := []string{"dynamic"}

	if r.Thorough() {
		modes = []string{"dynamic", "relaxed", "strict"}
		corpusModes = modes

		for _, o := range []int{0, 2} {
			b := plain
			b.Opt = o
			groups = append(groups, group(b, diags))
			corpus = append(corpus, group(b, []string{"debug"})) // tracing the corpus: default settings only
		}
	}

	plan := &pdiff.Plan{
		Modes: modes, Groups: groups, CorpusGroups: corpus, CorpusModes: corpusModes,
		OutOnly: true, PackSize: 40, ConfirmCap: 2,
	}

	plan.CorpusTraceModes = []string{"dynamic"}

	if !r.Thorough() {
		plan.CorpusDirs = pdiff.CoreCorpusDirs
		plan.CorpusDirsPerRun = len(pdiff.CoreCorpusDirs) // one `ego test` command line per pass
		plan.CorpusTraceDirs = []string{"cast", "defer", "errors"}
		// The file-bound variants differ from their console twins only in
		// where the report goes: quick runs them in dynamic mode only.
		plan.DiagModes = map[string][]string{"profile-file": {"dynamic"}, "trace-logfile": {"dynamic"}}
	}

	r.Rule(fmt.Sprintf("programs: the C02 program set (every statement form over every numeric type plus the Ego-specific families%s); each program x {--profile, --profile-file, --trace, --trace --log-file, --debug fed `continue`} x %d type modes (quick: the two file-bound variants in dynamic mode only) x %d setting groups against the plain run of the same group; plus every test block of the tests/**.ego corpus under `ego test --debug` (quick: the 13 language-core directories) and `ego test --trace` (quick: cast, defer, errors; tracing a directory costs about 30 times its plain run). distinct = (mode, program) that produces output or an error when run plainly, and (mode, corpus test block) stable in two plain runs",
		map[bool]string{false: "", true: ", and every ordered pair of statement forms"}[r.Thorough()], len(modes), len(groups)))
	r.Assume("program output is recognised by the OUT| prefix every generated program puts on every line it prints (diagnostics share stdout with the program); for the corpus only status and error lines are compared",
		"the batch worker repeats ego's main() in one process per mode; every disagreement is re-run in fresh `ego run` processes (twice per side) before it is reported",
		"the debugger reads an endless stream of `continue` lines on standard input",
		"`ego test` has no --profile option: the corpus covers --trace and --debug only")

	if r.Replay != "" {
		var w pdiff.Witness
		if err := report.LoadReplay(r.Replay, &w); err != nil {
			report.Fatal("%v", err)
		}

		pdiff.Replay(r, plan, w)
		r.Finish()
	}

	plan.Progs = pdiff.Generate(r.Thorough())

	for i := 0; i < len(plan.Progs); i += len(plan.Progs)/5 + 1 {
		p := plan.Progs[i]
		r.Sample(map[string]any{"form": p.Form, "type": p.Typ, "variant": p.Variant, "body": p.Body})
	}

	r.Set("diagnostic_modes", len(diags))
	r.Set("type_modes", len(modes))
	r.Set("setting_groups", len(groups))

	pdiff.Run(r, plan)
	r.Finish()
}

// C30: the struct-backed resource store (internal/resources, SQLite backend)
// returns exactly the records a simple in-memory keyed table would return.
//
// E-seq: explicit-state breadth-first search over operation histories. A
// state is reached by replaying its shortest history on an emptied SQLite
// database (one file per worker, table dropped) through one new resource handle; every event of the alphabet is then
// applied through the real entry points and its answer, and the table the
// store reports afterwards, are compared with a Go reference model (a map of
// structs). States are deduplicated on the raw table contents plus the handle
// fields; the search runs to its fixpoint (all records come from a finite
// pool, so the reachable set is finite). A second pass runs every history up
// to a length over a reduced alphabet on ONE handle without deduplication, so
// state hidden in the handle or its connection pool would show as well.
package main

import (
	"fmt"
	"reflect"
	"sort"
	"strings"
	"sync"

	"github.com/tucats/ego/internal/verifrt/enum"
	"github.com/tucats/ego/internal/verifrt/report"
)

type witness struct {
	History []Event  `json:"history"`
	Event   Event    `json:"event"`
	Trace   []string `json:"trace"`
	Got     string   `json:"got"`
	Want    string   `json:"want"`
}

type finding struct {
	cell string
	msg  string
	got  string
	want string
}

func multisetEq(a, b []string) bool {
	x := append([]string{}, a...)
	y := append([]string{}, b...)

	sort.Strings(x)
	sort.Strings(y)

	if len(x) == 0 && len(y) == 0 {
		return true
	}

	return reflect.DeepEqual(x, y)
}

func rowsFor(t Table, names []string) []string {
	out := make([]string, 0, len(names))
	for _, k := range names {
		out = append(out, canon(t.Rows[k]))
	}

	return out
}

// sortedBy reports whether the canonical rows respect the sort spec (ties may
// come in any order).
func sortedBy(t Table, rows []string, spec []string) bool {
	if len(spec) == 0 {
		return true
	}

	byCanon := map[string]Rec{}
	for _, r := range t.Rows {
		byCanon[canon(r)] = r
	}

	less := func(a, b Rec) int {
		for _, c := range spec {
			switch x := field(a, c).(type) {
			case string:
				if d := strings.Compare(x, field(b, c).(string)); d != 0 {
					return d
				}
			case int:
				y := field(b, c).(int)
				if x < y {
					return -1
				} else if x > y {
					return 1
				}
			}
		}

		return 0
	}

	for i := 1; i < len(rows); i++ {
		if less(byCanon[rows[i-1]], byCanon[rows[i]]) > 0 {
			return false
		}
	}

	return true
}

// unknownCell names the two faces of "a filter on a column that does not
// exist is not applied".
func unknownCell(list []Atom) string {
	_, _, valid := classify(list)
	if valid == 0 {
		return "filter:unknown-column:matches-all"
	}

	return "filter:unknown-column:ignored"
}

// judge compares one real outcome (and the table the store reports after it)
// with the reference model and returns the model's next table.
//
// What is demanded, and no more:
//   - an operation the model can carry out must succeed and answer as the model does;
//   - a filter list naming a column that does not exist must fail or match
//     nothing: it must not behave as if the filter were absent;
//   - an explicit nil filter is "no constraint" for the model, but an error is
//     accepted as well (the statement speaks of filters, not of nil);
//   - an operation the model refuses (duplicate key, key collision by update,
//     missing key for the *One calls, missing table) may or may not report an
//     error, but must leave the table as it was;
//   - an operation that reports an error must not have changed the table.
func judge(t Table, e Event, o Outcome, after []string, afterExists bool, afterErr error) (Table, []finding) {
	var fs []finding

	add := func(cell, msg, got, want string) { fs = append(fs, finding{cell, msg, got, want}) }

	if o.Panic != "" {
		add(e.Op+":panic", "the operation panicked: "+o.Panic, o.Panic, "no panic")

		return t, fs
	}

	list := e.atoms()
	unknown, hasNil, _ := classify(list)
	failed := o.Err != ""
	next := t.clone()
	rec := record(e.Key, e.Var)
	mustSucceed := true

	if !t.Exists && e.Op != "create" && e.Op != "createif" {
		// No table: nothing can be stored or found.
		if e.Op == "insert" && !failed {
			add("insert:no-table:accepted", "Insert reported success although no table exists", "nil error", "an error")
		}

		if len(o.Rows) > 0 {
			add(e.Op+":no-table:rows", "records returned although no table exists", strings.Join(o.Rows, "; "), "none")
		}

		return checkAfter(next, e, fs, after, afterExists, afterErr)
	}

	switch e.Op {
	case "createif":
		next.Exists = true
	case "create":
		if t.Exists {
			mustSucceed = false
		}

		next.Exists = true
	case "insert":
		if _, dup := t.Rows[rec.Name]; dup {
			mustSucceed = false
		} else if !failed {
			next.Rows[rec.Name] = rec
		}
	case "read":
		want := rowsFor(t, t.selectRows(list))

		switch {
		case unknown:
			mustSucceed = false

			if !failed && len(o.Rows) > 0 {
				add(unknownCell(list), fmt.Sprintf("%s returned %d record(s): the filter on the non-existent column was dropped instead of failing or matching nothing", e, len(o.Rows)), strings.Join(o.Rows, "; "), "an error or no records")
			}
		case hasNil && failed:
			mustSucceed = false
		case !failed:
			if !multisetEq(o.Rows, want) {
				add("read:wrong-rows", fmt.Sprintf("%s on %s returned the wrong records", e, t), strings.Join(o.Rows, "; "), strings.Join(want, "; "))
			} else if !sortedBy(t, o.Rows, sortSpecs[e.Sort]) {
				add("read:wrong-order", fmt.Sprintf("%s on %s is not in the requested order", e, t), strings.Join(o.Rows, "; "), "sorted by "+strings.Join(sortSpecs[e.Sort], ","))
			}
		}
	case "delete":
		sel := t.selectRows(list)

		switch {
		case unknown:
			mustSucceed = false

			if !failed && o.Count > 0 {
				add(unknownCell(list), fmt.Sprintf("%s deleted %d record(s): the filter on the non-existent column was dropped instead of failing or matching nothing", e, o.Count), fmt.Sprintf("%d deleted", o.Count), "an error or 0 deleted")
			}
		case hasNil && failed:
			mustSucceed = false
		case !failed:
			for _, k := range sel {
				delete(next.Rows, k)
			}

			if o.Count != int64(len(sel)) {
				add("delete:wrong-count", fmt.Sprintf("%s on %s reported the wrong number of deleted records", e, t), fmt.Sprint(o.Count), fmt.Sprint(len(sel)))
			}
		}
	case "update":
		sel := t.selectRows(list)

		switch {
		case unknown:
			mustSucceed = false
		case hasNil && failed:
			mustSucceed = false
		default:
			cand := t.clone()
			for _, k := range sel {
				delete(cand.Rows, k)
			}

			_, collide := cand.Rows[rec.Name]

			switch {
			case len(sel) == 0:
			case len(sel) > 1 || collide:
				mustSucceed = false // two records under one key: a keyed set refuses
			case !failed:
				cand.Rows[rec.Name] = rec
				next = cand
			}
		}
	case "readone":
		r, ok := t.Rows[keys[e.Key]]

		switch {
		case !ok:
			mustSucceed = false

			if !failed && len(o.Rows) > 0 {
				add("readone:phantom", fmt.Sprintf("%s on %s returned a record for a key that is not stored", e, t), strings.Join(o.Rows, "; "), "not found")
			}
		case !failed:
			if o.NilRow || len(o.Rows) != 1 || o.Rows[0] != canon(r) {
				add("readone:wrong-row", fmt.Sprintf("%s on %s returned the wrong record", e, t), strings.Join(o.Rows, "; "), canon(r))
			}
		}
	case "deleteone":
		if _, ok := t.Rows[keys[e.Key]]; !ok {
			mustSucceed = false
		} else if !failed {
			delete(next.Rows, keys[e.Key])
		}
	case "updateone":
		if _, ok := t.Rows[rec.Name]; !ok {
			mustSucceed = false
		} else if !failed {
			next.Rows[rec.Name] = rec
		}
	}

	if failed && mustSucceed {
		add(e.Op+":unexpected-error", fmt.Sprintf("%s on %s failed although the model can carry it out", e, t), o.Err, "success")

		next = t.clone()
		if e.Op == "create" || e.Op == "createif" {
			next.Exists = t.Exists
		}
	}

	if failed && (e.Op == "create" || e.Op == "createif") {
		next.Exists = t.Exists
	}

	return checkAfter(next, e, fs, after, afterExists, afterErr)
}

// checkAfter compares the table the store reports (Read with no filter) with
// the model's next table.
func checkAfter(next Table, e Event, fs []finding, after []string, afterExists bool, afterErr error) (Table, []finding) {
	list := e.atoms()
	unknown, hasNil, _ := classify(list)

	cell := e.Op + ":wrong-table"

	switch {
	case unknown:
		cell = unknownCell(list)
	case hasNil:
		// One root cause (the position test that decides between " where "
		// and " and " counts skipped nil filters) whatever the other operator.
		cell = "filter:nil:" + e.Op + ":wrong-table"
	}

	switch {
	case len(fs) > 0:
		// one finding per execution: the answer itself was already wrong
	case afterErr != nil:
		fs = append(fs, finding{e.Op + ":read-all-failed", fmt.Sprintf("after %s the store cannot be read: %v", e, afterErr), afterErr.Error(), "readable"})
	case afterExists != next.Exists:
		fs = append(fs, finding{e.Op + ":table-existence", fmt.Sprintf("after %s table existence is %v", e, afterExists), fmt.Sprint(afterExists), fmt.Sprint(next.Exists)})
	case next.Exists && !multisetEq(after, next.canonRows()):
		fs = append(fs, finding{cell, fmt.Sprintf("after %s the store holds other records than the model", e), strings.Join(after, "; "), strings.Join(next.canonRows(), "; ")})
	}

	return next, fs
}

// state of the search.
type state struct {
	key   string
	hist  []Event
	table Table
	depth int
}

type result struct {
	key      string
	next     Table
	findings []finding
	trace    []string
	fatal    string
}

// step replays hist on a fresh store and applies e, judged against the model.
func step(hist []Event, wantKey string, t Table, e Event) result {
	s, err := newStore()
	if err != nil {
		return result{fatal: "cannot open a fresh store: " + err.Error()}
	}

	defer s.close()

	var trace []string

	for _, h := range hist {
		o := s.apply(h)
		trace = append(trace, fmt.Sprintf("%s -> err=%q", h, o.Err))
	}

	if wantKey != "" {
		if k := s.dump(); k != wantKey {
			return result{fatal: fmt.Sprintf("replay of %v reached a different state:\n%s\nwant\n%s", hist, k, wantKey)}
		}
	}

	o := s.apply(e)
	after, exists, aerr := s.readAll()
	next, fs := judge(t, e, o, after, exists, aerr)

	trace = append(trace, fmt.Sprintf("%s -> err=%q rows=%d count=%d panic=%q; table now %v", e, o.Err, len(o.Rows), o.Count, o.Panic, after))

	return result{key: s.dump(), next: next, findings: fs, trace: trace}
}

func alphabet(variants int, lists [][]int, fullUpdates bool) []Event {
	var ev []Event

	ev = append(ev, Event{Op: "createif"}, Event{Op: "create"})

	for k := range keys {
		for v := 0; v < variants; v++ {
			ev = append(ev, Event{Op: "insert", Key: k, Var: v}, Event{Op: "updateone", Key: k, Var: v})
		}

		ev = append(ev, Event{Op: "readone", Key: k}, Event{Op: "deleteone", Key: k})
	}

	for _, l := range lists {
		ev = append(ev, Event{Op: "read", Filters: l}, Event{Op: "delete", Filters: l})

		if len(l) <= 1 {
			for s := 1; s < len(sortSpecs); s++ {
				ev = append(ev, Event{Op: "read", Filters: l, Sort: s})
			}
		}

		for k := range keys {
			for v := 0; v < variants; v++ {
				// Quick tier: two-filter updates write only records a0 and b1
				// (one new-key candidate of each variant); every other
				// combination is in the thorough tier.
				if !fullUpdates && len(l) == 2 && !(k == 0 && v == 0) && !(k == 1 && v == 1) {
					continue
				}

				ev = append(ev, Event{Op: "update", Key: k, Var: v, Filters: l})
			}
		}
	}

	return ev
}

// filterLists returns every list of 0..max atoms.
func filterLists(n, max int) [][]int {
	out := [][]int{nil}

	for l := 1; l <= max; l++ {
		sizes := make([]int, l)
		for i := range sizes {
			sizes[i] = n
		}

		enum.Product(sizes, func(idx []int) { out = append(out, append([]int{}, idx...)) })
	}

	return out
}

func nontrivial(t Table, e Event) bool {
	if !t.Exists {
		return false
	}

	return len(t.Rows) > 0 || e.Op == "insert"
}

func main() {
	r := report.New("model_checking")
	atomList = atoms(r.Thorough())
	variants := r.Pick(2, 3)
	maxDepth := r.Pick(12, 12)
	seqLen := r.Pick(3, 4)

	r.Assume(
		"SQLite (modernc.org/sqlite, synchronous=OFF) is the backend: one database file per worker opened once through resources.Open; every execution starts by dropping the table and building a new handle value from the pristine one; PostgreSQL is not executed",
		"every operation starts with Begin() and builds its filters from the same handle, as the callers in the repository do",
		"results are compared as multisets (plus the requested order when Sort is used); a nil and an empty json list are the same list",
		"states are merged on raw table contents + handle fields (Err, OrderList, Columns); the un-merged second pass covers state outside that key for short histories",
	)

	if r.Replay != "" {
		var w witness
		if err := report.LoadReplay(r.Replay, &w); err != nil {
			report.Fatal("%v", err)
		}

		atomList = atoms(true) // a superset: quick indexes stay valid
		replay(r, w)
		closeAll()
		r.Finish()
	}

	lists := filterLists(len(atomList), 2)
	events := alphabet(variants, lists, r.Thorough())

	r.Rule(fmt.Sprintf("BFS to fixpoint over histories of {CreateIf, Create, Insert, Read, Delete, Update, ReadOne, DeleteOne, UpdateOne} on a record type with string/int/bool/uuid/[]string/json.RawMessage fields: %d keys x %d variants, every list of 0..2 filters over %d atoms (Equals/NotEquals/LessThan/GreaterThan on string, int, bool, uuid columns, a non-existent column, an explicit nil), 2 sort orders (quick tier: two-filter updates write 2 of the records); %d events per state. Each (state,event) is executed on an emptied SQLite database through a new resource handle after replaying the state's shortest history and compared with a map-of-structs model. Then every history of length <=%d over a reduced alphabet on one handle without merging. distinct = (state,event) pairs (pass 1) and histories (pass 2) whose table holds at least one record or that insert one.", len(keys), variants, len(atomList), len(events), seqLen))

	// ---- pass 1: BFS with state merging, to the fixpoint -----------------
	init := step(nil, "", Table{}, Event{Op: "read"})
	if init.fatal != "" {
		report.Fatal("%s", init.fatal)
	}

	start := state{key: init.key, table: Table{Rows: map[string]Rec{}}}
	seen := map[string]bool{start.key: true}
	frontier := []state{start}
	states, transitions, depthReached := 1, 0, 0
	outcomes := map[string]int64{}

	for depth := 0; len(frontier) > 0; depth++ {
		if depth >= maxDepth {
			r.Capped(fmt.Sprintf("BFS stopped at depth %d with %d unexpanded states", depth, len(frontier)))

			break
		}

		depthReached = depth
		n := len(frontier) * len(events)
		results := make([]result, n)

		enum.Par(n, func(i int) {
			st, e := frontier[i/len(events)], events[i%len(events)]
			results[i] = step(st.hist, st.key, st.table, e)
		})

		var nextFrontier []state

		for i, res := range results {
			st, e := frontier[i/len(events)], events[i%len(events)]

			if res.fatal != "" {
				report.Fatal("%s", res.fatal)
			}

			transitions++
			r.Eval(1)

			if nontrivial(st.table, e) {
				r.Distinct(st.key + "|" + e.String())
			}

			outcomes[e.Op+boolText(len(res.findings) > 0, ":violating", ":agrees")]++

			if _, hasNil, _ := classify(e.atoms()); hasNil && strings.Contains(res.trace[len(res.trace)-1], "syntax error") {
				outcomes["nil-filter:sql-syntax-error(accepted)"]++
			}

			if sampleHere(transitions, len(st.table.Rows), e) {
				r.Sample(map[string]any{"history": texts(st.hist), "event": e.String(), "result": res.trace[len(res.trace)-1]})
			}

			if len(res.findings) > 0 {
				for _, f := range res.findings {
					e.Text = e.String()
					r.Violation(f.cell, len(st.hist)*10+len(e.Filters), witness{History: withText(st.hist), Event: e, Trace: res.trace, Got: f.got, Want: f.want}, f.msg)
				}

				continue // a diverged state has no meaningful future
			}

			if !seen[res.key] {
				seen[res.key] = true
				states++

				nextFrontier = append(nextFrontier, state{key: res.key, hist: append(append([]Event{}, st.hist...), e), table: res.next, depth: depth + 1})
			}
		}

		frontier = nextFrontier
	}

	r.Set("states", states)
	r.Set("transitions", transitions)
	r.Set("max_depth", depthReached)
	r.Set("fixpoint", len(frontier) == 0)
	r.Set("events_per_state", len(events))
	r.Set("filter_atoms", len(atomList))

	// ---- pass 2: all short histories on one handle, no merging ------------
	small := reduced(variants)
	seqs := 0

	var seqViol sync.Map

	total := enum.Count(len(small), 1, seqLen)
	idxs := make([][]int, 0, total)

	enum.Strings(make([]string, len(small)), 1, seqLen, func(_ string, idx []int) { idxs = append(idxs, append([]int{}, idx...)) })

	enum.Par(len(idxs), func(i int) {
		hist := make([]Event, len(idxs[i]))
		for j, x := range idxs[i] {
			hist[j] = small[x]
		}

		if msg := runSequence(r, hist); msg != "" {
			seqViol.Store(i, msg)
		}
	})

	seqViol.Range(func(_, v any) bool { report.Fatal("%v", v); return false })

	seqs = len(idxs)
	r.Set("unmerged_histories", seqs)
	r.Set("unmerged_alphabet", texts(small))
	r.Set("traces_validated_against_impl", transitions+seqs)
	r.Set("outcomes", outcomes)
	r.Set("sqlite_files_opened", opened.Load())
	r.Set("sqlite_files_given_up", recycled.Load())
	closeAll()
	r.Finish()
}

// reduced is the alphabet of pass 2 (after an implicit CreateIf).
func reduced(variants int) []Event {
	find := func(a Atom) int {
		for i, x := range atomList {
			if reflect.DeepEqual(x, a) {
				return i
			}
		}

		panic("atom not in list")
	}

	nLT2 := find(Atom{Kind: "valid", Col: "N", Op: "lt", Val: 2})
	nameB := find(Atom{Kind: "valid", Col: "name", Op: "eq", Val: "b"})
	flagT := find(Atom{Kind: "valid", Col: "flag", Op: "eq", Val: true})
	nosuch := find(Atom{Kind: "unknown", Col: "nosuch", Op: "eq", Val: 1})
	nilA := find(Atom{Kind: "nil"})

	ev := []Event{
		{Op: "insert", Key: 0, Var: 0}, {Op: "insert", Key: 1, Var: 1}, {Op: "insert", Key: 2, Var: variants - 1},
		{Op: "read"}, {Op: "read", Filters: []int{nLT2}, Sort: 1}, {Op: "read", Filters: []int{nosuch}}, {Op: "read", Filters: []int{nilA, flagT}},
		{Op: "delete", Filters: []int{nameB}}, {Op: "delete", Filters: []int{flagT, nLT2}},
		{Op: "update", Key: 1, Var: 0, Filters: []int{nameB}}, {Op: "update", Key: 0, Var: 1, Filters: []int{nLT2}},
		{Op: "readone", Key: 1}, {Op: "deleteone", Key: 0}, {Op: "updateone", Key: 2, Var: 0},
		{Op: "createif"},
	}

	return ev
}

// runSequence runs CreateIf followed by hist on one handle, judging each step.
func runSequence(r *report.R, hist []Event) string {
	s, err := newStore()
	if err != nil {
		return "cannot open a fresh store: " + err.Error()
	}

	defer s.close()

	t := Table{Rows: map[string]Rec{}}
	full := append([]Event{{Op: "createif"}}, hist...)

	var trace []string

	nontriv := false

	for i, e := range full {
		o := s.apply(e)
		after, exists, aerr := s.readAll()
		next, fs := judge(t, e, o, after, exists, aerr)

		trace = append(trace, fmt.Sprintf("%s -> err=%q rows=%d count=%d; table now %v", e, o.Err, len(o.Rows), o.Count, after))

		if nontrivial(t, e) {
			nontriv = true
		}

		if len(fs) > 0 {
			for _, f := range fs {
				e.Text = e.String()
				r.Violation(f.cell, i*10+len(e.Filters), witness{History: withText(full[:i]), Event: e, Trace: trace, Got: f.got, Want: f.want}, f.msg)
			}

			break
		}

		t = next
	}

	r.Eval(1)

	if nontriv {
		r.Distinct("seq|" + strings.Join(texts(hist), ";"))
	}

	return ""
}

func replay(r *report.R, w witness) {
	s, err := newStore()
	if err != nil {
		report.Fatal("%v", err)
	}

	// The model is rebuilt by judging the history itself.
	t := Table{Rows: map[string]Rec{}}

	var trace []string

	for i, e := range append(append([]Event{}, w.History...), w.Event) {
		o := s.apply(e)
		after, exists, aerr := s.readAll()
		next, fs := judge(t, e, o, after, exists, aerr)

		trace = append(trace, fmt.Sprintf("%s -> err=%q rows=%d count=%d; table now %v", e, o.Err, len(o.Rows), o.Count, after))

		for _, f := range fs {
			e.Text = e.String()
			r.Violation(f.cell, i, witness{History: w.History, Event: e, Trace: trace, Got: f.got, Want: f.want}, f.msg)
		}

		t = next
		r.Eval(1)
	}

	for _, l := range trace {
		fmt.Println("replay:", l)
	}

	s.close()
}

// sampleHere picks a handful of written-out transitions of different shapes
// (by position in the deterministic enumeration, not at random).
var sampled = map[string]bool{}

func sampleHere(n, rows int, e Event) bool {
	shape := fmt.Sprintf("%s/%d/%d", e.Op, len(e.Filters), rows)

	want := map[string]bool{"insert/0/1": true, "read/2/2": true, "delete/1/3": true, "update/2/2": true, "readone/0/1": true, "update/1/3": true}
	if !want[shape] || sampled[shape] || n%7 != 3 {
		return false
	}

	sampled[shape] = true

	return true
}

func texts(h []Event) []string {
	out := make([]string, len(h))
	for i, e := range h {
		out[i] = e.String()
	}

	return out
}

func withText(h []Event) []Event {
	out := make([]Event, len(h))
	for i, e := range h {
		e.Text = e.String()
		out[i] = e
	}

	return out
}

func boolText(b bool, yes, no string) string {
	if b {
		return yes
	}

	return no
}

package main

import (
	"encoding/json"
	"fmt"
	"sort"
	"strings"

	"github.com/google/uuid"
)

// Rec is the small record type the store is opened on: one field of every
// kind the property names (string, int, bool, uuid, json as []string and as
// json.RawMessage). Name is the primary key.
type Rec struct {
	Name string
	S    string
	N    int
	Flag bool
	ID   uuid.UUID
	Tags []string
	Raw  json.RawMessage
}

var (
	keys  = []string{"a", "b", "c"}
	uuidX = uuid.MustParse("6ba7b810-9dad-11d1-80b4-00c04fd430c8")
	uuidY = uuid.MustParse("00000000-0000-4000-8000-0000000000ff")
)

// record builds record (key k, variant v). Variant 0 is all zero values (empty
// string, false, nil uuid, nil slices), variant 1 has hostile characters,
// variant 2 (thorough) differs from 1 only in letter case / sign / emptiness.
func record(k, v int) Rec {
	switch v {
	case 0:
		return Rec{Name: keys[k], N: k}
	case 1:
		return Rec{Name: keys[k], S: "o'k é", N: k + 1, Flag: true, ID: uuidX, Tags: []string{"p", "q'r\""}, Raw: json.RawMessage(`{"k":[1,"a b"]}`)}
	default:
		return Rec{Name: keys[k], S: "O'K", N: k - 2, Flag: true, ID: uuidY, Tags: []string{}, Raw: json.RawMessage(`[]`)}
	}
}

// canon is the comparison form of a record. A nil and an empty json list are
// the same list; everything else is compared exactly.
func canon(r Rec) string {
	tags := "[]"
	if len(r.Tags) > 0 {
		b, _ := json.Marshal(r.Tags)
		tags = string(b)
	}

	return fmt.Sprintf("%q|%q|%d|%v|%s|%s|%q", r.Name, r.S, r.N, r.Flag, r.ID.String(), tags, string(r.Raw))
}

// Atom is one element of a filter list.
//
//	kind "valid":   a comparison on an existing column with a value of that column's type
//	kind "unknown": a comparison on a column the record type does not have
//	kind "nil":     an explicit nil *Filter handed in by the caller
type Atom struct {
	Kind string `json:"kind"`
	Col  string `json:"col,omitempty"`
	Op   string `json:"op,omitempty"` // eq ne lt gt
	Val  any    `json:"val,omitempty"`
}

func (a Atom) String() string {
	if a.Kind == "nil" {
		return "nil"
	}

	return fmt.Sprintf("%s(%q,%v)", map[string]string{"eq": "Equals", "ne": "NotEquals", "lt": "LessThan", "gt": "GreaterThan"}[a.Op], a.Col, a.Val)
}

func atoms(thorough bool) []Atom {
	v := func(col, op string, val any) Atom { return Atom{Kind: "valid", Col: col, Op: op, Val: val} }
	list := []Atom{
		v("name", "eq", "b"), v("Name", "ne", "b"), v("name", "lt", "b"), v("name", "gt", "b"),
		v("s", "eq", "o'k é"), v("s", "ne", ""), v("s", "lt", "o"), v("S", "gt", ""),
		v("n", "eq", 1), v("n", "ne", 1), v("N", "lt", 2), v("n", "gt", 1),
		v("flag", "eq", true), v("flag", "ne", true), v("Flag", "eq", false),
		v("id", "eq", uuidX), v("ID", "ne", uuidX),
		v("NAME", "eq", "a"),
		{Kind: "unknown", Col: "nosuch", Op: "eq", Val: 1},
		{Kind: "nil"},
	}

	if thorough {
		list = append(list,
			v("s", "eq", "O'K"), v("s", "lt", "o'k é"), v("s", "gt", "O'K"), v("s", "eq", ""),
			v("n", "lt", 0), v("n", "gt", -1), v("n", "eq", 0), v("n", "gt", 2),
			v("id", "eq", uuid.Nil), v("id", "eq", uuidY),
			v("name", "eq", "zz"), v("name", "gt", ""),
			Atom{Kind: "unknown", Col: "nam", Op: "ne", Val: "b"},
			Atom{Kind: "unknown", Col: "name ", Op: "lt", Val: "b"},
		)
	}

	return list
}

// field returns the value of the (case-insensitively) named field.
func field(r Rec, col string) any {
	switch strings.ToLower(col) {
	case "name":
		return r.Name
	case "s":
		return r.S
	case "n":
		return r.N
	case "flag":
		return r.Flag
	case "id":
		return r.ID
	}

	panic("model: no field " + col)
}

// match is the reference meaning of a valid atom: Go's own comparison of two
// values of the same type (strings bytewise, ints numerically; bool and uuid
// are only ever compared for equality).
func match(r Rec, a Atom) bool {
	cmp := 0

	switch x := field(r, a.Col).(type) {
	case string:
		cmp = strings.Compare(x, a.Val.(string))
	case int:
		y := a.Val.(int)

		switch {
		case x < y:
			cmp = -1
		case x > y:
			cmp = 1
		}
	case bool:
		if x != a.Val.(bool) {
			cmp = 2
		}
	case uuid.UUID:
		if x != a.Val.(uuid.UUID) {
			cmp = 2
		}
	}

	switch a.Op {
	case "eq":
		return cmp == 0
	case "ne":
		return cmp != 0
	case "lt":
		return cmp == -1
	case "gt":
		return cmp == 1
	}

	panic("model: operator " + a.Op)
}

// Table is the reference model: a keyed set of records, or no table at all.
type Table struct {
	Exists bool
	Rows   map[string]Rec
}

func (t Table) clone() Table {
	n := Table{Exists: t.Exists, Rows: map[string]Rec{}}
	for k, v := range t.Rows {
		n.Rows[k] = v
	}

	return n
}

func (t Table) canonRows() []string {
	out := make([]string, 0, len(t.Rows))
	for _, r := range t.Rows {
		out = append(out, canon(r))
	}

	sort.Strings(out)

	return out
}

func (t Table) String() string {
	if !t.Exists {
		return "<no table>"
	}

	names := make([]string, 0, len(t.Rows))
	for k := range t.Rows {
		names = append(names, k)
	}

	sort.Strings(names)

	s := "{"
	for i, k := range names {
		if i > 0 {
			s += " "
		}

		s += fmt.Sprintf("%s:N=%d,S=%q", k, t.Rows[k].N, t.Rows[k].S)
	}

	return s + "}"
}

// selectRows returns the keys of the rows matching every valid atom of the
// list (nil atoms carry no constraint).
func (t Table) selectRows(list []Atom) []string {
	var out []string

	for k, r := range t.Rows {
		ok := true

		for _, a := range list {
			if a.Kind == "valid" && !match(r, a) {
				ok = false
			}
		}

		if ok {
			out = append(out, k)
		}
	}

	sort.Strings(out)

	return out
}

func classify(list []Atom) (unknown, hasNil bool, valid int) {
	for _, a := range list {
		switch a.Kind {
		case "unknown":
			unknown = true
		case "nil":
			hasNil = true
		default:
			valid++
		}
	}

	return
}

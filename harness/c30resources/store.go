package main

import (
	"fmt"
	"os"
	"path/filepath"
	"sort"
	"strings"
	"sync"
	"sync/atomic"

	"github.com/tucats/ego/internal/resources"
)

// Event is one operation of a history. Filters index into the atom list, Sort
// into sortSpecs.
type Event struct {
	Op      string `json:"op"`
	Key     int    `json:"key,omitempty"`
	Var     int    `json:"var,omitempty"`
	Filters []int  `json:"filters,omitempty"`
	Sort    int    `json:"sort,omitempty"`
	Text    string `json:"text,omitempty"`
}

var sortSpecs = [][]string{nil, {"N"}, {"s", "Name"}}

var atomList []Atom

func (e Event) atoms() []Atom {
	out := make([]Atom, len(e.Filters))
	for i, f := range e.Filters {
		out[i] = atomList[f]
	}

	return out
}

func (e Event) String() string {
	fl := []string{}
	for _, a := range e.atoms() {
		fl = append(fl, a.String())
	}

	f := strings.Join(fl, ", ")
	rec := fmt.Sprintf("%s%d", keys[e.Key], e.Var)

	switch e.Op {
	case "createif":
		return "CreateIf()"
	case "create":
		return "Create()"
	case "insert":
		return "Insert(" + rec + ")"
	case "read":
		if e.Sort > 0 {
			return fmt.Sprintf("Sort(%s).Read(%s)", strings.Join(sortSpecs[e.Sort], ","), f)
		}

		return "Read(" + f + ")"
	case "delete":
		return "Delete(" + f + ")"
	case "update":
		if f != "" {
			f = ", " + f
		}

		return "Update(" + rec + f + ")"
	case "readone":
		return "ReadOne(" + keys[e.Key] + ")"
	case "deleteone":
		return "DeleteOne(" + keys[e.Key] + ")"
	case "updateone":
		return "UpdateOne(" + rec + ")"
	}

	return e.Op
}

// Outcome is what the real store answered.
type Outcome struct {
	Err    string   // "" = no error
	Panic  string   // a recovered panic
	Rows   []string // canonical records, in the order returned
	Count  int64    // Delete: rows affected
	NilRow bool     // ReadOne returned a nil record
}

var dbSeq atomic.Int64

// Store is one SQLite database file (opened once through resources.Open and
// kept by a worker) with, per execution, a fresh table and a fresh resource
// handle: acquire() drops the table and builds a new handle value from the
// pristine one, so no execution sees anything of an earlier one.
type Store struct {
	path string
	tmpl *resources.ResHandle // as returned by Open; never used for operations
	h    *resources.ResHandle // the handle of the current execution
}

var (
	poolMu   sync.Mutex
	pool     []*Store
	recycled atomic.Int64
	opened   atomic.Int64
)

func openStore() (*Store, error) {
	dir := filepath.Join(os.Getenv("VERIF_SCRATCH"), "c30db")
	if os.Getenv("VERIF_SCRATCH") == "" {
		dir = filepath.Join(os.TempDir(), "c30db")
	}

	if err := os.MkdirAll(dir, 0o755); err != nil {
		return nil, err
	}

	p := filepath.Join(dir, fmt.Sprintf("r%d.db", dbSeq.Add(1)))

	// synchronous=OFF only removes the fsync per commit (durability against
	// power loss, which no execution here depends on); it is applied to every
	// connection of the pool through the driver's own DSN syntax.
	h, err := resources.Open(Rec{}, "recs", "sqlite://"+p+"?_pragma=synchronous(0)")
	if err != nil {
		return nil, err
	}

	opened.Add(1)

	return &Store{path: p, tmpl: h}, nil
}

func (s *Store) destroy() {
	_ = s.tmpl.Close()
	_ = os.Remove(s.path)
	_ = os.Remove(s.path + "-wal")
	_ = os.Remove(s.path + "-shm")
}

// fresh gives the store an empty database and a new handle.
func (s *Store) fresh() error {
	if _, err := s.tmpl.Database.Exec(`drop table if exists "recs"`); err != nil {
		return err
	}

	h := *s.tmpl
	h.Columns = append([]resources.Column{}, s.tmpl.Columns...)
	h.OrderList = nil
	h.Err = nil
	s.h = &h
	s.h.SetPrimaryKey("name")

	return nil
}

// newStore hands out a store in its initial state (no table, new handle).
func newStore() (*Store, error) {
	poolMu.Lock()

	var s *Store

	if n := len(pool); n > 0 {
		s, pool = pool[n-1], pool[:n-1]
	}

	poolMu.Unlock()

	if s != nil {
		if err := s.fresh(); err == nil {
			return s, nil
		}

		// Something of the last execution still holds the database: give the
		// file up and start on a new one.
		s.destroy()
		recycled.Add(1)
	}

	s, err := openStore()
	if err != nil {
		return nil, err
	}

	return s, s.fresh()
}

func (s *Store) close() {
	poolMu.Lock()
	pool = append(pool, s)
	poolMu.Unlock()
}

func closeAll() {
	poolMu.Lock()
	defer poolMu.Unlock()

	for _, s := range pool {
		s.destroy()
	}

	pool = nil
}

func (s *Store) filters(list []Atom) []*resources.Filter {
	out := make([]*resources.Filter, 0, len(list))

	for _, a := range list {
		if a.Kind == "nil" {
			out = append(out, nil)

			continue
		}

		switch a.Op {
		case "eq":
			out = append(out, s.h.Equals(a.Col, a.Val))
		case "ne":
			out = append(out, s.h.NotEquals(a.Col, a.Val))
		case "lt":
			out = append(out, s.h.LessThan(a.Col, a.Val))
		case "gt":
			out = append(out, s.h.GreaterThan(a.Col, a.Val))
		}
	}

	return out
}

func rowsOf(list []any) ([]string, error) {
	out := make([]string, 0, len(list))

	for _, x := range list {
		p, ok := x.(*Rec)
		if !ok || p == nil {
			return nil, fmt.Errorf("Read returned a %T, not a *Rec", x)
		}

		out = append(out, canon(*p))
	}

	return out, nil
}

func errText(err error) string {
	if err == nil {
		return ""
	}

	if s := err.Error(); s != "" {
		return s
	}

	return "error"
}

// apply runs one event through the real entry points, the way the callers in
// the repository do (Begin() first, filters built from the same handle).
func (s *Store) apply(e Event) (o Outcome) {
	defer func() {
		if x := recover(); x != nil {
			o.Panic = fmt.Sprint(x)
		}
	}()

	h := s.h
	rec := record(e.Key, e.Var)

	// Variant 1 travels as a pointer, the others by value: both are accepted
	// by the store and both are used by its callers.
	var obj any = rec
	if e.Var == 1 {
		obj = &rec
	}

	switch e.Op {
	case "createif":
		o.Err = errText(h.Begin().CreateIf())
	case "create":
		o.Err = errText(h.Begin().Create())
	case "insert":
		o.Err = errText(h.Begin().Insert(obj))
	case "read":
		list, err := h.Begin().Sort(sortSpecs[e.Sort]...).Read(s.filters(e.atoms())...)
		o.Err = errText(err)

		h.Sort() // the order is per call here; leave no order behind

		if err == nil {
			if o.Rows, err = rowsOf(list); err != nil {
				o.Panic = err.Error()
			}
		}
	case "delete":
		n, err := h.Begin().Delete(s.filters(e.atoms())...)
		o.Err, o.Count = errText(err), n
	case "update":
		o.Err = errText(h.Begin().Update(obj, s.filters(e.atoms())...))
	case "readone":
		x, err := h.Begin().ReadOne(keys[e.Key])
		o.Err = errText(err)

		if err == nil {
			if p, ok := x.(*Rec); ok && p != nil {
				o.Rows = []string{canon(*p)}
			} else {
				o.NilRow = true
			}
		}
	case "deleteone":
		o.Err = errText(h.Begin().DeleteOne(keys[e.Key]))
	case "updateone":
		o.Err = errText(h.Begin().UpdateOne(obj))
	default:
		o.Panic = "harness: unknown op " + e.Op
	}

	return o
}

// readAll is the observation the property names: the records Read returns
// with no filter, as a sorted multiset. exists=false when the table is absent.
func (s *Store) readAll() (rows []string, exists bool, err error) {
	defer func() {
		if x := recover(); x != nil {
			err = fmt.Errorf("panic: %v", x)
		}
	}()

	if !s.tableExists() {
		return nil, false, nil
	}

	list, err := s.h.Begin().Sort().Read()
	if err != nil {
		return nil, true, err
	}

	rows, err = rowsOf(list)
	sort.Strings(rows)

	return rows, true, err
}

func (s *Store) tableExists() bool {
	var n int

	err := s.h.Database.QueryRow(`select count(*) from sqlite_master where type='table' and name='recs'`).Scan(&n)

	return err == nil && n > 0
}

// dump is the canonical key of the implementation state: the raw table
// contents read with plain SQL (typed, sorted) plus every field of the handle
// an operation reads.
func (s *Store) dump() string {
	if !s.tableExists() {
		return "NOTABLE|" + s.handleState()
	}

	rows, err := s.h.Database.Query(`select * from "recs"`)
	if err != nil {
		return "DUMPERR:" + err.Error()
	}

	defer rows.Close()

	cols, _ := rows.Columns()

	var out []string

	for rows.Next() {
		vals := make([]any, len(cols))
		ptrs := make([]any, len(cols))

		for i := range vals {
			ptrs[i] = &vals[i]
		}

		if err := rows.Scan(ptrs...); err != nil {
			return "DUMPERR:" + err.Error()
		}

		line := ""
		for i, v := range vals {
			if b, ok := v.([]byte); ok {
				v = string(b)
			}

			line += fmt.Sprintf("%s=%T:%v;", cols[i], v, v)
		}

		out = append(out, line)
	}

	sort.Strings(out)

	return strings.Join(out, "\n") + "|" + s.handleState()
}

func (s *Store) handleState() string {
	return fmt.Sprintf("err=%v order=%v cols=%v", s.h.Err, s.h.OrderList, s.h.Columns)
}

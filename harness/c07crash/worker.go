package main

import (
	"bytes"
	"encoding/json"
	"fmt"
	"net/http"
	"net/http/httptest"
	"os"
	"os/signal"
	"path/filepath"
	"runtime"
	"runtime/debug"
	"strconv"
	"strings"
	goatomic "sync/atomic"
	"syscall"
	"time"
	"unsafe"

	"github.com/tucats/ego/internal/cli/app"
	"github.com/tucats/ego/internal/cli/settings"
	"github.com/tucats/ego/internal/commands"
	"github.com/tucats/ego/internal/defs"
	"github.com/tucats/ego/internal/grammar/class"
	"github.com/tucats/ego/internal/language/bytecode"
	"github.com/tucats/ego/internal/router"
	egoio "github.com/tucats/ego/internal/runtime/io"
	"github.com/tucats/ego/internal/server/admin"
	vatomic "github.com/tucats/ego/internal/verifrt/vatomic"
)

// outcome classes of one evaluation
const (
	clClean    = iota // ended without an Ego error
	clEgoError        // ended with a reported Ego error (compile or run time)
	clBudget          // stopped by the instruction budget
	clRouter          // Go panic inside the request handler, answered 500 by the router's own recover
	clGoPanic         // a Go panic came out of the compile+run call (batch mode recovers it to attribute it)
	clExecuted        // (counter only) the text executed at least one bytecode instruction of its own
	nClasses
)

var classNames = []string{"clean", "ego_error", "budget_exhausted", "panic_recovered_by_router", "go_panic", "executed"}

const (
	maxPhases  = 24
	stateWords = 8 + maxPhases*nClasses
	chunkSize  = 64

	// instructionBudget bounds one evaluation; the seeds need a few hundred
	// instructions. It is a count of dispatched bytecode instructions (the
	// woven atomic add in the dispatch loop), not a clock.
	instructionBudget = 200_000

	memoryLimit = 6 << 30 // RLIMIT_AS of a worker, the `ulimit -v` of the design
)

// state is the block shared between a worker and the parent (a file in the
// scratch directory mapped by both): what the worker is doing right now and
// its counters, so that a worker that dies leaves both behind.
type state struct {
	w []uint64
}

const (
	stSeq = iota
	stPhase
	stIdx
	stInflight
	stDone
	stCounts = 8
)

func mapState(path string, create bool) (*state, error) {
	flags := os.O_RDWR
	if create {
		flags |= os.O_CREATE | os.O_TRUNC
	}

	f, err := os.OpenFile(path, flags, 0o644)
	if err != nil {
		return nil, err
	}

	defer f.Close()

	if create {
		if err := f.Truncate(stateWords * 8); err != nil {
			return nil, err
		}
	}

	b, err := syscall.Mmap(int(f.Fd()), 0, stateWords*8, syscall.PROT_READ|syscall.PROT_WRITE, syscall.MAP_SHARED)
	if err != nil {
		return nil, err
	}

	return &state{w: unsafe.Slice((*uint64)(unsafe.Pointer(&b[0])), stateWords)}, nil
}

func (s *state) get(i int) uint64    { return goatomic.LoadUint64(&s.w[i]) }
func (s *state) set(i int, v uint64) { goatomic.StoreUint64(&s.w[i], v) }
func (s *state) add(i int, v uint64) { goatomic.AddUint64(&s.w[i], v) }
func (s *state) count(phase, class int) uint64 {
	return s.get(stCounts + phase*nClasses + class)
}

// ---- the instruction budget -------------------------------------------------

type budgetStop struct{}

var (
	instrCount   int64
	budgetHit    goatomic.Bool
	itemGoid     int64
	strayStopped goatomic.Bool
)

func goid() int64 {
	var buf [64]byte

	n := runtime.Stack(buf[:], false)
	f := strings.Fields(string(buf[:n]))

	if len(f) < 2 {
		return -1
	}

	id, _ := strconv.ParseInt(f[1], 10, 64)

	return id
}

func installBudget() {
	instr := unsafe.Pointer(&bytecode.InstructionsExecuted)

	vatomic.OnOp = func(kind string, addr unsafe.Pointer) {
		if addr != instr {
			return
		}

		if goatomic.AddInt64(&instrCount, 1) <= instructionBudget {
			return
		}

		budgetHit.Store(true)

		// The evaluation's own goroutine is unwound to the driver; a goroutine
		// the program started with `go` just ends (the worker is replaced
		// after this evaluation).
		if goid() == goatomic.LoadInt64(&itemGoid) {
			panic(budgetStop{})
		}

		strayStopped.Store(true)
		runtime.Goexit()
	}
}

// ---- console input ----------------------------------------------------------

// consoleInput is what the console driver types: the lines of the current
// evaluation, one per Read, and Ctrl-D for ever after (the user ending the
// session; a terminal can repeat that, a closed pipe cannot).
type consoleInput struct {
	lines []string
}

func (c *consoleInput) Read(p []byte) (int, error) {
	if len(c.lines) == 0 {
		p[0] = 4

		return 1, nil
	}

	n := copy(p, c.lines[0])
	if n < len(c.lines[0]) {
		c.lines[0] = c.lines[0][n:]
	} else {
		c.lines = c.lines[1:]
	}

	return n, nil
}

func (c *consoleInput) Close() error { return nil }

var console = &consoleInput{}

// ---- drivers ----------------------------------------------------------------

var serverRouter *router.Router

const runSession = "11111111-1111-4111-8111-111111111111"

type runResponse struct {
	Error string `json:"error"`
}

// evaluate runs one text through a driver. It returns the class and, for
// clGoPanic, the panic value and stack. With guard false nothing is
// recovered: a Go panic ends the process the way it ends ego.
func evaluate(driver int, src string, guard bool) (cl int, panicText string, stack string) {
	goatomic.StoreInt64(&instrCount, 0)
	budgetHit.Store(false)
	goatomic.StoreInt64(&itemGoid, goid())

	if guard {
		defer func() {
			if r := recover(); r != nil {
				if _, ok := r.(budgetStop); ok || budgetHit.Load() {
					cl = clBudget

					return
				}

				cl, panicText, stack = clGoPanic, fmt.Sprint(r), trimStack(string(debug.Stack()))

				// Behind the router this panic is answered with a 500 and
				// the server lives on (the batch worker switches the
				// router's recover off only to see the panic and its stack).
				if driver == drvSrv {
					cl = clRouter
				}
			}
		}()
	} else {
		defer func() {
			if budgetHit.Load() {
				if r := recover(); r != nil {
					cl = clBudget
				}
			}
		}()
	}

	switch driver {
	case drvSrv:
		body, _ := json.Marshal(map[string]any{"code": src, "session": runSession})
		r := httptest.NewRequest(http.MethodPost, "/admin/run", bytes.NewReader(body))
		w := httptest.NewRecorder()

		serverRouter.ServeHTTP(w, r)

		switch {
		case budgetHit.Load():
			cl = clBudget
		case w.Code == http.StatusInternalServerError:
			cl = clRouter
		default:
			var resp runResponse

			_ = json.Unmarshal(w.Body.Bytes(), &resp)

			if resp.Error != "" {
				cl = clEgoError
			}
		}

	case drvRun:
		exit, err := commands.VerifC07RunSource(src, "verif.ego", true)
		if exit != 0 || err != nil {
			cl = clEgoError
		}

	case drvPipe:
		console.lines = nil

		exit, err := commands.VerifC07RunPiped(src, true)
		if exit != 0 || err != nil {
			cl = clEgoError
		}

	case drvRepl:
		// a line is typed by ending it
		if !strings.HasSuffix(src, "\n") {
			src += "\n"
		}

		console.lines = strings.SplitAfter(src, "\n")
		if n := len(console.lines); n > 0 && console.lines[n-1] == "" {
			console.lines = console.lines[:n-1]
		}

		exit, err := commands.VerifC07RunConsole(true)
		if exit != 0 || err != nil {
			cl = clEgoError
		}

		console.lines = nil
	}

	if budgetHit.Load() {
		cl = clBudget
	}

	return cl, "", ""
}

// trimStack keeps the frames between the panic and the driver.
func trimStack(st string) string {
	lines := strings.Split(st, "\n")

	// drop "goroutine N [running]:", debug.Stack, the recovering closure and panic()
	last := -1

	for i, l := range lines {
		if strings.HasPrefix(l, "panic(") {
			last = i
		}
	}

	if last >= 0 && last+2 < len(lines) {
		lines = lines[last+2:]
	}

	if len(lines) > 24 {
		lines = lines[:24]
	}

	return strings.Join(lines, "\n")
}

// record is a line a worker sends to the parent about an evaluation that
// needs a second look.
type record struct {
	Phase int    `json:"phase"`
	Idx   int64  `json:"idx"`
	Kind  string `json:"kind"` // "go_panic" | "stray"
	Panic string `json:"panic,omitempty"`
	Stack string `json:"stack,omitempty"`
}

const (
	exitDone    = 0
	exitRestart = 10 // the worker asks to be replaced and resumed after the reported evaluation
)

func workerSetup(errFile string, batch bool) {
	// The `ulimit -v` of the design: address space limit, so that a runaway
	// allocation ends this worker and not the machine.
	_ = syscall.Setrlimit(syscall.RLIMIT_AS, &syscall.Rlimit{Cur: memoryLimit, Max: memoryLimit})

	devnull, err := os.OpenFile(os.DevNull, os.O_RDWR, 0)
	if err != nil {
		os.Exit(4)
	}

	_ = syscall.Dup2(int(devnull.Fd()), 0)
	_ = syscall.Dup2(int(devnull.Fd()), 1)

	ef, err := os.OpenFile(errFile, os.O_CREATE|os.O_WRONLY|os.O_APPEND|os.O_TRUNC, 0o644)
	if err != nil {
		os.Exit(4)
	}

	_ = syscall.Dup2(int(ef.Fd()), 2)

	// Nothing in the worker may be ended by an interrupt.
	signal.Notify(make(chan os.Signal, 1), os.Interrupt)

	scratch := os.Getenv("VERIF_SCRATCH")
	warm := filepath.Join(scratch, fmt.Sprintf("warm%d.ego", os.Getpid()))
	_ = os.WriteFile(warm, []byte("func main() {\n fmt.Println(\"warm\")\n}\n"), 0o644)

	defer os.Remove(warm)

	// One real `ego run --sandbox=true` through the command line grammar: the
	// process-wide preparation RunAction performs (library, profile defaults,
	// built-ins) happens exactly as in ego.
	a := app.New("ego: verif").SetVersion(1, 0, 0).SetCopyright("-").SetDefaultAction(commands.RunAction).SetProfileDirectory(".ego")
	if err := a.Run(class.MainGrammar, []string{"ego", "run", "--sandbox=true", warm}); err != nil {
		fmt.Fprintf(os.Stderr, "C07-WORKER-SETUP-FAILED: %v\n", err)
		os.Exit(4)
	}

	serverRouter = router.NewRouter("verif")
	serverRouter.New("/admin/run", admin.RunCodeHandler, http.MethodPost)

	if err := egoio.VerifC07SetConsole(console); err != nil {
		fmt.Fprintf(os.Stderr, "C07-WORKER-SETUP-FAILED: %v\n", err)
		os.Exit(4)
	}

	if batch {
		// A batch worker wants to see a handler panic (value and stack), so the
		// router's last-resort recover is told to pass it on; the panic is then
		// counted as "recovered by the router". A single-text worker keeps the
		// production setting. A runaway recursion is cut at 16 MiB of stack
		// instead of Go's 1 GB (which takes minutes to fill on a busy machine);
		// the single-text confirmation runs with Go's own limit.
		settings.SetDefault(defs.ServerPanicRecoverySetting, "false")
		debug.SetMaxStack(16 << 20)
	}

	installBudget()
}

// settle waits for the goroutines an evaluation's interpreter contexts ended
// (the per-run signal watcher exits asynchronously) and reports whether the
// count is back at the baseline.
func settle(base int) bool {
	for i := 0; i < 200; i++ {
		if runtime.NumGoroutine() <= base {
			return true
		}

		runtime.Gosched()
	}

	for i := 0; i < 400; i++ {
		if runtime.NumGoroutine() <= base {
			return true
		}

		time.Sleep(500 * time.Microsecond)
	}

	return runtime.NumGoroutine() <= base
}

// workerMain: c07worker batch <k> <W> <tier> <resumePhase> <resumeIdx> <stateFile> <errFile>
func workerBatch(args []string) {
	k, _ := strconv.Atoi(args[0])
	nw, _ := strconv.Atoi(args[1])
	thorough := args[2] == "thorough"
	resumePhase, _ := strconv.Atoi(args[3])
	resumeIdx, _ := strconv.ParseInt(args[4], 10, 64)

	st, err := mapState(args[5], false)
	if err != nil {
		os.Exit(4)
	}

	proto := os.NewFile(3, "proto")
	enc := json.NewEncoder(proto)

	workerSetup(args[6], true)

	ph := phases(thorough)

	// Instructions the driver itself executes for an empty text (auto-import
	// code and the like): more than that means the text ran code of its own.
	base := make([]int64, 4)

	for d := range base {
		evaluate(d, "\n", true)
		base[d] = goatomic.LoadInt64(&instrCount)
	}

	settle(0)
	time.Sleep(20 * time.Millisecond)

	baseGoroutines := runtime.NumGoroutine()
	errf := os.NewFile(2, "stderr")
	n, panics := 0, 0

	for p := resumePhase; p < len(ph); p++ {
		if ph[p].skip {
			continue
		}

		for c := int64(k); c*chunkSize < ph[p].n; c += int64(nw) {
			for i := c * chunkSize; i < (c+1)*chunkSize && i < ph[p].n; i++ {
				if p == resumePhase && i < resumeIdx {
					continue
				}

				src, _, _ := ph[p].text(i)

				st.set(stPhase, uint64(p))
				st.set(stIdx, uint64(i))
				st.set(stInflight, 1)
				st.add(stSeq, 1)

				strayStopped.Store(false)

				cl, ptxt, stack := evaluate(ph[p].driver, src, true)

				executed := goatomic.LoadInt64(&instrCount) > base[ph[p].driver]

				st.add(stCounts+p*nClasses+cl, 1)

				if executed {
					st.add(stCounts+p*nClasses+clExecuted, 1)
				}

				st.set(stInflight, 0)

				if ptxt != "" {
					kind := "go_panic"
					if cl == clRouter {
						kind = "router_panic"
					}

					_ = enc.Encode(record{Phase: p, Idx: i, Kind: kind, Panic: ptxt, Stack: stack})

					// interpreter state after a panic is not trusted for long
					if panics++; panics >= 25 {
						os.Exit(exitRestart)
					}
				}

				if strayStopped.Load() || !settle(baseGoroutines) {
					_ = enc.Encode(record{Phase: p, Idx: i, Kind: "stray"})

					os.Exit(exitRestart)
				}

				// keep the diagnostics file small: the texts print their
				// errors there
				if n++; n%2000 == 0 {
					_ = errf.Truncate(0)
				}
			}
		}
	}

	st.set(stDone, 1)
	os.Exit(exitDone)
}

// workerSingle: c07worker single <driver> <sourceFile> <errFile>: one text, on
// fresh process state, nothing recovered.
func workerSingle(args []string) {
	driver, _ := strconv.Atoi(args[0])

	src, err := os.ReadFile(args[1])
	if err != nil {
		os.Exit(4)
	}

	workerSetup(args[2], false)

	fmt.Fprintln(os.Stderr, "C07-SINGLE-START")

	cl, _, _ := evaluate(driver, string(src), false)

	fmt.Fprintf(os.Stderr, "C07-SINGLE-END class=%s\n", classNames[cl])
	os.Exit(exitDone)
}

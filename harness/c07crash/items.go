package main

import (
	"fmt"
	"os"
	"strings"
)

// alphabet is the token alphabet of the sequence enumeration and of the
// substitution edits: keywords, punctuation, one literal of each kind, the
// directive marker and two directive words, the console word "exit". Only
// fmt/Println name anything outside the language itself.
var alphabet = []string{
	"func", "main", "(", ")", "{", "}", "[", "]",
	":=", "=", ",", ".", ";", ":",
	"+", "-", "*", "/", "<", "==", "!",
	"if", "else", "for", "range", "return", "var", "type", "struct", "map", "int",
	"x", "1", `"s"`, "nil", "fmt", "Println",
	"@", "fail", "line",
	"try", "defer", "go", "switch", "case", "panic", "<-", "exit",
	"/* x", // a comment that is never closed: it swallows whatever the driver appends to the text
}

// drivers
const (
	drvSrv  = iota // POST /admin/run through the real router and RunCodeHandler (sandboxed, non-admin session)
	drvRun         // `ego run --sandbox=true <file>`: the RunAction session path
	drvPipe        // `ego run --sandbox=true` with the program piped on the standard input
	drvRepl        // the interactive console: lines fed to runLoop through ReadConsoleText
)

var driverNames = []string{"server-run-endpoint", "ego-run-file", "ego-run-pipe", "console"}

// phase is one indexable family of inputs for one driver.
type phase struct {
	name   string
	driver int
	n      int64
	skip   bool
	text   func(i int64) (src string, desc string, size int)
}

const newline = "\n"

// render joins tokens with single blanks; a newline token ends the line.
func render(tokens []string) string {
	var b strings.Builder

	startOfLine := true

	for _, t := range tokens {
		if t == newline {
			b.WriteByte('\n')

			startOfLine = true

			continue
		}

		if !startOfLine {
			b.WriteByte(' ')
		}

		b.WriteString(t)

		startOfLine = false
	}

	return b.String()
}

// seedTokens splits a seed at blanks, keeping line ends as tokens.
func seedTokens(src string) []string {
	var out []string

	for li, line := range strings.Split(src, "\n") {
		if li > 0 {
			out = append(out, newline)
		}

		out = append(out, strings.Fields(line)...)
	}

	return out
}

func pow(a int64, n int) int64 {
	r := int64(1)
	for i := 0; i < n; i++ {
		r *= a
	}

	return r
}

// seqTokens returns the i-th token sequence in length-then-lexicographic
// order over the alphabet, lengths 1..maxLen.
func seqTokens(i int64, maxLen int) []string {
	return seqTokensOver(alphabet, i, 1, maxLen)
}

// coreAlphabet is the half of the alphabet the thorough tier builds its
// four-token sequences from.
var coreAlphabet = []string{
	"func", "(", ")", "{", "}", "[", "]", ":=", "=", ",", ".", ":", "+",
	"if", "for", "range", "return", "type", "struct", "map", "int", "x", "1", `"s"`,
}

func seqTokensOver(alphabet []string, i int64, minLen, maxLen int) []string {
	a := int64(len(alphabet))

	n := minLen
	for ; n <= maxLen; n++ {
		c := pow(a, n)
		if i < c {
			break
		}

		i -= c
	}

	out := make([]string, n)
	for k := n - 1; k >= 0; k-- {
		out[k] = alphabet[i%a]
		i /= a
	}

	return out
}

func seqCount(maxLen int) int64 {
	var t int64

	for n := 1; n <= maxLen; n++ {
		t += pow(int64(len(alphabet)), n)
	}

	return t
}

// forms a token sequence is presented in
const (
	formFragment = iota // the tokens on one line, as the whole text
	formInMain          // inside func main() { ... }
	formLines           // one token per line (console: every token is a line of input)
	formOpenFunc        // inside func f() { that is never closed: the text ends in the middle of a construct
)

var formNames = []string{"fragment", "in-main", "token-per-line", "in-unclosed-func"}

func seqPhase(name string, driver int, maxLen int, forms []int) phase {
	return seqPhaseOver(name, driver, alphabet, 1, maxLen, forms)
}

func seqPhaseOver(name string, driver int, alpha []string, minLen, maxLen int, forms []int) phase {
	nf := int64(len(forms))

	var count int64
	for n := minLen; n <= maxLen; n++ {
		count += pow(int64(len(alpha)), n)
	}

	return phase{
		name: name, driver: driver, n: count * nf,
		text: func(i int64) (string, string, int) {
			toks := seqTokensOver(alpha, i/nf, minLen, maxLen)
			form := forms[i%nf]
			desc := fmt.Sprintf("tokens %q as %s", toks, formNames[form])

			switch form {
			case formInMain:
				return "func main ( ) {\n" + render(toks) + "\n}\n", desc, len(toks)
			case formLines:
				return strings.Join(toks, "\n") + "\n", desc, len(toks)
			case formOpenFunc:
				return "func f ( ) {\n" + render(toks), desc, len(toks)
			default:
				return render(toks) + "\n", desc, len(toks)
			}
		},
	}
}

// edit kinds
const (
	edDel = iota
	edDup
	edSwap
	edSub
)

var editNames = []string{"delete", "duplicate", "swap-with-next", "substitute"}

type edit struct {
	kind, pos, sub int
}

func (e edit) String() string {
	if e.kind == edSub {
		return fmt.Sprintf("%s token %d by %q", editNames[e.kind], e.pos, alphabet[e.sub])
	}

	return fmt.Sprintf("%s token %d", editNames[e.kind], e.pos)
}

// singleEdits lists every single-token edit of a token list: per position
// deletion, duplication, swap with the next token and (when subs) substitution
// by each alphabet token that differs from it.
func singleEdits(toks []string, subs []int, from, to int) []edit {
	var out []edit

	for p := range toks {
		if p < from || p > to {
			continue
		}

		out = append(out, edit{edDel, p, 0}, edit{edDup, p, 0})

		if p+1 < len(toks) && toks[p] != toks[p+1] {
			out = append(out, edit{edSwap, p, 0})
		}

		for _, a := range subs {
			if alphabet[a] != toks[p] {
				out = append(out, edit{edSub, p, a})
			}
		}
	}

	return out
}

func apply(toks []string, e edit) []string {
	out := make([]string, 0, len(toks)+1)

	switch e.kind {
	case edDel:
		out = append(out, toks[:e.pos]...)
		out = append(out, toks[e.pos+1:]...)
	case edDup:
		out = append(out, toks[:e.pos+1]...)
		out = append(out, toks[e.pos:]...)
	case edSwap:
		out = append(out, toks...)
		out[e.pos], out[e.pos+1] = out[e.pos+1], out[e.pos]
	case edSub:
		out = append(out, toks...)
		out[e.pos] = alphabet[e.sub]
	}

	return out
}

// wrapSeed presents an (edited) seed program to a driver: the file and pipe
// drivers call main through the entry point directive the command adds; the
// run endpoint and the console get an explicit call of main as last line.
func wrapSeed(driver int, toks []string) string {
	src := render(toks) + "\n"
	if driver == drvSrv || driver == drvRepl {
		src += "main ( )\n"
	}

	return src
}

type seedEdit struct {
	seed int
	e    edit
}

// allTokens / quickSubs: the alphabet tokens a substitution edit may put in. The
// quick tier leaves out the two names of the fmt package: used as a value they
// block the interpreter (a timeout, which the statement allows, but each one
// costs a worker).
func allTokens() []int {
	out := make([]int, len(alphabet))
	for i := range out {
		out[i] = i
	}

	return out
}

func quickSubs() []int {
	var out []int

	for i, t := range alphabet {
		if t != "fmt" && t != "Println" {
			out = append(out, i)
		}
	}

	return out
}

// editPhase enumerates single edits of every seed (subs: the substitution tokens).
func editPhase(name string, driver int, subs []int) phase {
	var all []seedEdit

	toks := make([][]string, len(seedText))

	for s, src := range seedText {
		toks[s] = seedTokens(src)

		for _, e := range singleEdits(toks[s], subs, 0, len(toks[s])) {
			all = append(all, seedEdit{s, e})
		}
	}

	return phase{
		name: name, driver: driver, n: int64(len(all)),
		text: func(i int64) (string, string, int) {
			se := all[i]

			return wrapSeed(driver, apply(toks[se.seed], se.e)), fmt.Sprintf("seed %d: %s", se.seed, se.e), 1
		},
	}
}

// pairPhase enumerates pairs of edits on the core seeds: a structural first
// edit (delete/duplicate/swap) followed by any structural edit anywhere, or
// (subs) by any edit including substitutions within `window` tokens of the
// first edit's position.
func pairPhase(name string, driver int, subs []int, window int) phase {
	type first struct {
		seed  int
		e     edit
		toks  []string
		start int64
		n     int64
	}

	var (
		firsts []first
		total  int64
	)

	for _, s := range coreSeeds {
		base := seedTokens(seedText[s])

		for _, e1 := range singleEdits(base, nil, 0, len(base)) {
			t1 := apply(base, e1)

			var n int

			if subs != nil {
				n = len(singleEdits(t1, subs, e1.pos-window, e1.pos+window))
			} else {
				n = len(singleEdits(t1, nil, 0, len(t1)))
			}

			firsts = append(firsts, first{s, e1, t1, total, int64(n)})
			total += int64(n)
		}
	}

	return phase{
		name: name, driver: driver, n: total,
		text: func(i int64) (string, string, int) {
			lo, hi := 0, len(firsts)-1
			for lo < hi {
				mid := (lo + hi + 1) / 2
				if firsts[mid].start <= i {
					lo = mid
				} else {
					hi = mid - 1
				}
			}

			f := firsts[lo]

			var seconds []edit
			if subs != nil {
				seconds = singleEdits(f.toks, subs, f.e.pos-window, f.e.pos+window)
			} else {
				seconds = singleEdits(f.toks, nil, 0, len(f.toks))
			}

			e2 := seconds[i-f.start]

			return wrapSeed(driver, apply(f.toks, e2)), fmt.Sprintf("seed %d: %s, then %s", f.seed, f.e, e2), 2
		},
	}
}

// fineTokens splits a seed further: a dotted name (fmt.Println, p.x) becomes
// its identifiers and dots, so that a text can end right after a dot.
func fineTokens(src string) []string {
	var out []string

	for _, t := range seedTokens(src) {
		parts := strings.Split(t, ".")
		dotted := len(parts) > 1 && t != "..."

		for _, p := range parts {
			if p == "" || !(p[0] == '_' || p[0] >= 'a' && p[0] <= 'z' || p[0] >= 'A' && p[0] <= 'Z') {
				dotted = false
			}
		}

		if !dotted {
			out = append(out, t)

			continue
		}

		for i, p := range parts {
			if i > 0 {
				out = append(out, ".")
			}

			out = append(out, p)
		}
	}

	return out
}

// prefixPhase enumerates every proper prefix of every seed (truncation after
// each token, no line end added), optionally followed by suffix: the text
// ends in the middle of whatever construct was being written.
func prefixPhase(name string, driver int, suffix string) phase {
	type cut struct{ seed, n int }

	var all []cut

	toks := make([][]string, len(seedText))

	for s, src := range seedText {
		toks[s] = fineTokens(src)

		for n := 1; n < len(toks[s]); n++ {
			if toks[s][n-1] != newline {
				all = append(all, cut{s, n})
			}
		}
	}

	return phase{
		name: name, driver: driver, n: int64(len(all)),
		text: func(i int64) (string, string, int) {
			c := all[i]

			return render(toks[c.seed][:c.n]) + suffix, fmt.Sprintf("seed %d cut after token %d%s", c.seed, c.n, suffix), 1
		},
	}
}

// seedPhase runs every unedited seed through a driver.
func seedPhase(name string, driver int) phase {
	return phase{
		name: name, driver: driver, n: int64(len(seedText)),
		text: func(i int64) (string, string, int) {
			return wrapSeed(driver, seedTokens(seedText[i])), fmt.Sprintf("seed %d unedited", i), 0
		},
	}
}

// phases is the whole enumeration of a tier. The order is fixed; workers and
// the parent build the same table.
func phases(thorough bool) []phase {
	ph := allPhases(thorough)

	// debugging aid: C07_PHASES=4,8 keeps only the named phases (the evidence
	// then says that texts were not evaluated)
	if f := os.Getenv("C07_PHASES"); f != "" {
		keep := map[string]bool{}
		for _, x := range strings.Split(f, ",") {
			keep[x] = true
		}

		for i := range ph {
			if !keep[fmt.Sprint(i)] {
				ph[i].skip = true
			}
		}
	}

	return ph
}

func allPhases(thorough bool) []phase {
	all3 := []int{formFragment, formInMain, formOpenFunc}
	console := []int{formFragment, formLines, formOpenFunc}

	const unclosed = " /* x"

	if !thorough {
		return []phase{
			seedPhase("seeds/server", drvSrv),
			seedPhase("seeds/file", drvRun),
			seedPhase("seeds/pipe", drvPipe),
			seedPhase("seeds/console", drvRepl),
			seqPhase("sequences<=3/server", drvSrv, 3, all3),
			seqPhase("sequences<=2/file", drvRun, 2, all3),
			seqPhase("sequences<=2/pipe", drvPipe, 2, all3),
			seqPhase("sequences<=2/console", drvRepl, 2, console),
			editPhase("edits1-no-fmt-substitution/server", drvSrv, quickSubs()),
			editPhase("edits1-structural/file", drvRun, nil),
			editPhase("edits1-structural/pipe", drvPipe, nil),
			editPhase("edits1-structural/console", drvRepl, nil),
			prefixPhase("prefixes/server", drvSrv, ""),
			prefixPhase("prefixes/console", drvRepl, ""),
			prefixPhase("prefixes/pipe", drvPipe, ""),
			prefixPhase("prefixes/file", drvRun, ""),
			prefixPhase("prefixes+unclosed-comment/pipe", drvPipe, unclosed),
			prefixPhase("prefixes+unclosed-comment/file", drvRun, unclosed),
		}
	}

	return []phase{
		seedPhase("seeds/server", drvSrv),
		seedPhase("seeds/file", drvRun),
		seedPhase("seeds/pipe", drvPipe),
		seedPhase("seeds/console", drvRepl),
		seqPhase("sequences<=3/server", drvSrv, 3, all3),
		seqPhaseOver("sequences=4-core-alphabet/server", drvSrv, coreAlphabet, 4, 4, all3),
		seqPhase("sequences<=2/file", drvRun, 2, all3),
		seqPhase("sequences<=2/pipe", drvPipe, 2, all3),
		seqPhase("sequences<=2/console", drvRepl, 2, console),
		seqPhaseOver("sequences=3-core-alphabet/file", drvRun, coreAlphabet, 3, 3, all3),
		seqPhaseOver("sequences=3-core-alphabet/pipe", drvPipe, coreAlphabet, 3, 3, []int{formFragment, formOpenFunc}),
		seqPhaseOver("sequences=3-core-alphabet/console", drvRepl, coreAlphabet, 3, 3, console),
		editPhase("edits1/server", drvSrv, allTokens()),
		editPhase("edits1-no-fmt-substitution/file", drvRun, quickSubs()),
		editPhase("edits1-no-fmt-substitution/pipe", drvPipe, quickSubs()),
		editPhase("edits1-no-fmt-substitution/console", drvRepl, quickSubs()),
		pairPhase("edits2-structural/server", drvSrv, nil, 0),
		pairPhase("edits2-local/server", drvSrv, quickSubs(), 3),
		prefixPhase("prefixes/server", drvSrv, ""),
		prefixPhase("prefixes/console", drvRepl, ""),
		prefixPhase("prefixes/pipe", drvPipe, ""),
		prefixPhase("prefixes/file", drvRun, ""),
		prefixPhase("prefixes+unclosed-comment/pipe", drvPipe, unclosed),
		prefixPhase("prefixes+unclosed-comment/file", drvRun, unclosed),
	}
}

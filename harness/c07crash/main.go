package main

import (
	"bytes"
	"encoding/json"
	"fmt"
	"net/http"
	"net/http/httptest"
	"os"
	"path/filepath"
	"strings"
	"time"

	"github.com/tucats/ego/internal/cli/app"
	"github.com/tucats/ego/internal/commands"
	"github.com/tucats/ego/internal/grammar/class"
	"github.com/tucats/ego/internal/router"
	egoio "github.com/tucats/ego/internal/runtime/io"
	"github.com/tucats/ego/internal/server/admin"
)

func main() {
	scratch := os.Getenv("VERIF_SCRATCH")
	warm := filepath.Join(scratch, "warm.ego")
	_ = os.WriteFile(warm, []byte("func main() {\n fmt.Println(\"warm\")\n}\n"), 0o644)

	t0 := time.Now()
	a := app.New("ego: verif").SetVersion(1, 0, 0).SetCopyright("-").SetDefaultAction(commands.RunAction).SetProfileDirectory(".ego")
	err := a.Run(class.MainGrammar, []string{"ego", "run", "--sandbox=true", warm})
	fmt.Println("warm", err, time.Since(t0))

	progs := []string{
		"func main() {\n fmt.Println(1+2)\n}\n",
		"func main() {\n x := 1/0 \n}\n",
		"func main( {",
		"x := [",
		"func main() { for { } }",
	}
	for _, p := range progs[:4] {
		t0 = time.Now()
		n := 50
		var ev int
		for i := 0; i < n; i++ {
			ev, err = commands.VerifC07RunSource(p, "x.ego", true)
		}
		fmt.Printf("runsource %q -> %d %v  %v/op\n", p, ev, err, time.Since(t0)/time.Duration(n))
	}

	rt := router.NewRouter("verif")
	rt.New("/admin/run", admin.RunCodeHandler, http.MethodPost)
	for _, p := range progs[:4] {
		p = strings.Replace(p, "func main() {", "{", 1)
		t0 = time.Now()
		n := 200
		var body string
		for i := 0; i < n; i++ {
			b, _ := json.Marshal(map[string]any{"code": p, "session": "11111111-1111-1111-1111-111111111111"})
			r := httptest.NewRequest("POST", "/admin/run", bytes.NewReader(b))
			w := httptest.NewRecorder()
			rt.ServeHTTP(w, r)
			body = fmt.Sprint(w.Code, " ", w.Body.String())
		}
		fmt.Printf("admin %q -> %s  %v/op\n", p, body, time.Since(t0)/time.Duration(n))
	}

	for _, p := range []string{"x := 1\nfmt.Println(x+1)\nfunc f() {\nfmt.Println(\"in f\")\n}\nf()\ny := [\n", "fmt.Println(3)\nexit\nfmt.Println(4)\n"} {
		t0 = time.Now()
		if err := egoio.VerifC07SetConsole(readCloser{strings.NewReader(p)}); err != nil {
			fmt.Println("setconsole", err)
		}
		ev, err := commands.VerifC07RunConsole(true)
		fmt.Printf("repl %q -> %d %v %v\n", p, ev, err, time.Since(t0))
	}
}

type readCloser struct{ r *strings.Reader }

func (readCloser) Close() error { return nil }

func (rc readCloser) Read(p []byte) (int, error) {
	if rc.r.Len() > 0 {
		return rc.r.Read(p)
	}
	p[0] = 4
	return 1, nil
}

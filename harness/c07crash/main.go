// C07: no source text crashes the host process. Compiling and running any
// source text ends with program output, a reported Ego error or a timeout;
// never with an unrecovered Go panic or a fatal runtime error, for `ego run`,
// for the console and for the server's run endpoint.
//
// E-enum with containment. The parent enumerates (a) every token sequence up to
// a length over a 49-token alphabet, (b) every proper prefix of the seeds (texts
// that end in the middle of a construct) and (c) every single-token deletion,
// duplication, adjacent swap and substitution of 40 pure seed programs
// (thorough: also pairs of edits on a 10-program core), and hands them to
// worker processes. A worker runs each text in-process through one of four
// drivers that repeat the real entry points on the code of the working tree:
// the RunAction session of `ego run <file>`, the piped-stdin variant, the
// interactive console loop, and POST /admin/run through the real router and
// RunCodeHandler; sandbox on, HOME/TMPDIR/cwd in the scratch directory, an
// address-space limit, the id of the current text published before it runs, a
// deterministic instruction budget (the woven per-instruction atomic add) and a
// wall-clock watchdog in the parent (hangs are counted: the statement allows a
// timeout). A Go panic coming out of a driver, or the death of a worker, makes
// the text a candidate; candidates are grouped by the crashing function and
// the smallest ones are re-run alone in a fresh process with nothing recovered
// and, for the file and pipe drivers, with the plain `ego` binary. Only a crash
// reproduced that way is reported.
package main

import (
	"bufio"
	"bytes"
	"encoding/json"
	"fmt"
	"os"
	"os/exec"
	"path/filepath"
	"regexp"
	"sort"
	"strings"
	"sync"
	"time"

	"github.com/tucats/ego/internal/verifrt/report"
)

const (
	nWorkers = 16

	// hangLimit bounds the single-text confirmation runs.
	hangLimit = 15 * time.Second
)

// cpuLimit is the processor time (USER_HZ ticks) one evaluation may use before
// the parent ends the worker: 4 s in the quick tier, 30 s in the thorough one.
// An ordinary evaluation is bounded by the instruction budget and takes
// milliseconds; texts that spin outside the bytecode loop are counted as
// timeouts, never a verdict.
func cpuLimit(tier string) int64 {
	if tier == "thorough" {
		return 30 * 100
	}

	return 4 * 100
}

// procInfo reads the processor time a process has used (utime+stime, in
// ticks) and whether any of its threads is running or runnable.
func procInfo(pid int) (ticks int64, running bool) {
	tasks, _ := os.ReadDir(fmt.Sprintf("/proc/%d/task", pid))

	for _, t := range tasks {
		b, err := os.ReadFile(fmt.Sprintf("/proc/%d/task/%s/stat", pid, t.Name()))
		if err != nil {
			continue
		}

		// pid (comm) state ppid ... utime(14) stime(15); comm may hold blanks
		i := bytes.LastIndexByte(b, ')')
		if i < 0 {
			continue
		}

		f := strings.Fields(string(b[i+1:]))
		if len(f) < 13 {
			continue
		}

		if f[0] == "R" || f[0] == "D" {
			running = true
		}

		var u, sy int64

		fmt.Sscan(f[11], &u)
		fmt.Sscan(f[12], &sy)

		ticks += u + sy
	}

	return ticks, running
}

var scratch = os.Getenv("VERIF_SCRATCH")

type candidate struct {
	Phase  int
	Idx    int64
	Kind   string // go_panic | death
	Panic  string
	Stack  string
	Stderr string
}

type workerResult struct {
	cands    []candidate
	hangs    []candidate
	strays   int
	restarts int
}

func workerEnv(k int) []string {
	home := filepath.Join(scratch, fmt.Sprintf("whome%d", k))
	tmp := filepath.Join(scratch, "tmp")
	_ = os.MkdirAll(home, 0o755)
	_ = os.MkdirAll(tmp, 0o755)

	return append(os.Environ(), "HOME="+home, "TMPDIR="+tmp, "GOMAXPROCS=2", "GOTRACEBACK=single")
}

func tail(path string, n int) string {
	b, err := os.ReadFile(path)
	if err != nil {
		return ""
	}

	if len(b) > n {
		b = b[len(b)-n:]
	}

	return string(b)
}

// lastCrash cuts the diagnostics of a dead worker down to its final crash
// report.
func lastCrash(s string) string {
	i := strings.LastIndex(s, "\nfatal error: ")
	if j := strings.LastIndex(s, "\npanic: "); j > i {
		i = j
	}

	if i < 0 {
		if len(s) > 4000 {
			s = s[len(s)-4000:]
		}

		return s
	}

	if j := strings.LastIndex(s[:i+1], "runtime: goroutine stack exceeds"); j >= 0 && i-j < 400 {
		i = j - 1
	}

	s = s[i+1:]
	if len(s) > 64000 {
		s = s[:64000]
	}

	return s
}

// runWorker drives shard k to completion, replacing the worker whenever it
// dies, hangs or asks to be replaced.
func runWorker(k int, tier string) workerResult {
	var res workerResult

	stFile := filepath.Join(scratch, fmt.Sprintf("w%d.state", k))
	errFile := filepath.Join(scratch, fmt.Sprintf("w%d.err", k))

	st, err := mapState(stFile, true)
	if err != nil {
		report.Fatal("cannot map worker state: %v", err)
	}

	resumePhase, resumeIdx := 0, int64(0)
	setupFailures := 0
	tStart := time.Now()

	for {
		pr, pw, err := os.Pipe()
		if err != nil {
			report.Fatal("%v", err)
		}

		cmd := exec.Command(os.Args[0], "c07worker", "batch", fmt.Sprint(k), fmt.Sprint(nWorkers), tier,
			fmt.Sprint(resumePhase), fmt.Sprint(resumeIdx), stFile, errFile)
		cmd.Env = workerEnv(k)
		cmd.Dir = scratch
		cmd.ExtraFiles = []*os.File{pw}

		st.set(stInflight, 0)

		startSeq := st.get(stSeq)

		if err := cmd.Start(); err != nil {
			report.Fatal("cannot start worker: %v", err)
		}

		_ = pw.Close()

		var (
			recs   []record
			recsWG sync.WaitGroup
		)

		recsWG.Add(1)

		go func() {
			defer recsWG.Done()

			sc := bufio.NewScanner(pr)
			sc.Buffer(make([]byte, 1<<16), 1<<22)

			for sc.Scan() {
				var rc record
				if json.Unmarshal(sc.Bytes(), &rc) == nil {
					recs = append(recs, rc)
				}
			}
		}()

		exited := make(chan error, 1)

		go func() { exited <- cmd.Wait() }()

		lastSeq, lastChange := startSeq, time.Now()
		cpuAtChange, _ := procInfo(cmd.Process.Pid)
		quiet := 0
		hung := false

	wait:
		for {
			select {
			case <-exited:
				break wait
			case <-time.After(100 * time.Millisecond):
				cpu, running := procInfo(cmd.Process.Pid)

				if s := st.get(stSeq); s != lastSeq {
					lastSeq, lastChange, cpuAtChange, quiet = s, time.Now(), cpu, 0

					continue
				}

				if st.get(stInflight) != 1 {
					// between evaluations (set-up, settling): only the long
					// safety net applies
					if time.Since(lastChange) > 10*time.Minute {
						hung = true
					}
				} else {
					// The watchdog of one evaluation. Blocked: no thread of the
					// worker runnable and no processor time used for a second
					// (a deadlocked interpreter stays that way). Spinning:
					// more than cpuLimit of processor time on one text. Both
					// are counted as timeouts, which the statement allows.
					if running {
						quiet -= 3 // a runtime thread waking up now and then is not progress
						if quiet < 0 {
							quiet = 0
						}
					} else {
						quiet++
					}

					switch {
					case quiet >= 12:
						hung = true
					case cpu-cpuAtChange > cpuLimit(tier):
						hung = true
					case time.Since(lastChange) > 15*time.Minute:
						hung = true
					}
				}

				if hung {
					_ = cmd.Process.Kill()
					<-exited

					break wait
				}
			}
		}

		recsWG.Wait()
		_ = pr.Close()

		for _, rc := range recs {
			switch rc.Kind {
			case "go_panic", "router_panic":
				res.cands = append(res.cands, candidate{Phase: rc.Phase, Idx: rc.Idx, Kind: rc.Kind, Panic: rc.Panic, Stack: rc.Stack})
			case "stray":
				res.strays++
			}
		}

		if st.get(stDone) == 1 {
			return res
		}

		started := st.get(stSeq) != startSeq
		cur := candidate{Phase: int(st.get(stPhase)), Idx: int64(st.get(stIdx))}

		switch {
		case !started:
			// died or hung before the first evaluation: the harness, not a text
			setupFailures++
			if setupFailures >= 3 {
				report.Fatal("worker %d cannot start: %s", k, tail(errFile, 2000))
			}

			continue

		case hung && st.get(stInflight) == 1:
			cur.Kind = "hang"
			res.hangs = append(res.hangs, cur)

		case st.get(stInflight) == 1:
			cur.Kind = "death"
			cur.Stderr = lastCrash(tail(errFile, 1<<20))
			res.cands = append(res.cands, cur)
		}

		if os.Getenv("C07_VERBOSE") != "" {
			_, desc, _ := phases(tier == "thorough")[cur.Phase].text(cur.Idx)
			fmt.Fprintf(os.Stderr, "C07-INFO worker %d replaced at phase %d text %d (%s) after %.0fs: %s\n", k, cur.Phase, cur.Idx, cur.Kind, time.Since(tStart).Seconds(), desc)
		}

		setupFailures = 0
		res.restarts++
		resumePhase, resumeIdx = cur.Phase, cur.Idx+1
	}
}

// ---- classification of a crash trace ------------------------------------------

var (
	reGoroutine = regexp.MustCompile(`(?m)^goroutine \d+ (gp=\S+ m=\S+ (mp=\S+ )?)?\[`)
	reCrashHead = regexp.MustCompile(`(?m)^(panic: |fatal error: |runtime: |SIGSEGV|unexpected fault address).*$`)
	reFrame     = regexp.MustCompile(`(?m)^(github\.com/tucats/ego/[^\s(]+(?:\([^)]*\))?[^\s(]*)\(`)
)

// goCrash reports whether the output of a process shows a Go run-time crash
// (as opposed to an Ego-level panic message, which has no goroutine dump) and
// returns its head line.
func goCrash(out string) (bool, string) {
	if !reGoroutine.MatchString(out) {
		return false, ""
	}

	h := reCrashHead.FindString(out)
	if h == "" {
		return false, ""
	}

	return true, h
}

// ladder is the expression precedence chain every expression goes down: in a
// runaway recursion the frame the stack limit happens to hit is one of these,
// and says nothing about which construct recurses.
var ladder = map[string]bool{
	"conditional": true, "logicalOr": true, "logicalAnd": true, "relations": true, "addSubtract": true,
	"multiplyDivide": true, "unary": true, "functionOrReference": true, "reference": true, "expressionAtom": true,
	"Expression": true, "emitExpression": true, "compileExpression": true,
}

// crashSite names the function a Go crash trace points at: the first frame of
// tucats/ego code that is not one of the harness's own entry points; for a
// stack overflow, the first (alphabetically) function of the recursion cycle
// that is not part of the expression precedence chain.
func crashSite(trace string) string {
	var frames []string

	for _, m := range reFrame.FindAllStringSubmatch(trace, -1) {
		f := strings.TrimPrefix(m[1], "github.com/tucats/ego/internal/")
		if strings.HasPrefix(f, "verifharness/") || strings.HasPrefix(f, "verifrt/") || strings.Contains(f, "VerifC07") ||
			strings.HasPrefix(f, "router.reportRequestPanic") || strings.HasPrefix(f, "router.(*Router).ServeHTTP") {
			continue
		}

		frames = append(frames, f)
	}

	if len(frames) == 0 {
		return "unknown"
	}

	if !strings.Contains(trace, "stack overflow") && !strings.Contains(trace, "goroutine stack exceeds") {
		return frames[0]
	}

	if len(frames) > 60 {
		frames = frames[:60]
	}

	sort.Strings(frames)

	for _, f := range frames {
		if !ladder[f[strings.LastIndexByte(f, '.')+1:]] {
			return "stack-overflow:" + f
		}
	}

	return "stack-overflow:" + frames[0]
}

var (
	reNumber = regexp.MustCompile(`\d+`)
	reHex    = regexp.MustCompile(`0x[0-9a-f]+`)
)

func panicClass(p string) string {
	p = strings.TrimPrefix(p, "panic: ")
	if i := strings.IndexByte(p, '\n'); i >= 0 {
		p = p[:i]
	}

	p = reHex.ReplaceAllString(p, "X")
	p = reNumber.ReplaceAllString(p, "N")

	if i := strings.Index(p, " [recovered]"); i >= 0 {
		p = p[:i]
	}

	if len(p) > 80 {
		p = p[:80]
	}

	return p
}

// ---- confirmation ------------------------------------------------------------

type confirmation struct {
	Single     string `json:"fresh_worker"`          // crashed | survived | timeout
	SingleHead string `json:"fresh_worker_crash,omitempty"`
	Real       string `json:"ego_binary,omitempty"`  // crashed | survived | timeout | n/a
	RealHead   string `json:"ego_binary_crash,omitempty"`
	RealExit   int    `json:"ego_binary_exit,omitempty"`
	Site       string `json:"crash_site,omitempty"`
	Trace      string `json:"trace,omitempty"`
}

var confirmSeq int

func runLimited(cmd *exec.Cmd, limit time.Duration) (out string, exit int, timedOut bool) {
	var buf bytes.Buffer

	cmd.Stdout = &buf
	cmd.Stderr = &buf

	if err := cmd.Start(); err != nil {
		return err.Error(), -1, false
	}

	done := make(chan error, 1)

	go func() { done <- cmd.Wait() }()

	select {
	case err := <-done:
		if ee, ok := err.(*exec.ExitError); ok {
			exit = ee.ExitCode()
		}
	case <-time.After(limit):
		_ = cmd.Process.Kill()
		<-done

		timedOut = true
	}

	out = buf.String()
	if len(out) > 1<<20 {
		out = out[:1<<19] + "\n...\n" + out[len(out)-(1<<19):]
	}

	return out, exit, timedOut
}

func trimTrace(t string) string {
	if i := reCrashHead.FindStringIndex(t); i != nil {
		t = t[i[0]:]
	}

	lines := strings.Split(t, "\n")
	if len(lines) > 60 {
		lines = lines[:60]
	}

	return strings.Join(lines, "\n")
}

var primed sync.Once

// confirm runs one text alone: in a fresh worker process with nothing
// recovered and, for the file and pipe drivers, with the plain ego binary.
func confirm(driver int, src string, extra ...string) confirmation {
	confirmSeq++

	var c confirmation

	dir := filepath.Join(scratch, fmt.Sprintf("confirm%d", confirmSeq))
	_ = os.MkdirAll(dir, 0o755)

	defer os.RemoveAll(dir)

	file := filepath.Join(dir, "verif.ego")
	_ = os.WriteFile(file, []byte(src), 0o644)

	ego := os.Getenv("VERIF_EGO")
	realDecides := (driver == drvRun || driver == drvPipe) && ego != ""

	if realDecides {
		// `ego run`: the plain binary is where the statement observes the crash
		confirmReal(&c, driver, file, dir, ego, extra)

		if c.Real == "crashed" || len(extra) > 0 {
			c.Single = "not run (the ego binary decides)"

			return c
		}
	}

	var (
		crashed  bool
		head     string
		timedOut bool
		trace    string
	)

	errFile := filepath.Join(dir, "single.err")

	cmd := exec.Command(os.Args[0], "c07worker", "single", fmt.Sprint(driver), file, errFile)
	cmd.Env = workerEnv(100)
	cmd.Dir = dir

	_, _, timedOut = runLimited(cmd, 10*hangLimit)
	trace = tail(errFile, 1<<20)

	if i := strings.Index(trace, "C07-SINGLE-START"); i >= 0 {
		trace = trace[i:]
	}

	crashed, head = goCrash(trace)

	switch {
	case crashed:
		c.Single, c.SingleHead = "crashed", head
		if c.Trace == "" {
			c.Trace, c.Site = trimTrace(trace), crashSite(trace)
		}
	case timedOut:
		c.Single = "timeout"
	case strings.Contains(trace, "C07-SINGLE-END"):
		c.Single = "survived"
	default:
		c.Single = "ended without a Go crash trace: " + strings.TrimSpace(tail(errFile, 300))
	}

	if !realDecides {
		c.Real = "n/a"
	}

	return c
}

// confirmReal runs the text with the plain ego binary (file named on the
// command line, or piped on the standard input) under the workers' limits.
func confirmReal(c *confirmation, driver int, file, dir, ego string, extra []string) {
	home := filepath.Join(scratch, "fhome")
	env := append(os.Environ(), "HOME="+home, "TMPDIR="+filepath.Join(scratch, "tmp"), "GOTRACEBACK=all")

	primed.Do(func() {
		// The first ego run in an empty HOME writes the default profile; the
		// workers are past that point, so the confirmation runs start past it
		// as well.
		_ = os.MkdirAll(home, 0o755)
		warm := filepath.Join(scratch, "prime.ego")
		_ = os.WriteFile(warm, []byte("func main() {\n}\n"), 0o644)
		p := exec.Command(ego, "run", "--sandbox=true", warm)
		p.Env, p.Dir = env, scratch
		_, _, _ = runLimited(p, 2*time.Minute)
	})

	// `ulimit -v` around the real binary, as around the workers.
	var sh string
	opts := ""
	for _, x := range extra {
		opts += fmt.Sprintf(" %q", x)
	}

	if driver == drvRun {
		sh = fmt.Sprintf("ulimit -v %d; exec %q run --sandbox=true%s %q < /dev/null", memoryLimit>>10, ego, opts, file)
	} else {
		sh = fmt.Sprintf("ulimit -v %d; exec %q run --sandbox=true%s < %q", memoryLimit>>10, ego, opts, file)
	}

	rc := exec.Command("/bin/sh", "-c", sh)
	rc.Env, rc.Dir = env, dir

	out, exit, timedOut := runLimited(rc, 10*hangLimit)
	crashed, head := goCrash(out)
	c.RealExit = exit

	switch {
	case crashed:
		c.Real, c.RealHead, c.Trace, c.Site = "crashed", head, trimTrace(out), crashSite(out)
	case timedOut:
		c.Real = "timeout"
	default:
		c.Real = "survived"
	}
}

// genuine: the crash was reproduced where the statement observes it.
func (c confirmation) genuine(driver int) bool {
	if driver == drvRun || driver == drvPipe {
		return c.Real == "crashed"
	}

	return c.Single == "crashed"
}

type witness struct {
	Driver  string       `json:"driver"`
	DriverN int          `json:"driver_id"`
	Options []string     `json:"ego_run_options,omitempty"`
	Phase   string       `json:"phase,omitempty"`
	Index   int64        `json:"index,omitempty"`
	Input   string       `json:"input"`
	Source  string       `json:"source"`
	Seen    string       `json:"seen_in_batch"`
	Confirm confirmation `json:"confirmation"`
}

func main() {
	if len(os.Args) > 2 && os.Args[1] == "c07worker" {
		switch os.Args[2] {
		case "batch":
			workerBatch(os.Args[3:])
		case "single":
			workerSingle(os.Args[3:])
		}

		os.Exit(4)
	}

	r := report.New("exploration")
	ph := phases(r.Thorough())

	if len(ph) > maxPhases {
		report.Fatal("too many phases")
	}

	r.Assume(
		"in-process drivers repeat the entry points with the functions of the working tree (commands.runSession.run/runLoop, admin.RunCodeHandler behind router.ServeHTTP); a crash is only reported after it was reproduced alone in a fresh process and, for `ego run`, with the plain ego binary",
		"console input is a readline instance over a scripted reader (no terminal): key handling of a real terminal is not covered",
		fmt.Sprintf("one evaluation is cut after %d bytecode instructions (deterministic), when the worker is blocked (no runnable thread, no processor time for 1.2 s) or after 4 s (quick) / 30 s (thorough) of processor time; the last two are counted as timeouts, which the statement allows", instructionBudget),
		"texts are pure: identifiers outside the language are only fmt, strings, math, errors; sandbox on; HOME, TMPDIR, cwd inside the scratch directory; workers under an address-space limit",
	)

	if r.Replay != "" {
		var w witness
		if err := report.LoadReplay(r.Replay, &w); err != nil {
			report.Fatal("%v", err)
		}

		c := confirm(w.DriverN, w.Source, w.Options...)
		w.Confirm = c

		r.Eval(1)
		r.Distinct(w.Source)
		r.Distinct("replay")
		r.Sample(w)
		r.Rule("replay of one witness")

		if c.genuine(w.DriverN) {
			r.Violation("crash:"+c.Site, len(w.Source), w, "Go crash reproduced: "+c.RealHead+ifEmpty(c.RealHead, c.SingleHead))
		}

		r.Finish()
	}

	var total int64
	for _, p := range ph {
		total += p.n
	}

	results := make([]workerResult, nWorkers)
	t0 := time.Now()

	var wg sync.WaitGroup

	for k := 0; k < nWorkers; k++ {
		wg.Add(1)

		go func(k int) {
			defer wg.Done()

			results[k] = runWorker(k, r.Tier)
		}(k)
	}

	wg.Wait()

	fmt.Fprintf(os.Stderr, "C07-INFO enumeration finished after %.0fs\n", time.Since(t0).Seconds())

	// ---- merge the counters ---------------------------------------------------
	counts := make([][nClasses]int64, len(ph))

	for k := 0; k < nWorkers; k++ {
		st, err := mapState(filepath.Join(scratch, fmt.Sprintf("w%d.state", k)), false)
		if err != nil {
			report.Fatal("%v", err)
		}

		for p := range ph {
			for c := 0; c < nClasses; c++ {
				counts[p][c] += int64(st.count(p, c))
			}
		}
	}

	var (
		cands    []candidate
		hangs    []candidate
		strays   int
		restarts int
	)

	for _, res := range results {
		cands = append(cands, res.cands...)
		hangs = append(hangs, res.hangs...)
		strays += res.strays
		restarts += res.restarts
	}

	sort.Slice(cands, func(i, j int) bool {
		if cands[i].Phase != cands[j].Phase {
			return cands[i].Phase < cands[j].Phase
		}

		return cands[i].Idx < cands[j].Idx
	})

	perDriver := map[string]int64{}
	perClass := make([]int64, nClasses)

	var evaluated int64

	for p := range ph {
		var n int64

		for c := 0; c < nClasses; c++ {
			if c != clExecuted {
				n += counts[p][c]
				perClass[c] += counts[p][c]
			}
		}

		perClass[clExecuted] += counts[p][clExecuted]
		evaluated += n
		perDriver[driverNames[ph[p].driver]] += n

		r.Set("phase:"+ph[p].name, fmt.Sprintf("%d of %d texts evaluated, %d executed code", n, ph[p].n, counts[p][clExecuted]))

		for j := int64(0); j < counts[p][clExecuted]; j++ {
			r.Distinct(fmt.Sprintf("%s#%d", ph[p].name, j))
		}
	}

	deaths := 0

	for _, c := range cands {
		if c.Kind == "death" {
			deaths++
		}
	}

	evaluated += int64(len(hangs) + deaths)
	r.Eval(int(evaluated))

	for c := 0; c < nClasses; c++ {
		r.Set("outcome:"+classNames[c], perClass[c])
	}

	// The two supervisor-side classes: a text whose worker had to be ended
	// (blocked, or out of processor time) and a text whose worker died. Their
	// sum is fixed; a slow death can be taken for a block, so a text may move
	// between the two from run to run. Neither is a verdict: a death is only
	// reported after it was reproduced alone.
	r.Set("outcome:ended_by_supervisor", len(hangs)+deaths)
	r.Set("outcome:timeout", len(hangs))
	r.Set("outcome:worker_died", deaths)
	r.Set("evaluations_per_driver", perDriver)
	r.Set("workers", nWorkers)
	r.Set("worker_replacements", restarts)
	r.Set("replaced_for_leftover_goroutines", strays)
	r.Set("token_alphabet", alphabet)
	r.Set("seed_programs", len(seedText))

	if evaluated != total {
		r.Capped(fmt.Sprintf("%d of %d texts were not evaluated", total-evaluated, total))
	}

	for i, h := range hangs {
		if i < 3 {
			src, desc, _ := ph[h.Phase].text(h.Idx)
			r.Set(fmt.Sprintf("timeout_example_%d", i), map[string]string{"driver": driverNames[ph[h.Phase].driver], "input": desc, "source": src})
		}
	}

	for _, i := range []int64{0, 7, 23} {
		for _, p := range []int{4, 8} {
			if p < len(ph) && i < ph[p].n {
				src, desc, _ := ph[p].text(i * 997 % ph[p].n)
				r.Sample(map[string]string{"driver": driverNames[ph[p].driver], "input": desc, "source": src})
			}
		}
	}

	r.Rule(fmt.Sprintf("every token sequence up to the phase's length over a %d-token alphabet (as whole text, inside func main, inside a func f that is never closed, one token per console line), every proper prefix of every seed program (cut after each token; on the file and pipe drivers also followed by a never-closed comment) and every single-token deletion, duplication, adjacent swap and substitution by each alphabet token of %d seed programs (thorough: plus length-4 sequences over a %d-token core alphabet and pairs of edits on %d core seeds), each through the driver named in the phase (see the phase:* keys); distinct = a (driver, text) pair whose text executed at least one bytecode instruction of its own", len(alphabet), len(seedText), len(coreAlphabet), len(coreSeeds)))

	// ---- triage of the candidates -----------------------------------------------
	// One root cause shows through every driver and in hundreds of texts: the
	// candidates are grouped by the function that crashed and the kind of
	// crash, and the three smallest texts of a group are re-run alone.
	type group struct {
		key     string
		items   []candidate
		drivers map[string]int
	}

	groups := map[string]*group{}

	var order []string

	for _, c := range cands {
		trace := c.Stack
		msg := c.Panic

		if c.Kind == "death" {
			trace = c.Stderr
			_, msg = goCrash(c.Stderr)
		}

		key := crashSite(trace) + "|" + panicClass(msg)

		g := groups[key]
		if g == nil {
			g = &group{key: key, drivers: map[string]int{}}
			groups[key] = g
			order = append(order, key)
		}

		g.items = append(g.items, c)
		g.drivers[driverNames[ph[c.Phase].driver]]++
	}

	sort.Strings(order)

	unconfirmed := []map[string]any{}

	for _, key := range order {
		g := groups[key]

		// smallest texts first
		sort.SliceStable(g.items, func(i, j int) bool {
			a, _, _ := ph[g.items[i].Phase].text(g.items[i].Idx)
			b, _, _ := ph[g.items[j].Phase].text(g.items[j].Idx)

			return len(a) < len(b)
		})

		confirmed := false

		var first *witness

		for n, c := range g.items {
			// three texts per group; two when the group was only seen as a
			// handler panic the router recovers
			if n >= 3 || (n >= 2 && c.Kind == "router_panic") {
				break
			}

			src, desc, _ := ph[c.Phase].text(c.Idx)
			driver := ph[c.Phase].driver

			seen := c.Kind + ": " + c.Panic
			if c.Kind == "death" {
				_, h := goCrash(c.Stderr)
				seen = "worker died: " + h
			}

			// Where the statement observes a crash: the process of `ego run`
			// (file or pipe), the console process, the server process. A
			// handler panic the router recovers does not end the server, so a
			// text seen that way is tried as a file with the ego binary; so is
			// a console text that does not crash the console.
			type attempt struct {
				d    int
				opts []string
			}

			var attempts []attempt

			// The run endpoint executes with dynamic typing; `ego run` does so
			// with --types dynamic.
			dynamic := []string{"--types", "dynamic"}

			// A file gets "@entrypoint main" appended by the command, which
			// hides a crash at the very end of the text; piped source without
			// func main gets nothing appended, like the run endpoint.
			switch {
			case c.Kind == "router_panic":
				attempts = []attempt{{drvRun, nil}, {drvPipe, nil}, {drvRun, dynamic}}
			case driver == drvSrv:
				attempts = []attempt{{drvRun, nil}, {drvPipe, nil}, {drvSrv, nil}, {drvRun, dynamic}}
			case driver == drvRepl:
				attempts = []attempt{{drvRun, nil}, {drvPipe, nil}, {drvRepl, nil}}
			default:
				attempts = []attempt{{driver, nil}}
			}

			for _, at := range attempts {
				d := at.d

				text := src
				if d != driver {
					text = asFile(src)
				}

				tc := time.Now()
				cf := confirm(d, text, at.opts...)

				fmt.Fprintf(os.Stderr, "C07-INFO check of %q via %s %v took %.0fs: worker %s, ego %s\n", key, driverNames[d], at.opts, time.Since(tc).Seconds(), cf.Single, cf.Real)

				w := witness{Driver: driverNames[d], DriverN: d, Options: at.opts, Phase: ph[c.Phase].name, Index: c.Idx, Input: desc, Source: text, Seen: driverNames[driver] + ": " + seen, Confirm: cf}

				if first == nil {
					first = &w
				}

				if cf.genuine(d) {
					confirmed = true
					cell := "crash:" + cf.Site
					msg := fmt.Sprintf("%s%s: the text ends the process with a Go crash (%s%s); texts crashing at this site in the batch, per driver: %v", driverNames[d], strings.Join(append([]string{""}, at.opts...), " "), cf.RealHead, ifEmpty(cf.RealHead, cf.SingleHead), g.drivers)

					for i := 0; i < len(g.items); i++ {
						r.Violation(cell, len(text), w, msg)
					}

					break
				}
			}

			if confirmed {
				break
			}
		}

		if !confirmed && first != nil {
			unconfirmed = append(unconfirmed, map[string]any{"group": key, "texts": len(g.items), "example": *first})
		}
	}

	r.Set("candidate_groups", len(order))
	r.Set("candidates", len(cands))

	if len(unconfirmed) > 0 {
		if len(unconfirmed) > 5 {
			unconfirmed = unconfirmed[:5]
		}

		r.Set("candidates_not_reproduced_alone", unconfirmed)
	}

	r.Finish()
}

// asFile turns a text written for the run endpoint or the console into the
// file the same program is for `ego run`: the explicit call of main that those
// two need is what the command's entry point directive does for a file.
func asFile(src string) string {
	if strings.Contains(src, "func main (") {
		return strings.TrimSuffix(src, "main ( )\n")
	}

	return src
}

func ifEmpty(a, b string) string {
	if a == "" {
		return b
	}

	return ""
}

package main

// The seed corpus: small valid Ego programs that use only the pure packages
// fmt, strings, math and errors (no file, process, network, SQL or os
// identifier appears anywhere in this file or in the token alphabet). Every
// token is separated from its neighbours by one blank or a line end, so that
// splitting at blanks gives the token sequence the edit enumeration works on.
// Every program ends normally when run unedited (a few print an Ego error or
// an Ego-level panic message on purpose).
var seedText = []string{
	// 0 arithmetic, printing
	`func main ( ) {
x := 6
y := x * 7 - 2
fmt.Println ( x + y , y / x , y % x , - x )
}`,
	// 1 strings package
	`func main ( ) {
s := "a,b"
p := strings.Split ( s , "," )
fmt.Println ( len ( p ) , strings.ToUpper ( p [ 0 ] ) + p [ 1 ] )
}`,
	// 2 if / else if / else
	`func main ( ) {
x := 3
if x < 2 {
fmt.Println ( "lt" )
} else if x == 3 {
fmt.Println ( "eq" )
} else {
fmt.Println ( "gt" )
}
}`,
	// 3 three-part for, break, continue
	`func main ( ) {
n := 0
for i := 0 ; i < 6 ; i ++ {
if i == 1 {
continue
}
if i == 4 {
break
}
n = n + i
}
fmt.Println ( n )
}`,
	// 4 range over array
	`func main ( ) {
a := [ ] int { 3 , 1 , 2 }
t := 0
for i , v := range a {
t = t + i * v
}
fmt.Println ( t , a [ 1 : 3 ] )
}`,
	// 5 map literal, index, range, delete
	`func main ( ) {
m := map [ string ] int { "a" : 1 }
m [ "b" ] = 2
delete ( m , "a" )
for k , v := range m {
fmt.Println ( k , v )
}
fmt.Println ( len ( m ) )
}`,
	// 6 function with two results and an error
	`func div ( a int , b int ) ( int , error ) {
if b == 0 {
return 0 , errors.New ( "zero" )
}
return a / b , nil
}
func main ( ) {
q , err := div ( 4 , 0 )
fmt.Println ( q , err )
}`,
	// 7 struct type, method, String formatter
	`type Point struct {
x int
y int
}
func ( p Point ) String ( ) string {
return fmt.Sprintf ( "(%d,%d)" , p.x , p.y )
}
func main ( ) {
p := Point { x : 1 , y : 2 }
fmt.Println ( p )
}`,
	// 8 pointer receiver, field update
	`type Box struct {
n int
}
func ( b * Box ) Inc ( ) {
b.n = b.n + 1
}
func main ( ) {
b := & Box { n : 1 }
b.Inc ( )
fmt.Println ( b.n )
}`,
	// 9 closure capturing a variable
	`func main ( ) {
c := 0
f := func ( n int ) int {
c = c + n
return c
}
f ( 2 )
fmt.Println ( f ( 3 ) )
}`,
	// 10 defer and recover
	`func main ( ) {
defer func ( ) {
r := recover ( )
fmt.Println ( "rec" , r )
} ( )
panic ( "boom" )
}`,
	// 11 try / catch of a run-time error
	`func main ( ) {
a := [ ] int { 1 }
try {
z := a [ 9 ]
fmt.Println ( z )
} catch ( e ) {
fmt.Println ( "caught" , e )
}
}`,
	// 12 switch with default
	`func main ( ) {
x := 2
switch x {
case 1 :
fmt.Println ( "one" )
case 2 , 3 :
fmt.Println ( "two" )
default :
fmt.Println ( "other" )
}
}`,
	// 13 append, make, copy-free slice ops
	`func main ( ) {
a := make ( [ ] int , 2 )
a = append ( a , 4 , 5 )
a [ 0 ] = 7
fmt.Println ( len ( a ) , a )
}`,
	// 14 var declarations and constants
	`const k = 10
var g int = 2
func main ( ) {
var s string
var f float64 = 1.5
s = "v"
fmt.Println ( s , f * 2.0 , g + k )
}`,
	// 15 math package, conversions
	`func main ( ) {
x := math.Sqrt ( 16.0 )
n := int ( x )
fmt.Println ( x , n , float64 ( n ) / 3.0 , string ( 65 ) )
}`,
	// 16 variadic function
	`func sum ( v ... int ) int {
t := 0
for _ , x := range v {
t = t + x
}
return t
}
func main ( ) {
fmt.Println ( sum ( ) , sum ( 1 , 2 , 3 ) )
}`,
	// 17 recursion
	`func fact ( n int ) int {
if n < 2 {
return 1
}
return n * fact ( n - 1 )
}
func main ( ) {
fmt.Println ( fact ( 5 ) )
}`,
	// 18 interface{} values and type switch-free assertions
	`func show ( v interface { } ) string {
return fmt.Sprintf ( "%v" , v )
}
func main ( ) {
var i interface { } = 3
n := i . ( int )
fmt.Println ( show ( n ) , show ( "s" ) )
}`,
	// 19 nested struct and array of struct
	`type In struct {
v int
}
type Out struct {
in In
l [ ] In
}
func main ( ) {
o := Out { in : In { v : 1 } , l : [ ] In { In { v : 2 } } }
fmt.Println ( o.in.v + o.l [ 0 ] . v )
}`,
	// 20 errors: New, comparison with nil, Error method
	`func main ( ) {
e := errors.New ( "bad" )
if e != nil {
fmt.Println ( e.Error ( ) )
}
}`,
	// 21 string iteration, runes, compare
	`func main ( ) {
n := 0
for _ , c := range "héy" {
if c > 'a' {
n ++
}
}
fmt.Println ( n , "a" < "b" )
}`,
	// 22 boolean operators
	`func main ( ) {
a := true
b := ! a || ( 1 < 2 && 2 <= 2 )
fmt.Println ( a && b , a != b )
}`,
	// 23 unrecovered run-time error (division by zero)
	`func main ( ) {
z := 0
fmt.Println ( 1 / z )
}`,
	// 24 unrecovered Ego panic
	`func main ( ) {
fmt.Println ( "before" )
panic ( "stop" )
}`,
	// 25 defer order
	`func main ( ) {
for i := 0 ; i < 2 ; i ++ {
defer fmt.Println ( "d" , i )
}
fmt.Println ( "end" )
}`,
	// 26 multiple assignment, swap, compound operators
	`func main ( ) {
a , b := 1 , 2
a , b = b , a
a += 3
b *= 2
fmt.Println ( a , b )
}`,
	// 27 labelled-free nested loops with condition-only for
	`func main ( ) {
i := 0
for i < 3 {
for j := 0 ; j < 2 ; j ++ {
i = i + j
}
}
fmt.Println ( i )
}`,
	// 28 function value as argument
	`func apply ( f func ( int ) int , v int ) int {
return f ( v )
}
func main ( ) {
fmt.Println ( apply ( func ( n int ) int {
return n + 1
} , 2 ) )
}`,
	// 29 Sprintf verbs, strings.Repeat, Contains
	`func main ( ) {
s := fmt.Sprintf ( "%s-%5.2f-%x-%t" , "a" , 3.14159 , 255 , true )
fmt.Println ( s , strings.Repeat ( "ab" , 2 ) , strings.Contains ( s , "ff" ) )
}`,
	// 30 throw-free error return checked with try
	`func risky ( n int ) int {
a := [ ] int { 1 , 2 }
return a [ n ]
}
func main ( ) {
try {
fmt.Println ( risky ( 1 ) , risky ( 5 ) )
} catch {
fmt.Println ( "oops" )
}
}`,
	// 31 goroutine that finishes, awaited with the wait directive
	`func work ( n int ) {
fmt.Println ( "w" , n )
}
func main ( ) {
go work ( 1 )
@wait
fmt.Println ( "done" )
}`,
	// 32 directives: @error-free @line and @fail guarded by a condition
	`func main ( ) {
x := 1
if x == 2 {
@fail "never"
}
fmt.Println ( x )
}`,
	// 33 type with map field and method returning two values
	`type Reg struct {
m map [ string ] int
}
func ( r Reg ) Get ( k string ) ( int , bool ) {
v , ok := r.m [ k ]
return v , ok
}
func main ( ) {
r := Reg { m : map [ string ] int { "k" : 5 } }
v , ok := r.Get ( "k" )
fmt.Println ( v , ok )
}`,
	// 34 array of arrays, len, nested index assignment
	`func main ( ) {
g := [ ] [ ] int { [ ] int { 1 , 2 } , [ ] int { 3 } }
g [ 1 ] [ 0 ] = 9
fmt.Println ( len ( g ) , g [ 1 ] [ 0 ] + g [ 0 ] [ 1 ] )
}`,
	// 35 named type over int with method
	`type Level int
func ( l Level ) Name ( ) string {
if l == 0 {
return "low"
}
return "high"
}
func main ( ) {
var l Level = 1
fmt.Println ( l.Name ( ) , Level ( 0 ) . Name ( ) )
}`,
	// 36 immediately invoked function literal and return of a closure
	`func mk ( ) func ( ) int {
n := 0
return func ( ) int {
n ++
return n
}
}
func main ( ) {
f := mk ( )
f ( )
fmt.Println ( f ( ) , func ( ) int { return 7 } ( ) )
}`,
	// 37 nil map / nil slice handling
	`func main ( ) {
var a [ ] int
var e error
fmt.Println ( len ( a ) , a == nil , e == nil )
a = append ( a , 1 )
fmt.Println ( a )
}`,
	// 38 strings.Builder-free join, index, TrimSpace, Fields
	`func main ( ) {
w := strings.Fields ( " a b  c " )
fmt.Println ( strings.Join ( w , "-" ) , strings.Index ( "abc" , "c" ) , strings.TrimSpace ( " x " ) )
}`,
	// 39 math functions and integer overflow-free shifts
	`func main ( ) {
fmt.Println ( math.Abs ( - 2.5 ) , math.Max ( 1.0 , 2.0 ) , math.Floor ( 2.7 ) , 1 << 4 , 7 & 3 , 7 | 8 , 6 ^ 3 )
}`,
}

// coreSeeds are the programs whose pairs of edits the thorough tier enumerates.
var coreSeeds = []int{2, 3, 5, 6, 7, 9, 10, 11, 12, 31}

package main

import (
	"context"
	"database/sql"
	"fmt"
	"sort"
	"strings"

	"github.com/tucats/ego/internal/verifrt/sqlgen"

	_ "modernc.org/sqlite"
)

// refDB is one private in-memory SQLite database holding the reference schema.
type refDB struct {
	db   *sql.DB
	conn *sql.Conn
}

var bg = context.Background()

func newRefDB() (*refDB, error) {
	db, err := sql.Open("sqlite", ":memory:")
	if err != nil {
		return nil, err
	}

	db.SetMaxOpenConns(1)

	conn, err := db.Conn(bg)
	if err != nil {
		return nil, err
	}

	r := &refDB{db: db, conn: conn}

	if _, err := conn.ExecContext(bg, "PRAGMA foreign_keys=ON"); err != nil {
		return nil, err
	}

	for _, s := range sqlgen.Schema {
		if _, err := conn.ExecContext(bg, s); err != nil {
			return nil, fmt.Errorf("schema: %s: %v", s, err)
		}
	}

	return r, nil
}

func (r *refDB) close() {
	_ = r.conn.Close()
	_ = r.db.Close()
}

func (r *refDB) exec(q string) error {
	_, err := r.conn.ExecContext(bg, q)

	return err
}

// query runs q and returns its rows, each rendered canonically.
func (r *refDB) query(q string) (rows []string, ncols int, err error) {
	rs, err := r.conn.QueryContext(bg, q)
	if err != nil {
		return nil, 0, err
	}

	defer rs.Close()

	cols, err := rs.Columns()
	if err != nil {
		return nil, 0, err
	}

	ncols = len(cols)

	for rs.Next() {
		vals := make([]any, ncols)
		ptrs := make([]any, ncols)

		for i := range vals {
			ptrs[i] = &vals[i]
		}

		if err := rs.Scan(ptrs...); err != nil {
			return rows, ncols, err
		}

		parts := make([]string, ncols)

		for i, v := range vals {
			switch x := v.(type) {
			case nil:
				parts[i] = "NULL"
			case []byte:
				parts[i] = fmt.Sprintf("blob:%x", x)
			case string:
				parts[i] = fmt.Sprintf("text:%q", x)
			default:
				parts[i] = fmt.Sprintf("%T:%v", v, v)
			}
		}

		rows = append(rows, strings.Join(parts, "|"))
	}

	return rows, ncols, rs.Err()
}

// executable reports whether SQLite accepts q against the reference schema
// (prepare only: EXPLAIN never runs the statement).
func (r *refDB) executable(q string) bool {
	rs, err := r.conn.QueryContext(bg, "EXPLAIN "+q)
	if err != nil {
		return false
	}

	for rs.Next() {
	}

	err = rs.Err()
	_ = rs.Close()

	return err == nil
}

// outcome is everything observable about one execution.
type outcome struct {
	Failed bool     `json:"failed"`
	Error  string   `json:"error,omitempty"`
	Cols   int      `json:"cols"`
	Rows   []string `json:"rows"`
	State  string   `json:"state,omitempty"`
}

// run executes q inside a transaction that is rolled back afterwards, so the
// reference database stays pristine. For statements other than SELECT the
// database state reached (rows of every table, structural schema, behaviour of
// new constraints under a fixed battery of probe inserts) is recorded too.
func (r *refDB) run(q string, kind string, ordered bool) outcome {
	var o outcome

	if err := r.exec("BEGIN"); err != nil {
		o.Failed, o.Error = true, "BEGIN: "+err.Error()

		return o
	}

	rows, ncols, err := r.query(q)
	if err != nil {
		o.Failed, o.Error = true, err.Error()
	}

	o.Cols = ncols
	o.Rows = rows

	if !ordered {
		sort.Strings(o.Rows)
	}

	if kind != "select" {
		o.State = r.state(kind != "insert" && kind != "update" && kind != "delete")
	}

	_ = r.exec("ROLLBACK")

	return o
}

// state dumps the database: objects, rows and (deep) the structure of every
// table plus the outcome of probe inserts that exercise defaults, NOT NULL,
// CHECK, UNIQUE/PRIMARY KEY (with their conflict clauses), collations and
// foreign keys. The stored CREATE text is deliberately not compared: it differs
// in white space between a statement and its reformatted form.
func (r *refDB) state(deep bool) string {
	var b strings.Builder

	type obj struct{ schema, typ, name string }

	var objs []obj

	for _, m := range []string{"main.sqlite_master", "temp.sqlite_master"} {
		schema := strings.SplitN(m, ".", 2)[0]

		rs, err := r.conn.QueryContext(bg, "SELECT type, name, tbl_name FROM "+m+" ORDER BY type, name")
		if err != nil {
			fmt.Fprintf(&b, "%s: %v\n", m, err)

			continue
		}

		for rs.Next() {
			var t, n, tn string

			_ = rs.Scan(&t, &n, &tn)

			fmt.Fprintf(&b, "%s %s %s on %s\n", schema, t, n, tn)

			if t == "table" || t == "view" {
				objs = append(objs, obj{schema, t, n})
			}
		}

		_ = rs.Close()
	}

	q := func(s string) string { return `"` + strings.ReplaceAll(s, `"`, `""`) + `"` }

	for _, o := range objs {
		full := o.schema + "." + q(o.name)

		rows, n, err := r.query("SELECT * FROM " + full)
		sort.Strings(rows)
		fmt.Fprintf(&b, "rows %s cols=%d err=%v\n  %s\n", full, n, err != nil, strings.Join(rows, "\n  "))

		if !deep {
			continue
		}

		var cols, insertable []string

		info, _, _ := r.query(fmt.Sprintf("SELECT name, upper(type), \"notnull\", pk, hidden FROM pragma_table_xinfo(%s, '%s')", sqlString(o.name), o.schema))
		fmt.Fprintf(&b, " columns %s\n", strings.Join(info, ";"))

		for _, p := range r.pairs(fmt.Sprintf("SELECT name, hidden FROM pragma_table_xinfo(%s, '%s')", sqlString(o.name), o.schema)) {
			cols = append(cols, p[0])

			if p[1] == "0" {
				insertable = append(insertable, p[0])
			}
		}

		if o.typ != "table" {
			continue
		}

		idx, _, _ := r.query(fmt.Sprintf("SELECT name, \"unique\", origin, partial FROM pragma_index_list(%s, '%s') ORDER BY name", sqlString(o.name), o.schema))
		fmt.Fprintf(&b, " indexes %s\n", strings.Join(idx, ";"))

		for _, p := range r.pairs(fmt.Sprintf("SELECT name, '' FROM pragma_index_list(%s, '%s') ORDER BY name", sqlString(o.name), o.schema)) {
			xi, _, _ := r.query(fmt.Sprintf("SELECT seqno, cid, name, \"desc\", coll, key FROM pragma_index_xinfo(%s, '%s')", sqlString(p[0]), o.schema))
			fmt.Fprintf(&b, "  index %s: %s\n", p[0], strings.Join(xi, ";"))
		}

		fk, _, _ := r.query(fmt.Sprintf("SELECT id, seq, \"table\", \"from\", \"to\", on_update, on_delete FROM pragma_foreign_key_list(%s, '%s')", sqlString(o.name), o.schema))
		fmt.Fprintf(&b, " fks %s\n", strings.Join(fk, ";"))

		// Behavioural probes, undone by the savepoint.
		if len(insertable) == 0 {
			continue
		}

		_ = r.exec("SAVEPOINT verif_probe")

		quoted := make([]string, len(insertable))
		for i, c := range insertable {
			quoted[i] = q(c)
		}

		probe := func(label, stmt string) {
			err := r.exec(stmt)
			fmt.Fprintf(&b, "  probe %s ok=%v\n", label, err == nil)
		}

		probe("defaults", "INSERT INTO "+full+" DEFAULT VALUES")

		for _, v := range []string{"NULL", "0", "5", "-1", "1", "'x'", "'X'"} {
			vals := make([]string, len(insertable))
			for i := range vals {
				vals[i] = v
			}

			stmt := "INSERT INTO " + full + " (" + strings.Join(quoted, ", ") + ") VALUES (" + strings.Join(vals, ", ") + ")"
			probe("all="+v, stmt)
			probe("again="+v, stmt)
		}

		for _, c := range quoted {
			probe("only "+c, "INSERT INTO "+full+" ("+c+") VALUES (3)")
		}

		rows, _, err = r.query("SELECT * FROM " + full)
		sort.Strings(rows)
		fmt.Fprintf(&b, "  after probes err=%v\n   %s\n", err != nil, strings.Join(rows, "\n   "))

		_ = r.exec("ROLLBACK TO verif_probe")
		_ = r.exec("RELEASE verif_probe")
		_ = cols
	}

	return b.String()
}

// pairs runs a two-column query and returns the values as strings.
func (r *refDB) pairs(q string) [][2]string {
	rs, err := r.conn.QueryContext(bg, q)
	if err != nil {
		return nil
	}

	defer rs.Close()

	var out [][2]string

	for rs.Next() {
		var a, b sql.NullString

		if err := rs.Scan(&a, &b); err != nil {
			return out
		}

		out = append(out, [2]string{a.String, b.String})
	}

	return out
}

func sqlString(s string) string { return "'" + strings.ReplaceAll(s, "'", "''") + "'" }

// runTxn executes a transaction-control statement in two fixed contexts on a
// fresh database each: with no transaction open, and inside a transaction that
// holds a savepoint "sp" and one uncommitted row. What it records is whether the
// statement failed, which rows are visible afterwards, and whether a transaction
// is still open.
func runTxn(q string) outcome {
	var b strings.Builder

	o := outcome{}

	for _, ctx := range [][]string{
		{},
		{"BEGIN", "SAVEPOINT sp", "INSERT INTO t1 (id, a, b) VALUES (50, 50, 't')", "SAVEPOINT sp2", "INSERT INTO t1 (id, a, b) VALUES (51, 51, 'u')"},
		{"SAVEPOINT sp", "INSERT INTO t1 (id, a, b) VALUES (50, 50, 't')"},
	} {
		r, err := newRefDB()
		if err != nil {
			o.Failed, o.Error = true, err.Error()

			return o
		}

		for _, s := range ctx {
			if err := r.exec(s); err != nil {
				fmt.Fprintf(&b, "context %q: %v\n", s, err)
			}
		}

		err = r.exec(q)
		fmt.Fprintf(&b, "context %d: failed=%v\n", len(ctx), err != nil)

		if err != nil {
			o.Failed = true
		}

		if err != nil && o.Error == "" {
			o.Error = err.Error()
		}

		rows, _, _ := r.query("SELECT id FROM t1 ORDER BY id")
		fmt.Fprintf(&b, " visible %s\n", strings.Join(rows, ","))

		err = r.exec("INSERT INTO t1 (id, a, b) VALUES (60, 60, 'v')")
		fmt.Fprintf(&b, " insert failed=%v\n", err != nil)

		err = r.exec("ROLLBACK")
		fmt.Fprintf(&b, " transaction was open=%v\n", err == nil)

		rows, _, _ = r.query("SELECT id FROM t1 ORDER BY id")
		fmt.Fprintf(&b, " durable %s\n", strings.Join(rows, ","))

		r.close()
	}

	o.State = b.String()

	return o
}

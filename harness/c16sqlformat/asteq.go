package main

import (
	"fmt"
	"reflect"
	"strings"

	"github.com/tucats/ego/internal/sqlparse/ast"
	"github.com/tucats/ego/internal/verifrt/sqlgen"
)

// astDiff compares two syntax trees field by field, ignoring source positions
// (BaseNode/BaseStmt). It returns "" when they are the same tree, otherwise the
// path of the first difference.
func astDiff(a, b ast.Node) string {
	return valueDiff(reflect.ValueOf(a), reflect.ValueOf(b), "stmt")
}

func valueDiff(a, b reflect.Value, path string) string {
	if a.IsValid() != b.IsValid() {
		return path + ": present/absent"
	}

	if !a.IsValid() {
		return ""
	}

	if a.Type() != b.Type() {
		return fmt.Sprintf("%s: %s vs %s", path, a.Type(), b.Type())
	}

	switch a.Kind() {
	case reflect.Interface, reflect.Ptr:
		if a.IsNil() || b.IsNil() {
			if a.IsNil() != b.IsNil() {
				return path + ": nil vs non-nil"
			}

			return ""
		}

		return valueDiff(a.Elem(), b.Elem(), path)

	case reflect.Struct:
		t := a.Type()
		for i := 0; i < t.NumField(); i++ {
			name := t.Field(i).Name
			if name == "BaseNode" || name == "BaseStmt" {
				continue
			}

			if d := valueDiff(a.Field(i), b.Field(i), path+"."+t.Name()+"."+name); d != "" {
				return d
			}
		}

		return ""

	case reflect.Slice:
		if a.Len() != b.Len() {
			return fmt.Sprintf("%s: %d vs %d elements", path, a.Len(), b.Len())
		}

		for i := 0; i < a.Len(); i++ {
			if d := valueDiff(a.Index(i), b.Index(i), fmt.Sprintf("%s[%d]", path, i)); d != "" {
				return d
			}
		}

		return ""

	default:
		if !reflect.DeepEqual(a.Interface(), b.Interface()) {
			return fmt.Sprintf("%s: %v vs %v", path, a.Interface(), b.Interface())
		}

		return ""
	}
}

// identifier-valued string fields of the syntax tree, by struct type.
var identFields = map[string][]string{
	"ColumnRef": {"Schema", "Table", "Column"}, "StarExpr": {"Table"}, "TableRef": {"Schema", "Name", "Alias", "IndexedBy"},
	"ResultColumn": {"Alias"}, "CTE": {"Name", "Columns"}, "SubqueryRef": {"Alias", "Columns"}, "JoinClause": {"Using"},
	"OrderByTerm": {"Collation"}, "CollateExpr": {"Collation"}, "InsertStmt": {"Columns"}, "SetClause": {"Columns"},
	"OnConflictClause": {"Target"}, "ColumnDef": {"Name"}, "ColumnPrimaryKey": {"Name"}, "ColumnNotNull": {"Name"},
	"ColumnUnique": {"Name"}, "ColumnCheck": {"Name"}, "ColumnReferences": {"Name", "Table", "Columns"},
	"ColumnCollate": {"Collation"}, "TablePrimaryKey": {"Name"}, "TableUnique": {"Name"},
	"TableForeignKey": {"Name", "Columns", "RefTable", "RefColumns"}, "TableCheck": {"Name"}, "DropColumn": {"Name"},
	"RenameColumn": {"From", "To"}, "RenameTable": {"To"}, "CreateIndexStmt": {"Name", "Table"}, "DropIndexStmt": {"Schema", "Name"},
	"CreateViewStmt": {"Name", "Columns"}, "DropViewStmt": {"Name"}, "BeginStmt": {"Name"}, "RollbackStmt": {"To"},
	"SavepointStmt": {"Name"}, "ReleaseStmt": {"Name"}, "FuncCall": {"Name"},
}

// keywordIdentifier returns an identifier of the tree that is spelled like a
// reserved word of SQLite ("" if there is none).
func keywordIdentifier(n ast.Node) string {
	found := ""

	ast.Walk(n, func(node ast.Node) bool {
		v := reflect.ValueOf(node)
		for v.Kind() == reflect.Ptr || v.Kind() == reflect.Interface {
			if v.IsNil() {
				return true
			}

			v = v.Elem()
		}

		if v.Kind() != reflect.Struct {
			return true
		}

		for _, f := range identFields[v.Type().Name()] {
			fv := v.FieldByName(f)
			if !fv.IsValid() {
				continue
			}

			var vals []string

			switch fv.Kind() {
			case reflect.String:
				vals = []string{fv.String()}
			case reflect.Slice:
				for i := 0; i < fv.Len(); i++ {
					if fv.Index(i).Kind() == reflect.String {
						vals = append(vals, fv.Index(i).String())
					}
				}
			}

			for _, s := range vals {
				if sqlgen.Keywords[strings.ToUpper(s)] && found == "" {
					found = s
				}
			}
		}

		return true
	})

	return found
}

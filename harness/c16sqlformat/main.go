// C16: SQL reformatting preserves statements. For every statement the parser
// accepts: the reformatted text parses to the same syntax tree, reformatting the
// reformatted text changes nothing, and executing the reformatted text has the
// same effect and result as executing the original.
//
// Bounded-exhaustive: every statement of the shared generator (rt/sqlgen) is
// parsed and formatted in both dialects; the SQLite-dialect text and its
// reformatted form are both executed on identical private SQLite databases
// (modernc.org/sqlite, the driver ego itself uses) whenever SQLite accepts the
// original, and rows, failure and the database state reached are compared.
package main

import (
	"fmt"
	"runtime"
	"sort"
	"strings"
	"sync"

	"github.com/tucats/ego/internal/sqlparse"
	"github.com/tucats/ego/internal/verifrt/enum"
	"github.com/tucats/ego/internal/verifrt/report"
	"github.com/tucats/ego/internal/verifrt/sqlgen"
)

type witness struct {
	Key       string   `json:"key"`
	Class     string   `json:"class"`
	SQL       string   `json:"sql"`
	Kind      string   `json:"kind"`
	Ordered   bool     `json:"ordered"`
	NoExec    bool     `json:"noexec"`
	Dialect   string   `json:"dialect,omitempty"`
	Formatted string   `json:"formatted,omitempty"`
	Detail    string   `json:"detail,omitempty"`
	Original  *outcome `json:"original_outcome,omitempty"`
	Reformat  *outcome `json:"reformatted_outcome,omitempty"`
}

// failure is one way a statement breaks the property.
type failure struct {
	typ  string // reparse | ast | idempotence | exec-failure | exec-rows | exec-state
	diag string // root-cause class derived from the tree ("" = use the generator's class)
	msg  string
	w    witness
}

type stats struct {
	mu                                         sync.Mutex
	parsedSQLite, parsedPG, rejected, executed int64
	notExecutable, bothFailed, noexec, txnRuns int64
	execByKind                                 map[string]int64
	rejectedSamples                            []string
}

var dialects = []struct {
	name string
	id   int
}{{"sqlite", sqlparse.SQLite}, {"postgres", sqlparse.PostgreSQL}}

// commentToken reports whether text holds a comment opener outside string
// literals and quoted identifiers: the printer never emits comments, so one in
// its output is two operators fused into "--" or "/*".
func commentToken(text string) bool {
	var quote rune

	rs := []rune(text)
	for i, c := range rs {
		switch {
		case quote != 0:
			if c == quote {
				quote = 0
			}
		case c == '\'' || c == '"':
			quote = c
		case i+1 < len(rs) && ((c == '-' && rs[i+1] == '-') || (c == '/' && rs[i+1] == '*')):
			return true
		}
	}

	return false
}

// evaluate judges one statement. db is a pristine private database. At most
// two failures come back: the first failing stage of the SQLite dialect
// (re-parse, tree, idempotence, then execution) and, if that one is not a
// formatting-stage failure, the first failing stage of the PostgreSQL dialect.
func evaluate(db *refDB, s sqlgen.Stmt, st *stats) []failure {
	var (
		sqliteF1 string
		parsed   bool
		stage    = map[string]*failure{}
	)

	base := witness{Key: s.Key, Class: s.Cell, SQL: s.SQL, Kind: s.Kind, Ordered: s.Ordered, NoExec: s.NoExec}
	diag := ""

	for _, d := range dialects {
		p, err := sqlparse.New(s.SQL, d.id)
		if err != nil {
			// Not accepted by the parser: outside the property.
			if d.id == sqlparse.SQLite {
				st.mu.Lock()
				st.rejected++

				if len(st.rejectedSamples) < 5 {
					st.rejectedSamples = append(st.rejectedSamples, s.SQL+" => "+err.Error())
				}
				st.mu.Unlock()
			}

			continue
		}

		st.mu.Lock()
		if d.id == sqlparse.SQLite {
			st.parsedSQLite++
		} else {
			st.parsedPG++
		}
		st.mu.Unlock()

		w := base
		w.Dialect = d.name

		f1 := p.Format()
		w.Formatted = f1

		dg := ""

		switch {
		case commentToken(f1):
			dg = "operators-fused-into-comment-token"
		case d.id == sqlparse.SQLite && keywordIdentifier(p.Statement()) != "":
			dg = "keyword-as-identifier"
			if s.Family == "lex" {
				dg += ":quoted-in-source"
			} else {
				dg += ":unquoted-in-source"
			}
		}

		if d.id == sqlparse.SQLite {
			sqliteF1, parsed, diag = f1, true, dg
		}

		suffix := ""
		if d.id == sqlparse.PostgreSQL {
			suffix = "-postgres"
		}

		p2, err := sqlparse.New(f1, d.id)
		if err != nil {
			w.Detail = err.Error()
			stage[d.name] = &failure{typ: "reparse" + suffix, diag: dg, msg: "the reformatted text is rejected by the parser: " + err.Error(), w: w}

			continue
		}

		if diff := astDiff(p.Statement(), p2.Statement()); diff != "" {
			w.Detail = diff
			stage[d.name] = &failure{typ: "ast" + suffix, diag: dg, msg: "the reformatted text parses to a different syntax tree at " + diff, w: w}

			continue
		}

		if f2 := p2.Format(); f2 != f1 {
			w.Detail = f2
			stage[d.name] = &failure{typ: "idempotence" + suffix, diag: dg, msg: "reformatting the reformatted text changes it", w: w}
		}
	}

	var out []failure

	if f := stage["sqlite"]; f != nil {
		out = append(out, *f)
	} else if f := stage["postgres"]; f != nil {
		out = append(out, *f)
	}

	if !parsed || stage["sqlite"] != nil {
		return out
	}

	if s.NoExec {
		st.mu.Lock()
		st.noexec++
		st.mu.Unlock()

		return out
	}

	if !db.executable(s.SQL) {
		// SQLite does not accept the original (PostgreSQL-only syntax, unknown
		// column, ...): "executed against SQLite where the dialect allows".
		st.mu.Lock()
		st.notExecutable++
		st.mu.Unlock()

		return out
	}

	var o1, o2 outcome

	if s.Kind == "txn" {
		o1, o2 = runTxn(s.SQL), runTxn(sqliteF1)

		st.mu.Lock()
		st.txnRuns++
		st.mu.Unlock()
	} else {
		o1 = db.run(s.SQL, s.Kind, s.Ordered)
		o2 = db.run(sqliteF1, s.Kind, s.Ordered)
	}

	st.mu.Lock()
	st.executed++
	st.execByKind[s.Kind]++

	if o1.Failed && o2.Failed {
		st.bothFailed++
	}
	st.mu.Unlock()

	w := base
	w.Dialect = "sqlite"
	w.Formatted = sqliteF1
	w.Original, w.Reformat = &o1, &o2

	switch {
	case o1.Failed != o2.Failed:
		msg := "the original executes but the reformatted text fails: " + o2.Error
		if o1.Failed {
			msg = "the original fails (" + o1.Error + ") but the reformatted text executes"
		}

		out = append(out, failure{typ: "exec-failure", diag: diag, msg: msg, w: w})
	case o1.Cols != o2.Cols || strings.Join(o1.Rows, "\n") != strings.Join(o2.Rows, "\n"):
		out = append(out, failure{typ: "exec-rows", diag: diag, msg: fmt.Sprintf("different result: %d rows %v vs %d rows %v", len(o1.Rows), head(o1.Rows), len(o2.Rows), head(o2.Rows)), w: w})
	case o1.State != o2.State:
		out = append(out, failure{typ: "exec-state", diag: diag, msg: "different database state afterwards: " + firstDiffLine(o1.State, o2.State), w: w})
	}

	return out
}

func head(r []string) []string {
	if len(r) > 4 {
		return r[:4]
	}

	return r
}

func firstDiffLine(a, b string) string {
	la, lb := strings.Split(a, "\n"), strings.Split(b, "\n")

	for i := 0; i < len(la) && i < len(lb); i++ {
		if la[i] != lb[i] {
			return fmt.Sprintf("%q vs %q", la[i], lb[i])
		}
	}

	return fmt.Sprintf("%d vs %d lines", len(la), len(lb))
}

// cellOf names the root-cause class of a failure: the diagnosis read off the
// output when there is one (the failing stage is then only a symptom),
// otherwise the failing stage and the generator's class of the statement.
func cellOf(s sqlgen.Stmt, f failure) string {
	if f.diag != "" {
		return f.diag
	}

	// ISNULL / NOTNULL are the only operators the printer respells (as IS NULL /
	// IS NOT NULL); when the tree survives but execution differs on a statement
	// that holds one, that respelling is the cause whatever surrounds it.
	if strings.HasPrefix(f.typ, "exec-") && strings.Contains(s.Cell, "postfixnull") {
		return f.typ + ":postfix-isnull-notnull-respelled"
	}

	return f.typ + ":" + s.Cell
}

func main() {
	r := report.New("exploration")

	lv := sqlgen.Quick
	if r.Thorough() {
		lv = sqlgen.Thorough
	}

	r.Rule(fmt.Sprintf("every statement of the rt/sqlgen grammar families: expression shapes to depth %d over %d operator/function forms in a SELECT column; SELECT/INSERT/UPDATE/DELETE/CREATE/ALTER/DROP skeletons with at most %d clause options away from the default; every expression position x %d subquery forms; the CTE scoping shapes (a WITH reusing a real table's name); literal/identifier/comment spellings; all transaction-control spellings. Each is parsed and formatted as SQLite and PostgreSQL; original and reformatted SQLite text run on identical private databases when SQLite accepts the original. distinct = statement text", lv.ExprDepth, sqlgen.NumForms(), lv.Options, sqlgen.NumSubforms()))
	r.Assume(
		"SQLite (modernc.org/sqlite, the driver ego uses) is the execution reference; PostgreSQL-dialect text is checked for re-parse, tree equality and idempotence only",
		"a statement SQLite itself rejects at prepare time (EXPLAIN fails) is not executed: the statement demands execution equivalence only where the dialect allows",
		"result column names and error message texts are not compared; rows compare as a multiset unless the statement has a top-level ORDER BY",
		"database state = rows of every table/view, object list, column/index/foreign-key structure and the outcome of a fixed battery of probe inserts; the stored CREATE text is not compared",
	)

	if r.Replay != "" {
		var w witness
		if err := report.LoadReplay(r.Replay, &w); err != nil {
			report.Fatal("%v", err)
		}

		db, err := newRefDB()
		if err != nil {
			report.Fatal("%v", err)
		}

		s := sqlgen.Stmt{SQL: w.SQL, Kind: w.Kind, Key: w.Key, Cell: w.Class, Ordered: w.Ordered, NoExec: w.NoExec}
		if strings.HasPrefix(w.Key, "lex:") {
			s.Family = "lex"
		}
		st := &stats{execByKind: map[string]int64{}}

		for _, f := range evaluate(db, s, st) {
			r.Violation(cellOf(s, f), len(s.SQL), f.w, f.msg)
		}

		r.Eval(1)
		r.Distinct(s.SQL)
		r.Distinct(w.Formatted)
		r.Sample(w)
		r.Finish()
	}

	stmts := sqlgen.Enumerate(lv)

	workers := runtime.NumCPU()
	pool := make(chan *refDB, workers)

	var pristine string

	for i := 0; i < workers; i++ {
		db, err := newRefDB()
		if err != nil {
			report.Fatal("reference database: %v", err)
		}

		if i == 0 {
			_ = db.exec("BEGIN")
			pristine = db.state(true)
			_ = db.exec("ROLLBACK")
		}

		pool <- db
	}

	st := &stats{execByKind: map[string]int64{}}

	var (
		mu     sync.Mutex
		failed = map[string]map[string]failure{} // key -> failure type -> failure
	)

	enum.Par(len(stmts), func(i int) {
		db := <-pool
		fs := evaluate(db, stmts[i], st)
		pool <- db

		r.Eval(1)
		r.Distinct(stmts[i].SQL)

		if len(fs) > 0 {
			mu.Lock()
			m := failed[stmts[i].Key]
			if m == nil {
				m = map[string]failure{}
				failed[stmts[i].Key] = m
			}

			for _, f := range fs {
				if _, dup := m[f.typ]; !dup {
					m[f.typ] = f
				}
			}
			mu.Unlock()
		}

		if i%4099 == 11 {
			r.Sample(map[string]any{"key": stmts[i].Key, "sql": stmts[i].SQL})
		}
	})

	// The reference databases must be exactly as they started.
	close(pool)

	for db := range pool {
		_ = db.exec("BEGIN")
		now := db.state(true)
		_ = db.exec("ROLLBACK")

		if now != pristine {
			report.Fatal("a reference database was modified by the run: %s", firstDiffLine(pristine, now))
		}

		db.close()
	}

	// Report minimal failures only: a statement whose simplification (same
	// family, one option/operator fewer) fails the same way is a consequence.
	byKey := map[string]sqlgen.Stmt{}
	for _, s := range stmts {
		byKey[s.Key] = s
	}

	keys := make([]string, 0, len(failed))
	for k := range failed {
		keys = append(keys, k)
	}

	sort.Strings(keys)

	total, minimal := 0, 0

	for _, k := range keys {
		s := byKey[k]

		types := make([]string, 0, len(failed[k]))
		for t := range failed[k] {
			types = append(types, t)
		}

		sort.Strings(types)

		for _, t := range types {
			total++

			subsumed := false

			for _, simp := range s.Simpler {
				if _, ok := failed[simp][t]; ok {
					subsumed = true
				}
			}

			if subsumed {
				continue
			}

			minimal++
			f := failed[k][t]
			r.Violation(cellOf(s, f), len(s.SQL), f.w, f.msg)
		}
	}

	r.Set("statements", len(stmts))
	r.Set("parsed_sqlite", st.parsedSQLite)
	r.Set("parsed_postgres", st.parsedPG)
	r.Set("rejected_by_parser", st.rejected)
	r.Set("rejected_examples", st.rejectedSamples)
	r.Set("executed_pairs", st.executed)
	r.Set("executed_by_kind", st.execByKind)
	r.Set("both_failed_at_run_time", st.bothFailed)
	r.Set("not_executable_on_sqlite", st.notExecutable)
	r.Set("not_executed_by_rule", st.noexec)
	r.Set("transaction_control_runs", st.txnRuns)
	r.Set("failing_statement_x_type", total)
	r.Set("minimal_failures", minimal)
	r.Finish()
}

// C19: every JSON response body, compressed or not, decodes to exactly the
// value the handler produced. Bounded-exhaustive: every string of length <= L
// over an alphabet of JSON-hostile symbols, placed as value and key in several
// shapes, written through the real util.WriteJSON into a recorder with gzip
// on and off, decoded and compared with json.Marshal's own round trip.
package main

import (
	"bytes"
	"compress/gzip"
	"encoding/json"
	"fmt"
	"io"
	"net/http/httptest"
	"reflect"
	"strings"

	"github.com/tucats/ego/internal/cli/settings"
	"github.com/tucats/ego/internal/defs"
	"github.com/tucats/ego/internal/util"
	"github.com/tucats/ego/internal/verifrt/enum"
	"github.com/tucats/ego/internal/verifrt/report"
)

var alphabet = []string{`\`, `"`, " ", "a", "\n", "é", "{", ",", "\t", ":"}

type witness struct {
	Shape string `json:"shape"`
	S     string `json:"s"`
	Gzip  bool   `json:"gzip"`
	Sent  string `json:"sent_body"`
}

func shapes(s string) map[string]any {
	return map[string]any{
		"s":         s,
		"[s,s]":     []any{s, s + " b"},
		"{k:s}":     map[string]any{"k": s, "z": "c d"},
		"{s:v}":     map[string]any{s: "c d", "z": " e "},
		"{k:[s,{}]}": map[string]any{"k": []any{s, map[string]any{"k": s, "n": 1.5, "b": true, "x": nil}}, "z": "c d"},
	}
}

// classify names the violation cell of a string: the hostile symbol classes it
// holds. One root cause shows in every string that shares the class.
func classify(s string) string {
	var parts []string

	for _, c := range []struct{ sym, name string }{{`\`, "backslash"}, {`"`, "quote"}} {
		if strings.Contains(s, c.sym) {
			parts = append(parts, c.name)
		}
	}

	if strings.ContainsAny(s, " \n\t") {
		parts = append(parts, "space")
	}

	return strings.Join(parts, "+")
}

func check(r *report.R, shape string, s string, v any, gz bool) {
	rec := httptest.NewRecorder()
	n := 0
	util.WriteJSON(rec, util.ResponseInfo{AcceptsGzip: gz, Length: &n}, 200, v)

	body := rec.Body.Bytes()
	sent := body
	compressed := rec.Header().Get("Content-Encoding") == "gzip"

	if compressed {
		zr, err := gzip.NewReader(bytes.NewReader(body))
		if err != nil {
			r.Violation("gzip:unreadable", len(s), witness{shape, s, gz, ""}, "gzip body cannot be opened: "+err.Error())

			return
		}

		body, err = io.ReadAll(zr)
		if err != nil {
			r.Violation("gzip:unreadable", len(s), witness{shape, s, gz, ""}, "gzip body cannot be read: "+err.Error())

			return
		}

		r.Add("compressed_responses", 1)
	} else if looksGzip(body) {
		r.Violation("gzip:no-header", len(s), witness{shape, s, gz, ""}, "gzip bytes sent without Content-Encoding")

		return
	}

	if n != len(sent) {
		r.Violation("length:wrong", len(s), witness{shape, s, gz, string(body)}, fmt.Sprintf("counted %d bytes, sent %d", n, len(sent)))
	}

	ref, _ := json.Marshal(v)

	var want, got any

	_ = json.Unmarshal(ref, &want)

	if err := json.Unmarshal(body, &got); err != nil {
		r.Violation("undecodable:"+classify(s), len(s), witness{shape, s, gz, string(body)}, "response is not valid JSON: "+err.Error())

		return
	}

	if !reflect.DeepEqual(want, got) {
		r.Violation("altered:"+classify(s), len(s), witness{shape, s, gz, string(body)}, fmt.Sprintf("decoded response differs from the handler's value: want %s", ref))
	}
}

var pad = strings.Repeat("p q\\ ", 80)

func looksGzip(b []byte) bool { return len(b) > 2 && b[0] == 0x1f && b[1] == 0x8b }

func main() {
	r := report.New("exploration")
	maxLen := r.Pick(4, 5)

	r.Rule(fmt.Sprintf("every string of length 0..%d over %q as value and as key in 5 shapes, through util.WriteJSON with gzip accepted (threshold 1) and refused; distinct = (shape,string,gzip) whose string holds a backslash, quote or whitespace", maxLen, alphabet))
	r.Assume("encoding/json is the reference for what the handler's value is", "PostgreSQL/real network path not involved: httptest recorder")

	if r.Replay != "" {
		var w witness
		if err := report.LoadReplay(r.Replay, &w); err != nil {
			report.Fatal("%v", err)
		}

		settings.SetDefault(defs.ServerCompressionThresholdSetting, "1")
		v := shapes(w.S)[w.Shape]
		if w.Gzip {
			v = map[string]any{"pad": pad, "v": v}
		}

		check(r, w.Shape, w.S, v, w.Gzip)
		r.Eval(1)
		r.Finish()
	}

	all := enum.AllStrings(alphabet, 0, maxLen)
	settings.SetDefault(defs.ServerCompressionThresholdSetting, "1")

	enum.Par(len(all), func(i int) {
		s := all[i]

		for name, v := range shapes(s) {
			for _, gz := range []bool{false, true} {
				if gz {
					// large enough that gzip really is applied
					v = map[string]any{"pad": pad, "v": v}
				}

				check(r, name, s, v, gz)
				r.Eval(1)

				if classify(s) != "" {
					r.Distinct(fmt.Sprint(name, "|", s, "|", gz))
				}
			}
		}

		if i%50021 == 7 {
			r.Sample(map[string]any{"string": s, "shapes": 5, "gzip": []bool{false, true}})
		}
	})

	// Non-string scalars and deeper nesting, plain.
	for _, v := range []any{nil, true, 1.5, -0.0, 1e300, []any{}, map[string]any{}, []any{[]any{[]any{" "}}}, " ", "\x7f", strings.Repeat(`\" `, 2000)} {
		check(r, "scalar", fmt.Sprint(v), v, true)
		check(r, "scalar", fmt.Sprint(v), v, false)
		r.Eval(2)
	}

	r.Set("strings", len(all))
	r.Set("max_len", maxLen)
	r.Finish()
}

package main

import (
	"crypto/ecdsa"
	"crypto/elliptic"
	"crypto/rand"
	"crypto/rsa"
	"crypto/x509"
	"encoding/base64"
	"encoding/json"
	"fmt"
	"math/big"
	"strings"
	"time"

	"github.com/golang-jwt/jwt/v5"
)

// Desc describes one JWT by its attributes; the harness mints the string.
type Desc struct {
	Sig string `json:"sig"` // valid | invalid
	Alg string `json:"alg"` // RS256 RS512 ES256 HS256 none
	Kid string `json:"kid"` // match | unknown | absent | cross (the other published key's id)
	Iss string `json:"iss"` // ok | wrong | suffix | absent
	Aud string `json:"aud"` // ok | list | wrong | absent
	Exp string `json:"exp"` // future | past | absent
	Jti string `json:"jti"` // "" = claim absent
	Sub string `json:"sub"`
}

func (d Desc) String() string {
	return fmt.Sprintf("sig=%s,alg=%s,kid=%s,iss=%s,aud=%s,exp=%s,jti=%s,sub=%s", d.Sig, d.Alg, d.Kid, d.Iss, d.Aud, d.Exp, d.Jti, d.Sub)
}

// Far from every clock involved: the jwt library reads the real clock, the
// woven packages the manual one (2030); neither ever crosses these.
var (
	expFuture = time.Date(2100, 1, 1, 0, 0, 0, 0, time.UTC).Unix()
	expPast   = time.Date(2001, 1, 1, 0, 0, 0, 0, time.UTC).Unix()
	expSoon   = time.Date(2030, 1, 1, 0, 10, 0, 0, time.UTC).Unix()
)

const (
	audience  = "ego-api"
	kidRSA    = "rsa1"
	kidAS     = "as1"
	wrongIss  = "https://evil.example"
	userClaim = "alice"
)

type keyring struct {
	issuer  string
	rsaPub  *rsa.PrivateKey   // published as kid rsa1
	asKey   *ecdsa.PrivateKey // the authorization server's key, published as kid as1
	rsaEvil *rsa.PrivateKey   // never published
	ecEvil  *ecdsa.PrivateKey // never published
}

func newKeyring(as *ecdsa.PrivateKey) *keyring {
	k := &keyring{asKey: as}

	var err error

	if k.rsaPub, err = rsa.GenerateKey(rand.Reader, 2048); err != nil {
		panic(err)
	}

	if k.rsaEvil, err = rsa.GenerateKey(rand.Reader, 2048); err != nil {
		panic(err)
	}

	if k.ecEvil, err = ecdsa.GenerateKey(elliptic.P256(), rand.Reader); err != nil {
		panic(err)
	}

	return k
}

func b64(b []byte) string { return base64.RawURLEncoding.EncodeToString(b) }

func pad(b []byte, n int) []byte {
	if len(b) >= n {
		return b
	}

	return append(make([]byte, n-len(b)), b...)
}

// jwks is the published key set: the RSA key first, then the AS's EC key.
func (k *keyring) jwks() []byte {
	doc := map[string]any{"keys": []map[string]string{
		{"kid": kidRSA, "kty": "RSA", "alg": "RS256", "use": "sig",
			"n": b64(k.rsaPub.N.Bytes()), "e": b64(big.NewInt(int64(k.rsaPub.E)).Bytes())},
		{"kid": kidAS, "kty": "EC", "alg": "ES256", "use": "sig", "crv": "P-256",
			"x": b64(pad(k.asKey.X.Bytes(), 32)), "y": b64(pad(k.asKey.Y.Bytes(), 32))},
	}}

	b, _ := json.Marshal(doc)

	return b
}

// mint builds the compact JWT for a description.
func (k *keyring) mint(d Desc) string {
	hdr := map[string]any{"typ": "JWT", "alg": d.Alg}

	family := "rsa"
	if strings.HasPrefix(d.Alg, "ES") {
		family = "ec"
	}

	own, other := kidRSA, kidAS
	if family == "ec" {
		own, other = kidAS, kidRSA
	}

	switch d.Kid {
	case "match":
		hdr["kid"] = own
	case "cross":
		hdr["kid"] = other
	case "unknown":
		hdr["kid"] = "no-such-key"
	}

	cl := map[string]any{"scope": "ego.logon"}

	if d.Sub != "" {
		cl["sub"] = d.Sub
	}

	switch d.Iss {
	case "ok":
		cl["iss"] = k.issuer
	case "wrong":
		cl["iss"] = wrongIss
	case "suffix":
		cl["iss"] = k.issuer + ".evil.example"
	}

	switch d.Aud {
	case "ok":
		cl["aud"] = audience
	case "list":
		cl["aud"] = []string{"other-api", audience}
	case "wrong":
		cl["aud"] = "other-api"
	}

	switch d.Exp {
	case "future":
		cl["exp"] = expFuture
	case "past":
		cl["exp"] = expPast
	case "soon":
		// expires shortly after the manual clock's start, sooner than the JWT
		// result cache's own lifetime (and still in the library's future)
		cl["exp"] = expSoon
	}

	if d.Jti != "" {
		cl["jti"] = d.Jti
	}

	hb, _ := json.Marshal(hdr)
	cb, _ := json.Marshal(cl)
	signing := b64(hb) + "." + b64(cb)

	var (
		sig []byte
		err error
	)

	valid := d.Sig == "valid"

	switch d.Alg {
	case "RS256", "RS512":
		key := k.rsaPub
		if !valid {
			key = k.rsaEvil
		}

		sig, err = jwt.GetSigningMethod(d.Alg).Sign(signing, key)
	case "ES256":
		key := k.asKey
		if !valid {
			key = k.ecEvil
		}

		sig, err = jwt.SigningMethodES256.Sign(signing, key)
	case "HS256":
		// the classic confusion attack: HMAC keyed with the published RSA public key
		secret, _ := x509.MarshalPKIXPublicKey(&k.rsaPub.PublicKey)
		if !valid {
			secret = []byte("some other secret")
		}

		sig, err = jwt.SigningMethodHS256.Sign(signing, secret)
	case "none":
		if !valid {
			sig = []byte("garbage")
		}
	default:
		panic("alg " + d.Alg)
	}

	if err != nil {
		panic(err)
	}

	return signing + "." + b64(sig)
}

// mayAccept is the reference: the conjunction of the statement's necessary
// conditions that do not depend on history (revocation is judged separately).
// It returns "" when acceptance is permitted, otherwise the first attribute
// that forbids it (used as the cell suffix).
func mayAccept(d Desc) string {
	switch d.Alg {
	case "RS256", "RS512", "ES256":
	default:
		return "alg=" + d.Alg
	}

	if d.Sig != "valid" {
		return "sig=" + d.Sig
	}

	if d.Iss != "ok" {
		return "iss=" + d.Iss
	}

	if d.Aud != "ok" && d.Aud != "list" {
		return "aud=" + d.Aud
	}

	if d.Exp == "past" {
		return "exp=past"
	}

	return ""
}

// product enumerates the full attribute product of the tier.
func product(thorough bool) []Desc {
	algs := []string{"RS256", "ES256", "HS256", "none"}
	kids := []string{"match", "unknown", "absent"}
	isss := []string{"ok", "wrong", "absent"}
	auds := []string{"ok", "wrong", "absent"}

	if thorough {
		algs = append(algs, "RS512")
		kids = append(kids, "cross")
		isss = append(isss, "suffix")
		auds = append(auds, "list")
	}

	var out []Desc

	for _, sig := range []string{"valid", "invalid"} {
		for _, alg := range algs {
			for _, kid := range kids {
				for _, iss := range isss {
					for _, aud := range auds {
						for _, exp := range []string{"future", "past", "absent"} {
							for _, jti := range []string{"J", ""} {
								out = append(out, Desc{Sig: sig, Alg: alg, Kid: kid, Iss: iss, Aud: aud, Exp: exp, Jti: jti, Sub: userClaim})
							}
						}
					}
				}
			}
		}
	}

	return out
}

// C22: in OAuth resource-server mode a JWT is accepted only if its signature
// verifies with a published key under an allowed algorithm, issuer and audience
// match the configuration, it has not expired and its jti has not been revoked;
// revocation holds for every later request, seen before or not.
//
// E-seq on the real code. The resource server is initialised (real
// oauth.Initialize) against an in-process OIDC discovery + JWKS endpoint; the
// harness mints every token itself. Two clauses:
//
//	input   - the full attribute product sig x alg x kid x iss x aud x exp x jti,
//	          each token run through the short histories [v] [v,v] [revoke,v]
//	          [v,revoke,v,v] (and through the router's Authenticate) in a fresh
//	          instance;
//	history - breadth-first search over every history up to the depth bound over
//	          validate / request / revoke (tokens.Blacklist and the real
//	          RevokeHandler) / purge JWT cache / purge blacklist cache / clock
//	          advance past the blacklist-cache and the JWT-cache lifetime (+ the
//	          sweeper's sweep), states deduplicated on the dump of both caches,
//	          the blacklist table, the key-cache state and the model.
//
// Oracle (one-directional, as the statement): accepted => every static
// condition holds and the jti is not in the reference revoked set at that event.
package main

import (
	"encoding/json"
	"fmt"
	"net/http"
	"net/http/httptest"
	"net/url"
	"os"
	"path/filepath"
	"sort"
	"strings"
	"time"

	"github.com/tucats/ego/internal/caches"
	"github.com/tucats/ego/internal/cli/settings"
	"github.com/tucats/ego/internal/defs"
	"github.com/tucats/ego/internal/language/tokens"
	"github.com/tucats/ego/internal/router"
	"github.com/tucats/ego/internal/server/oauth"
	"github.com/tucats/ego/internal/server/oauth/authserver"
	"github.com/tucats/ego/internal/verifrt/report"
	"github.com/tucats/ego/internal/verifrt/seqx"
	vtime "github.com/tucats/ego/internal/verifrt/vtime"
)

var (
	base = time.Date(2030, 1, 1, 0, 0, 0, 0, time.UTC)

	ring     *keyring
	srv      *httptest.Server
	jwksHits int

	jwtTTL    time.Duration
	jwtTTLSet bool

	// named tokens of the current clause: name -> description / string
	descs   = map[string]Desc{}
	strs    = map[string]string{}
	nameOf  = map[string]string{} // token string -> name
	revoked = map[string]bool{}   // the reference model
)

const cfgTTL = 10 * time.Minute

func setup() {
	scratch := os.Getenv("VERIF_SCRATCH")
	if scratch == "" {
		scratch, _ = os.Getwd()
	}

	vtime.Set(base)

	if err := authserver.VerifSetup(scratch); err != nil {
		report.Fatal("authorization server setup: %v", err)
	}

	ring = newKeyring(authserver.VerifC22SigningKey())

	mux := http.NewServeMux()
	srv = httptest.NewServer(mux)
	ring.issuer = srv.URL

	mux.HandleFunc("/.well-known/openid-configuration", func(w http.ResponseWriter, _ *http.Request) {
		_ = json.NewEncoder(w).Encode(map[string]any{
			"issuer": srv.URL, "jwks_uri": srv.URL + "/jwks", "token_endpoint": srv.URL + "/token",
			"authorization_endpoint": srv.URL + "/authorize",
		})
	})
	mux.HandleFunc("/jwks", func(w http.ResponseWriter, _ *http.Request) {
		jwksHits++

		_, _ = w.Write(ring.jwks())
	})

	settings.SetDefault(defs.OAuthProviderSetting, srv.URL)
	settings.SetDefault(defs.OAuthAudienceSetting, audience)
	settings.SetDefault(defs.OAuthJWKSCacheTTLSetting, cfgTTL.String())
	settings.SetDefault(defs.OAuthModeSetting, oauth.ModeResourceServer)

	if err := tokens.SetDatabasePath("sqlite3://" + filepath.Join(scratch, "c22-blacklist.db")); err != nil {
		report.Fatal("blacklist database: %v", err)
	}

	if db := tokens.VerifC22DB(); db != nil {
		// durability is irrelevant for a scratch database; this only saves fsyncs
		_, _ = db.Exec("PRAGMA synchronous=OFF;")
	} else {
		report.Fatal("blacklist database handle is nil: revocation would be a no-op")
	}

	caches.VerifC22Reset()
	oauth.VerifC22Reset()

	if err := oauth.Initialize(); err != nil {
		report.Fatal("oauth.Initialize: %v", err)
	}

	oauth.VerifC22Snapshot()

	jwtTTL, jwtTTLSet = caches.VerifC22Expiration(caches.OAuthJWTCache)

	prov, aud, jwks, ttl := oauth.VerifC22Config()
	if prov != srv.URL || aud != audience || jwks != srv.URL+"/jwks" || ttl != cfgTTL || !oauth.IsEnabled() {
		report.Fatal("resource-server configuration not as set up: provider=%q audience=%q jwks=%q ttl=%v", prov, aud, jwks, ttl)
	}
}

// fresh returns every piece of state on the validation path to what it is
// right after server start-up.
func fresh() {
	vtime.Set(base)

	if _, err := tokens.Flush(); err != nil {
		report.Fatal("blacklist flush: %v", err)
	}

	caches.VerifC22Reset()

	if jwtTTLSet {
		// what Initialize configured (recorded, not re-derived)
		_ = caches.SetExpiration(caches.OAuthJWTCache, jwtTTL.String())
	}

	oauth.VerifC22Restore()

	revoked = map[string]bool{}
}

func define(name string, d Desc) {
	s := ring.mint(d)
	descs[name], strs[name], nameOf[s] = d, s, name
}

func undefine(name string) {
	delete(nameOf, strs[name])
	delete(descs, name)
	delete(strs, name)
}

// Ev is one event of a history.
type Ev struct {
	Op  string `json:"op"` // validate request revoke revoke-handler unrevoke flush purge-jwt purge-blacklist advance
	Tok string `json:"tok,omitempty"`
	Jti string `json:"jti,omitempty"`
	Dur string `json:"dur,omitempty"`
}

func (e Ev) String() string {
	switch e.Op {
	case "validate", "request", "revoke-handler":
		return e.Op + "(" + e.Tok + ")"
	case "revoke", "unrevoke":
		return e.Op + "(" + e.Jti + ")"
	case "advance":
		return "advance(" + e.Dur + ")+sweep"
	}

	return e.Op
}

// Obs is what the implementation answered.
type Obs struct {
	Accepted bool
	Err      string
	Cached   bool // a JWT-cache entry for the token existed before the call
	Status   int
}

func apply(e Ev) Obs {
	var o Obs

	switch e.Op {
	case "validate":
		tok := strs[e.Tok]
		o.Cached = caches.VerifC22Has(caches.OAuthJWTCache, tok)

		_, _, err := oauth.ValidateJWT(1, tok)
		o.Accepted = err == nil

		if err != nil {
			o.Err = err.Error()
		}
	case "request":
		tok := strs[e.Tok]
		o.Cached = caches.VerifC22Has(caches.OAuthJWTCache, tok)

		req := httptest.NewRequest(http.MethodGet, "/services/x", nil)
		req.Header.Set("Authorization", "Bearer "+tok)

		s := (&router.Session{ID: 2}).Authenticate(req)
		o.Accepted = s.Authenticated
	case "revoke":
		if err := tokens.Blacklist(e.Jti); err != nil {
			o.Err = err.Error()
		}
	case "revoke-handler":
		form := url.Values{}
		form.Set("client_id", "app")
		form.Set("token", strs[e.Tok])

		req := httptest.NewRequest(http.MethodPost, "/oauth2/revoke", strings.NewReader(form.Encode()))
		req.Header.Set("Content-Type", "application/x-www-form-urlencoded")

		o.Status = authserver.RevokeHandler(&router.Session{ID: 3}, httptest.NewRecorder(), req)
	case "unrevoke":
		if err := tokens.Delete(e.Jti); err != nil {
			o.Err = err.Error()
		}
	case "flush":
		if _, err := tokens.Flush(); err != nil {
			o.Err = err.Error()
		}
	case "purge-jwt":
		caches.Purge(caches.OAuthJWTCache)
	case "purge-blacklist":
		caches.Purge(caches.BlacklistCache)
	case "advance":
		d, err := time.ParseDuration(e.Dur)
		if err != nil {
			report.Fatal("bad duration %q", e.Dur)
		}

		vtime.Advance(d)
		caches.VerifC22SweepAll() // what each class's sweeper does when it wakes
	default:
		report.Fatal("unknown event %q", e.Op)
	}

	return o
}

// step applies e to implementation and model and judges the answer.
func step(e Ev) (Obs, string, string) {
	o := apply(e)

	switch e.Op {
	case "revoke":
		if o.Err == "" || revoked[e.Jti] {
			revoked[e.Jti] = true
		} else {
			// the very first revocation of an id must not fail in this set-up
			report.Fatal("tokens.Blacklist(%s) failed: %s", e.Jti, o.Err)
		}
	case "revoke-handler":
		if o.Status == http.StatusOK && descs[e.Tok].Jti != "" {
			revoked[descs[e.Tok].Jti] = true
		}
	case "unrevoke":
		delete(revoked, e.Jti)
	case "flush":
		revoked = map[string]bool{}
	case "validate", "request":
		if !o.Accepted {
			return o, "", ""
		}

		d := descs[e.Tok]

		if why := mayAccept(d); why != "" {
			return o, "invalid-jwt-accepted:" + why, fmt.Sprintf("%s accepted a token with %s (%s)", e.Op, why, d)
		}

		// a cached verdict must not outlive the token: the cache-hit path
		// answers from the entry alone until its deadline, so a deadline
		// later than the token's own exp means an expired token is accepted
		if exp := expOf(d); exp != 0 {
			if dl, ok := oauth.VerifJWTCacheDeadline(strs[e.Tok]); ok && dl.Unix() > exp {
				return o, "jwt-cache:verdict-outlives-token", fmt.Sprintf("after %s the JWT result cache answers for token %s until %s, its exp is %s: an expired token would be accepted from the cache", e.Op, e.Tok, dl.UTC().Format(time.RFC3339), time.Unix(exp, 0).UTC().Format(time.RFC3339))
			}
		}

		if d.Jti != "" && revoked[d.Jti] {
			path := "cache-miss"
			if o.Cached {
				path = "cache-hit"
			}

			return o, "revoked-jwt-accepted:" + path, fmt.Sprintf("%s accepted token %s although its jti %q had been revoked earlier in the history (JWT result cache before the call: %s)", e.Op, e.Tok, d.Jti, path)
		}
	}

	return o, "", ""
}

func expOf(d Desc) int64 {
	switch d.Exp {
	case "future":
		return expFuture
	case "soon":
		return expSoon
	case "past":
		return expPast
	}

	return 0
}

// stateKey is the canonical implementation + model state.
func stateKey() string {
	now := vtime.Now()

	jwt := caches.VerifC22Dump(caches.OAuthJWTCache, now, func(k, v any) string {
		n := nameOf[fmt.Sprint(k)]
		if n == "" {
			n = "?"
		}

		if e, ok := v.(*oauth.JWTCacheEntry); ok {
			return n + ":" + e.JTI + ":" + e.User
		}

		return n
	})

	bl := caches.VerifC22Dump(caches.BlacklistCache, now, func(k, v any) string {
		if it, ok := v.(*tokens.BlackListItem); ok {
			return fmt.Sprintf("%v:%v", k, it.Active)
		}

		return fmt.Sprint(k)
	})

	rows, err := tokens.List()
	if err != nil {
		report.Fatal("blacklist list: %v", err)
	}

	tab := make([]string, 0, len(rows))
	for _, it := range rows {
		tab = append(tab, fmt.Sprintf("%s:%v", it.ID, it.Active))
	}

	sort.Strings(tab)

	rv := make([]string, 0, len(revoked))
	for j := range revoked {
		rv = append(rv, j)
	}

	sort.Strings(rv)

	return "jwt{" + jwt + "} bl{" + bl + "} table" + fmt.Sprint(tab) + " " + oauth.VerifC22State(now) + " model" + fmt.Sprint(rv)
}

type witness struct {
	Part    string          `json:"part"`
	Tokens  map[string]Desc `json:"tokens"`
	History []Ev            `json:"history"`
	Text    string          `json:"text"`
}

func histText(h []Ev) string {
	p := make([]string, len(h))
	for i, e := range h {
		p[i] = e.String()
	}

	return strings.Join(p, "; ")
}

func usedTokens(h []Ev) map[string]Desc {
	m := map[string]Desc{}

	for _, e := range h {
		if e.Tok != "" {
			m[e.Tok] = descs[e.Tok]
		}
	}

	return m
}

// ---------- input clause ----------

func goodDesc(alg string) Desc {
	return Desc{Sig: "valid", Alg: alg, Kid: "match", Iss: "ok", Aud: "ok", Exp: "future", Jti: "J", Sub: userClaim}
}

func inputClause(r *report.R) (histories int) {
	v, q := Ev{Op: "validate", Tok: "t"}, Ev{Op: "request", Tok: "t"}
	rv := Ev{Op: "revoke", Jti: "J"}

	for _, d := range product(r.Thorough()) {
		define("t", d)

		hs := [][]Ev{{v}, {v, v}}
		wellFormed := oauth.IsJWT(strs["t"])

		if wellFormed {
			hs = append(hs, []Ev{q}, []Ev{q, v})
		}

		if d.Jti != "" {
			hs = append(hs, []Ev{rv, v}, []Ev{v, rv, v, v})

			if wellFormed {
				hs = append(hs, []Ev{rv, q}, []Ev{q, rv, q, q})
			}
		}

		for hi, h := range hs {
			fresh()

			histories++

			for i, e := range h {
				o, cell, msg := step(e)
				r.Eval(1)

				if cell != "" {
					r.Violation(cell, i+1, witness{Part: "input", Tokens: usedTokens(h), History: h[:i+1], Text: histText(h[:i+1])}, msg)

					break
				}

				// vacuity guard: the set-up must accept the reference tokens
				if hi == 0 && i == 0 && (d == goodDesc("RS256") || d == goodDesc("ES256")) && !o.Accepted {
					report.Fatal("the set-up does not accept the reference token %s: %s (nothing would be tested)", d, o.Err)
				}
			}
		}

		r.Distinct("input|" + d.String())
		undefine("t")
	}

	r.Sample(map[string]any{"clause": "input", "token": goodDesc("RS256").String(), "histories": "[v] [v,v] [req] [req,v] [revoke,v] [v,revoke,v,v] [revoke,req] [req,revoke,req,req]"})

	return histories
}

// ---------- history clause ----------

func historyTokens(thorough bool) {
	define("tA", Desc{Sig: "valid", Alg: "ES256", Kid: "match", Iss: "ok", Aud: "ok", Exp: "future", Jti: "A", Sub: "alice"})
	define("tB", Desc{Sig: "valid", Alg: "RS256", Kid: "match", Iss: "ok", Aud: "ok", Exp: "future", Jti: "B", Sub: "bob"})
	define("tA2", Desc{Sig: "valid", Alg: "RS256", Kid: "match", Iss: "ok", Aud: "ok", Exp: "future", Jti: "A", Sub: "alice2"})
	define("tS", Desc{Sig: "valid", Alg: "ES256", Kid: "match", Iss: "ok", Aud: "ok", Exp: "soon", Jti: "S", Sub: "carol"})
	define("tBad", Desc{Sig: "invalid", Alg: "ES256", Kid: "match", Iss: "ok", Aud: "ok", Exp: "future", Jti: "A", Sub: "alice"})

	if thorough {
		define("tN", Desc{Sig: "valid", Alg: "RS256", Kid: "match", Iss: "ok", Aud: "ok", Exp: "future", Jti: "", Sub: "nojti"})
	}
}

func alphabet(thorough bool) []Ev {
	evs := []Ev{
		{Op: "validate", Tok: "tA"}, {Op: "validate", Tok: "tB"}, {Op: "validate", Tok: "tA2"}, {Op: "validate", Tok: "tBad"},
		{Op: "request", Tok: "tA"}, {Op: "validate", Tok: "tS"},
		{Op: "revoke", Jti: "A"}, {Op: "revoke-handler", Tok: "tA"}, {Op: "revoke", Jti: "B"},
		{Op: "purge-jwt"}, {Op: "purge-blacklist"},
		{Op: "advance", Dur: "61s"}, {Op: "advance", Dur: (cfgTTL + time.Second).String()},
	}

	if thorough {
		evs = append(evs, Ev{Op: "unrevoke", Jti: "A"}, Ev{Op: "flush"}, Ev{Op: "validate", Tok: "tN"}, Ev{Op: "request", Tok: "tB"})
	}

	return evs
}

func historyClause(r *report.R, evs []Ev, depth, maxStates int) seqx.Stats {
	return seqx.Run(seqx.Spec[Ev]{
		Events: evs, MaxDepth: depth, MaxStates: maxStates, StopAtViolation: true,
		Fresh: fresh,
		Step: func(e Ev, last bool) (string, string) {
			_, cell, msg := step(e)
			r.Eval(1)

			return cell, msg
		},
		Key: func() string {
			k := stateKey()
			r.Distinct("state|" + k)

			return k
		},
		Violation: func(h []Ev, cell, msg string) {
			r.Violation(cell, len(h), witness{Part: "history", Tokens: usedTokens(h), History: h, Text: histText(h)}, msg)
		},
	})
}

func replay(r *report.R) {
	var w witness
	if err := report.LoadReplay(r.Replay, &w); err != nil {
		report.Fatal("%v", err)
	}

	for n, d := range w.Tokens {
		define(n, d)
	}

	fresh()

	for i, e := range w.History {
		o, cell, msg := step(e)
		r.Eval(1)
		fmt.Printf("  %d %-28s accepted=%v cached-before=%v status=%d err=%q %s\n", i, e, o.Accepted, o.Cached, o.Status, o.Err, cell)

		if cell != "" {
			r.Violation(cell, i+1, w, msg)
		}
	}

	r.Finish()
}

func main() {
	r := report.New("model_checking")

	setup()
	defer srv.Close()

	if r.Replay != "" {
		replay(r)

		return
	}

	inputs := inputClause(r)

	historyTokens(r.Thorough())

	evs := alphabet(r.Thorough())
	depth := r.Pick(7, 12)
	maxStates := r.Pick(200000, 2000000)

	st := historyClause(r, evs, depth, maxStates)
	if st.Capped {
		r.Capped(fmt.Sprintf("state cap %d reached at depth %d", maxStates, st.Depth))
	}

	r.Sample(map[string]any{"clause": "history", "events": func() []string {
		s := make([]string, len(evs))
		for i, e := range evs {
			s[i] = e.String()
		}

		return s
	}()})
	r.Sample(map[string]any{"clause": "history", "tokens": descs})

	r.Set("input_tokens", len(product(r.Thorough())))
	r.Set("input_histories", inputs)
	r.Set("history_alphabet", len(evs))
	r.Set("history_depth", st.Depth)
	r.Set("history_states_per_depth", st.PerDepth)
	r.Set("jwks_fetches", jwksHits)
	r.Set("states", st.States)
	r.Set("transitions", st.Transitions)
	r.Set("traces_validated_against_impl", st.Transitions+inputs)

	r.Rule(fmt.Sprintf("input clause: every token of the product sig{valid,invalid} x alg x kid x iss x aud x exp x jti (%d tokens, minted by the harness against an in-process JWKS endpoint) through up to 8 short histories each in a fresh instance; history clause: BFS over every history of depth<=%d over %d events (validate/request of 4-5 tokens, revoke by tokens.Blacklist and by the real RevokeHandler, purge of the JWT and blacklist caches, clock advances of 61s and JWT-cache-TTL+1s each followed by the sweeper's sweep) on the real ValidateJWT / router Authenticate; distinct = distinct tokens (input) + distinct canonical states (history)", len(product(r.Thorough())), depth, len(evs)))
	r.Assume("one-directional oracle as the statement: accepted => alg in {RS*,ES*} and signed by a published key and iss/aud as configured and exp not in the past and jti not revoked at that event; rejecting is never a violation (a vacuity guard makes the run a harness error if the reference tokens are not accepted)",
		"a token without exp, a token whose kid names no/another published key but whose signature verifies with a published key, and an aud list containing the configured audience may be answered either way",
		"the jwt library reads the real clock, so exp is 2001 or 2100; the woven packages (caches, oauth) run on a manual clock starting 2030-01-01; cache expiry is produced by advancing it and calling the sweeper's own sweepExpired",
		"the published key set is constant (no key rotation); blacklist storage is SQLite")
	r.Finish()
}

// C39: static assets are served exactly and only from the asset root.
//
// A scratch library directory is laid out with asset files of known content
// (sizes 0, 1, 10, 5000; .txt .js .css .md; a sub-directory; symlinks pointing
// inside and outside) and, around it, canary files that must never be served
// (in the library but outside assets/, in a directory whose name merely starts
// like the library's, outside the library, reachable by absolute path).
//
// Layer 1 (HTTP): every request target "/assets" + 1..K segments over an
// alphabet of file names, "..", "%2e%2e", ".", "", canary names and link names,
// joined by "/", "%2f" or "%5c", x GET/HEAD x a small Range set x minify
// on/off, each issued twice (asset-cache miss, then hit), through the real
// router.ServeHTTP -> assets.AssetsHandler. Every target that resolves to a
// file, plus a list of escape spellings, is also run against the full Range
// alphabet (bytes=a-b for a,b in {none,0,1,n-1,n,n+1,-1,2^63}, and malformed
// forms).
//
// Layer 2 (Loader): the exported assets.Loader, which the handler and other
// server code call, with the same segment alphabet spelled without the
// "/assets" prefix, with and without a range.
//
// Oracle = the statement: a 200 body is the exact content of the named file
// under the asset root (raw, or after the documented minification / Markdown
// rendering); a 206 body is exactly bytes s..e of it with Content-Range
// "bytes s-e/T" (and s,e are the requested ones when the Range header is a
// well-formed single range); anything else must be an error status; no
// response ever carries canary bytes.
package main

import (
	"bytes"
	"fmt"
	"net/http"
	"net/http/httptest"
	"os"
	"path/filepath"
	"regexp"
	"runtime/debug"
	"sort"
	"strconv"
	"strings"

	"github.com/tucats/ego/internal/cli/settings"
	"github.com/tucats/ego/internal/cli/ui"
	"github.com/tucats/ego/internal/defs"
	"github.com/tucats/ego/internal/router"
	"github.com/tucats/ego/internal/server/assets"
	"github.com/tucats/ego/internal/util/javascript"
	"github.com/tucats/ego/internal/verifrt/report"
)

// ---- fixture ----------------------------------------------------------------

type fixture struct {
	base    string // scratch/c39
	lib     string // base/root/lib            (what the code calls the asset root directory)
	assets  string // base/root/lib/assets     (what /assets/... serves)
	abs     string // absolute path of the outside canary, without the leading slash
	canary  map[string]string
	markers []string
}

const bigSize = 5000

func bigContent() []byte {
	var b bytes.Buffer
	for i := 0; b.Len() < bigSize; i++ {
		fmt.Fprintf(&b, "%04d|", i)
	}

	return b.Bytes()[:bigSize]
}

const jsSource = `// a comment that minification removes
function  add( first , second ) {
    /* block comment */
    var   total = first + second ;
    return total ;
}

var text = "keep   these   spaces" ;
`

const cssSource = `/* comment */
body   {
    color :  red ;
    margin : 0 ;
}

.a , .b { padding : 1px ; }
`

const mdSource = "# Title\n\nSome *emphasis* and a [link](http://example.com).\n\n- one\n- two\n"

func write(p string, b []byte) {
	if err := os.MkdirAll(filepath.Dir(p), 0o755); err != nil {
		report.Fatal("%v", err)
	}

	if err := os.WriteFile(p, b, 0o644); err != nil {
		report.Fatal("%v", err)
	}
}

func buildFixture() *fixture {
	base := filepath.Join(os.Getenv("VERIF_SCRATCH"), "c39")
	_ = os.RemoveAll(base)

	f := &fixture{base: base, lib: filepath.Join(base, "root", "lib"), canary: map[string]string{}}
	f.assets = filepath.Join(f.lib, "assets")

	write(filepath.Join(f.assets, "a.txt"), []byte("0123456789"))
	write(filepath.Join(f.assets, "empty.txt"), nil)
	write(filepath.Join(f.assets, "one.txt"), []byte("Z"))
	write(filepath.Join(f.assets, "big.txt"), bigContent())
	write(filepath.Join(f.assets, "app.js"), []byte(jsSource))
	write(filepath.Join(f.assets, "style.css"), []byte(cssSource))
	write(filepath.Join(f.assets, "doc.md"), []byte(mdSource))
	write(filepath.Join(f.assets, "sub", "inner.txt"), []byte("inner-file-content"))

	can := func(zone, p string) {
		text := "CANARY-" + zone + "-" + strings.Repeat("x", 40) + "\n"
		write(p, []byte(text))
		f.canary[p] = zone
		f.markers = append(f.markers, "CANARY-"+zone)
	}

	can("lib-sibling-file", filepath.Join(f.lib, "secret.txt"))
	can("lib-sibling-dir", filepath.Join(f.lib, "assets-private", "c.txt"))
	can("outside-lib-prefix-twin", filepath.Join(base, "root", "lib-secret", "c.txt"))
	can("outside-lib", filepath.Join(base, "root", "outside", "canary.txt"))

	f.abs = strings.TrimPrefix(filepath.Join(base, "root", "outside", "canary.txt"), "/")

	link := func(target, name string) {
		if err := os.Symlink(target, filepath.Join(f.assets, name)); err != nil {
			report.Fatal("%v", err)
		}
	}

	link("a.txt", "link-in.txt")
	link("../../outside/canary.txt", "link-out.txt")
	link("../../outside", "dir-out")

	return f
}

// ---- the server side -------------------------------------------------------------

var mux *router.Router

func setup(f *fixture) {
	ui.Active(ui.AllLoggers, false)
	settings.SetDefault(defs.EgoLibPathSetting, f.lib)
	settings.SetDefault(defs.EgoPathSetting, filepath.Join(f.base, "root"))

	// The two asset routes exactly as internal/commands/routes.go defines them.
	mux = router.NewRouter("c39")
	mux.New(defs.AssetsPath+"{{item...}}", assets.AssetsHandler, http.MethodGet).Class(router.AssetRequestCounter)
	mux.New(defs.AssetsPath+"{{item...}}", assets.AssetsHandler, http.MethodHead).Class(router.AssetRequestCounter)
}

func setMinify(on bool) {
	settings.SetDefault(defs.JSMinifySetting, strconv.FormatBool(on))
	assets.FlushAssetCache()
}

type response struct {
	status   int
	body     []byte
	header   http.Header
	panicked string
	urlPath  string // r.URL.Path as net/http decoded it
}

// do sends one request through the real router. target is the request-target
// exactly as it would be on the wire.
func do(method, target, rng string) (resp response, ok bool) {
	var req *http.Request

	// httptest.NewRequest parses the request line the way the server does and
	// panics on a target net/http would reject with 400 before any handler runs.
	func() {
		defer func() {
			if recover() != nil {
				req = nil
			}
		}()

		req = httptest.NewRequest(method, target, nil)
	}()

	if req == nil {
		return response{}, false
	}

	if rng != noRange {
		req.Header["Range"] = []string{rng}
	}

	rec := httptest.NewRecorder()
	resp.urlPath = req.URL.Path

	func() {
		defer func() {
			if p := recover(); p != nil {
				resp.panicked = fmt.Sprint(p)
			}
		}()

		mux.ServeHTTP(rec, req)
	}()

	resp.status = rec.Code
	resp.body = rec.Body.Bytes()
	resp.header = rec.Header()

	return resp, true
}

// ---- the oracle -------------------------------------------------------------------

const noRange = "\x00none"

type witness struct {
	Layer    string   `json:"layer"` // http | loader
	Segments []string `json:"segments,omitempty"`
	Sep      string   `json:"sep,omitempty"`
	Target   string   `json:"target"` // ABS stands for the absolute path of the outside canary
	Method   string   `json:"method,omitempty"`
	Range    string   `json:"range"`
	HasRange bool     `json:"has_range"`
	Minify   bool     `json:"minify"`
	Pass     string   `json:"pass,omitempty"` // miss | hit
	Status   int      `json:"status,omitempty"`
	CRange   string   `json:"content_range,omitempty"`
	Body     string   `json:"body,omitempty"`
	Start    int64    `json:"start,omitempty"`
	End      int64    `json:"end,omitempty"`
}

type judgeCtx struct {
	r      *report.R
	f      *fixture
	strict bool // treat a symlink that leaves the asset root as an escape
}

func clip(b []byte) string {
	if len(b) > 120 {
		return string(b[:120]) + "…"
	}

	return string(b)
}

// representations returns the contents a response may legitimately be taken
// from: the raw file and, when the documented transformation applies to this
// name under this setting, the transformed file.
func representations(name string, raw []byte, minify bool) [][]byte {
	out := [][]byte{raw}

	switch {
	case strings.HasSuffix(name, ".js") && minify:
		out = append(out, javascript.Minify(raw, settings.GetBool(defs.JSShortVarNamesSetting)))
	case strings.HasSuffix(name, ".css") && minify:
		out = append(out, javascript.MinifyCSS(raw))
	case strings.HasSuffix(name, ".md"):
		out = append(out, assets.VerifC39Markdown(raw))
	}

	return out
}

func kindOf(name string, minify bool) string {
	switch {
	case strings.HasSuffix(name, ".md"):
		return "md"
	case strings.HasSuffix(name, ".js") && minify:
		return "js-minified"
	case strings.HasSuffix(name, ".css") && minify:
		return "css-minified"
	default:
		return "plain"
	}
}

var (
	contentRangeRE = regexp.MustCompile(`^bytes (\d+)-(\d+)/(\d+)$`)
	rangeRE        = regexp.MustCompile(`^bytes=(\d+)-(\d*)$`)
)

// named resolves the file a URL path names: net/http's decoding, then purely
// lexical resolution of the path below the library directory (".." may climb
// and come back; what counts is where it ends). inAssets tells whether that is
// under <lib>/assets/.
func (c *judgeCtx) named(urlPath string) (file string, inAssets bool) {
	file = filepath.Clean(filepath.Join(c.f.lib, filepath.FromSlash(urlPath)))

	return file, strings.HasPrefix(file, c.f.assets+string(filepath.Separator))
}

// zone tells which canary (if any) a body carries.
func (c *judgeCtx) zone(body []byte) string {
	for _, m := range c.f.markers {
		if bytes.Contains(body, []byte(m)) {
			return strings.TrimPrefix(m, "CANARY-")
		}
	}

	return ""
}

// judgeHTTP applies the statement to one response.
func (c *judgeCtx) judgeHTTP(w witness, resp response) {
	size := len(w.Target) + len(w.Range)
	if !w.HasRange {
		size = len(w.Target)
	}

	w.Status = resp.status
	w.CRange = resp.header.Get("Content-Range")
	w.Body = clip(resp.body)

	if resp.panicked != "" {
		// With panic recovery on (the default) the router turns a handler panic
		// into a 500; one that escapes even that is not a C39 matter (C40) as
		// long as nothing was served.
		c.r.Add("panics_escaping_the_router", 1)

		if z := c.zone(resp.body); z != "" {
			c.r.Violation("escape:"+z+":in-panic-response", size, w, "a response that ended in a panic carries canary bytes")
		}

		return
	}

	file, inAssets := c.named(resp.urlPath)
	z := c.zone(resp.body)

	// The symlink leniency: a link placed inside the asset root by the
	// administrator that points outside it. The statement does not say whether
	// following it is "content from outside"; both answers are accepted unless
	// the harness runs with --strict-symlinks.
	viaLink := false

	if inAssets && z != "" {
		if real, err := filepath.EvalSymlinks(file); err == nil {
			if realAssets, err2 := filepath.EvalSymlinks(c.f.assets); err2 == nil && !strings.HasPrefix(real, realAssets+string(filepath.Separator)) {
				viaLink = true
			}
		}
	}

	if z != "" && !(viaLink && !c.strict) {
		cell := "escape:" + z
		if viaLink {
			cell = "symlink:escapes-root"
		}

		c.r.Violation(cell, size, w, fmt.Sprintf("status %d response to %s %s carries the bytes of a file outside the asset root (%s)", resp.status, w.Method, w.Target, z))

		return
	}

	if viaLink && z != "" {
		c.r.Add("symlink_out_followed_(accepted)", 1)
	}

	switch {
	case resp.status >= 400:
		c.r.Add("error_status", 1)

		return
	case resp.status >= 300:
		c.r.Add("redirect_status", 1)

		return
	case resp.status != http.StatusOK && resp.status != http.StatusPartialContent:
		c.r.Violation(fmt.Sprintf("unexpected-status:%d", resp.status), size, w, "neither content, a range, nor an error status")

		return
	}

	// 200 or 206: there must be a named file under the asset root.
	raw, err := os.ReadFile(file)
	if !inAssets || err != nil {
		c.r.Violation("content-for-a-path-that-names-no-asset", size, w, fmt.Sprintf("status %d for %s, which names no readable file under the asset root", resp.status, resp.urlPath))

		return
	}

	reps := representations(file, raw, w.Minify)
	kind := kindOf(file, w.Minify)

	if resp.status == http.StatusOK {
		c.r.Add("status_200", 1)

		if w.Method == http.MethodHead {
			return
		}

		for _, rep := range reps {
			if bytes.Equal(resp.body, rep) {
				return
			}
		}

		c.r.Violation("wrong-bytes:200:"+kind, size, w, fmt.Sprintf("200 body (%d bytes) is neither the file's bytes nor its documented transformation", len(resp.body)))

		return
	}

	// 206
	c.r.Add("status_206", 1)

	m := contentRangeRE.FindStringSubmatch(w.CRange)

	var reqStart, reqEnd int64 = -1, -1

	wellFormed := false

	if rm := rangeRE.FindStringSubmatch(w.Range); rm != nil {
		a, err1 := strconv.ParseInt(rm[1], 10, 64)

		b := int64(-1)

		var err2 error

		if rm[2] != "" {
			b, err2 = strconv.ParseInt(rm[2], 10, 64)
		}

		if err1 == nil && err2 == nil && (b == -1 || a <= b) {
			wellFormed, reqStart, reqEnd = true, a, b
		}
	}

	if m != nil {
		if s0, _ := strconv.ParseInt(m[1], 10, 64); true {
			if e0, _ := strconv.ParseInt(m[2], 10, 64); s0 > e0 {
				w.Start, w.End = s0, e0
				c.r.Violation("range:start-not-before-end:206", size, w, fmt.Sprintf("Range %q on an asset of %d bytes is answered 206 with Content-Range %q (first byte after last byte)", w.Range, len(raw), w.CRange))

				return
			}
		}
	}

	if wellFormed {
		unsat := true

		for _, rep := range reps {
			if reqStart < int64(len(rep)) {
				unsat = false
			}
		}

		if unsat {
			c.r.Violation("range:start-not-before-end:206", size, w, fmt.Sprintf("Range %q starts at or beyond the end of the %d-byte asset, yet the answer is 206 with Content-Range %q", w.Range, len(raw), w.CRange))

			return
		}
	}

	if m == nil {
		c.r.Violation("range:content-range-malformed", size, w, fmt.Sprintf("206 with Content-Range %q (body %d bytes, asset %d bytes)", w.CRange, len(resp.body), len(raw)))

		return
	}

	s, _ := strconv.ParseInt(m[1], 10, 64)
	e, _ := strconv.ParseInt(m[2], 10, 64)
	t, _ := strconv.ParseInt(m[3], 10, 64)
	w.Start, w.End = s, e

	consistent := false

	for _, rep := range reps {
		if t != int64(len(rep)) || s > e || e >= t {
			continue
		}

		if w.Method == http.MethodHead || bytes.Equal(resp.body, rep[s:e+1]) {
			consistent = true

			if wellFormed {
				wantEnd := reqEnd
				if wantEnd == -1 || wantEnd >= t {
					wantEnd = t - 1
				}

				if s != reqStart || e != wantEnd {
					c.r.Violation("range:not-the-requested-range", size, w, fmt.Sprintf("Range %q answered with Content-Range %q", w.Range, w.CRange))
				}
			}

			break
		}
	}

	if consistent {
		return
	}

	switch {
	case e >= t || !lenOfAny(reps, t):
		c.r.Violation("range:content-range-wrong:"+kind, size, w, fmt.Sprintf("206 with Content-Range %q for an asset of %d bytes", w.CRange, len(raw)))
	default:
		c.r.Violation("range:body-is-not-the-range:"+kind, size, w, fmt.Sprintf("206 body (%d bytes) is not bytes %d-%d of the asset although Content-Range says %q", len(resp.body), s, e, w.CRange))
	}
}

func lenOfAny(reps [][]byte, t int64) bool {
	for _, r := range reps {
		if int64(len(r)) == t {
			return true
		}
	}

	return false
}

// ---- enumeration --------------------------------------------------------------------

var segmentAlphabet = []string{
	"a.txt", "app.js", "doc.md", "sub", "inner.txt",
	"..", "%2e%2e", ".", "",
	"secret.txt", "assets-private", "c.txt", "outside", "canary.txt", "lib-secret",
	"assets", "lib",
	"link-in.txt", "link-out.txt", "dir-out",
	"ABS",
}

var separators = []string{"/", "%2f", "%5c"}

func (f *fixture) target(segs []string, sep string) string {
	parts := make([]string, len(segs))

	for i, s := range segs {
		if s == "ABS" {
			s = strings.ReplaceAll(f.abs, "/", sep)
		}

		parts[i] = s
	}

	return "/assets/" + strings.Join(parts, sep)
}

func display(segs []string, sep string) string { return "/assets/" + strings.Join(segs, sep) }

func rangeAlphabet(n int) []string {
	vals := []string{"", "0", "1", strconv.Itoa(n - 1), strconv.Itoa(n), strconv.Itoa(n + 1), "-1", "9223372036854775808"}
	seen := map[string]bool{}

	var out []string

	add := func(s string) {
		if !seen[s] {
			seen[s] = true
			out = append(out, s)
		}
	}

	add(noRange)

	for _, a := range vals {
		for _, b := range vals {
			add("bytes=" + a + "-" + b)
		}
	}

	for _, s := range []string{"bytes=5", "bytes=", "5-", "-5", "bytes=0-1,3-4", "bytes=0-1-2", "garbage", "bytes= 0-1", "BYTES=0-1", "items=0-1", "bytes=0x1-2", "bytes=1-0", "bytes=2-5", "bytes=9223372036854775807-", "bytes=0-9223372036854775807", ""} {
		add(s)
	}

	return out
}

var shortRanges = []string{noRange, "bytes=0-4", "bytes=2-"}

type runner struct {
	c        *judgeCtx
	resolved map[string][]string // display target -> segments (+sep at [0])
}

func (rn *runner) one(segs []string, sep, method, rng string, minify bool) {
	f := rn.c.f
	tgt := f.target(segs, sep)

	passes := []string{"miss", "hit"}
	if rng != noRange {
		// a range request for an asset that an earlier plain request has
		// already put into the asset cache
		passes = append(passes, "after-full-get")
	}

	for _, pass := range passes {
		if pass == "miss" {
			assets.FlushAssetCache()
		}

		if pass == "after-full-get" {
			assets.FlushAssetCache()

			if _, ok := do(http.MethodGet, tgt, noRange); !ok {
				return
			}
		}

		resp, ok := do(method, tgt, rng)
		if !ok {
			rn.c.r.Add("targets_net/http_rejects", 1)

			return
		}

		rn.c.r.Eval(1)

		w := witness{Layer: "http", Segments: segs, Sep: sep, Target: display(segs, sep), Method: method, Range: rng, HasRange: rng != noRange, Minify: minify, Pass: pass}
		if !w.HasRange {
			w.Range = ""
		}

		rn.c.judgeHTTP(w, resp)

		if (resp.status == 200 || resp.status == 206) && rn.resolved != nil && rng == noRange && method == http.MethodGet {
			rn.resolved[display(segs, sep)] = append([]string{sep}, segs...)
		}

		if resp.status < 400 || isTraversal(segs) {
			rn.c.r.Distinct(fmt.Sprint(display(segs, sep), "|", method, "|", rng, "|", minify, "|", pass))
		}
	}
}

func hasJS(segs []string) bool {
	for _, s := range segs {
		if strings.HasSuffix(s, ".js") || strings.HasSuffix(s, ".css") {
			return true
		}
	}

	return false
}

func isTraversal(segs []string) bool {
	for _, s := range segs {
		switch s {
		case "..", "%2e%2e", "ABS", "link-out.txt", "dir-out":
			return true
		}
	}

	return false
}

func sequences(maxLen int, f func(segs []string)) {
	var rec func(prefix []string)

	rec = func(prefix []string) {
		if len(prefix) > 0 {
			f(prefix)
		}

		if len(prefix) == maxLen {
			return
		}

		for _, s := range segmentAlphabet {
			rec(append(prefix[:len(prefix):len(prefix)], s))
		}
	}

	rec(nil)
}

// ---- layer 2: Loader ---------------------------------------------------------------

func (c *judgeCtx) loaderLayer(maxLen int) {
	prefixes := []string{"", "/", "assets/", "/assets/", "../", "/../"}

	for _, minify := range []bool{false, true} {
		setMinify(minify)

		sequences(maxLen, func(segs []string) {
			for _, seg := range segs {
				if strings.Contains(seg, "%") {
					return // Loader takes file-system spellings, not URL encodings
				}
			}

			parts := make([]string, len(segs))
			for i, s := range segs {
				if s == "ABS" {
					s = c.f.abs
				}

				parts[i] = s
			}

			for _, pre := range prefixes {
				p := pre + strings.Join(parts, "/")
				shown := pre + strings.Join(segs, "/")

				for _, rg := range [][2]int64{{assets.StartOfData, assets.EndOfData}, {0, 4}, {2, assets.EndOfData}} {
					assets.FlushAssetCache()

					var (
						data     []byte
						err      error
						panicked bool
					)

					func() {
						defer func() {
							if recover() != nil {
								panicked = true
							}
						}()

						data, _, err = assets.Loader(0, p, rg[0], rg[1])
					}()

					c.r.Eval(1)

					if panicked || err != nil {
						continue
					}

					w := witness{Layer: "loader", Target: shown, Minify: minify, Start: rg[0], End: rg[1], Body: clip(data)}

					if z := c.zone(data); strings.HasPrefix(z, "outside-lib") {
						real, _ := filepath.EvalSymlinks(filepath.Join(c.f.lib, p))
						lexical := filepath.Clean(filepath.Join(c.f.lib, p))

						if strings.HasPrefix(lexical, c.f.lib+string(filepath.Separator)) && real != lexical {
							// reached through a symlink inside the root: the leniency above
							if c.strict {
								c.r.Violation("loader:symlink:escapes-root", len(shown), w, "Loader returned the bytes of a file outside the library directory through a symlink")
							} else {
								c.r.Add("symlink_out_followed_(accepted)", 1)
							}

							continue
						}

						c.r.Violation("loader:escape:"+z, len(shown), w, fmt.Sprintf("assets.Loader(%q) returned the bytes of a file outside the library directory", shown))

						continue
					}

					if isTraversal(segs) || strings.HasPrefix(pre, "..") || strings.HasPrefix(pre, "/..") {
						c.r.Distinct("loader|" + shown + fmt.Sprint(rg, minify))
					}
				}
			}
		})
	}
}

// ---- main -------------------------------------------------------------------------------

func main() {
	debug.SetGCPercent(800) // many small short-lived responses on a tiny live heap

	r := report.New("exploration")
	f := buildFixture()
	setup(f)

	c := &judgeCtx{r: r, f: f}

	for _, a := range os.Args[1:] {
		if a == "--strict-symlinks" {
			c.strict = true
		}
	}

	maxLen := r.Pick(3, 4)

	r.Rule(fmt.Sprintf("HTTP: every target /assets/<1..%d segments over %q joined by one of %q (4-segment targets: the first two separators, GET only)> x GET/HEAD x Range in %q x (cache miss, hit) with minification off, and again with minification on for the targets that name a .js/.css segment, through router.ServeHTTP; plus every asset by its plain name (GET and HEAD), every other target that resolved to a file (GET) and 36 escape spellings x minify off/on x the full Range alphabet (bytes=a-b, a,b in {none,0,1,n-1,n,n+1,-1,2^63}, 16 malformed forms) for assets of size 0,1,10,5000 and .js/.css/.md. Loader: the same segment sequences (length <= %d) behind 6 prefixes x 3 ranges x minify. distinct non-trivial = distinct (target, method, Range, minify, pass) that either were answered with content or contain a traversal/absolute/outward-link segment",
		maxLen, segmentAlphabet, separators, []string{"none", "bytes=0-4", "bytes=2-"}, maxLen-1))
	r.Assume(
		"asset root for /assets requests = <lib>/assets; library directory (what normalizeAssetPath confines to) for direct Loader calls",
		"the file a target names is decided lexically (net/http's decoding of the request line, then path.Clean)",
		"javascript.Minify, javascript.MinifyCSS and the handler's own Markdown renderer define 'the documented minification and Markdown rendering'; a transformable asset may be served raw or transformed",
		"a symlink inside the asset root that points outside it may be followed or refused (counted, not judged) unless the check runs with --strict-symlinks",
		"HEAD responses are judged on status and Content-Range only; a handler panic that the router turns into 500 is an error status",
		"httptest recorder instead of a socket; targets that net/http rejects while parsing the request line never reach the handler and are only counted",
	)

	if r.Replay != "" {
		var w witness
		if err := report.LoadReplay(r.Replay, &w); err != nil {
			report.Fatal("%v", err)
		}

		replay(c, w)
		r.Finish()
	}

	rn := &runner{c: c, resolved: map[string][]string{}}

	// Pass A: every target x the short Range set.
	targets := 0

	for _, minify := range []bool{false, true} {
		setMinify(minify)

		sequences(maxLen, func(segs []string) {
			for _, sep := range separators {
				if len(segs) == 1 && sep != "/" && segs[0] != "ABS" {
					continue // a separator only shows between segments
				}

				if len(segs) == 4 && sep == "%5c" {
					continue // longest targets (thorough tier): two separators, GET only
				}

				if minify && !hasJS(segs) {
					continue // the minify setting is only read for .js/.css names
				}

				if !minify {
					targets++
				}

				methods := []string{http.MethodGet, http.MethodHead}
				if len(segs) == 4 {
					methods = methods[:1]
				}

				for _, method := range methods {
					for _, rng := range shortRanges {
						rn.one(segs, sep, method, rng, minify)
					}
				}
			}
		})
	}

	r.Set("targets", targets)
	r.Set("targets_resolving_to_content", len(rn.resolved))

	// Pass B: the full Range alphabet on every asset by its plain name, on every
	// other spelling that resolved, and on the escape spellings.
	plain := map[string]int{"a.txt": 10, "empty.txt": 0, "one.txt": 1, "big.txt": bigSize, "app.js": len(jsSource), "style.css": len(cssSource), "doc.md": len(mdSource), "link-in.txt": 10}

	type job struct {
		segs    []string
		sep     string
		n       int
		getOnly bool
	}

	var jobs []job

	names := make([]string, 0, len(plain))
	for n := range plain {
		names = append(names, n)
	}

	sort.Strings(names)

	for _, n := range names {
		jobs = append(jobs, job{[]string{n}, "/", plain[n], false})
	}

	keys := make([]string, 0, len(rn.resolved))
	for k := range rn.resolved {
		keys = append(keys, k)
	}

	sort.Strings(keys)

	for _, k := range keys {
		v := rn.resolved[k]
		if len(v) == 2 && plain[v[1]] > 0 {
			continue // already there by its plain name
		}

		jobs = append(jobs, job{v[1:], v[0], 10, true})
	}

	for _, esc := range [][]string{
		{"..", "secret.txt"}, {"%2e%2e", "secret.txt"}, {"..", "assets-private", "c.txt"}, {"..", "..", "outside", "canary.txt"},
		{"..", "..", "lib-secret", "c.txt"}, {"sub", "..", "..", "secret.txt"}, {"", "ABS"}, {"ABS"}, {".."}, {"sub", ".."}, {"link-out.txt"}, {"dir-out", "canary.txt"},
	} {
		for _, sep := range separators {
			jobs = append(jobs, job{esc, sep, 10, false})
		}
	}

	rn.resolved = nil
	rangeCases := 0

	for _, minify := range []bool{false, true} {
		setMinify(minify)

		for _, j := range jobs {
			for _, rng := range rangeAlphabet(j.n) {
				for _, method := range []string{http.MethodGet, http.MethodHead} {
					if j.getOnly && method == http.MethodHead {
						continue
					}

					rn.one(j.segs, j.sep, method, rng, minify)

					if !minify && method == http.MethodGet {
						rangeCases++
					}
				}
			}
		}
	}

	r.Set("full_range_alphabet_targets", len(jobs))
	r.Set("range_forms_x_targets", rangeCases)

	// Layer 2.
	before := r.Evals()
	c.loaderLayer(maxLen - 1)
	r.Set("loader_calls", r.Evals()-before)

	r.Sample(map[string]any{"target": "/assets/sub%2f..%2fa.txt", "methods": "GET,HEAD", "ranges": shortRanges[1:], "minify": "off,on", "passes": "miss,hit"})
	r.Sample(map[string]any{"target": "/assets/..%2f..%2foutside%2fcanary.txt", "range": "bytes=0-4", "expect": "an error status, never CANARY bytes"})
	r.Sample(map[string]any{"target": "/assets/big.txt", "range": "bytes=4999-5001", "expect": "206, Content-Range bytes 4999-4999/5000, 1 byte"})
	r.Sample(map[string]any{"layer": "loader", "path": "../lib-secret/c.txt", "expect": "error (the directory only shares the library's name prefix)"})

	r.Finish()
}

func replay(c *judgeCtx, w witness) {
	setMinify(w.Minify)

	if w.Layer == "loader" {
		p := strings.ReplaceAll(w.Target, "ABS", c.f.abs)

		data, _, err := assets.Loader(0, p, w.Start, w.End)
		c.r.Eval(1)

		if err == nil {
			if z := c.zone(data); strings.HasPrefix(z, "outside-lib") {
				w.Body = clip(data)
				c.r.Violation("loader:escape:"+z, len(w.Target), w, fmt.Sprintf("assets.Loader(%q) returned the bytes of a file outside the library directory", w.Target))
			}
		}

		return
	}

	rng := w.Range
	if !w.HasRange {
		rng = noRange
	}

	rn := &runner{c: c}
	rn.one(w.Segments, w.Sep, w.Method, rng, w.Minify)
}

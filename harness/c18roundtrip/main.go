// C18: a value written to a table column through the REST row endpoints is
// read back through them as the same value of the column's documented type.
//
// The real router and table handlers run in-process on a SQLite file. For
// every documented column type a table (k int, v <type> nullable) is created
// through the REST table-create endpoint; every value of a per-type domain
// (boundary values, and for strings every string up to a length over an
// alphabet of hostile characters) is written through each write path (row
// insert, row update, abstract insert, abstract update, transaction insert,
// transaction update) and read back through each read path (rows, abstract
// rows). What is read must equal what was written, compared the way the
// column's documented type compares.
package main

import (
	"bufio"
	"bytes"
	"encoding/json"
	"fmt"
	"math"
	"os"
	"os/exec"
	"path/filepath"
	"sort"
	"strconv"
	"strings"
	"sync"
	"time"

	"github.com/tucats/ego/internal/verifrt/enum"
	"github.com/tucats/ego/internal/verifrt/report"
	"github.com/tucats/ego/internal/verifrt/tblsrv"
	vsql "github.com/tucats/ego/internal/verifrt/vsql"
)

// ---- domains ------------------------------------------------------------------

// val is one value of a column type: the JSON text sent, and what kind of
// value it is (for the violation cell).
type val struct {
	JSON  string `json:"json"`  // the JSON text of the value as sent
	Class string `json:"class"` // a coarse class of the value
}

var columnTypes = []string{"string", "int", "int16", "int32", "float64", "float32", "bool", "timestamp", "date", "time"}

var stringAlphabet = []string{`'`, `"`, `\`, ` `, "é", "a", "\n", "%", ",", "€"}

func jstr(s string) string {
	b, _ := json.Marshal(s)

	return string(b)
}

func classOfString(s string) string {
	var parts []string

	for _, c := range []struct{ set, name string }{{`'"`, "quote"}, {`\`, "backslash"}, {"\n\t\r", "control"}, {"\x00", "nul"}} {
		if strings.ContainsAny(s, c.set) {
			parts = append(parts, c.name)
		}
	}

	for _, r := range s {
		if r > 127 {
			parts = append(parts, "unicode")

			break
		}
	}

	if s == "" {
		return "empty"
	}

	if strings.TrimSpace(s) != s {
		parts = append(parts, "outer-space")
	}

	if len(parts) == 0 {
		if _, err := strconv.ParseFloat(s, 64); err == nil {
			return "numeric-text"
		}

		return "plain"
	}

	return strings.Join(parts, "+")
}

func domain(typ string, strLen int) []val {
	var out []val

	add := func(class string, js ...string) {
		for _, j := range js {
			out = append(out, val{JSON: j, Class: class})
		}
	}

	switch typ {
	case "string":
		for _, s := range enum.AllStrings(stringAlphabet, 0, strLen) {
			add(classOfString(s), jstr(s))
		}

		for _, s := range []string{"plain text", "1", "1.50", "true", "null", "NULL", "2024-06-15T12:00:00Z", "O'Brien", `say "hi"`, `C:\dir\file`, "tab\there", "日本語テキスト", "😀 emoji", "a\u0301 combining", strings.Repeat("long ", 400), " lead", "trail ", "{{name}}", "$1", "?", "\x7f", "line1\r\nline2", "nul\x00byte"} {
			add(classOfString(s), jstr(s))
		}
	case "int":
		add("small", "0", "1", "-1", "42", "-42", "1000000")
		add("32-bit-edge", "2147483647", "-2147483648", "2147483648", "-2147483649", "4294967296")
		add("53-bit-edge", "9007199254740991", "-9007199254740991", "9007199254740992")
		add("above-2^53", "9007199254740993", "-9007199254740993", "1152921504606846977", "9223372036854775807", "-9223372036854775808", "9223372036854775806")
	case "int32":
		add("small", "0", "1", "-1", "42", "-42", "65536")
		add("32-bit-edge", "2147483647", "-2147483648", "2147483646", "-2147483647")
	case "int16":
		add("small", "0", "1", "-1", "42", "-42", "255", "256")
		add("16-bit-edge", "32767", "-32768", "32766", "-32767")
	case "float64":
		add("small", "0", "1.5", "-1.5", "0.1", "0.25", "2", "-2", "100")
		add("negative-zero", "-0.0")
		add("precision", "0.1234567890123456", "123456789.12345678", "3.141592653589793", "2.718281828459045", "1e-7", "1.0000000000000002")
		add("large", "1e21", "1e100", "1.7976931348623157e308", "-1.7976931348623157e308", "9007199254740993.0", "1e15", "123456789012345678")
		add("tiny", "5e-324", "2.2250738585072014e-308", "1e-300")
	case "float32":
		add("small", "0", "1.5", "-1.5", "0.25", "2", "-2", "100", "0.1", "0.3")
		add("precision", "16777216", "16777217", "3.1415927", "1e-7")
		add("large", "3.4028235e38", "-3.4028235e38", "1e30")
		add("tiny", "1e-45", "1.1754944e-38")
	case "bool":
		add("bool", "true", "false")
	case "timestamp":
		add("utc", `"2024-06-15T12:00:00Z"`, `"1970-01-01T00:00:00Z"`, `"2000-02-29T23:59:59Z"`, `"1999-12-31T23:59:59Z"`, `"2038-01-19T03:14:08Z"`)
		add("offset", `"2024-06-15T12:00:00-05:00"`, `"2024-06-15T12:00:00+05:30"`, `"2024-01-01T00:30:00+14:00"`, `"2024-12-31T23:30:00-12:00"`, `"1959-12-07T10:35:00-05:00"`)
		add("far", `"0001-01-01T00:00:00Z"`, `"9999-12-31T23:59:59Z"`, `"1600-02-29T12:00:00Z"`, `"1000-06-01T00:00:01Z"`)
		add("date-only", `"2024-06-15"`, `"2024-02-29"`)
		add("subsecond", `"2024-06-15T12:00:00.5Z"`, `"2024-06-15T12:00:00.123456789Z"`)
	case "date":
		add("date-only", `"2024-06-15"`, `"2024-02-29"`, `"1970-01-01"`, `"1999-12-31"`, `"2000-01-01"`, `"1900-03-01"`)
		add("utc-midnight", `"2024-06-15T00:00:00Z"`)
	case "time":
		add("utc", `"2024-06-15T12:00:00Z"`, `"2024-06-15T00:00:00Z"`, `"2024-06-15T23:59:59Z"`)
		add("offset", `"2024-06-15T12:00:00-05:00"`, `"2024-06-15T01:30:00+05:30"`)
	}

	add("null", "null")

	return out
}

var (
	writePaths = []string{"insert", "update", "insertabs", "updateabs", "tx-insert", "tx-update"}
	readPaths  = []string{"rows", "abstract"}
)

func pathFamily(p string) string {
	switch p {
	case "insert", "update", "rows":
		return "rows"
	case "insertabs", "updateabs", "abstract":
		return "abstract"
	}

	return "tx"
}

// Case is one round trip; it is the replay witness too.
type Case struct {
	Type  string `json:"type"`
	Value val    `json:"value"`
	Write string `json:"write"`
}

func (c Case) key() string {
	b, _ := json.Marshal(c)

	return string(b)
}

func enumerate(thorough bool) []Case {
	// String lengths: on every path; on one path of each family; on row insert.
	strLen, deepLen, deepestLen := 1, 2, 2
	if thorough {
		strLen, deepLen, deepestLen = 2, 3, 4
	}

	var out []Case

	for _, t := range columnTypes {
		for _, v := range domain(t, strLen) {
			for _, w := range writePaths {
				out = append(out, Case{t, v, w})
			}
		}
	}

	for _, s := range enum.AllStrings(stringAlphabet, strLen+1, deepLen) {
		v := val{JSON: jstr(s), Class: classOfString(s)}

		out = append(out, Case{"string", v, "insert"}, Case{"string", v, "insertabs"}, Case{"string", v, "tx-update"})
	}

	for _, s := range enum.AllStrings(stringAlphabet, deepLen+1, deepestLen) {
		out = append(out, Case{"string", val{JSON: jstr(s), Class: classOfString(s)}, "insert"})
	}

	return out
}

// ---- the world ------------------------------------------------------------------

type world struct {
	srv  *tblsrv.Server
	next int
}

const dsn = "d"

func newWorld(dir string) (*world, error) {
	_ = os.MkdirAll(dir, 0o755)

	srv, err := tblsrv.New()
	if err != nil {
		return nil, err
	}

	path := filepath.Join(dir, "c18.db")
	for _, suffix := range []string{"", "-wal", "-shm"} {
		_ = os.Remove(path + suffix)
	}

	if err := srv.AddSQLiteDSN(dsn, "file:"+path+"?_pragma=synchronous(off)", true); err != nil {
		return nil, err
	}

	w := &world{srv: srv, next: 1}

	// Nothing is captured here; the hook only makes the woven sql.Open keep
	// track of the handles it hands out, so that do() can close them.
	vsql.VerifSetHook(func(vsql.VerifEvent) {})

	for _, t := range columnTypes {
		body, _ := json.Marshal([]map[string]any{
			{"name": "k", "type": "int"},
			{"name": "v", "type": t, "nullable": map[string]bool{"specified": true, "value": true}},
		})

		srv.Fresh()

		if st, rb, _ := srv.Do("PUT", "/dsns/"+dsn+"/tables/c_"+t, body, nil); st >= 300 {
			return nil, fmt.Errorf("create table c_%s: %d %s", t, st, rb)
		}
	}

	return w, nil
}

type step struct {
	Request  string `json:"request"`
	Status   int    `json:"status"`
	Response string `json:"response"`
}

func clip(s string, n int) string {
	s = strings.Join(strings.Fields(s), " ")
	if len(s) > n {
		return s[:n] + "…"
	}

	return s
}

func (w *world) do(steps *[]step, method, target string, body []byte) (int, []byte) {
	w.srv.Fresh()

	st, rb, _ := w.srv.Do(method, target, body, nil)

	// The abstract handlers never close their database handle; without this
	// the harness process runs out of file descriptors after a few thousand
	// requests and every later request fails for a reason of the harness's own.
	vsql.VerifCloseAll()

	if bytes.Contains(rb, []byte("too many open files")) || bytes.Contains(rb, []byte("unable to open database")) {
		fmt.Printf("{\"t\":\"fatal\",\"err\":%q}\n", "the harness process cannot open the database any more: "+clip(string(rb), 200))
		os.Exit(2)
	}

	*steps = append(*steps, step{Request: clip(method+" "+target+" "+string(body), 500), Status: st, Response: clip(string(rb), 500)})

	return st, rb
}

func abstractBody(k int, vjson string, withKey bool) []byte {
	if withKey {
		// The row id column is named (with a placeholder the server replaces):
		// without it InsertAbstractRows indexes past the end of the row on a
		// DSN that assigns row ids and answers 500 to every abstract insert.
		return []byte(fmt.Sprintf(`{"columns":[{"name":"k"},{"name":"v"},{"name":"_row_id_"}],"rows":[[%d,%s,""]],"count":1}`, k, vjson))
	}

	return []byte(fmt.Sprintf(`{"columns":[{"name":"v"}],"rows":[[%s]],"count":1}`, vjson))
}

// seed is the value a row holds before an update path overwrites it.
func seed(typ string) string {
	switch typ {
	case "string":
		return `"seed"`
	case "bool":
		return "false"
	case "timestamp", "date", "time":
		return `"2001-01-01T00:00:00Z"`
	case "float64", "float32":
		return "7.5"
	}

	return "7"
}

// write stores the value; ok is false when the server refused it.
func (w *world) write(c Case, k int, steps *[]step) bool {
	table := "/dsns/" + dsn + "/tables/c_" + c.Type + "/rows"
	filter := "?filter=" + fmt.Sprintf("EQ(k,%d)", k)
	row := func(v string) []byte { return []byte(fmt.Sprintf(`{"k":%d,"v":%s}`, k, v)) }

	var st int

	switch c.Write {
	case "insert":
		st, _ = w.do(steps, "PUT", table, row(c.Value.JSON))
	case "insertabs":
		st, _ = w.do(steps, "PUT", table+"?abstract=true", abstractBody(k, c.Value.JSON, true))
	case "tx-insert":
		st, _ = w.do(steps, "POST", "/dsns/"+dsn+"/tables/@transaction", []byte(fmt.Sprintf(`[{"operation":"insert","table":"c_%s","data":{"k":%d,"v":%s}}]`, c.Type, k, c.Value.JSON)))
	default:
		if st, _ = w.do(steps, "PUT", table, row(seed(c.Type))); st >= 300 {
			return false
		}

		switch c.Write {
		case "update":
			st, _ = w.do(steps, "PATCH", table+filter, []byte(fmt.Sprintf(`{"v":%s}`, c.Value.JSON)))
		case "updateabs":
			st, _ = w.do(steps, "PATCH", table+filter+"&abstract=true", abstractBody(k, c.Value.JSON, false))
		case "tx-update":
			st, _ = w.do(steps, "POST", "/dsns/"+dsn+"/tables/@transaction", []byte(fmt.Sprintf(`[{"operation":"update","table":"c_%s","filters":["EQ(k,%d)"],"data":{"v":%s}}]`, c.Type, k, c.Value.JSON)))
		}
	}

	return st < 300
}

// read fetches the row k and returns the JSON text of its v; found is false
// when the read failed or did not return exactly one row.
func (w *world) read(c Case, path string, k int, steps *[]step) (raw json.RawMessage, status int, found bool) {
	target := "/dsns/" + dsn + "/tables/c_" + c.Type + "/rows?filter=" + fmt.Sprintf("EQ(k,%d)", k)

	if path == "abstract" {
		st, rb := w.do(steps, "GET", target+"&abstract=true", nil)
		if st >= 300 {
			return nil, st, false
		}

		var rs struct {
			Columns []struct {
				Name string `json:"name"`
			} `json:"columns"`
			Rows [][]json.RawMessage `json:"rows"`
		}

		if json.Unmarshal(rb, &rs) != nil || len(rs.Rows) != 1 {
			return nil, st, false
		}

		for i, col := range rs.Columns {
			if col.Name == "v" && i < len(rs.Rows[0]) {
				return rs.Rows[0][i], st, true
			}
		}

		return nil, st, false
	}

	st, rb := w.do(steps, "GET", target, nil)
	if st >= 300 {
		return nil, st, false
	}

	var rs struct {
		Rows []map[string]json.RawMessage `json:"rows"`
	}

	if json.Unmarshal(rb, &rs) != nil || len(rs.Rows) != 1 {
		return nil, st, false
	}

	v, ok := rs.Rows[0]["v"]

	return v, st, ok
}

// ---- the oracle -----------------------------------------------------------------

// same decides whether the JSON value read is the value written, as a value of
// the column's documented type. unjudged = the documentation leaves it open.
func same(typ string, sent, got string) (equal bool, unjudged bool, why string) {
	got = strings.TrimSpace(got)

	if sent == "null" {
		return got == "null", false, "a null was written"
	}

	if got == "null" {
		return false, false, "a null was read"
	}

	switch typ {
	case "string":
		var a, b string

		if json.Unmarshal([]byte(sent), &a) != nil {
			return false, true, ""
		}

		if json.Unmarshal([]byte(got), &b) != nil {
			return false, false, "a string column read back as a non-string JSON value"
		}

		return a == b, false, "strings differ"
	case "int", "int16", "int32":
		// An integer is its digits: compare exactly, whatever the JSON spelling
		// (1, 1.0, 1e0) the reader chose.
		a, okA := exactInt(sent)
		b, okB := exactInt(got)

		if !okA {
			return false, true, ""
		}

		if !okB {
			return false, false, "an integer column read back as a non-integer JSON value"
		}

		return a == b, false, "integers differ"
	case "float64":
		a, errA := strconv.ParseFloat(sent, 64)
		b, errB := strconv.ParseFloat(got, 64)

		if errA != nil {
			return false, true, ""
		}

		if errB != nil {
			return false, false, "a float64 column read back as a non-number"
		}

		return a == b, false, "float64 values differ"
	case "float32":
		a, errA := strconv.ParseFloat(sent, 32)
		b, errB := strconv.ParseFloat(got, 64)

		if errA != nil {
			return false, true, ""
		}

		if errB != nil {
			return false, false, "a float32 column read back as a non-number"
		}

		return float32(a) == float32(b), false, "float32 values differ"
	case "bool":
		return got == sent, false, "a bool column must read back as the JSON boolean written"
	case "timestamp", "date", "time":
		var a, b string

		if json.Unmarshal([]byte(sent), &a) != nil {
			return false, true, ""
		}

		if json.Unmarshal([]byte(got), &b) != nil {
			return false, false, "a time column read back as a non-string JSON value"
		}

		ta, okA := parseTime(a)
		tb, okB := parseTime(b)

		if !okA {
			return false, true, ""
		}

		if !okB {
			return false, false, "the value read is not an RFC 3339 time or a date"
		}

		// Sub-second digits are not judged.
		ta, tb = ta.Truncate(time.Second), tb.Truncate(time.Second)

		if typ == "time" {
			// A time of day: the instant's UTC clock reading.
			ha, ma, sa := ta.UTC().Clock()
			hb, mb, sb := tb.UTC().Clock()

			return ha == hb && ma == mb && sa == sb, false, "times of day (UTC) differ"
		}

		return ta.Equal(tb), false, "instants differ"
	}

	return false, true, ""
}

func parseTime(s string) (time.Time, bool) {
	for _, layout := range []string{time.RFC3339Nano, "2006-01-02"} {
		if t, err := time.Parse(layout, s); err == nil {
			return t, true
		}
	}

	return time.Time{}, false
}

// exactInt reads a JSON number that denotes an integer, exactly.
func exactInt(s string) (string, bool) {
	s = strings.TrimSpace(s)
	if _, err := strconv.ParseInt(s, 10, 64); err == nil {
		return strings.TrimPrefix(s, "+"), true
	}

	// 1.0, 1e3, 9.007199254740993e15: exact decimal arithmetic on the text.
	f, ok := new(bigFloat).parse(s)
	if !ok {
		return "", false
	}

	return f, true
}

// bigFloat turns a decimal JSON number into its integer digits when it is one.
type bigFloat struct{}

func (*bigFloat) parse(s string) (string, bool) {
	neg := strings.HasPrefix(s, "-")
	s = strings.TrimPrefix(s, "-")

	mant, exp := s, 0

	if i := strings.IndexAny(s, "eE"); i >= 0 {
		e, err := strconv.Atoi(s[i+1:])
		if err != nil {
			return "", false
		}

		mant, exp = s[:i], e
	}

	intPart, frac := mant, ""
	if i := strings.IndexByte(mant, '.'); i >= 0 {
		intPart, frac = mant[:i], mant[i+1:]
	}

	digits := intPart + frac
	exp -= len(frac)

	for _, c := range digits {
		if c < '0' || c > '9' {
			return "", false
		}
	}

	for exp < 0 {
		if !strings.HasSuffix(digits, "0") {
			return "", false
		}

		digits = digits[:len(digits)-1]
		exp++
	}

	if exp > 40 {
		return "", false
	}

	digits = strings.TrimLeft(digits+strings.Repeat("0", exp), "0")
	if digits == "" {
		return "0", true
	}

	if neg {
		digits = "-" + digits
	}

	return digits, true
}

// ---- one case ---------------------------------------------------------------------

type finding struct {
	Cell string
	Msg  string
}

type result struct {
	Findings []finding
	Steps    []step
	Written  bool
	Judged   bool
}

// run writes the value once and reads it back through both read paths. A
// difference both readers agree on is put down to the write path, a
// difference only one reader shows to that reader.
func (w *world) run(c Case) result {
	k := w.next
	w.next++

	var res result

	if !w.write(c, k, &res.Steps) {
		return res // refused: nothing was written, nothing to read back
	}

	res.Written = true

	type reading struct {
		path, shape, msg, got string
	}

	var bad []reading

	for _, path := range readPaths {
		raw, st, found := w.read(c, path, k, &res.Steps)
		if !found {
			bad = append(bad, reading{path, "unreadable", fmt.Sprintf("%s value %s was accepted by %s but cannot be read back through %s (status %d)", c.Type, clip(c.Value.JSON, 80), c.Write, path, st), "?"})

			continue
		}

		equal, unjudged, why := same(c.Type, c.Value.JSON, string(raw))
		if unjudged {
			continue
		}

		res.Judged = true

		if !equal {
			bad = append(bad, reading{path, "altered", fmt.Sprintf("%s value %s written by %s reads back through %s as %s (%s)", c.Type, clip(c.Value.JSON, 80), c.Write, path, clip(string(raw), 80), why), string(raw)})
		}
	}

	cell := func(shape, side string) string {
		return fmt.Sprintf("%s:%s:%s:%s", c.Type, c.Value.Class, shape, side)
	}

	// Integers beyond 2^53 are damaged where the request's JSON numbers become
	// float64, whatever each reader then makes of the damaged value.
	if len(bad) == len(readPaths) || (len(bad) > 0 && c.Value.Class == "above-2^53") {
		if len(bad) == 1 {
			bad = append(bad, reading{path: "the other read path", got: "the value written"})
		}

		res.Findings = append(res.Findings, finding{cell(bad[0].shape, "write="+pathFamily(c.Write)), bad[0].msg + "; through " + bad[1].path + " it reads " + clip(bad[1].got, 80)})

		return res
	}

	for _, b := range bad {
		res.Findings = append(res.Findings, finding{cell(b.shape, "read="+pathFamily(b.path)), b.msg})
	}

	return res
}

// ---- driver -------------------------------------------------------------------------

type witness struct {
	Case  Case   `json:"case"`
	Steps []step `json:"steps"`
}

type workerMsg struct {
	T        string         `json:"t"`
	Cell     string         `json:"cell,omitempty"`
	Msg      string         `json:"msg,omitempty"`
	Witness  *witness       `json:"w,omitempty"`
	Size     int            `json:"size,omitempty"`
	Written  []int          `json:"written,omitempty"`
	Counters map[string]int `json:"counters,omitempty"`
	Samples  []any          `json:"samples,omitempty"`
	Err      string         `json:"err,omitempty"`
}

// witnessSize orders witnesses: shorter values first, ties broken by the
// case itself so that the reported witness does not depend on worker timing.
func witnessSize(c Case) int {
	h := 0
	for _, b := range []byte(c.key()) {
		h = (h*31 + int(b)) % 1000
	}

	return len(c.Value.JSON)*1000 + h
}

func worker(k, n int, thorough bool) {
	enc := json.NewEncoder(os.Stdout)
	cases := enumerate(thorough)

	w, err := newWorld(filepath.Join(os.Getenv("VERIF_SCRATCH"), fmt.Sprintf("w%d", k)))
	if err != nil {
		_ = enc.Encode(workerMsg{T: "fatal", Err: err.Error()})
		os.Exit(2)
	}

	done := workerMsg{T: "done", Counters: map[string]int{}}

	for i := k; i < len(cases); i += n {
		c := cases[i]
		res := w.run(c)

		done.Counters["evaluations"]++
		done.Counters["requests"] += len(res.Steps)
		done.Counters["type:"+c.Type]++

		switch {
		case !res.Written:
			done.Counters["refused_by_server"]++
			done.Counters["refused:"+c.Type+":"+c.Value.Class+":"+pathFamily(c.Write)]++
		case !res.Judged:
			done.Counters["unjudged"]++
		default:
			done.Written = append(done.Written, i)
		}

		if len(done.Samples) < 2 && res.Written && i%131 == k {
			done.Samples = append(done.Samples, witness{c, res.Steps})
		}

		for _, f := range res.Findings {
			_ = enc.Encode(workerMsg{T: "v", Cell: f.Cell, Msg: f.Msg, Witness: &witness{c, res.Steps}, Size: witnessSize(c)})
		}
	}

	_ = enc.Encode(done)
}

func main() {
	if spec := os.Getenv("VERIF_C18_WORKER"); spec != "" {
		parts := strings.Split(spec, "/")
		k, _ := strconv.Atoi(parts[0])
		n, _ := strconv.Atoi(parts[1])

		worker(k, n, os.Getenv("VERIF_TIER") == "thorough")

		return
	}

	r := report.New("exploration")
	strLen := r.Pick(1, 2)

	r.Rule(fmt.Sprintf("column types %v x per-type domain (boundary values; for string also every string of 0..%d symbols over %q, 0..%d on three paths, 0..%d on row insert) and null "+
		"x write path %v, each read back through both read paths %v; each value is written to a table created through the REST create endpoint on SQLite and read back with a key filter; "+
		"distinct = a round trip whose write the server accepted and whose comparison is decided by the column's documented type",
		columnTypes, strLen, stringAlphabet, strLen+1, r.Pick(2, 4), writePaths, readPaths))
	r.Assume(
		"SQLite backend; root user; requests through Router.ServeHTTP with httptest recorders",
		"equality per documented type: strings exact; integers exact digits; float64 exact; float32 equal after rounding to float32; bool as JSON booleans; timestamp/date as the same instant at second resolution (values are normalised to UTC, sub-second digits not judged); time as the same UTC clock reading; null as null",
		"a write the server refuses (status >= 300) is not a round trip and is only counted",
	)

	if r.Replay != "" {
		var w witness
		if err := report.LoadReplay(r.Replay, &w); err != nil {
			report.Fatal("%v", err)
		}

		wd, err := newWorld(filepath.Join(os.Getenv("VERIF_SCRATCH"), "replay"))
		if err != nil {
			report.Fatal("%v", err)
		}

		res := wd.run(w.Case)
		for _, s := range res.Steps {
			fmt.Printf("  %s\n    => %d %s\n", s.Request, s.Status, s.Response)
		}

		for _, f := range res.Findings {
			r.Violation(f.Cell, len(w.Case.Value.JSON), witness{w.Case, res.Steps}, f.Msg)
		}

		r.Eval(1)
		r.Distinct(w.Case.key())
		r.Distinct("replay")
		r.Sample(witness{w.Case, res.Steps})
		r.Finish()
	}

	cases := enumerate(r.Thorough())

	nw := r.Pick(4, 6)
	if v, err := strconv.Atoi(os.Getenv("VERIF_C18_WORKERS")); err == nil && v > 0 {
		nw = v
	}

	self, err := os.Executable()
	if err != nil {
		report.Fatal("%v", err)
	}

	var (
		wg       sync.WaitGroup
		mu       sync.Mutex
		counters = map[string]int{}
		fatal    string
	)

	for k := 0; k < nw; k++ {
		wg.Add(1)

		go func(k int) {
			defer wg.Done()

			cmd := exec.Command(self)
			cmd.Env = append(os.Environ(), fmt.Sprintf("VERIF_C18_WORKER=%d/%d", k, nw), "GOMAXPROCS=2")
			cmd.Stderr = os.Stderr

			out, err := cmd.StdoutPipe()
			if err == nil {
				err = cmd.Start()
			}

			if err != nil {
				mu.Lock()
				fatal = err.Error()
				mu.Unlock()

				return
			}

			sc := bufio.NewScanner(out)
			sc.Buffer(make([]byte, 1<<20), 1<<28)

			finished := false

			for sc.Scan() {
				var m workerMsg
				if err := json.Unmarshal(bytes.TrimSpace(sc.Bytes()), &m); err != nil {
					continue
				}

				switch m.T {
				case "v":
					r.Violation(m.Cell, m.Size, m.Witness, m.Msg)
				case "fatal":
					mu.Lock()
					fatal = m.Err
					mu.Unlock()
				case "done":
					finished = true

					mu.Lock()
					for key, v := range m.Counters {
						counters[key] += v
					}
					mu.Unlock()

					for _, i := range m.Written {
						r.Distinct(cases[i].key())
					}

					for _, s := range m.Samples {
						r.Sample(s)
					}
				}
			}

			if err := cmd.Wait(); err != nil || !finished {
				mu.Lock()
				if fatal == "" {
					fatal = fmt.Sprintf("worker %d ended early: %v", k, err)
				}
				mu.Unlock()
			}
		}(k)
	}

	wg.Wait()

	if fatal != "" {
		report.Fatal("%s", fatal)
	}

	if counters["evaluations"] != len(cases) {
		report.Fatal("workers ran %d of %d cases", counters["evaluations"], len(cases))
	}

	r.Eval(counters["evaluations"])

	keys := make([]string, 0, len(counters))
	for k := range counters {
		keys = append(keys, k)
	}

	sort.Strings(keys)

	for _, k := range keys {
		if k != "evaluations" {
			r.Set(k, counters[k])
		}
	}

	r.Set("cases", len(cases))
	r.Set("workers", nw)
	r.Finish()
}

var _ = math.MaxInt64

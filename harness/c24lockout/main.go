// C24: failed logins lock the account as configured.
//
// E-seq: BFS over every history of (user, right/wrong password) logins through
// the real Session.Authenticate (Basic credentials) and clock advances, for
// several (limit, lockout) configurations, on a virtual clock with the pruning
// goroutine managed. The statement's clauses are invariants of a reference
// model that keeps, per user, the smallest and largest number of consecutive
// failures the text allows an implementation to remember.
package main

import (
	"encoding/base64"
	"fmt"
	"net/http"
	"net/http/httptest"
	"os"
	"os/exec"
	"path/filepath"
	"strconv"
	"strings"
	"time"

	"golang.org/x/crypto/bcrypt"

	"github.com/tucats/ego/internal/cli/settings"
	"github.com/tucats/ego/internal/defs"
	"github.com/tucats/ego/internal/router"
	"github.com/tucats/ego/internal/server/auth"
	"github.com/tucats/ego/internal/verifrt/enum"
	"github.com/tucats/ego/internal/verifrt/report"
	"github.com/tucats/ego/internal/verifrt/seqx"
	"github.com/tucats/ego/internal/verifrt/vsched"
	vtime "github.com/tucats/ego/internal/verifrt/vtime"
)

var (
	hash       string
	pwChecks   int // how often the user service was asked for credentials
	userNames  = []string{"ursula", "victor"}
	rightPass  = "right-password"
	wrongPass  = "wrong-password"
)

type users struct{}

func (users) ReadUser(_ int, name string, _ bool) (defs.User, error) {
	pwChecks++

	for _, u := range userNames {
		if u == name {
			return defs.User{Name: name, Password: hash, Permissions: []string{defs.LogonPermission}}, nil
		}
	}

	return defs.User{}, fmt.Errorf("no such user")
}
func (users) WriteUser(int, defs.User) error      { return nil }
func (users) DeleteUser(int, string) error        { return nil }
func (users) ListUsers(bool) map[string]defs.User { return nil }
func (users) Flush() error                        { return nil }
func (users) Close() error                        { return nil }

type Ev struct {
	Op   string `json:"op"` // login advance
	User int    `json:"user,omitempty"`
	Good bool   `json:"good,omitempty"`
	Dur  string `json:"dur,omitempty"`
	// Case: present the user name in upper case (names are case-insensitive)
	Upper bool `json:"upper,omitempty"`
}

func (e Ev) String() string {
	if e.Op == "advance" {
		return "advance(" + e.Dur + ")"
	}

	n := userNames[e.User]
	if e.Upper {
		n = strings.ToUpper(n)
	}

	if e.Good {
		return "login(" + n + ",right)"
	}

	return "login(" + n + ",wrong)"
}

type cfg struct {
	Limit   int
	Lockout time.Duration
}

type muser struct {
	run          int       // consecutive checked failures since the last success / lock end / possible pruning
	fMin, fMax   int       // consecutive failures an implementation must / may remember
	lastFailure  time.Time
	mustLocked   time.Time // refused for sure until then
	mayLocked    time.Time // may be refused until then
}

type model struct {
	c cfg
	u [2]muser
}

type obs struct {
	authenticated bool
	lockedOut     bool
	retryAfter    int
	checked       bool // the user service was consulted
}

func login(e Ev) obs {
	name := userNames[e.User]
	if e.Upper {
		name = strings.ToUpper(name)
	}

	pass := wrongPass
	if e.Good {
		pass = rightPass
	}

	req := httptest.NewRequest(http.MethodGet, "/x", nil)
	req.Header.Set("Authorization", "Basic "+base64.StdEncoding.EncodeToString([]byte(name+":"+pass)))

	before := pwChecks
	s := (&router.Session{ID: 1}).Authenticate(req)

	return obs{authenticated: s.Authenticated, lockedOut: s.LockedOut, retryAfter: s.RetryAfter, checked: pwChecks > before}
}

// judge compares one login with the statement's clauses and updates the model.
func (m *model) judge(e Ev, o obs, now time.Time) (string, string) {
	u := &m.u[e.User]
	lim := m.c.Limit

	if o.lockedOut && o.authenticated {
		return "locked-and-authenticated", "a request was both refused as locked out and authenticated"
	}

	if o.lockedOut {
		if lim == 0 {
			return "locked:limit-zero", "an account was locked although the limit is zero"
		}

		if u.fMax < lim {
			return "locked:below-limit", fmt.Sprintf("%s was refused as locked after at most %d consecutive failures, limit %d", userNames[e.User], u.fMax, lim)
		}

		if !now.Before(u.mayLocked) {
			return "locked:after-period", fmt.Sprintf("%s was still refused %v after the lockout period ended", userNames[e.User], now.Sub(u.mayLocked))
		}

		if o.checked {
			return "locked:password-checked", "a locked-out request still had its password checked"
		}

		if o.retryAfter <= 0 {
			return "locked:no-retry-after", "a locked-out request carries no retry time"
		}

		return "", ""
	}

	// not refused as locked
	if now.Before(u.mustLocked) {
		return "not-locked:within-period", fmt.Sprintf("%s reached the limit of %d consecutive failures %v ago and was not refused (lockout %v)", userNames[e.User], lim, now.Sub(u.mustLocked.Add(-m.c.Lockout)), m.c.Lockout)
	}

	if !o.checked {
		return "unchecked:not-locked", "a request that was not locked out was decided without consulting the user store"
	}

	if o.authenticated != e.Good {
		if e.Good {
			return "right-password:refused", "the right password of an unlocked account was refused"
		}

		return "wrong-password:accepted", "a wrong password was accepted"
	}

	if e.Good {
		*u = muser{}

		return "", ""
	}

	// a checked failure
	if lim == 0 {
		return "", ""
	}

	// an idle record may have been pruned (the text is silent): the implementation may have forgotten
	if !u.lastFailure.IsZero() && now.Sub(u.lastFailure) > 2*m.c.Lockout {
		u.fMin = 0
		u.run = 0
	}

	u.fMin++
	u.fMax++
	u.lastFailure = now

	// A fresh run of `limit` consecutive failures, all of them strictly after
	// any earlier lockout can have ended, must lock under every reading of the
	// statement (whether or not an implementation keeps counting across a
	// lockout): an account that is never locked again after its first lockout
	// has passed gives unlimited guesses.
	// clear: this failure lies strictly after the end of every lockout that
	// earlier failures can have started (u.mayLocked still holds the bound set
	// by EARLIER failures here). A failure at the very instant a lockout ends is
	// neither refused nor counted by the implementation's strict comparisons;
	// the statement does not settle that instant, so nothing is demanded of it.
	clear := now.After(u.mayLocked)
	if clear {
		u.run++
	}

	if (u.fMin == lim && clear) || u.run == lim {
		u.mustLocked = now.Add(m.c.Lockout)
		u.run = 0
	}

	if u.fMax >= lim {
		if t := now.Add(m.c.Lockout); t.After(u.mayLocked) {
			u.mayLocked = t
		}
	}

	return "", ""
}

func (m *model) key(now time.Time) string {
	s := ""

	for _, u := range m.u {
		rel := func(t time.Time) int64 {
			if t.IsZero() || !t.After(now) {
				return -1
			}

			return int64(t.Sub(now) / time.Second)
		}

		idle := int64(-1)
		if !u.lastFailure.IsZero() {
			idle = int64(now.Sub(u.lastFailure) / time.Second)
			if idle > int64(2*m.c.Lockout/time.Second) {
				idle = int64(2*m.c.Lockout/time.Second) + 1
			}
		}

		s += fmt.Sprintf("%d/%d/%d/%d/%d/%d;", u.run, u.fMin, u.fMax, idle, rel(u.mustLocked), rel(u.mayLocked))
	}

	return s
}

func alphabet(c cfg, thorough bool) []Ev {
	evs := []Ev{
		{Op: "login", User: 0, Good: false}, {Op: "login", User: 0, Good: true},
		{Op: "login", User: 1, Good: false}, {Op: "login", User: 1, Good: true},
		{Op: "login", User: 0, Good: false, Upper: true},
	}

	L := c.Lockout
	for _, d := range []time.Duration{time.Second, L - time.Second, L + time.Second, 2*L + time.Second, 5 * time.Minute} {
		evs = append(evs, Ev{Op: "advance", Dur: d.String()})
	}

	return evs
}

type witness struct {
	Limit   int    `json:"limit"`
	Lockout string `json:"lockout"`
	History []Ev   `json:"history"`
	Text    string `json:"text"`
}

func text(h []Ev) string {
	p := make([]string, len(h))
	for i, e := range h {
		p[i] = e.String()
	}

	return strings.Join(p, "; ")
}

func explore(r *report.R, c cfg, depth int) seqx.Stats {
	settings.SetDefault(defs.AuthMaxAttemptsSetting, strconv.Itoa(c.Limit))
	settings.SetDefault(defs.AuthLockoutDurationSetting, c.Lockout.String())

	var m *model

	evs := alphabet(c, r.Thorough())

	return seqx.Run(seqx.Spec[Ev]{
		Events: evs, MaxDepth: depth, StopAtViolation: true,
		Wrap: func(body func()) {
			out := vsched.Run(vsched.Config{Horizon: 500000}, body)
			if out.Panic != nil || out.Deadlock || out.Horizon {
				r.Violation("seq:crash", 0, map[string]any{"panic": out.Panic, "deadlock": out.Deadlock, "stack": out.PanicStk}, "a history crashed or deadlocked")
			}
		},
		Fresh: func() {
			router.VerifResetRateLimit()
			pwChecks = 0
			m = &model{c: c}
		},
		Step: func(e Ev, last bool) (string, string) {
			r.Eval(1)

			if e.Op == "advance" {
				d, _ := time.ParseDuration(e.Dur)
				vtime.Advance(d)
				vsched.Settle()

				return "", ""
			}

			o := login(e)
			vsched.Settle()

			return m.judge(e, o, vsched.Now())
		},
		Key: func() string {
			k := fmt.Sprintf("%d/%v|", c.Limit, c.Lockout) + m.key(vsched.Now()) + "|" + router.VerifDumpRateLimit(vsched.Now()) + "|" + fmt.Sprint(vsched.Sleepers())
			r.Distinct(k)

			return k
		},
		Violation: func(h []Ev, cell, msg string) {
			r.Violation(cell, len(h), witness{Limit: c.Limit, Lockout: c.Lockout.String(), History: h, Text: text(h)}, fmt.Sprintf("[limit %d, lockout %v] %s", c.Limit, c.Lockout, msg))
		},
	})
}

func configs(thorough bool) []cfg {
	if thorough {
		var out []cfg

		for lim := 0; lim <= 6; lim++ {
			out = append(out, cfg{lim, time.Minute})
		}

		return append(out, cfg{1, 15 * time.Minute}, cfg{3, 15 * time.Minute}, cfg{5, 15 * time.Minute})
	}

	return []cfg{{0, time.Minute}, {1, time.Minute}, {2, time.Minute}, {3, time.Minute}, {3, 15 * time.Minute}}
}

func main() {
	r := report.New("model_checking")

	h, err := bcrypt.GenerateFromPassword([]byte(rightPass), bcrypt.MinCost)
	if err != nil {
		report.Fatal("bcrypt: %v", err)
	}

	hash = string(h)
	auth.AuthService = users{}
	depth := r.Pick(6, 8)
	cfgs := configs(r.Thorough())

	if len(os.Args) > 3 && os.Args[1] == "cfg" {
		i, _ := strconv.Atoi(os.Args[2])
		st := explore(r, cfgs[i], depth)
		r.Add("seq_states", int64(st.States))
		r.Add("seq_transitions", int64(st.Transitions))
		r.Set(fmt.Sprintf("config:limit=%d,lockout=%v", cfgs[i].Limit, cfgs[i].Lockout), map[string]any{"states": st.States, "transitions": st.Transitions, "depth": st.Depth, "states_per_depth": st.PerDepth})
		r.SavePartial(os.Args[3])
	}

	if r.Replay != "" {
		var w witness
		if err := report.LoadReplay(r.Replay, &w); err != nil {
			report.Fatal("%v", err)
		}

		L, _ := time.ParseDuration(w.Lockout)
		c := cfg{w.Limit, L}
		settings.SetDefault(defs.AuthMaxAttemptsSetting, strconv.Itoa(c.Limit))
		settings.SetDefault(defs.AuthLockoutDurationSetting, c.Lockout.String())

		vsched.Run(vsched.Config{}, func() {
			router.VerifResetRateLimit()
			m := &model{c: c}

			for i, e := range w.History {
				if e.Op == "advance" {
					d, _ := time.ParseDuration(e.Dur)
					vtime.Advance(d)
					vsched.Settle()
					fmt.Printf("  %d %s\n", i, e)

					continue
				}

				o := login(e)
				vsched.Settle()
				cell, msg := m.judge(e, o, vsched.Now())
				fmt.Printf("  %d %-28s auth=%v locked=%v checked=%v %s %s\n", i, e, o.authenticated, o.lockedOut, o.checked, cell, msg)

				if cell != "" {
					r.Violation(cell, len(w.History), w, msg)
				}
			}
		})
		r.Eval(1)
		r.Finish()
	}

	type res struct {
		path string
		err  error
		out  []byte
	}

	results := make([]res, len(cfgs))

	enum.Par(len(cfgs), func(i int) {
		p := filepath.Join(os.Getenv("VERIF_SCRATCH"), fmt.Sprintf("part-%d.json", i))
		cmd := exec.Command(os.Args[0], "cfg", strconv.Itoa(i), p)
		cmd.Env = append(os.Environ(), "GOMAXPROCS=2")
		out, err := cmd.CombinedOutput()
		results[i] = res{p, err, out}
	})

	for i, rs := range results {
		if rs.err != nil {
			report.Fatal("worker %d failed: %v\n%s", i, rs.err, rs.out)
		}

		r.MergePartial(rs.path)
	}

	st, tr := int(r.IntCov("seq_states")), int(r.IntCov("seq_transitions"))
	r.Set("states", st)
	r.Set("transitions", tr)
	r.Set("traces_validated_against_impl", tr)
	r.Set("depth", depth)
	r.Sample(map[string]any{"config": fmt.Sprintf("limit=%d lockout=%v", cfgs[1].Limit, cfgs[1].Lockout), "events": func() []string {
		var s []string
		for _, e := range alphabet(cfgs[1], false) {
			s = append(s, e.String())
		}

		return s
	}()})
	r.Rule(fmt.Sprintf("BFS over every history of depth<=%d over 10 events (2 users x right/wrong password, one upper-case user name, clock advances of 1s, lockout-1s, lockout+1s, 2*lockout+1s, 5m) for %d (limit, lockout) configurations through the real Authenticate on a virtual clock; distinct = canonical states (model + tracker dump + sleeper offsets)", depth, len(cfgs)))
	r.Assume("stub user store with a cost-4 bcrypt hash; where the text is silent (a further failure after the lockout has passed; pruning of records idle for twice the lockout) the model accepts both answers")
	r.Finish()
}

// C27: decrypting the output of encryption with the same key returns the
// original text; decrypting anything else (any truncation, extension or
// single-byte edit of a ciphertext, or the right ciphertext under another key)
// reports an error instead of returning text. Checked on the real entry
// points: util.Encrypt/Decrypt (v3, and harness-built v2 / legacy framing that
// Decrypt still reads), settings.Encrypt/Decrypt (v3, v2, legacy; byte level
// and base64-text level) and token Unwrap/Validate.
//
// Bounded-exhaustive: for every base ciphertext EVERY truncation length, EVERY
// head cut, EVERY byte position x mask set, the listed extensions and wrong
// keys are generated. Cases that do not reach a key derivation (all short
// cuts, the legacy framings, edits of the magic/prefix) all run; of the cases
// that reach Argon2id (32 MiB each) or PBKDF2 a stated subset runs, see
// selectKDF. Nothing random decides a verdict: salts and nonces are random but
// only the ciphertext lengths matter for the counts.
package main

import (
	"bytes"
	"crypto/aes"
	"crypto/cipher"
	"crypto/md5"
	"crypto/sha256"
	"encoding/base64"
	"encoding/hex"
	"encoding/json"
	"fmt"
	"os"
	"strings"
	"sync"
	"sync/atomic"
	"time"

	"github.com/google/uuid"
	"golang.org/x/crypto/pbkdf2"

	"github.com/tucats/ego/internal/cli/settings"
	"github.com/tucats/ego/internal/language/tokens"
	"github.com/tucats/ego/internal/util"
	"github.com/tucats/ego/internal/verifrt/enum"
	"github.com/tucats/ego/internal/verifrt/report"
)

// witness is self-contained: replay hands Input to the named entry point with
// Key and expects an error (or the plaintext, for a round trip).
type witness struct {
	Layer   string `json:"layer"`   // util | settings | token
	Framing string `json:"framing"` // v3 | v2 | legacy
	Op      string `json:"op"`      // what was done to the ciphertext
	Key     string `json:"key"`     // key handed to Decrypt (token: EGO_SERVER_TOKEN_KEY)
	Plain   string `json:"plaintext"`
	Input   string `json:"input_hex"` // util/token: ciphertext bytes in hex; settings: the text in hex
	Kind    string `json:"kind"`      // cell component
	Expect  string `json:"expect"`    // "error" or "roundtrip"
	Got     string `json:"got,omitempty"`
}

// edit describes a generated tamper case for the budget selection.
type edit struct {
	typ   string // cut | headcut | ext | edit | text-cut | text-edit | text-ext | text-prefix | wrong-key | roundtrip
	n     int    // cut: remaining length; edit: position; ext: index
	total int    // length of the base
	mask  byte   // edit: xor mask; text-edit: index of the replacement character
}

type kase struct {
	w        witness
	input    []byte // bytes handed to the entry point (settings: the text)
	size     int
	validate bool // token: also hand it to tokens.Validate
}

// reachesKDF predicts whether the entry point derives a key for this input:
// 2 = Argon2id (32 MiB of fresh memory per call), 1 = PBKDF2 (CPU only),
// 0 = none. It only selects which cases a tier can afford and how many of them
// run at once; it never takes part in a verdict.
func reachesKDF(layer string, in []byte) int {
	switch layer {
	case "settings":
		if !bytes.HasPrefix(in, []byte("v3:")) {
			return 0
		}

		if b, err := base64.StdEncoding.DecodeString(string(in[3:])); err == nil && len(b) >= 16 {
			return 2
		}

		return 0
	default:
		if len(in) >= 20 && in[0] == 0xFF && in[1] == 0x45 && in[2] == 0x47 {
			switch in[3] {
			case 0x33:
				return 2
			case 0x4F:
				return 1
			}
		}

		return 0
	}
}

// selectKDF is the budget rule for the tamper cases that reach a KDF. Cases
// that reach none always run; round trips and wrong keys always run. Each
// Argon2id call writes 32 MiB of freshly allocated memory, which on the
// verification host costs 0.05-1 s, so these are the cases that are rationed.
//
//	PBKDF2 (util v2): bases with key "k" and plaintext "" or "a" (thorough:
//	  every base with key "k" or plaintext "a"); every generated case.
//	Argon2id (util v3, settings v3), quick: base ("a",k): every cut length,
//	  every 4th head cut, two extensions, mask 01 at every position; text
//	  level: every cut, the high-bit symbol replacement at every 2nd position,
//	  every extension / prefix swap.
//	Argon2id, thorough: bases ("a",k), ("",k), ("a",unicode key): every cut,
//	  head cut, extension; masks 01 and FF at every position; text level:
//	  every cut, the high-bit replacement at every position, extensions and
//	  prefix swaps. Bases (16 bytes,k) and (100 bytes,k): every cut length and
//	  mask 01 at every 2nd position.
//	Token (Argon2id), quick: cuts to every 2nd n<36, n%16==0 and the last 17
//	  lengths; mask 01 at every 2nd position <36, pos%16==0 and the last 16.
//	  thorough: first token every cut and mask 01 at every 2nd position;
//	  second token as quick.
func selectKDF(thorough bool, kdf int, w witness, e edit, baseIndex int) bool {
	keyK := w.Key == "k"

	if w.Layer == "token" {
		if thorough && baseIndex == 0 {
			return e.typ != "edit" || e.n%2 == 0
		}

		switch e.typ {
		case "cut", "headcut":
			return (e.n < 36 && e.n%2 == 0) || e.n%16 == 0 || e.n >= e.total-17
		case "edit":
			return (e.n < 36 && e.n%2 == 0) || e.n%16 == 0 || e.n >= e.total-16
		default:
			return e.n < 2
		}
	}

	if kdf == 1 {
		if thorough {
			return keyK || w.Plain == "a"
		}

		return keyK && len(w.Plain) <= 1
	}

	if !thorough {
		if !(keyK && w.Plain == "a") {
			return false
		}

		switch e.typ {
		case "headcut":
			return e.n%4 == 0
		case "ext":
			return e.n < 2
		case "edit":
			return e.mask == 0x01
		case "text-edit":
			return e.mask == 1 && e.n%2 == 0 // the high-bit replacement
		}

		return true
	}

	switch {
	case len(w.Plain) <= 1 && keyK, w.Plain == "a" && w.Key == unicodeKey:
		switch e.typ {
		case "edit":
			return e.mask == 0x01 || e.mask == 0xFF
		case "text-edit":
			return e.mask == 1
		}

		return true
	case keyK:
		switch e.typ {
		case "cut":
			return true
		case "edit":
			return e.mask == 0x01 && e.n%2 == 0
		}
	}

	return false
}

const unicodeKey = "пароль-鍵"

// parN runs f(0..n-1) on w goroutines.
func parN(w, n int, f func(i int)) {
	var (
		wg   sync.WaitGroup
		next atomic.Int64
	)

	for g := 0; g < w; g++ {
		wg.Add(1)

		go func() {
			defer wg.Done()

			for {
				i := int(next.Add(1)) - 1
				if i >= n {
					return
				}

				f(i)
			}
		}()
	}

	wg.Wait()
}

// ---------------------------------------------------------------------------
// reference encryptors for the two old framings that the code can still read
// but no longer writes (formats as documented in the two crypto.go files).

func gcmSeal(key, nonce, plain []byte) []byte {
	block, err := aes.NewCipher(key)
	if err != nil {
		report.Fatal("aes: %v", err)
	}

	gcm, err := cipher.NewGCM(block)
	if err != nil {
		report.Fatal("gcm: %v", err)
	}

	return gcm.Seal(append([]byte{}, nonce...), nonce, plain, nil)
}

func fixed(n int, seed byte) []byte {
	b := make([]byte, n)
	for i := range b {
		b[i] = seed + byte(i)*7
	}

	return b
}

func md5hex(s string) []byte {
	h := md5.Sum([]byte(s))

	return []byte(hex.EncodeToString(h[:]))
}

func utilV2(plain, pass string) []byte {
	salt := fixed(16, 0x21)
	key := pbkdf2.Key([]byte(pass), salt, 100_000, 32, sha256.New)
	out := append([]byte{0xFF, 0x45, 0x47, 0x4F}, salt...)

	return append(out, gcmSeal(key, fixed(12, 0x51), []byte(plain))...)
}

func utilLegacy(plain, pass string) []byte {
	return gcmSeal(md5hex(pass), fixed(12, 0x52), []byte(plain))
}

func settingsV2(plain, pass string) string {
	k := sha256.Sum256([]byte(pass))

	return "v2:" + base64.StdEncoding.EncodeToString(gcmSeal(k[:], fixed(12, 0x53), []byte(plain)))
}

func settingsLegacy(plain, pass string) string {
	return base64.StdEncoding.EncodeToString(gcmSeal(md5hex(pass), fixed(12, 0x54), []byte(plain)))
}

// ---------------------------------------------------------------------------

// headerLen is the number of bytes in front of the GCM ciphertext+tag: a cut
// that leaves fewer bytes than this leaves no complete header.
func headerLen(layer, framing string) int {
	switch {
	case layer == "settings" && framing == "v3":
		return 16 + 12
	case layer == "settings":
		return 12
	case framing == "legacy":
		return 12
	default: // util / token, v3 and v2: magic + salt + nonce
		return 4 + 16 + 12
	}
}

func region(layer, framing string, pos int) string {
	h := headerLen(layer, framing)

	switch {
	case pos >= h:
		return "body"
	case pos >= h-12:
		return "nonce"
	case h > 12 && pos >= h-12-16:
		return "salt"
	default:
		return "magic"
	}
}

func cutKind(layer, framing string, remaining int) string {
	if remaining < headerLen(layer, framing) {
		return "cut-short"
	}

	return "cut-body"
}

type emitFn func(w witness, e edit, in []byte, size int)

// byteEdits lists every byte-level variant of ct.
func byteEdits(base witness, ct []byte, masks []byte, exts [][]byte, emit emitFn) {
	// every truncation length, including the empty string
	for n := 0; n < len(ct); n++ {
		w := base
		w.Op = fmt.Sprintf("keep first %d of %d bytes", n, len(ct))
		w.Kind = cutKind(base.Layer, base.Framing, n)
		emit(w, edit{"cut", n, len(ct), 0}, ct[:n], n)
	}

	// every head cut
	for n := 1; n < len(ct); n++ {
		w := base
		w.Op = fmt.Sprintf("drop first %d of %d bytes", n, len(ct))
		w.Kind = cutKind(base.Layer, base.Framing, len(ct)-n)
		emit(w, edit{"headcut", len(ct) - n, len(ct), 0}, ct[n:], len(ct)-n)
	}

	// extensions at either end
	for i, e := range exts {
		w := base
		w.Op = fmt.Sprintf("append %x", e)
		w.Kind = "extend"
		emit(w, edit{"ext", 2 * i, len(ct), 0}, append(append([]byte{}, ct...), e...), len(ct))

		w.Op = fmt.Sprintf("prepend %x", e)
		emit(w, edit{"ext", 2*i + 1, len(ct), 0}, append(append([]byte{}, e...), ct...), len(ct))
	}

	// every single-byte edit
	for pos := 0; pos < len(ct); pos++ {
		for _, m := range masks {
			w := base
			w.Op = fmt.Sprintf("byte %d of %d xor %02x", pos, len(ct), m)
			w.Kind = "edit-" + region(base.Layer, base.Framing, pos)
			b := append([]byte{}, ct...)
			b[pos] ^= m
			emit(w, edit{"edit", pos, len(ct), m}, b, len(ct))
		}
	}
}

func allMasks() []byte {
	m := make([]byte, 0, 255)
	for i := 1; i < 256; i++ {
		m = append(m, byte(i))
	}

	return m
}

var (
	quickMasks = []byte{0x01, 0x80, 0xFF}
	bitMasks   = []byte{0x01, 0x02, 0x04, 0x08, 0x10, 0x20, 0x40, 0x80, 0xFF}
)

func wrongKeys(key string, all []string) []string {
	out := []string{key + "x", key + " ", strings.ToUpper(key) + "K"}
	if len(key) > 0 {
		out = append(out, key[:len(key)-1])
	}

	for _, k := range all {
		if k != key {
			out = append(out, k)
		}
	}

	// no duplicates, never the right key
	seen := map[string]bool{key: true}
	uniq := out[:0]

	for _, k := range out {
		if !seen[k] {
			seen[k] = true
			uniq = append(uniq, k)
		}
	}

	return uniq
}

// run executes one case against the real code and reports.
func run(r *report.R, k kase) {
	w := k.w

	var (
		text string
		err  error
	)

	switch w.Layer {
	case "util":
		text, err = util.Decrypt(string(k.input), w.Key)
	case "settings":
		text, err = settings.Decrypt(string(k.input), w.Key)
	case "token":
		// EGO_SERVER_TOKEN_KEY is set by the caller for the whole phase.
		var t *tokens.Token

		t, err = tokens.Unwrap(hex.EncodeToString(k.input), 0)
		if err == nil && t != nil {
			text = t.Name + "|" + t.Data
		}

		if w.Expect == "error" && k.validate {
			r.Eval(1)

			if ok, verr := tokens.Validate(hex.EncodeToString(k.input), 0); ok || verr == nil {
				w.Got = fmt.Sprintf("Validate = (%v, %v)", ok, verr)
				r.Violation("token:"+w.Kind+":validate-accepted", k.size, w, "tokens.Validate accepts a forged token: "+w.Op)
			}
		}
	}

	r.Eval(1)

	if w.Expect == "roundtrip" {
		if err != nil {
			w.Got = "error: " + err.Error()
			r.Violation(w.Layer+":roundtrip:error", k.size, w, fmt.Sprintf("decrypting the unmodified %s ciphertext with the right key fails: %v", w.Framing, err))
		} else if text != w.Plain {
			w.Got = text
			r.Violation(w.Layer+":roundtrip:other-text", k.size, w, fmt.Sprintf("decrypting the unmodified %s ciphertext with the right key returns %q, want %q", w.Framing, text, w.Plain))
		}

		return
	}

	if err == nil {
		outcome := "accepted-text"
		if text == "" {
			outcome = "accepted-empty"
		}

		w.Got = fmt.Sprintf("(%q, nil)", text)
		r.Violation(w.Layer+":"+w.Kind+":"+outcome, k.size, w,
			fmt.Sprintf("%s Decrypt of a forged %s ciphertext (%s) returns (%q, nil) instead of an error", w.Layer, w.Framing, w.Op, text))
	}
}

// runArgon executes the cases that reach Argon2id. Each call allocates and
// writes 32 MiB. On hosts where the first touch of a page is slow (observed:
// about 30 us per page) the cost is dominated by how much memory the process
// touches for the first time, so only a few calls run at once, all Argon2id
// work is done in contiguous phases (the collector then recycles the same few
// blocks and the scavenger has no reason to hand them back), and the GC
// settings are left at their defaults.
func runArgon(r *report.R, cases []kase) {
	parN(argonWorkers, len(cases), func(i int) { run(r, cases[i]) })
}

const argonWorkers = 3

func main() {
	r := report.New("exploration")

	const tokenKey1, tokenKey2 = "Tk1-0123456789abcdefghijklmnopqrstuvwxyzABCDEFGHIJ", "Tk2-0123456789abcdefghijklmnopqrstuvwxyzABCDEFGHIJ"

	if r.Replay != "" {
		var w witness
		if err := report.LoadReplay(r.Replay, &w); err != nil {
			report.Fatal("%v", err)
		}

		in, err := hex.DecodeString(w.Input)
		if err != nil {
			report.Fatal("witness input: %v", err)
		}

		if w.Layer == "token" {
			os.Setenv("EGO_SERVER_TOKEN_KEY", w.Key)
		}

		w.Got = ""
		run(r, kase{w: w, input: in, size: len(in), validate: w.Layer == "token"})
		r.Finish()
	}

	thorough := r.Thorough()
	startAll := time.Now()

	plains := []string{"a", "", "sixteen byte txt", strings.Repeat("0123456789", 10)}
	keys := []string{"k", "", strings.Repeat("LongKey-", 8), unicodeKey}

	// cases: run on all cores per batch. argonCases: collected and executed by
	// a few workers only (see runArgon).
	var cases, argonCases []kase

	// The size orders witnesses: fewest bytes first, then the position in the
	// (deterministic) case list, so the reported witness never depends on which
	// worker came first.
	ordinal := 0
	baseIndex := 0
	kdfRun := map[string]int{}
	kdfSkipped := map[string]int{}
	kdfName := []string{"none", "pbkdf2", "argon2id"}

	add := func(w witness, e edit, in []byte, size int) {
		kdf := reachesKDF(w.Layer, in)
		always := e.typ == "wrong-key" || e.typ == "roundtrip"

		if kdf > 0 && !always && !selectKDF(thorough, kdf, w, e, baseIndex) {
			kdfSkipped[kdfName[kdf]]++

			return
		}

		kdfRun[kdfName[kdf]]++

		w.Input = hex.EncodeToString(in)
		w.Expect = "error"

		if e.typ == "roundtrip" {
			w.Expect, w.Op, w.Kind = "roundtrip", "none", "roundtrip"
		}

		ordinal++
		k := kase{w: w, input: in, size: size<<32 | ordinal,
			validate: w.Layer == "token" && (kdf == 0 || e.typ == "wrong-key" || (e.typ == "edit" && e.n%16 == 0) || (e.typ == "cut" && e.n%32 == 0))}

		if kdf == 2 {
			argonCases = append(argonCases, k)
		} else {
			cases = append(cases, k)
		}
	}

	exts := [][]byte{{0x00}, {0x01}, {0xFF}, {0x00, 0x00}, {0xFF, 0xFF}, {0x3D}}

	// mask sets that are GENERATED (selectKDF then picks among the KDF-reaching
	// ones): KDF framings 01, 80, FF; legacy framings all 255 (quick: 9 for the
	// 100-byte text).
	expensiveMasks := func(string) []byte { return quickMasks }

	cheapMasks := func(p string) []byte {
		if thorough || len(p) <= 16 {
			return allMasks()
		}

		return bitMasks
	}

	someWrongKeys := func(k string) []string {
		all := wrongKeys(k, keys)
		if thorough {
			return []string{all[0], all[1], all[len(all)-2], all[len(all)-1]}
		}

		return []string{all[0], all[len(all)-1]}
	}

	addKeys := func(base witness, k string, in []byte, size int) {
		for i, wk := range someWrongKeys(k) {
			w := base
			w.Key, w.Op, w.Kind = wk, fmt.Sprintf("right ciphertext, key %q instead of %q", wk, k), "wrong-key"
			add(w, edit{"wrong-key", i, size, 0}, in, size)
		}
	}

	// All v3 base ciphertexts first (Argon2id, one after the other).
	// quick: the Argon2id framings only for the bases with key "k" or
	// plaintext "a" (7 of the 16); the other framings for all 16.
	type pk struct{ p, k string }

	utilV3 := map[pk][]byte{}
	settingsV3 := map[pk]string{}

	for _, p := range plains {
		for _, k := range keys {
			if !(thorough || k == "k" || p == "a") {
				continue
			}

			c, err := util.Encrypt(p, k)
			if err != nil {
				report.Fatal("util.Encrypt: %v", err)
			}

			utilV3[pk{p, k}] = []byte(c)

			if settingsV3[pk{p, k}], err = settings.Encrypt(p, k); err != nil {
				report.Fatal("settings.Encrypt: %v", err)
			}
		}
	}

	baseCount, nCases := 0, 0
	phase := map[string]float64{} // wall seconds per phase (informational)
	mark := time.Now()
	phase["build_v3_bases"] = time.Since(startAll).Seconds()
	lap := func(name string) {
		phase[name] += time.Since(mark).Seconds()
		mark = time.Now()
	}

	for _, p := range plains {
		for _, k := range keys {
			cases = nil

			// ---- util: v3 (the real Encrypt), v2 (PBKDF2), legacy (MD5) ----
			lap("other")

			ct := utilV3[pk{p, k}]
			if ct != nil {
				baseCount += 2
			}

			for _, f := range []struct {
				name string
				ct   []byte
				m    []byte
			}{{"v3", ct, expensiveMasks(p)}, {"v2", utilV2(p, k), expensiveMasks(p)}, {"legacy", utilLegacy(p, k), cheapMasks(p)}} {
				if f.ct == nil {
					continue
				}

				base := witness{Layer: "util", Framing: f.name, Key: k, Plain: p}
				add(base, edit{typ: "roundtrip"}, f.ct, len(f.ct))
				byteEdits(base, f.ct, f.m, exts, add)
				addKeys(base, k, f.ct, len(f.ct))
			}

			// ---- settings: v3 (the real Encrypt), v2, legacy --------------
			s3 := settingsV3[pk{p, k}]

			for _, f := range []struct {
				name, text string
				m          []byte
			}{{"v3", s3, expensiveMasks(p)}, {"v2", settingsV2(p, k), cheapMasks(p)}, {"legacy", settingsLegacy(p, k), cheapMasks(p)}} {
				if f.text == "" {
					continue
				}

				prefix := ""
				if f.name != "legacy" {
					prefix = f.name + ":"
				}

				raw, err := base64.StdEncoding.DecodeString(f.text[len(prefix):])
				if err != nil {
					report.Fatal("settings ciphertext is not base64: %v", err)
				}

				base := witness{Layer: "settings", Framing: f.name, Key: k, Plain: p}
				add(base, edit{typ: "roundtrip"}, []byte(f.text), len(raw))

				// byte level: edit the raw bytes, re-encode with the same prefix
				byteEdits(base, raw, f.m, exts, func(w witness, e edit, b []byte, size int) {
					add(w, e, []byte(prefix+base64.StdEncoding.EncodeToString(b)), size)
				})

				// text level: every truncation of the text, every character
				// replaced, a few appended characters, the other prefixes.
				textEdits(base, f.text, prefix, raw, add)
				addKeys(base, k, []byte(f.text), len(raw))
			}

			baseCount += 4

			lap("build_bases_and_cases")

			// Run the batch of this (plaintext,key) on all cores, then drop it.
			batch := cases
			enum.Par(len(batch), func(i int) { run(r, batch[i]) })
			lap("run_cases_without_argon2id")
			distinctKinds(r, batch)
			lap("other")

			nCases += len(batch)
		}
	}

	cases = nil

	lap("other")
	runArgon(r, argonCases)
	lap("run_argon2id_cases_util_settings")
	distinctKinds(r, argonCases)

	nCases += len(argonCases)
	argonCases = nil

	r.Set("base_ciphertexts_util_settings", baseCount)
	r.Set("same_ciphertext_spellings", sameSpellings)
	r.Set("cases_util_settings", nCases)

	// ---- tokens ----------------------------------------------------------
	// The enumerated token is built exactly as tokens.New builds it (JSON of a
	// Token, util.Encrypt with the server token key, hex) but with whole-second
	// timestamps so that its length, and with it the number of cases, is the
	// same in every run. tokens.New itself is round-tripped as well.
	os.Setenv("EGO_SERVER_TOKEN_KEY", tokenKey1)

	instance := "6ba7b810-9dad-11d1-80b4-00c04fd430c8"

	type tokSpec struct{ name, data string }

	specs := []tokSpec{{"admin", ""}}
	if thorough {
		specs = append(specs, tokSpec{"üser with spaces", strings.Repeat("d", 40)})
	}

	var tokenBases [][]byte

	for i, sp := range specs {
		baseIndex = i

		tok, err := tokens.New(sp.name, sp.data, "1h", instance, 0)
		if err != nil {
			report.Fatal("tokens.New: %v", err)
		}

		t, err := tokens.Unwrap(tok, 0)
		r.Eval(1)

		if err != nil || t == nil {
			r.Violation("token:roundtrip:error", 1, witness{Layer: "token", Framing: "v3", Key: tokenKey1, Plain: sp.name + "|" + sp.data, Input: tok, Expect: "roundtrip"}, fmt.Sprintf("Unwrap(New(...)) fails: %v", err))
		} else if t.Name != sp.name || t.Data != sp.data {
			r.Violation("token:roundtrip:other-text", 1, witness{Layer: "token", Framing: "v3", Key: tokenKey1, Plain: sp.name + "|" + sp.data, Input: tok, Expect: "roundtrip"}, fmt.Sprintf("Unwrap(New(%q,%q)) returns %q,%q", sp.name, sp.data, t.Name, t.Data))
		}

		now := time.Now().UTC().Truncate(time.Second)
		js, _ := json.Marshal(tokens.Token{Name: sp.name, Data: sp.data, TokenID: uuid.MustParse("123e4567-e89b-12d3-a456-426614174000"),
			Created: now, Expires: now.Add(240 * time.Hour), AuthID: uuid.MustParse(instance)})

		enc, err := util.Encrypt(string(js), tokenKey1)
		if err != nil {
			report.Fatal("util.Encrypt: %v", err)
		}

		base := witness{Layer: "token", Framing: "v3", Key: tokenKey1, Plain: sp.name + "|" + sp.data}
		add(base, edit{typ: "roundtrip"}, []byte(enc), len(enc))
		byteEdits(base, []byte(enc), []byte{0x01}, exts, add)
		tokenBases = append(tokenBases, []byte(enc))
	}

	tb := cases
	enum.Par(len(tb), func(i int) { run(r, tb[i]) })
	distinctKinds(r, tb)
	runArgon(r, argonCases)
	distinctKinds(r, argonCases)

	nToken := len(tb) + len(argonCases)
	cases, argonCases = nil, nil

	// the right token under another server key
	os.Setenv("EGO_SERVER_TOKEN_KEY", tokenKey2)

	for i, b := range tokenBases {
		w := witness{Layer: "token", Framing: "v3", Key: tokenKey2, Plain: specs[i].name + "|" + specs[i].data,
			Op: "right token, another EGO_SERVER_TOKEN_KEY", Kind: "wrong-key"}
		add(w, edit{"wrong-key", 0, len(b), 0}, b, len(b))
	}

	runArgon(r, argonCases)
	distinctKinds(r, argonCases)

	nToken += len(argonCases)

	lap("tokens")
	r.Set("phase_wall_seconds", phase)
	r.Set("cases_token", nToken)
	r.Set("cases_run_by_kdf_reached", kdfRun)
	r.Set("kdf_reaching_cases_generated_but_outside_the_tier_budget", kdfSkipped)
	r.Set("plaintext_lengths", []int{0, 1, 16, 100})
	r.Set("keys", keys)

	r.Sample(map[string]any{"layer": "util", "framing": "legacy", "plaintext": "a", "key": "k", "ops": "every truncation 0..28, every head cut, every byte x all 255 masks, 12 extensions, wrong keys"})
	r.Sample(map[string]any{"layer": "util", "framing": "v3", "plaintext": "a", "key": "k", "ops": "every truncation 0..48, every head cut, every byte xor 01, extensions, wrong keys (Argon2id per case from length 20 on)"})
	r.Sample(map[string]any{"layer": "settings", "framing": "v3", "text_level": "every text truncation, every character replaced by the symbol with the lowest / highest index bit flipped and by -, appended A = \\n, prefix swapped"})
	r.Sample(map[string]any{"layer": "token", "entry": "tokens.Unwrap + tokens.Validate", "key_env": "EGO_SERVER_TOKEN_KEY"})

	r.Rule("for every base ciphertext (4 plaintexts x 4 keys x {util v3,v2,legacy; settings v3,v2,legacy}, and token(s)): the unmodified ciphertext must decrypt to the plaintext; every truncation to length 0..n-1, every head cut, 6 extensions at either end, every byte position x mask set, each wrong key, and for settings every text-level truncation / character replacement / prefix swap is generated and must return an error. All generated cases that reach no key derivation run (legacy framings: all 255 masks); of those that reach PBKDF2 / Argon2id the subset stated in selectKDF runs (counts in coverage). distinct = (layer, framing, plaintext length, key, edit)")
	r.Assume("a forged ciphertext passing AES-GCM by chance (2^-128) is ignored", "a settings text whose base64 payload decodes to the very same bytes under the same prefix is the same ciphertext, not a forgery (counted in same_ciphertext_spellings)", "v2/legacy base ciphertexts are built by the harness from the documented formats and first checked to decrypt", "the legacy and v3/v2 paths share aesGCMDecrypt, so the all-255-mask sweep of the legacy framing also exercises the post-KDF half of the v3/v2 paths")
	r.Finish()
}

// distinctKinds registers the distinct non-trivial cases of a batch.
func distinctKinds(r *report.R, cases []kase) {
	for _, c := range cases {
		r.Distinct(fmt.Sprint(c.w.Layer, "|", c.w.Framing, "|", len(c.w.Plain), "|", c.w.Key, "|", c.w.Op))
	}
}

// sameCiphertext reports whether text is another spelling of the ciphertext
// (same prefix, payload decodes to the same bytes).
func sameCiphertext(text, prefix string, raw []byte) bool {
	if !strings.HasPrefix(text, prefix) {
		return false
	}

	if prefix == "" && (strings.HasPrefix(text, "v2:") || strings.HasPrefix(text, "v3:")) {
		return false
	}

	b, err := base64.StdEncoding.DecodeString(text[len(prefix):])

	return err == nil && bytes.Equal(b, raw)
}

var sameSpellings int

const b64 = "ABCDEFGHIJKLMNOPQRSTUVWXYZabcdefghijklmnopqrstuvwxyz0123456789+/"

func textEdits(base witness, text, prefix string, raw []byte, add emitFn) {
	emit := func(op, kind string, e edit, edited string) {
		if sameCiphertext(edited, prefix, raw) {
			sameSpellings++

			return
		}

		w := base
		w.Op, w.Kind = op, kind

		// A text that still decodes (under the prefix it now carries) to fewer
		// bytes than the original is a byte-level cut: name it so, so that one
		// root cause has one cell.
		framing, payload := "legacy", edited

		switch {
		case strings.HasPrefix(edited, "v3:"):
			framing, payload = "v3", edited[3:]
		case strings.HasPrefix(edited, "v2:"):
			framing, payload = "v2", edited[3:]
		}

		if b, err := base64.StdEncoding.DecodeString(payload); err == nil && len(b) < len(raw) {
			w.Kind = cutKind(base.Layer, framing, len(b))
		}

		add(w, e, []byte(edited), len(edited))
	}

	for n := 0; n < len(text); n++ {
		emit(fmt.Sprintf("keep first %d of %d characters", n, len(text)), "text-cut", edit{"text-cut", n, len(text), 0}, text[:n])
	}

	// Replacements are chosen relative to the character so that their number
	// (and with it every count of the run) does not depend on the random
	// ciphertext: a base64 symbol with index i becomes symbol i^1 (lowest bit),
	// symbol i^32 (highest bit) and '-' (not base64); any other character
	// (prefix, padding) becomes 'A', 'B' and '-'.
	for pos := 0; pos < len(text); pos++ {
		repl := []byte{'A', 'B', '-'}
		if i := strings.IndexByte(b64, text[pos]); i >= 0 {
			repl = []byte{b64[i^1], b64[i^32], '-'}
		}

		for j, c := range repl {
			emit(fmt.Sprintf("character %d of %d -> %q", pos, len(text), c), "text-edit", edit{"text-edit", pos, len(text), byte(j)}, text[:pos]+string(c)+text[pos+1:])
		}
	}

	for i, e := range []string{"A", "=", "\n", "AAAA", " "} {
		emit(fmt.Sprintf("append %q", e), "text-extend", edit{"text-ext", i, len(text), 0}, text+e)
	}

	payload := text[len(prefix):]

	for i, p := range []string{"", "v2:", "v3:", "v4:", "V3:"} {
		if p != prefix {
			emit(fmt.Sprintf("prefix %q -> %q", prefix, p), "text-prefix", edit{"text-prefix", i, len(text), 0}, p+payload)
		}
	}
}

package main

import (
	"fmt"
	"math"
	"math/cmplx"
	"path/filepath"
	"reflect"
	"strconv"
	"strings"
	"time"

	"github.com/tucats/ego/internal/language/data"
	"github.com/tucats/ego/internal/verifrt/enum"
	"github.com/tucats/ego/internal/verifrt/report"
)

// goRef is the hand-written table "Ego runtime function -> the Go function it
// mirrors". It is deliberately independent of the Value stored in the Ego
// package dictionary, so a dictionary entry bound to the wrong Go function is
// a finding, not something the check inherits.
var goRef = map[string]any{
	"cmplx.Abs": cmplx.Abs, "cmplx.Conj": cmplx.Conj, "cmplx.Cos": cmplx.Cos, "cmplx.Exp": cmplx.Exp, "cmplx.Inf": cmplx.Inf,
	"cmplx.IsInf": cmplx.IsInf, "cmplx.IsNaN": cmplx.IsNaN, "cmplx.Log": cmplx.Log, "cmplx.Log10": cmplx.Log10, "cmplx.NaN": cmplx.NaN,
	"cmplx.Phase": cmplx.Phase, "cmplx.Polar": cmplx.Polar, "cmplx.Pow": cmplx.Pow, "cmplx.Rect": cmplx.Rect, "cmplx.Sin": cmplx.Sin,
	"cmplx.Sqrt": cmplx.Sqrt, "cmplx.Tan": cmplx.Tan,

	"filepath.Abs": filepath.Abs, "filepath.Base": filepath.Base, "filepath.Clean": filepath.Clean, "filepath.Dir": filepath.Dir,
	"filepath.Ext": filepath.Ext, "filepath.Join": filepath.Join,

	"math.Abs": math.Abs, "math.Acos": math.Acos, "math.Acosh": math.Acosh, "math.Asin": math.Asin, "math.Asinh": math.Asinh,
	"math.Atan": math.Atan, "math.Atanh": math.Atanh, "math.Cbrt": math.Cbrt, "math.Ceil": math.Ceil, "math.Cos": math.Cos,
	"math.Cosh": math.Cosh, "math.Erf": math.Erf, "math.Erfc": math.Erfc, "math.Erfcinv": math.Erfcinv, "math.Erfinv": math.Erfinv,
	"math.Exp2": math.Exp2, "math.Expm1": math.Expm1, "math.Floor": math.Floor, "math.Gamma": math.Gamma, "math.Inf": math.Inf,
	"math.IsInf": math.IsInf, "math.IsNaN": math.IsNaN, "math.Log": math.Log, "math.Mod": math.Mod, "math.NaN": math.NaN,
	"math.Remainder": math.Remainder, "math.Round": math.Round, "math.RoundToEven": math.RoundToEven, "math.Sin": math.Sin,
	"math.Sinh": math.Sinh, "math.Sqrt": math.Sqrt, "math.Tan": math.Tan, "math.Tanh": math.Tanh, "math.Trunc": math.Trunc,

	"strconv.Atoi": strconv.Atoi, "strconv.CanBackquote": strconv.CanBackquote, "strconv.FormatBool": strconv.FormatBool,
	"strconv.FormatComplex": strconv.FormatComplex, "strconv.FormatFloat": strconv.FormatFloat, "strconv.FormatInt": strconv.FormatInt,
	"strconv.FormatUint": strconv.FormatUint, "strconv.IsGraphic": strconv.IsGraphic, "strconv.IsPrint": strconv.IsPrint,
	"strconv.Itoa": strconv.Itoa, "strconv.ParseBool": strconv.ParseBool, "strconv.ParseComplex": strconv.ParseComplex,
	"strconv.ParseFloat": strconv.ParseFloat, "strconv.ParseInt": strconv.ParseInt, "strconv.ParseUint": strconv.ParseUint,
	"strconv.Quote": strconv.Quote, "strconv.QuoteRune": strconv.QuoteRune, "strconv.QuoteRuneToASCII": strconv.QuoteRuneToASCII,
	"strconv.QuoteRuneToGraphic": strconv.QuoteRuneToGraphic, "strconv.QuoteToASCII": strconv.QuoteToASCII,
	"strconv.QuoteToGraphic": strconv.QuoteToGraphic, "strconv.Unquote": strconv.Unquote,

	"strings.Clone": strings.Clone, "strings.Compare": strings.Compare, "strings.Contains": strings.Contains,
	"strings.ContainsAny": strings.ContainsAny, "strings.ContainsRune": strings.ContainsRune, "strings.Count": strings.Count,
	"strings.Cut": strings.Cut, "strings.CutPrefix": strings.CutPrefix, "strings.CutSuffix": strings.CutSuffix,
	"strings.EqualFold": strings.EqualFold, "strings.Fields": strings.Fields, "strings.HasPrefix": strings.HasPrefix,
	"strings.HasSuffix": strings.HasSuffix, "strings.Index": strings.Index, "strings.IndexAny": strings.IndexAny,
	"strings.IndexByte": strings.IndexByte, "strings.IndexRune": strings.IndexRune, "strings.Join": strings.Join,
	"strings.LastIndex": strings.LastIndex, "strings.LastIndexAny": strings.LastIndexAny, "strings.LastIndexByte": strings.LastIndexByte,
	"strings.Repeat": strings.Repeat, "strings.Replace": strings.Replace, "strings.ReplaceAll": strings.ReplaceAll,
	"strings.SplitAfter": strings.SplitAfter, "strings.SplitAfterN": strings.SplitAfterN, "strings.SplitN": strings.SplitN,
	"strings.Title": strings.Title, "strings.ToLower": strings.ToLower, "strings.ToTitle": strings.ToTitle, //nolint
	"strings.ToUpper": strings.ToUpper, "strings.ToValidUTF8": strings.ToValidUTF8, "strings.Trim": strings.Trim,
	"strings.TrimLeft": strings.TrimLeft, "strings.TrimPrefix": strings.TrimPrefix, "strings.TrimRight": strings.TrimRight,
	"strings.TrimSpace": strings.TrimSpace, "strings.TrimSuffix": strings.TrimSuffix,

	"time.Parse": time.Parse, "time.Unix": time.Unix,
}

// Classification of every other dictionary entry of the mirrored packages.
// "section:<x>" = mirrored, judged by the hand-written section x;
// "ego" = Ego-specific (no Go counterpart) ; "unjudged:<why>" = mirrors a Go
// function but is not judged here, with the reason (reported in the evidence).
var classified = map[string]string{
	"base64.Decode": "section:roundtrip", "base64.Encode": "section:roundtrip",
	"fmt.Sprintf": "section:fmt", "fmt.Printf": "unjudged:writes to stdout; shares the formatter judged through fmt.Sprintf",
	"fmt.Print": "unjudged:writes to stdout; the statement names fmt verbs only", "fmt.Println": "unjudged:writes to stdout; the statement names fmt verbs only",
	"fmt.Sprint": "unjudged:the statement names fmt verbs only", "fmt.Scan": "unjudged:pointer results", "fmt.Sscanf": "unjudged:pointer results",
	"json.Marshal": "section:json", "json.MarshalIndent": "section:json", "json.Unmarshal": "section:json",
	"json.Parse": "ego", "json.ReadFile": "ego", "json.WriteFile": "ego",
	"math.Max": "ego", "math.Min": "ego", "math.Sum": "ego", "math.Normalize": "ego", "math.Random": "ego",
	"sort.Bytes": "section:sort", "sort.Float32s": "section:sort", "sort.Float64s": "section:sort", "sort.Float64sAreSorted": "section:sort",
	"sort.Int32s": "section:sort", "sort.Int64s": "section:sort", "sort.Ints": "section:sort", "sort.IntsAreSorted": "section:sort",
	"sort.IsSorted": "section:sort", "sort.Search": "section:sort", "sort.SearchFloat64s": "section:sort", "sort.SearchInts": "section:sort",
	"sort.SearchStrings": "section:sort", "sort.Slice": "section:sort", "sort.SliceStable": "section:sort", "sort.Sort": "section:sort",
	"sort.Stable": "section:sort", "sort.Strings": "section:sort", "sort.StringsAreSorted": "section:sort",
	"strconv.Itor": "section:roundtrip", "strconv.Rtoi": "section:roundtrip",
	"strings.Split": "section:wrappers",
	"strings.Chars": "ego", "strings.Format": "ego", "strings.Generate": "ego", "strings.Ints": "ego", "strings.Left": "ego",
	"strings.Length": "ego", "strings.Right": "ego", "strings.String": "ego", "strings.Substitution": "ego", "strings.Substring": "ego",
	"strings.Template": "ego", "strings.Tokenize": "ego", "strings.Truncate": "ego", "strings.URLPattern": "ego",
	"strings.NewReader": "unjudged:returns an opaque *strings.Reader", "strings.Builder": "type", "strings.Reader": "type",
	"time.Date": "section:time", "time.ParseDuration": "section:time", "time.ParseAny": "ego",
	"time.Now": "unjudged:reads the clock", "time.Since": "unjudged:reads the clock", "time.Sleep": "unjudged:sleeps",
	"time.FixedZone": "unjudged:returns an opaque *time.Location (used by the time section)", "time.LoadLocation": "unjudged:returns an opaque *time.Location",
	"time.Duration": "type", "time.Location": "type", "time.Month": "type", "time.Time": "type", "time.Weekday": "type",
}

// completeness walks the dictionaries of the mirrored packages and fails the
// run (exit 2) when an entry is not classified, or a native entry has no Go
// reference in goRef.
func completeness(r *report.R) (natives []string) {
	counts := map[string]int{}

	var unjudged []string

	for pn, p := range pkgs {
		for _, k := range p.Keys() {
			name := pn + "." + k
			v, _ := p.Get(k)

			f, isFunc := v.(data.Function)

			if _, ok := goRef[name]; ok {
				if !isFunc || !f.IsNative {
					report.Fatal("%s is in the native table but is not a native function in the package dictionary any more", name)
				}

				natives = append(natives, name)
				counts["native"]++

				continue
			}

			c, ok := classified[name]
			if !ok {
				report.Fatal("runtime package entry %s is not classified (mirrored / Ego-specific): add it to goRef or classified", name)
			}

			switch {
			case strings.HasPrefix(c, "section:"):
				counts["wrapper"]++
			case strings.HasPrefix(c, "unjudged:"):
				counts["unjudged"]++

				unjudged = append(unjudged, name+" ("+strings.TrimPrefix(c, "unjudged:")+")")
			default:
				counts[c]++
			}
		}
	}

	for name := range goRef {
		p, k, _ := strings.Cut(name, ".")
		if _, ok := pkgs[p].Get(k); !ok {
			report.Fatal("%s is in the native table but not in the package dictionary", name)
		}
	}

	sortStrings(natives)
	sortStrings(unjudged)

	r.Set("functions_native_judged", counts["native"])
	r.Set("functions_wrapper_judged", counts["wrapper"])
	r.Set("functions_ego_specific", counts["ego"])
	r.Set("functions_mirrored_not_judged", unjudged)

	return natives
}

// ---------------------------------------------------------------------------
// Argument domains.

var (
	genAlphabet   = []string{"a", "A", " ", "é", "\x00", ","}
	numAlphabet   = []string{"0", "1", "9", "-", "+", ".", "e", "x", "_", "f", " "}
	quoteAlphabet = []string{`"`, "`", "'", `\`, "n", "a", "x", "4", "1", "é"}
	pathAlphabet  = []string{"a", ".", "/", `\`, "..", " ", "b.c"}
	boolAlphabet  = []string{"t", "T", "r", "u", "e", "1", "0", "f", "F"}

	specialStrings = []string{"\xff", "a\xffb", "İ", "ǅ", "ß", "\u2028", "a,b,,c", "  x  ", "\t\n x\u00a0", strings.Repeat("ab, ", 80), "日本語", "e\u0301", "\U0001F600"}
	numberStrings  = []string{"9223372036854775807", "9223372036854775808", "-9223372036854775808", "-9223372036854775809", "18446744073709551615", "18446744073709551616",
		"2147483647", "2147483648", "-2147483648", "127", "128", "255", "256", "NaN", "nan", "Inf", "+Inf", "-inf", "infinity", "1e308", "1e309", "-1e309", "4.9e-324", "1e-400",
		"0x1p-2", "0x1.8p1", "0b101", "0o17", "017", "1_000", "0x_ff", "1.7976931348623157e308", "3.4028235e38", "3.4028236e38", "1e39", "0.1", "(1+2i)", "1+2i", "i", "2i", "(NaN+Infi)", "1e", "e1", ".", "-", "+",
		"true", "false", "TRUE", "True", "tRUE", "t", "F", "1", "0", "yes", "", " 1", "1 ", "٣"}
	quoteStrings = []string{`"a"`, `'a'`, "`a`", `"\n"`, `"\x41"`, `"\u00e9"`, `"\U0001F600"`, `"\101"`, `'\''`, `"\'"`, `'"'`, `"a`, `a"`, `""`, `''`, "``", `"\400"`, `"\xZZ"`, `'ab'`, "`a\nb`", "\"a\nb\"", `"\ud800"`, `"é"`, `'é'`}
	pathStrings  = []string{"", "/", "//", "a/b/../c", "a/./b/", "/a/b/c.txt", "a.tar.gz", ".hidden", "a/.b", "a//b", "../../x", "/..", "a/b/", "./", "c:\\x\\y", "a b/c d.e f"}

	intsGeneral  = []int{0, 1, -1, 2, 3, 10, math.MaxInt32, math.MinInt32, math.MaxInt64, math.MinInt64}
	floatDomain  = []float64{0, math.Copysign(0, -1), 1, -1, 0.5, -0.5, 2, 10, 0.1, 1.5, 2.5, -2.5, math.Pi, -math.Pi, math.E, 1e-7, 100, 170.5, 1e300, -1e300, math.MaxFloat64, -math.MaxFloat64, math.SmallestNonzeroFloat64, 1 << 53, 1<<53 + 2, 0.9999999999999999, math.Inf(1), math.Inf(-1), math.NaN()}
	cmplxParts   = []float64{0, 1, -1, 0.5, 2.5, 1e300, math.Inf(1), math.Inf(-1), math.NaN()}
	int64Domain  = []int64{0, 1, -1, 7, 10, 255, 256, -255, math.MaxInt32, math.MinInt32, math.MaxInt32 + 1, math.MaxInt64, math.MinInt64, 1 << 53}
	uint64Domain = []uint64{0, 1, 7, 10, 255, 256, math.MaxInt32, math.MaxUint32, math.MaxInt64, math.MaxInt64 + 1, math.MaxUint64}
)

func runeDomain() []int32 {
	var out []int32

	for c := int32(0); c <= 0x17f; c++ {
		out = append(out, c)
	}

	return append(out, 0x2028, 0x2029, 0xd7ff, 0xd800, 0xdfff, 0xe000, 0xfeff, 0xfffd, 0xfffe, 0xffff, 0x10000, 0x1f600, 0xe0001, 0x10ffff, 0x110000, -1, math.MaxInt32, math.MinInt32, 0x3000, 0x200b)
}

func byteDomain() []uint8 {
	out := make([]uint8, 256)
	for i := range out {
		out[i] = uint8(i)
	}

	return out
}

// stringsOver returns every string of 0..n symbols over the alphabet, then
// the extra strings.
func stringsOver(alpha []string, n int, extra ...[]string) []string {
	seen := map[string]bool{}

	var out []string

	for _, s := range enum.AllStrings(alpha, 0, n) {
		if !seen[s] {
			seen[s] = true
			out = append(out, s)
		}
	}

	for _, e := range extra {
		for _, s := range e {
			if !seen[s] {
				seen[s] = true
				out = append(out, s)
			}
		}
	}

	return out
}

// spec is the per-function refinement of the generic domains.
type spec struct {
	alpha  []string   // alphabet of the string parameters (default genAlphabet)
	extra  [][]string // extra strings
	ints   map[int][]int
	maxLen map[int]int // string length bound per number of string parameters, quick tier (thorough = +1)
	bytes  []uint8
}

var specs = map[string]spec{
	"strconv.Atoi":         {alpha: numAlphabet, extra: [][]string{numberStrings}},
	"strconv.ParseInt":     {alpha: numAlphabet, extra: [][]string{numberStrings}, ints: map[int][]int{1: {0, 2, 8, 10, 16, 36, 1, 37, -1}, 2: {0, 8, 16, 32, 64, 65, -1}}, maxLen: map[int]int{1: 3}},
	"strconv.ParseUint":    {alpha: numAlphabet, extra: [][]string{numberStrings}, ints: map[int][]int{1: {0, 2, 8, 10, 16, 36, 1, 37, -1}, 2: {0, 8, 16, 32, 64, 65, -1}}, maxLen: map[int]int{1: 3}},
	"strconv.ParseFloat":   {alpha: numAlphabet, extra: [][]string{numberStrings}, ints: map[int][]int{1: {32, 64, 0, 16}}},
	"strconv.ParseComplex": {alpha: []string{"0", "1", "-", "+", ".", "e", "i", "(", ")", "N", "a", "I", "n", "f"}, extra: [][]string{numberStrings}, ints: map[int][]int{1: {64, 128, 0}}, maxLen: map[int]int{1: 3}},
	"strconv.ParseBool":    {alpha: boolAlphabet, extra: [][]string{numberStrings}, maxLen: map[int]int{1: 4}},
	"strconv.Unquote":      {alpha: quoteAlphabet, extra: [][]string{quoteStrings}, maxLen: map[int]int{1: 4}},
	"strconv.Quote":        {extra: [][]string{specialStrings, quoteStrings}},
	"strconv.QuoteToASCII": {extra: [][]string{specialStrings, quoteStrings}},
	"strconv.QuoteToGraphic": {extra: [][]string{specialStrings, quoteStrings}},
	"strconv.CanBackquote": {extra: [][]string{specialStrings, quoteStrings}},
	"strconv.FormatInt":    {ints: map[int][]int{1: {2, 8, 10, 16, 36, 3}}},
	"strconv.FormatUint":   {ints: map[int][]int{1: {2, 8, 10, 16, 36, 3}}},
	"strconv.FormatFloat":  {bytes: []uint8{'e', 'E', 'f', 'g', 'G', 'b', 'x', 'X', 'z'}, ints: map[int][]int{2: {-1, 0, 1, 2, 6, 17, 40}, 3: {32, 64}}},
	"strconv.FormatComplex": {bytes: []uint8{'e', 'f', 'g', 'G', 'x'}, ints: map[int][]int{2: {-1, 0, 3}, 3: {64, 128}}},
	"strings.Repeat":       {ints: map[int][]int{1: {0, 1, 2, 3, 50}}},
	"filepath.Abs":         {alpha: pathAlphabet, extra: [][]string{pathStrings}},
	"filepath.Base":        {alpha: pathAlphabet, extra: [][]string{pathStrings}},
	"filepath.Clean":       {alpha: pathAlphabet, extra: [][]string{pathStrings}},
	"filepath.Dir":         {alpha: pathAlphabet, extra: [][]string{pathStrings}},
	"filepath.Ext":         {alpha: pathAlphabet, extra: [][]string{pathStrings}},
	"filepath.Join":        {alpha: pathAlphabet, extra: [][]string{pathStrings}},
	"math.Inf":             {ints: map[int][]int{0: {1, -1, 0, 2, math.MaxInt64, math.MinInt64}}},
	"math.IsInf":           {ints: map[int][]int{1: {1, -1, 0, 2, math.MinInt64}}},
}

func stringSlices(thorough bool) [][]string {
	base := []string{"", "a", "b", "é", ",", " "}
	n := 3

	if thorough {
		n = 4
	}

	var out [][]string

	enum.Strings(base, 0, n, func(_ string, idx []int) {
		s := make([]string, len(idx))
		for i, k := range idx {
			s[i] = base[k]
		}

		out = append(out, s)
	})

	return append(out, []string{"a\xff", "\x00"}, []string{strings.Repeat("x", 300), "y"})
}

// callGo calls the Go reference; panicked = Go does not accept the arguments.
func callGo(fn reflect.Value, in []reflect.Value) (out []reflect.Value, panicked bool) {
	defer func() {
		if r := recover(); r != nil {
			out, panicked = nil, true
		}
	}()

	return fn.Call(in), false
}

var errType = reflect.TypeOf((*error)(nil)).Elem()

// nativeCases enumerates the argument tuples of one native function and judges
// each: the cartesian product of the per-parameter domains.
func nativeCases(r *report.R, col *collector, name string, perFunc map[string]int64) {
	fn := reflect.ValueOf(goRef[name])
	ft := fn.Type()
	sp := specs[name]

	if name == "time.Parse" || name == "time.Unix" {
		return // judged in the time section (needs layouts / time values)
	}

	nStr := 0

	for i := 0; i < ft.NumIn(); i++ {
		// a large non-string domain (all bytes, ~400 runes, string slices)
		// counts like a further string parameter when sizing the product
		switch ft.In(i).Kind() {
		case reflect.String, reflect.Slice, reflect.Int32, reflect.Uint8:
			nStr++
		}
	}

	if ft.IsVariadic() {
		nStr = 2
	}

	maxLen := map[int]int{0: 0, 1: 4, 2: 2, 3: 1, 4: 1}[nStr]
	if m, ok := sp.maxLen[nStr]; ok {
		maxLen = m
	}

	if r.Thorough() {
		maxLen++
	}

	alpha := sp.alpha
	if alpha == nil {
		alpha = genAlphabet
	}

	extra := sp.extra
	if extra == nil {
		extra = [][]string{specialStrings}
	}

	if nStr >= 3 {
		extra = [][]string{{"\xff", "ab, ab, ", "İ"}}
	}

	strs := stringsOver(alpha, maxLen, extra...)

	// per-parameter domains as typed args
	var doms [][]targ

	arity := ft.NumIn()
	variadicCounts := []int{-1}

	if ft.IsVariadic() {
		variadicCounts = []int{0, 1, 2, 3}
	}

	for _, vc := range variadicCounts {
		doms = doms[:0]

		n := arity
		if vc >= 0 {
			n = arity - 1 + vc
		}

		for i := 0; i < n; i++ {
			var t reflect.Type
			if vc >= 0 && i >= arity-1 {
				t = ft.In(arity - 1).Elem()
			} else {
				t = ft.In(i)
			}

			var d []targ

			switch {
			case t.Kind() == reflect.String:
				src := strs
				if vc >= 2 {
					src = stringsOver(alpha, 1, pathStrings[:6])
				}

				for _, s := range src {
					d = append(d, mk(s))
				}
			case t.Kind() == reflect.Int:
				src := intsGeneral
				if o, ok := sp.ints[i]; ok {
					src = o
				}

				for _, v := range src {
					d = append(d, mk(v))
				}
			case t.Kind() == reflect.Int64:
				for _, v := range int64Domain {
					d = append(d, mk(v))
				}
			case t.Kind() == reflect.Uint64:
				for _, v := range uint64Domain {
					d = append(d, mk(v))
				}
			case t.Kind() == reflect.Int32:
				for _, v := range runeDomain() {
					d = append(d, mk(v))
				}
			case t.Kind() == reflect.Uint8:
				src := sp.bytes
				if src == nil {
					src = byteDomain()
				}

				for _, v := range src {
					d = append(d, mk(v))
				}
			case t.Kind() == reflect.Float64:
				for _, v := range floatDomain {
					d = append(d, mk(v))
				}
			case t.Kind() == reflect.Bool:
				d = []targ{mk(false), mk(true)}
			case t.Kind() == reflect.Complex128:
				for _, re := range cmplxParts {
					for _, im := range cmplxParts {
						d = append(d, mk(complex(re, im)))
					}
				}
			case t.Kind() == reflect.Slice && t.Elem().Kind() == reflect.String:
				for _, v := range stringSlices(r.Thorough()) {
					d = append(d, mk(v))
				}
			default:
				report.Fatal("%s: no domain for parameter type %s", name, t)
			}

			doms = append(doms, d)
		}

		// the Ego program
		nOut := ft.NumOut()
		errPos := -1

		if nOut > 0 && ft.Out(nOut-1) == errType {
			errPos = nOut - 1
		}

		var lhs, actuals []string

		for i := 0; i < nOut; i++ {
			lhs = append(lhs, "r"+strconv.Itoa(i))
		}

		for i := 0; i < n; i++ {
			actuals = append(actuals, "a"+strconv.Itoa(i))
		}

		prog := strings.Join(lhs, ", ") + " := " + name + "(" + strings.Join(actuals, ", ") + ")"

		sizes := make([]int, len(doms))
		total := 1

		for i, d := range doms {
			sizes[i] = len(d)
			total *= len(d)
		}

		if len(doms) == 0 {
			total = 1
		}

		// flat index -> tuple, so the product can be walked in parallel
		var done int64

		enum.Par(total, func(flat int) {
			args := make([]targ, len(doms))
			in := make([]reflect.Value, len(doms))
			x := flat

			for i := len(doms) - 1; i >= 0; i-- {
				args[i] = doms[i][x%sizes[i]]
				x /= sizes[i]
				in[i] = reflect.ValueOf(args[i].goVal())
			}

			out, panicked := callGo(fn, in)
			if panicked {
				r.Add("tuples_go_panics_skipped", 1)

				return
			}

			k := kase{Func: name, Prog: prog, NRet: nOut, ErrPos: errPos, Args: args}

			for i, o := range out {
				if i == errPos {
					k.GoFail = !o.IsNil()

					continue
				}

				k.Want = append(k.Want, render(o.Interface()))
			}

			check(r, col, k)
		})

		done += int64(total)
		perFunc[name] += done
	}
}

func sortStrings(s []string) {
	for i := 1; i < len(s); i++ {
		for j := i; j > 0 && s[j] < s[j-1]; j-- {
			s[j], s[j-1] = s[j-1], s[j]
		}
	}
}

var _ = fmt.Sprint

package main

import (
	"encoding/base64"
	"encoding/json"
	"fmt"
	"math"
	"sort"
	"strings"
	"time"

	"github.com/tucats/ego/internal/verifrt/enum"
	"github.com/tucats/ego/internal/verifrt/report"
)

type sectionCtx struct {
	r       *report.R
	col     *collector
	perFunc map[string]int64
}

// runAll judges the cases in parallel.
func (sc *sectionCtx) runAll(ks []kase) {
	enum.Par(len(ks), func(i int) { check(sc.r, sc.col, ks[i]) })

	for _, k := range ks {
		sc.perFunc[k.Func]++
	}
}

func sections(r *report.R, col *collector, perFunc map[string]int64) {
	sc := &sectionCtx{r, col, perFunc}

	sc.base64Section()
	sc.romanSection()
	sc.splitSection()
	sc.sortSection()
	sc.fmtSection()
	sc.jsonSection()
	sc.timeSection()
}

// ---------------------------------------------------------------------------
// base64: Encode/Decode against encoding/base64 and the decode(encode) trip.

func (sc *sectionCtx) base64Section() {
	var (
		inputs []string
		ks     []kase
	)

	for a := 0; a < 256; a++ {
		inputs = append(inputs, string([]byte{byte(a)}))
	}

	step := 1
	if !sc.r.Thorough() {
		step = 5 // every 5th second byte in the quick tier, all in thorough
	}

	for a := 0; a < 256; a++ {
		for b := a % step; b < 256; b += step {
			inputs = append(inputs, string([]byte{byte(a), byte(b)}))
		}
	}

	inputs = append(inputs, enum.AllStrings([]string{"\x00", "a", "\xff", "=", "\xfb", "\x3e", "\x3f", "é"}, 0, 4)...)
	inputs = append(inputs, strings.Repeat("any carnal pleas", 20), "")

	for _, in := range inputs {
		enc := base64.StdEncoding.EncodeToString([]byte(in))

		ks = append(ks,
			kase{Func: "base64.Encode", Prog: "r0 := base64.Encode(a0)", NRet: 1, ErrPos: -1, Args: []targ{mk(in)}, Want: []string{render(enc)}},
			kase{Func: "base64.Decode", Tag: "roundtrip", Prog: "e := base64.Encode(a0)\nr0, r1 := base64.Decode(e)", NRet: 2, ErrPos: 1, Args: []targ{mk(in)}, Want: []string{render(in)}},
		)
	}

	n := 4
	if sc.r.Thorough() {
		n = 5
	}

	for _, text := range enum.AllStrings([]string{"A", "Q", "=", "+", "/", "-", "_", "\n", " ", "a", "9"}, 0, n) {
		b, err := base64.StdEncoding.DecodeString(text)

		ks = append(ks, kase{Func: "base64.Decode", Prog: "r0, r1 := base64.Decode(a0)", NRet: 2, ErrPos: 1, Args: []targ{mk(text)}, GoFail: err != nil, Want: []string{render(string(b))}})
	}

	sc.runAll(ks)
}

// ---------------------------------------------------------------------------
// Roman numerals: parse(format(i)) == i for every i the formatter accepts;
// the documented range 1..3999 must be accepted.

func (sc *sectionCtx) romanSection() {
	var ks []kase

	vals := []int{0, -1, -3999, 4000, 4001, 10000, math.MaxInt32, math.MinInt64}
	for i := 1; i <= 3999; i++ {
		vals = append(vals, i)
	}

	for _, i := range vals {
		if i >= 1 && i <= 3999 {
			ks = append(ks, kase{Func: "strconv.Rtoi", Tag: "roundtrip", Prog: "s, e := strconv.Itor(a0)\nr0, r1 := strconv.Rtoi(s)", NRet: 2, ErrPos: 1, Args: []targ{mk(i)}, Want: []string{render(i)}})

			continue
		}

		// outside the documented range: only "if it formats, it parses back"
		rets, thrown := runEgo("r0, r1 := strconv.Itor(a0)", 2, []targ{mk(i)})
		sc.r.Eval(1)

		if thrown == nil && isNilish(rets[1]) {
			ks = append(ks, kase{Func: "strconv.Rtoi", Tag: "roundtrip-out-of-range", Prog: "s, e := strconv.Itor(a0)\nr0, r1 := strconv.Rtoi(s)", NRet: 2, ErrPos: 1, Args: []targ{mk(i)}, Want: []string{render(i)}})
		}
	}

	sc.runAll(ks)
}

// ---------------------------------------------------------------------------
// strings.Split with both arguments mirrors strings.Split.

func (sc *sectionCtx) splitSection() {
	n := 2
	if sc.r.Thorough() {
		n = 3
	}

	strs := stringsOver(genAlphabet, n, specialStrings)

	var ks []kase

	for _, a := range strs {
		for _, b := range strs {
			ks = append(ks, kase{Func: "strings.Split", Prog: "r0 := strings.Split(a0, a1)", NRet: 1, ErrPos: -1, Args: []targ{mk(a), mk(b)}, Want: []string{render(strings.Split(a, b))}})
		}
	}

	sc.runAll(ks)
}

// ---------------------------------------------------------------------------
// sort: every array of 0..N elements over three keys, for every element type.

func (sc *sectionCtx) sortSection() {
	n := sc.r.Pick(5, 6)

	var (
		ks   []kase
		seqs [][]int
	)

	enum.Strings([]string{"0", "1", "2"}, 0, n, func(_ string, idx []int) { seqs = append(seqs, append([]int{}, idx...)) })

	ints := []int{-3, 0, 7}
	strs := []string{"", "a", "é"}
	floats := []float64{-1.5, 0, math.Inf(1)}
	floatsNaN := []float64{math.NaN(), -1.5, 2}
	bytesK := []byte{0, 'a', 0xff}

	inPlace := func(fn string, arg targ, want any, tag string) {
		w := render(want)
		ks = append(ks, kase{Func: fn, Tag: tag, Prog: "r0, r1 := " + fn + "(a0)\nr2 := a0", NRet: 3, ErrPos: 1, Args: []targ{arg}, Want: []string{w, w}})
	}

	for _, q := range seqs {
		vi, vs, vf, vn, vb := make([]int, len(q)), make([]string, len(q)), make([]float64, len(q)), make([]float64, len(q)), make([]byte, len(q))
		v32, v64, f32 := make([]int32, len(q)), make([]int64, len(q)), make([]float32, len(q))

		for i, k := range q {
			vi[i], vs[i], vf[i], vn[i], vb[i] = ints[k], strs[k], floats[k], floatsNaN[k], bytesK[k]
			v32[i], v64[i], f32[i] = int32(ints[k]), int64(ints[k])<<33, float32(floats[k])
		}

		si := append([]int{}, vi...)
		sort.Ints(si)
		ss := append([]string{}, vs...)
		sort.Strings(ss)
		sf := append([]float64{}, vf...)
		sort.Float64s(sf)
		sn := append([]float64{}, vn...)
		sort.Float64s(sn)
		sb := append([]byte{}, vb...)
		sort.Slice(sb, func(i, j int) bool { return sb[i] < sb[j] })
		s32 := append([]int32{}, v32...)
		sort.Slice(s32, func(i, j int) bool { return s32[i] < s32[j] })
		s64 := append([]int64{}, v64...)
		sort.Slice(s64, func(i, j int) bool { return s64[i] < s64[j] })
		sf32 := append([]float32{}, f32...)
		sort.Slice(sf32, func(i, j int) bool { return sf32[i] < sf32[j] })

		inPlace("sort.Ints", mk(vi), si, "")
		inPlace("sort.Strings", mk(vs), ss, "")
		inPlace("sort.Float64s", mk(vf), sf, "")
		inPlace("sort.Bytes", mk(vb), sb, "")
		inPlace("sort.Int32s", mk(v32), s32, "")
		inPlace("sort.Int64s", mk(v64), s64, "")
		inPlace("sort.Float32s", mk(f32), sf32, "")
		inPlace("sort.Sort", mk(vi), si, "ints")
		inPlace("sort.Sort", mk(vs), ss, "strings")
		inPlace("sort.Sort", mk(vf), sf, "floats")
		inPlace("sort.Stable", mk(vi), si, "ints")
		inPlace("sort.Stable", mk(vs), ss, "strings")

		hasNaN := false

		for _, k := range q {
			if k == 0 {
				hasNaN = true
			}
		}

		if hasNaN {
			inPlace("sort.Float64s", mk(vn), sn, "nan")
		}

		ks = append(ks,
			kase{Func: "sort.IntsAreSorted", Prog: "r0, r1 := sort.IntsAreSorted(a0)", NRet: 2, ErrPos: 1, Args: []targ{mk(vi)}, Want: []string{render(sort.IntsAreSorted(vi))}},
			kase{Func: "sort.StringsAreSorted", Prog: "r0, r1 := sort.StringsAreSorted(a0)", NRet: 2, ErrPos: 1, Args: []targ{mk(vs)}, Want: []string{render(sort.StringsAreSorted(vs))}},
			kase{Func: "sort.Float64sAreSorted", Prog: "r0, r1 := sort.Float64sAreSorted(a0)", NRet: 2, ErrPos: 1, Args: []targ{mk(vf)}, Want: []string{render(sort.Float64sAreSorted(vf))}},
			kase{Func: "sort.IsSorted", Tag: "ints", Prog: "r0, r1 := sort.IsSorted(a0)", NRet: 2, ErrPos: 1, Args: []targ{mk(vi)}, Want: []string{render(sort.IntsAreSorted(vi))}},
			kase{Func: "sort.IsSorted", Tag: "strings", Prog: "r0, r1 := sort.IsSorted(a0)", NRet: 2, ErrPos: 1, Args: []targ{mk(vs)}, Want: []string{render(sort.StringsAreSorted(vs))}},
		)

		// Slice / SliceStable with an Ego comparison function: elements are
		// key*10+position, compared on the key only, so stability is visible.
		tagged := make([]int, len(q))
		for i, k := range q {
			tagged[i] = (k+1)*10 + i
		}

		st := append([]int{}, tagged...)
		sort.SliceStable(st, func(i, j int) bool { return st[i]/10 < st[j]/10 })

		less := "func(i int, j int) bool {\n\treturn a0[i]/10 < a0[j]/10\n}"
		ks = append(ks,
			kase{Func: "sort.SliceStable", Prog: "r0, r1 := sort.SliceStable(a0, " + less + ")\nr2 := a0", NRet: 3, ErrPos: 1, Args: []targ{mk(tagged)}, Want: []string{render(st), render(st)}},
			kase{Func: "sort.Slice", Post: "unstable-sort", Prog: "r0, r1 := sort.Slice(a0, " + less + ")", NRet: 2, ErrPos: 1, Args: []targ{mk(tagged)}, Want: unstableForm(st)},
		)

		// Searches on sorted input (Go's contract), every probe value.
		if len(q) <= 4 {
			for _, x := range []int{-4, -3, 0, 5, 7, 8} {
				ks = append(ks, kase{Func: "sort.SearchInts", Prog: "r0, r1 := sort.SearchInts(a0, a1)", NRet: 2, ErrPos: 1, Args: []targ{mk(si), mk(x)}, Want: []string{render(sort.SearchInts(si, x))}})
			}

			for _, x := range []string{"", "A", "a", "b", "é", "z\xff"} {
				ks = append(ks, kase{Func: "sort.SearchStrings", Prog: "r0, r1 := sort.SearchStrings(a0, a1)", NRet: 2, ErrPos: 1, Args: []targ{mk(ss), mk(x)}, Want: []string{render(sort.SearchStrings(ss, x))}})
			}

			for _, x := range []float64{-2, -1.5, 0, 1, math.Inf(1), math.Inf(-1)} {
				ks = append(ks, kase{Func: "sort.SearchFloat64s", Prog: "r0, r1 := sort.SearchFloat64s(a0, a1)", NRet: 2, ErrPos: 1, Args: []targ{mk(sf), mk(x)}, Want: []string{render(sort.SearchFloat64s(sf, x))}})
			}
		}
	}

	// Go's unstable sort is an insertion sort (hence stable) up to 12
	// elements, so stability needs longer arrays as well: fixed arithmetic
	// key patterns of 13..96 elements over three keys.
	for _, L := range []int{13, 16, 24, 40, 64, 96} {
		for c := 0; c < 6; c++ {
			tagged, plain := make([]int, L), make([]int, L)

			for i := range tagged {
				k := (i*i + c*i + c) % 3
				if c >= 3 {
					k = ((L - i) / (c - 1)) % 3
				}

				tagged[i] = (k+1)*1000 + i
				plain[i] = []int{-3, 0, 7}[k]
			}

			st := append([]int{}, tagged...)
			sort.SliceStable(st, func(i, j int) bool { return st[i]/1000 < st[j]/1000 })

			sp := append([]int{}, plain...)
			sort.Ints(sp)

			less := "func(i int, j int) bool {\n\treturn a0[i]/1000 < a0[j]/1000\n}"
			ks = append(ks,
				kase{Func: "sort.SliceStable", Tag: "long", Prog: "r0, r1 := sort.SliceStable(a0, " + less + ")\nr2 := a0", NRet: 3, ErrPos: 1, Args: []targ{mk(tagged)}, Want: []string{render(st), render(st)}},
			)

			inPlace("sort.Ints", mk(plain), sp, "long")
			inPlace("sort.Stable", mk(plain), sp, "long")
			inPlace("sort.Sort", mk(plain), sp, "long")
		}
	}

	for n := 0; n <= 7; n++ {
		for t := -1; t <= 8; t++ {
			want := sort.Search(n, func(i int) bool { return i >= t })
			ks = append(ks, kase{Func: "sort.Search", Prog: "r0, r1 := sort.Search(a0, func(i int) bool {\n\treturn i >= a1\n})", NRet: 2, ErrPos: 1, Args: []targ{mk(n), mk(t)}, Want: []string{render(want)}})
		}
	}

	sc.runAll(ks)
}

// ---------------------------------------------------------------------------
// fmt.Sprintf: verb x flag x width/precision x scalar value.

func (sc *sectionCtx) fmtSection() {
	var ks []kase

	flags := []string{"", "+", "-", "#", "0", " ", "+0", "-#"}
	widths := []string{"", "5", "12", ".0", ".3", "8.3", "3.10"}

	if !sc.r.Thorough() {
		flags = []string{"", "+", "-", "#", "0", " "}
		widths = []string{"", "6", ".2", "9.3"}
	}

	add := func(format string, vals ...any) {
		args := []targ{mk(format)}
		names := []string{"a0"}

		for i, v := range vals {
			args = append(args, mk(v))
			names = append(names, fmt.Sprintf("a%d", i+1))
		}

		ks = append(ks, kase{Func: "fmt.Sprintf", Prog: "r0 := fmt.Sprintf(" + strings.Join(names, ", ") + ")", NRet: 1, ErrPos: -1, Args: args, Want: []string{render(fmt.Sprintf(format, vals...))}})
	}

	type group struct {
		name  string
		verbs string
		vals  []any
	}

	groups := []group{
		{"int", "vdboOxXcqUeEfgsTt", []any{0, 1, -1, 65, 255, 1234567, math.MaxInt64, math.MinInt64, 0x1F600, -65}},
		{"float64", "veEfFgGbxXsdTq", []any{0.0, math.Copysign(0, -1), 1.0, -1.5, 0.1, 1e21, 1e-7, 123456.789, math.MaxFloat64, math.Inf(1), math.Inf(-1), math.NaN(), 2.5, 1e6, 100000.0, 1e20}},
		{"string", "vsqxXdTc", []any{"", "a", "héllo", `a"b`, "\xff", "with space", "%d", "a\nb", "日本"}},
		{"bool", "vtdsTq", []any{true, false}},
		{"rune", "vdcqUxTs", []any{int32('a'), int32('é'), int32(0), int32(0x1F600), int32(-1), int32(0x10ffff + 1), int32('\n')}},
		// %T is left out for bytes: Ego names the type "byte", Go "uint8".
		{"byte", "vdcqxXsU", []any{byte(0), byte('a'), byte(0x80), byte(0xff)}},
		{"int64", "vdxTc", []any{int64(0), int64(-7), int64(math.MaxInt64), int64(math.MinInt64)}},
	}

	for _, g := range groups {
		for _, verb := range g.verbs {
			for _, fl := range flags {
				for _, w := range widths {
					// %#v is deliberately rendered as %v by Ego (the formatter
					// rewrites it); Go-syntax representation is not demanded.
					if verb == 'v' && strings.Contains(fl, "#") {
						continue
					}

					for _, v := range g.vals {
						add("%"+fl+w+string(verb), v)
					}
				}
			}
		}
	}

	// literal percent signs, surrounding text, argument count mismatches,
	// indexed and starred operands
	for _, f := range []string{"%%", "a%%b", "100%%|%d", "%d%%", "%d|%%|%d", "x%5.2f|", "%d %d", "%d", "no verbs", "%", "%!", "%z", "%-", "%5", "%[1]d", "%[2]d %[1]d", "%[1]d %[1]d", "%*d", "%-*d|", "%.*f", "%6.2f%%", "%s=%d", "%v %v", "%q %v", "%%%d", "%d%", "%%d", "%c%c", "%5%", "%x %X", "%08.3f", "%+d %+d", "%U %#U", "%t %t", "é%dé", "%3c|%-3c|", "%e %g"} {
		add(f, 7)
		add(f, 7, 3)
		add(f, "s", 2)
		add(f, 2.5, 3)
		add(f)
		add(f, 1, 2, 3)
	}

	sc.runAll(ks)
}

// ---------------------------------------------------------------------------
// json: Marshal output equals encoding/json's; Unmarshal(Marshal(v)) == v;
// Unmarshal of arbitrary JSON text agrees with encoding/json.

func (sc *sectionCtx) jsonSection() {
	var ks []kase

	n := sc.r.Pick(3, 4)
	hostile := stringsOver([]string{`\`, `"`, " ", "a", "\n", "é", "<", "\x00", " "}, n, []string{"\xff", "a\xffb", "\U0001F600", strings.Repeat("q\"", 200)})

	var vals []any

	for _, s := range hostile {
		vals = append(vals, s)
	}

	for _, i := range []int{0, 1, -1, 255, math.MaxInt32, math.MinInt32, 1 << 53, 1<<53 + 1, math.MaxInt64, math.MinInt64} {
		vals = append(vals, i)
	}

	for _, f := range []float64{0, math.Copysign(0, -1), 1, -1.5, 0.1, 1e21, 1e20, 1e-7, 1e-6, 123456.789, math.MaxFloat64, math.SmallestNonzeroFloat64, math.Inf(1), math.Inf(-1), math.NaN(), 100, 1 << 53} {
		vals = append(vals, f)
	}

	vals = append(vals, true, false)

	sn := sc.r.Pick(3, 4)

	enum.Strings([]string{"", "a", `"`, "é"}, 0, sn, func(_ string, idx []int) {
		s := make([]string, len(idx))
		for i, k := range idx {
			s[i] = []string{"", "a", `"`, "é"}[k]
		}

		vals = append(vals, s)
	})

	enum.Strings([]string{"0", "1", "2"}, 0, sn, func(_ string, idx []int) {
		vi, vf := make([]int, len(idx)), make([]float64, len(idx))
		for i, k := range idx {
			vi[i], vf[i] = []int{0, -7, math.MaxInt64}[k], []float64{0.5, -1e21, 3}[k]
		}

		vals = append(vals, vi, vf)
	})

	egoType := func(v any) string {
		switch v.(type) {
		case string:
			return "string"
		case int:
			return "int"
		case float64:
			return "float64"
		case bool:
			return "bool"
		case []string:
			return "[]string"
		case []int:
			return "[]int"
		case []float64:
			return "[]float64"
		}

		return "interface{}"
	}

	for _, v := range vals {
		b, err := json.Marshal(v)

		ks = append(ks, kase{Func: "json.Marshal", Prog: "r0, r1 := json.Marshal(a0)", NRet: 2, ErrPos: 1, Args: []targ{mk(v)}, GoFail: err != nil, Want: []string{render(b)}})

		if err != nil {
			continue
		}

		// what Go itself gets back from its own round trip is the expectation
		// (e.g. invalid UTF-8 is replaced by U+FFFD by Marshal)
		back := reflectNew(v)
		if json.Unmarshal(b, back.ptr) != nil {
			continue
		}

		ks = append(ks, kase{Func: "json.Unmarshal", Tag: "roundtrip", Prog: "b, e := json.Marshal(a0)\nvar out " + egoType(v) + "\nr1 := json.Unmarshal(b, &out)\nr0 := out", NRet: 2, ErrPos: 1, Args: []targ{mk(v)}, Want: []string{render(back.get())}})
	}

	// MarshalIndent on arrays and scalars
	for _, v := range []any{[]int{}, []int{1}, []int{1, 2, 3}, []string{"a", `"`}, "s", 5, 1.5, true, []float64{0.5, 2}} {
		for _, prefix := range []string{"", ">", " "} {
			for _, indent := range []string{"", " ", "\t", "--"} {
				b, err := json.MarshalIndent(v, prefix, indent)
				ks = append(ks, kase{Func: "json.MarshalIndent", Prog: "r0, r1 := json.MarshalIndent(a0, a1, a2)", NRet: 2, ErrPos: 1, Args: []targ{mk(v), mk(prefix), mk(indent)}, GoFail: err != nil, Want: []string{render(b)}})
			}
		}
	}

	// maps and structs written as Ego literals; the document is compared
	// after decoding (key order is not part of the value)
	type lit struct {
		ego string
		typ string
		val any
	}

	lits := []lit{
		{`map[string]int{}`, "map[string]int", map[string]int{}},
		{`map[string]int{"a": 1}`, "map[string]int", map[string]int{"a": 1}},
		{`map[string]int{"b": 2, "a": 1, "é": -3}`, "map[string]int", map[string]int{"b": 2, "a": 1, "é": -3}},
		{`map[string]string{"k": "v", "q\"": "a\nb", "": ""}`, "map[string]string", map[string]string{"k": "v", "q\"": "a\nb", "": ""}},
		{`map[string]bool{"t": true, "f": false}`, "map[string]bool", map[string]bool{"t": true, "f": false}},
		{`map[string]float64{"x": 1.5, "y": -0.25}`, "map[string]float64", map[string]float64{"x": 1.5, "y": -0.25}},
		{`map[string][]int{"p": []int{1, 2}, "q": []int{}}`, "map[string][]int", map[string][]int{"p": {1, 2}, "q": {}}},
		{`[][]int{[]int{1}, []int{}, []int{2, 3}}`, "[][]int", [][]int{{1}, {}, {2, 3}}},
		{`[]map[string]int{map[string]int{"a": 1}, map[string]int{}}`, "[]map[string]int", []map[string]int{{"a": 1}, {}}},
	}

	for _, l := range lits {
		b, _ := json.Marshal(l.val)

		var doc any

		_ = json.Unmarshal(b, &doc)

		ks = append(ks,
			kase{Func: "json.Marshal", Tag: "composite", Post: "json", Prog: "v := " + l.ego + "\nr0, r1 := json.Marshal(v)", NRet: 2, ErrPos: 1, Want: []string{render(doc)}},
			kase{Func: "json.Unmarshal", Tag: "roundtrip-composite", Prog: "v := " + l.ego + "\nb, e := json.Marshal(v)\nvar out " + l.typ + "\nr1 := json.Unmarshal(b, &out)\nr0 := out", NRet: 2, ErrPos: 1, Want: []string{render(l.val)}},
		)
	}

	for _, s := range []struct{ decl, lit, want string }{
		{"type T struct {\n\tA int\n\tB string\n}", `T{A: 5, B: "x\"y"}`, `{"A":5,"B":"x\"y"}`},
		{"type T struct {\n\tA []int\n\tB bool\n\tC float64\n}", `T{A: []int{1, 2}, B: true, C: 2.5}`, `{"A":[1,2],"B":true,"C":2.5}`},
		{"type T struct {\n\tName string\n\tAge int\n}", `T{Name: "é", Age: -1}`, `{"Name":"é","Age":-1}`},
	} {
		var doc any

		_ = json.Unmarshal([]byte(s.want), &doc)

		ks = append(ks,
			kase{Func: "json.Marshal", Tag: "struct", Post: "json", Prog: s.decl + "\nv := " + s.lit + "\nr0, r1 := json.Marshal(v)", NRet: 2, ErrPos: 1, Want: []string{render(doc)}},
			kase{Func: "json.Unmarshal", Tag: "roundtrip-struct", Post: "json", Prog: s.decl + "\nv := " + s.lit + "\nb, e := json.Marshal(v)\nvar out T\ne2 := json.Unmarshal(b, &out)\nr0, r1 := json.Marshal(out)", NRet: 2, ErrPos: 1, Want: []string{render(doc)}},
		)
	}

	// arbitrary JSON text into an interface{}: same success/failure, same value
	tokens := []string{"{", "}", "[", "]", `"a"`, ":", ",", "1", "true", "null", " ", "-1.5e2", `"é"`}
	tn := sc.r.Pick(4, 5)

	for _, text := range enum.AllStrings(tokens, 1, tn) {
		var doc any

		err := json.Unmarshal([]byte(text), &doc)

		ks = append(ks, kase{Func: "json.Unmarshal", Tag: "any", Prog: "var out interface{}\nr1 := json.Unmarshal(a0, &out)\nr0 := out", NRet: 2, ErrPos: 1, Args: []targ{mk([]byte(text))}, GoFail: err != nil, Want: []string{render(doc)}})
	}

	sc.runAll(ks)
}

type boxed struct {
	ptr any
	get func() any
}

func reflectNew(v any) boxed {
	switch v.(type) {
	case string:
		p := new(string)

		return boxed{p, func() any { return *p }}
	case int:
		p := new(int)

		return boxed{p, func() any { return *p }}
	case float64:
		p := new(float64)

		return boxed{p, func() any { return *p }}
	case bool:
		p := new(bool)

		return boxed{p, func() any { return *p }}
	case []string:
		p := new([]string)

		return boxed{p, func() any { return *p }}
	case []int:
		p := new([]int)

		return boxed{p, func() any { return *p }}
	case []float64:
		p := new([]float64)

		return boxed{p, func() any { return *p }}
	}

	p := new(any)

	return boxed{p, func() any { return *p }}
}

// ---------------------------------------------------------------------------
// time: Unix, Date, Parse, Format, ParseDuration against package time.

func (sc *sectionCtx) timeSection() {
	var ks []kase

	secs := []int64{0, 1, -1, 86399, 951782400, 1700000000, 1709210096, 253402300799, -62135596800, 1e11}
	nsecs := []int64{0, 1, 999999999, 123456789, 120000000, 1000000000, -1}
	layouts := []string{time.RFC3339, time.RFC3339Nano, time.RFC1123, time.RFC1123Z, time.RFC822, time.RFC850, time.ANSIC, time.UnixDate, time.RubyDate, time.Kitchen, time.Stamp, time.StampMilli, time.StampMicro, time.StampNano, time.DateTime, time.DateOnly, time.TimeOnly,
		"2006-01-02", "Jan _2 2006", "02/01/06 03:04PM -0700", "Mon Monday Jan January 01 1 _2 02 2 15 03 3 04 4 05 5 PM pm MST", "-0700 -07:00 -07 Z0700 Z07:00 -07:00:00", ".000 .999 ,000 .000000000 .999999999", "2006 06 __2 002", "", "no layout", "2006-01-02T15:04:05.999999999Z07:00 (MST)", "15h04m05s", "3:4:5"}

	for _, s := range secs {
		for _, ns := range nsecs {
			ks = append(ks, kase{Func: "time.Unix", Prog: "r0 := time.Unix(a0, a1)", NRet: 1, ErrPos: -1, Args: []targ{mk(s), mk(ns)}, Want: []string{render(time.Unix(s, ns))}})

			for _, l := range layouts {
				ks = append(ks, kase{Func: "time.Time.Format", Prog: "t := time.Unix(a0, a1)\nr0 := t.Format(a2)", NRet: 1, ErrPos: -1, Args: []targ{mk(s), mk(ns), mk(l)}, Want: []string{render(time.Unix(s, ns).Format(l))}})
			}
		}
	}

	// Parse: every layout against the text of every (layout, time), so that
	// matching and non-matching pairs both occur, plus damaged texts.
	texts := map[string]bool{"": true, "x": true, "2024-02-30": true, "2023-02-29T00:00:00Z": true, "24:00:00": true, "12:60PM": true}

	for _, s := range []int64{0, 951782400, 1709210096} {
		for _, l := range layouts {
			tx := time.Unix(s, 123456789).UTC().Format(l)
			texts[tx] = true
			texts[tx+" "] = true

			if len(tx) > 1 {
				texts[tx[1:]] = true
			}
		}
	}

	var textList []string
	for t := range texts {
		textList = append(textList, t)
	}

	sort.Strings(textList)

	for _, l := range layouts {
		for _, t := range textList {
			got, err := time.Parse(l, t)

			ks = append(ks, kase{Func: "time.Parse", Prog: "r0, r1 := time.Parse(a0, a1)", NRet: 2, ErrPos: 1, Args: []targ{mk(l), mk(t)}, GoFail: err != nil, Want: []string{render(got)}})
		}
	}

	// Date, in a fixed zone built by the Ego program itself.
	years := []int{1970, 2024, 1, 9999, 0, -1}
	months := []int{1, 2, 12, 13, 0}
	days := []int{1, 28, 29, 31, 32, 0}
	hours := []int{0, 23, 24}
	mins := []int{0, 60}
	secsD := []int{0, 59, 61}
	nanos := []int{0, 999999999, 1000000000}
	offs := []int{0, 3600, -18000}

	if !sc.r.Thorough() {
		years, hours, offs = []int{1970, 2024, 0}, []int{0, 24}, []int{0, -18000}
	}

	enum.Product([]int{len(years), len(months), len(days), len(hours), len(mins), len(secsD), len(nanos), len(offs)}, func(ix []int) {
		y, mo, d, h, mi, s, ns, off := years[ix[0]], months[ix[1]], days[ix[2]], hours[ix[3]], mins[ix[4]], secsD[ix[5]], nanos[ix[6]], offs[ix[7]]
		want := time.Date(y, time.Month(mo), d, h, mi, s, ns, time.FixedZone("Z", off))

		ks = append(ks, kase{Func: "time.Date", Prog: "r0 := time.Date(a0, a1, a2, a3, a4, a5, a6, time.FixedZone(\"Z\", a7))", NRet: 1, ErrPos: -1,
			Args: []targ{mk(y), mk(mo), mk(d), mk(h), mk(mi), mk(s), mk(ns), mk(off)}, Want: []string{render(want)}})
	})

	// ParseDuration: Ego documents extra spellings; it is judged on every
	// string Go accepts (OkOnly), where it must return Go's duration.
	dn := sc.r.Pick(4, 5)

	for _, text := range enum.AllStrings([]string{"1", "5", "0", ".", "h", "m", "s", "ms", "us", "µs", "ns", "-", "+"}, 1, dn) {
		d, err := time.ParseDuration(text)
		if err != nil {
			continue
		}

		ks = append(ks, kase{Func: "time.ParseDuration", OkOnly: true, Prog: "r0, r1 := time.ParseDuration(a0)", NRet: 2, ErrPos: 1, Args: []targ{mk(text)}, Want: []string{render(d)}})
	}

	for _, text := range []string{"2562047h47m16.854775807s", "-2562047h47m16.854775808s", "9223372036854775807ns", "0.000000001s", "1.5h30.25m", "1h1m1s1ms1us1ns", "100000h", ".5s", "1.s", "0"} {
		if d, err := time.ParseDuration(text); err == nil {
			ks = append(ks, kase{Func: "time.ParseDuration", OkOnly: true, Prog: "r0, r1 := time.ParseDuration(a0)", NRet: 2, ErrPos: 1, Args: []targ{mk(text)}, Want: []string{render(d)}})
		}
	}

	sc.runAll(ks)
}

package main

import (
	"encoding/hex"
	"encoding/json"
	"fmt"
	"math"
	"reflect"
	"sort"
	"strconv"
	"strings"
	"sync"
	"time"

	"github.com/tucats/ego/internal/builtins"
	"github.com/tucats/ego/internal/language/bytecode"
	"github.com/tucats/ego/internal/language/compiler"
	"github.com/tucats/ego/internal/language/data"
	"github.com/tucats/ego/internal/language/symbols"
	"github.com/tucats/ego/internal/verifrt/report"
)

// ---------------------------------------------------------------------------
// Typed arguments: how a value is handed to the Ego program (as symbol a<i>)
// and written into a witness so that a replay can rebuild it byte for byte.

type targ struct {
	T string `json:"t"` // string int int64 uint64 int32 byte float64 bool complex128 []string []int []float64 []byte
	V string `json:"v"` // Go-syntax text (strings are strconv.Quote'd)
}

func fs(f float64) string {
	if math.IsNaN(f) {
		return "NaN"
	}

	return strconv.FormatFloat(f, 'x', -1, 64)
}

func pf(s string) float64 {
	if s == "NaN" {
		return math.NaN()
	}

	f, _ := strconv.ParseFloat(s, 64)

	return f
}

func mk(v any) targ {
	switch x := v.(type) {
	case string:
		return targ{"string", strconv.Quote(x)}
	case int:
		return targ{"int", strconv.Itoa(x)}
	case int64:
		return targ{"int64", strconv.FormatInt(x, 10)}
	case uint64:
		return targ{"uint64", strconv.FormatUint(x, 10)}
	case int32:
		return targ{"int32", strconv.Itoa(int(x))}
	case uint8:
		return targ{"byte", strconv.Itoa(int(x))}
	case float64:
		return targ{"float64", fs(x)}
	case bool:
		return targ{"bool", strconv.FormatBool(x)}
	case complex128:
		return targ{"complex128", fs(real(x)) + " " + fs(imag(x))}
	case []string:
		q := make([]string, len(x))
		for i, s := range x {
			q[i] = strconv.Quote(s)
		}

		return targ{"[]string", strings.Join(q, " ")}
	case []int:
		q := make([]string, len(x))
		for i, s := range x {
			q[i] = strconv.Itoa(s)
		}

		return targ{"[]int", strings.Join(q, " ")}
	case []float64:
		q := make([]string, len(x))
		for i, s := range x {
			q[i] = fs(s)
		}

		return targ{"[]float64", strings.Join(q, " ")}
	case []byte:
		return targ{"[]byte", hex.EncodeToString(x)}
	case []int32:
		q := make([]string, len(x))
		for i, s := range x {
			q[i] = strconv.Itoa(int(s))
		}

		return targ{"[]int32", strings.Join(q, " ")}
	case []int64:
		q := make([]string, len(x))
		for i, s := range x {
			q[i] = strconv.FormatInt(s, 10)
		}

		return targ{"[]int64", strings.Join(q, " ")}
	case []float32:
		q := make([]string, len(x))
		for i, s := range x {
			q[i] = fs(float64(s))
		}

		return targ{"[]float32", strings.Join(q, " ")}
	}

	panic(fmt.Sprintf("mk: unsupported %T", v))
}

// splitQuoted splits a space-separated list of strconv.Quote'd strings.
func splitQuoted(s string) []string {
	var out []string

	for len(s) > 0 {
		s = strings.TrimLeft(s, " ")
		if s == "" {
			break
		}

		q, err := strconv.QuotedPrefix(s)
		if err != nil {
			break
		}

		u, _ := strconv.Unquote(q)
		out = append(out, u)
		s = s[len(q):]
	}

	return out
}

// goVal is the Go value of the argument (what the Go reference receives).
func (a targ) goVal() any {
	switch a.T {
	case "string":
		s, _ := strconv.Unquote(a.V)

		return s
	case "int":
		i, _ := strconv.Atoi(a.V)

		return i
	case "int64":
		i, _ := strconv.ParseInt(a.V, 10, 64)

		return i
	case "uint64":
		i, _ := strconv.ParseUint(a.V, 10, 64)

		return i
	case "int32":
		i, _ := strconv.Atoi(a.V)

		return int32(i)
	case "byte":
		i, _ := strconv.Atoi(a.V)

		return uint8(i)
	case "float64":
		return pf(a.V)
	case "bool":
		return a.V == "true"
	case "complex128":
		p := strings.Fields(a.V)

		return complex(pf(p[0]), pf(p[1]))
	case "[]string":
		out := splitQuoted(a.V)
		if out == nil {
			out = []string{}
		}

		return out
	case "[]int":
		out := []int{}

		for _, f := range strings.Fields(a.V) {
			i, _ := strconv.Atoi(f)
			out = append(out, i)
		}

		return out
	case "[]float64":
		out := []float64{}
		for _, f := range strings.Fields(a.V) {
			out = append(out, pf(f))
		}

		return out
	case "[]byte":
		b, _ := hex.DecodeString(a.V)

		return b
	case "[]int32":
		out := []int32{}

		for _, f := range strings.Fields(a.V) {
			i, _ := strconv.Atoi(f)
			out = append(out, int32(i))
		}

		return out
	case "[]int64":
		out := []int64{}

		for _, f := range strings.Fields(a.V) {
			i, _ := strconv.ParseInt(f, 10, 64)
			out = append(out, i)
		}

		return out
	case "[]float32":
		out := []float32{}
		for _, f := range strings.Fields(a.V) {
			out = append(out, float32(pf(f)))
		}

		return out
	}

	panic("goVal: " + a.T)
}

// egoVal is the same value in Ego's own representation.
func (a targ) egoVal() any {
	switch v := a.goVal().(type) {
	case []string:
		return data.NewArrayFromStrings(v...)
	case []int:
		e := make([]any, len(v))
		for i, x := range v {
			e[i] = x
		}

		return data.NewArrayFromInterfaces(data.IntType, e...)
	case []float64:
		e := make([]any, len(v))
		for i, x := range v {
			e[i] = x
		}

		return data.NewArrayFromInterfaces(data.Float64Type, e...)
	case []byte:
		return data.NewArrayFromBytes(v...)
	case []int32:
		e := make([]any, len(v))
		for i, x := range v {
			e[i] = x
		}

		return data.NewArrayFromInterfaces(data.Int32Type, e...)
	case []int64:
		e := make([]any, len(v))
		for i, x := range v {
			e[i] = x
		}

		return data.NewArrayFromInterfaces(data.Int64Type, e...)
	case []float32:
		e := make([]any, len(v))
		for i, x := range v {
			e[i] = x
		}

		return data.NewArrayFromInterfaces(data.Float32Type, e...)
	default:
		return v
	}
}

func showArgs(as []targ) string {
	p := make([]string, len(as))
	for i, a := range as {
		p[i] = a.T + "(" + a.V + ")"
	}

	return strings.Join(p, ", ")
}

// ---------------------------------------------------------------------------
// Canonical rendering of results (Go's and Ego's) for comparison.

func render(v any) string {
	switch x := v.(type) {
	case nil:
		return "nil"
	case data.Interface:
		return render(x.Value)
	case bool:
		return strconv.FormatBool(x)
	case string:
		return "s:" + strconv.Quote(x)
	case float32:
		return "f:" + fs(float64(x))
	case float64:
		return "f:" + fs(x)
	case complex64:
		return "c:(" + fs(float64(real(x))) + "," + fs(float64(imag(x))) + ")"
	case complex128:
		return "c:(" + fs(real(x)) + "," + fs(imag(x)) + ")"
	case time.Duration:
		return "d:" + strconv.FormatInt(int64(x), 10)
	case *time.Duration:
		if x == nil {
			return "nil"
		}

		return "d:" + strconv.FormatInt(int64(*x), 10)
	case time.Time:
		n, off := x.Zone()

		return "t:" + x.Format(time.RFC3339Nano) + "|" + n + "|" + strconv.Itoa(off)
	case *time.Time:
		if x == nil {
			return "nil"
		}

		return render(*x)
	case error:
		return "error"
	case []byte:
		return "b:" + hex.EncodeToString(x)
	case *data.Array:
		if x == nil {
			return "[]"
		}

		if x.Type() != nil && x.Type().Kind() == data.ByteKind {
			return "b:" + hex.EncodeToString(x.GetBytes())
		}

		p := make([]string, x.Len())

		for i := range p {
			e, _ := x.Get(i)
			p[i] = render(e)
		}

		return "[" + strings.Join(p, " ") + "]"
	case *data.Map:
		keys := x.Keys()
		p := make([]string, 0, len(keys))

		for _, k := range keys {
			e, _, _ := x.Get(k)
			p = append(p, render(k)+"="+render(e))
		}

		sort.Strings(p)

		return "{" + strings.Join(p, " ") + "}"
	case *data.Struct:
		names := x.FieldNames(false)
		p := make([]string, 0, len(names))

		for _, k := range names {
			e, _ := x.Get(k)
			p = append(p, render(k)+"="+render(e))
		}

		sort.Strings(p)

		return "{" + strings.Join(p, " ") + "}"
	}

	rv := reflect.ValueOf(v)

	switch rv.Kind() {
	case reflect.Int, reflect.Int8, reflect.Int16, reflect.Int32, reflect.Int64:
		return "i:" + strconv.FormatInt(rv.Int(), 10)
	case reflect.Uint, reflect.Uint8, reflect.Uint16, reflect.Uint32, reflect.Uint64:
		return "i:" + strconv.FormatUint(rv.Uint(), 10)
	case reflect.Slice, reflect.Array:
		p := make([]string, rv.Len())
		for i := range p {
			p[i] = render(rv.Index(i).Interface())
		}

		return "[" + strings.Join(p, " ") + "]"
	case reflect.Map:
		p := make([]string, 0, rv.Len())

		it := rv.MapRange()
		for it.Next() {
			p = append(p, render(it.Key().Interface())+"="+render(it.Value().Interface()))
		}

		sort.Strings(p)

		return "{" + strings.Join(p, " ") + "}"
	case reflect.Ptr:
		if rv.IsNil() {
			return "nil"
		}
	}

	return fmt.Sprintf("%T:%v", v, v)
}

// ---------------------------------------------------------------------------
// Running Ego.

type env struct{ root *symbols.SymbolTable }

var (
	envPool = sync.Pool{New: func() any {
		root := symbols.NewRootSymbolTable("c11")
		c := compiler.New("auto").SetExtensionsEnabled(true)

		if err := c.AutoImport(true, root); err != nil {
			report.Fatal("cannot import the runtime packages: %v", err)
		}

		builtins.AddBuiltins(root)
		compiler.AddStandard(root)

		return &env{root: root}
	}}
	progCache sync.Map // program text -> *bytecode.ByteCode or error
)

func compileProg(prog string) (*bytecode.ByteCode, error) {
	if v, ok := progCache.Load(prog); ok {
		if bc, ok := v.(*bytecode.ByteCode); ok {
			return bc, nil
		}

		return nil, v.(error)
	}

	bc, err := compiler.CompileString("c11", prog, true)
	if err != nil {
		progCache.Store(prog, err)

		return nil, err
	}

	progCache.Store(prog, bc)

	return bc, nil
}

// runEgo runs prog with a0..an bound; returns r0..r(nret-1) and the error the
// program ended with (compile error, thrown runtime error), if any.
func runEgo(prog string, nret int, args []targ) (rets []any, thrown error) {
	defer func() {
		if r := recover(); r != nil {
			rets, thrown = nil, fmt.Errorf("panic: %v", r)
		}
	}()

	bc, err := compileProg(prog)
	if err != nil {
		return nil, fmt.Errorf("compile: %v", err)
	}

	e := envPool.Get().(*env)
	defer envPool.Put(e)

	s := symbols.NewChildSymbolTable("call", e.root)
	for i, a := range args {
		s.SetAlways("a"+strconv.Itoa(i), a.egoVal())
	}

	if err := bytecode.NewContext(s, bc).Run(); err != nil && err.Error() != "stop" {
		return nil, err
	}

	rets = make([]any, nret)

	for i := range rets {
		v, ok := s.Get("r" + strconv.Itoa(i))
		if !ok {
			return nil, fmt.Errorf("result r%d was not assigned", i)
		}

		rets[i] = v
	}

	return rets, nil
}

// ---------------------------------------------------------------------------
// One judged case.

type kase struct {
	Func   string `json:"func"`    // e.g. strings.Index (also the head of the cell)
	Prog   string `json:"program"` // Ego program; results in r0..
	NRet   int    `json:"nret"`
	ErrPos int    `json:"err_pos"` // index of the error result, -1 = none
	Args   []targ `json:"args"`
	// What Go did: GoFail = the Go function reported failure; Want = rendering
	// of its non-error results.
	GoFail bool     `json:"go_fails"`
	Want   []string `json:"go_results"`
	// OkOnly: the Ego function is a documented superset of the Go one; it is
	// judged only on arguments for which the Go function succeeds.
	OkOnly bool   `json:"ok_only,omitempty"`
	// Post: how the first Ego result is transformed before the comparison:
	// "unstable-sort" (key sequence + multiset of key*10+tag ints),
	// "json" (decoded JSON document).
	Post string `json:"post,omitempty"`
	Tag    string `json:"tag,omitempty"` // refinement of the cell
}

type witness struct {
	kase
	Ego string `json:"ego_results"`
}

func isNilish(v any) bool {
	if v == nil {
		return true
	}

	if w, ok := v.(data.Interface); ok {
		return isNilish(w.Value)
	}

	rv := reflect.ValueOf(v)
	switch rv.Kind() {
	case reflect.Ptr, reflect.Interface, reflect.Map, reflect.Slice:
		return rv.IsNil()
	}

	return false
}

// judge runs the case on Ego and compares. Returns "" when it agrees.
func judge(k kase) (class string, ego string) {
	rets, thrown := runEgo(k.Prog, k.NRet, k.Args)

	egoFail := thrown != nil
	if !egoFail && k.ErrPos >= 0 && k.ErrPos < len(rets) && !isNilish(rets[k.ErrPos]) {
		egoFail = true
	}

	if thrown != nil {
		ego = "error: " + thrown.Error()
	} else {
		p := make([]string, len(rets))
		for i, r := range rets {
			p[i] = render(r)
		}

		ego = strings.Join(p, ", ")
	}

	if k.GoFail {
		if k.OkOnly || egoFail {
			return "", ego
		}

		return "go-fails-ego-succeeds", ego
	}

	if egoFail {
		return "go-succeeds-ego-fails", ego
	}

	var got []string

	for i, r := range rets {
		if i == k.ErrPos {
			continue
		}

		if len(got) == 0 && k.Post != "" {
			got = append(got, postProcess(k.Post, r)...)

			continue
		}

		got = append(got, render(r))
	}

	if k.Post != "" {
		ego = strings.Join(got, ", ") + "  [raw: " + ego + "]"
	}

	if len(got) != len(k.Want) {
		return "arity", ego
	}

	for i := range got {
		if got[i] != k.Want[i] {
			return "value", ego
		}
	}

	return "", ego
}

// postProcess turns the first result into the comparable form named by post.
func postProcess(post string, v any) []string {
	switch post {
	case "unstable-sort":
		return unstableForm(intsOf(v))
	case "json":
		var doc any

		b, ok := bytesOf(v)
		if !ok {
			return []string{"not-bytes:" + render(v)}
		}

		if err := json.Unmarshal(b, &doc); err != nil {
			return []string{"invalid-json:" + string(b)}
		}

		return []string{render(doc)}
	}

	return []string{render(v)}
}

func bytesOf(v any) ([]byte, bool) {
	switch x := v.(type) {
	case data.Interface:
		return bytesOf(x.Value)
	case []byte:
		return x, true
	case string:
		return []byte(x), true
	case *data.Array:
		if x != nil && x.Type() != nil && x.Type().Kind() == data.ByteKind {
			return x.GetBytes(), true
		}
	}

	return nil, false
}

func intsOf(v any) []int {
	if w, ok := v.(data.Interface); ok {
		return intsOf(w.Value)
	}

	if a, ok := v.(*data.Array); ok && a != nil {
		out := make([]int, a.Len())

		for i := range out {
			e, _ := a.Get(i)
			out[i], _ = data.Int(e)
		}

		return out
	}

	if a, ok := v.([]int); ok {
		return a
	}

	return nil
}

// unstableForm: the sequence of keys (v/10) must be the sorted one and the
// multiset of elements must be the input's; the order inside a key is free.
func unstableForm(v []int) []string {
	keys := make([]int, len(v))
	all := append([]int{}, v...)

	for i, x := range v {
		keys[i] = x / 10
	}

	sort.Ints(all)

	return []string{render(keys), render(all)}
}

// ---------------------------------------------------------------------------
// Collecting violations per cell (smallest witness wins, ties by text).

type collector struct {
	mu    sync.Mutex
	cells map[string]*cellInfo
	evals int64
}

type cellInfo struct {
	count int
	size  int
	w     witness
	msg   string
}

func (c *collector) add(cell string, size int, w witness, msg string) {
	c.mu.Lock()
	defer c.mu.Unlock()

	ci := c.cells[cell]
	if ci == nil {
		c.cells[cell] = &cellInfo{count: 1, size: size, w: w, msg: msg}

		return
	}

	ci.count++

	if size < ci.size || (size == ci.size && msg < ci.msg) {
		ci.size, ci.w, ci.msg = size, w, msg
	}
}

func argSize(as []targ) int {
	n := 0
	for _, a := range as {
		n += len(a.V)
	}

	return n
}

// check judges one case and records the outcome.
func check(r *report.R, col *collector, k kase) {
	class, ego := judge(k)

	r.Eval(1)
	r.Distinct(k.Func + "|" + k.Prog + "|" + showArgs(k.Args))

	if class == "" {
		return
	}

	cell := k.Func + ":" + class
	if k.Tag != "" {
		cell += ":" + k.Tag
	}

	goSide := strings.Join(k.Want, ", ")
	if k.GoFail {
		goSide = "failure"
	}

	col.add(cell, argSize(k.Args)+len(k.Prog), witness{k, ego},
		fmt.Sprintf("%s with (%s): Go gives %s; Ego gives %s", k.Prog, showArgs(k.Args), goSide, ego))
}

// C11: each Ego runtime function that mirrors a Go standard-library function
// returns the same result and the same success/failure as the Go function;
// documented round trips hold; sorts are ordered (stable) permutations.
//
// E-enum. Every function of the mirrored runtime packages is classified
// (completeness guard). Native pass-through functions are called from a
// compiled Ego statement (so the Ego->Go->Ego conversions of callNative are on
// the path) with the full cartesian product of per-parameter boundary domains
// and compared with the Go function named in a hand-written table. Wrapper
// functions (base64, Roman numerals, json, sort, fmt.Sprintf, time) have
// hand-written sections with Go references and exhaustive round trips.
package main

import (
	"fmt"
	"os"
	"sort"

	"github.com/tucats/ego/internal/language/data"
	rbase64 "github.com/tucats/ego/internal/runtime/base64"
	rcmplx "github.com/tucats/ego/internal/runtime/cmplx"
	rfilepath "github.com/tucats/ego/internal/runtime/filepath"
	rfmt "github.com/tucats/ego/internal/runtime/fmt"
	rjson "github.com/tucats/ego/internal/runtime/json"
	rmath "github.com/tucats/ego/internal/runtime/math"
	rsort "github.com/tucats/ego/internal/runtime/sort"
	rstrconv "github.com/tucats/ego/internal/runtime/strconv"
	rstrings "github.com/tucats/ego/internal/runtime/strings"
	rtime "github.com/tucats/ego/internal/runtime/time"
	"github.com/tucats/ego/internal/verifrt/report"
)

var pkgs = map[string]*data.Package{
	"strings": rstrings.StringsPackage, "strconv": rstrconv.StrconvPackage, "math": rmath.MathPackage, "cmplx": rcmplx.CmplxPackage,
	"sort": rsort.SortPackage, "filepath": rfilepath.FilepathPackage, "base64": rbase64.Base64Package, "json": rjson.JsonPackage,
	"time": rtime.TimePackage, "fmt": rfmt.FmtPackage,
}

func main() {
	// Time results depend on the zone database only through names used here.
	os.Setenv("TZ", "UTC")

	r := report.New("exploration")
	col := &collector{cells: map[string]*cellInfo{}}

	r.Rule("per mirrored function, the full cartesian product of per-parameter domains (strings: every string of 0..L symbols over a small alphabet chosen for the function, L by number of string parameters, plus special strings; integers, floats, complex, runes, bytes: boundary sets; string slices: all of 0..3 elements over 6 strings); round trips and sorts exhaustively over small alphabets; distinct = (function, Ego program, argument tuple) for which the Go function did not panic")
	r.Assume("the Go standard library function named in the hand-written table is the reference; a Go panic means Go does not accept the arguments and nothing is demanded",
		"failure = a non-nil error result or a thrown runtime error; error texts are not compared; when both fail the other results are not compared",
		"integer widths are not compared (int vs int64), everything else is compared exactly (floats bit for bit, NaN = NaN)",
		"Ego runs in-process: one compiled statement per function, arguments bound as typed symbols, fresh symbol table per call, TZ=UTC")

	if r.Replay != "" {
		var w witness
		if err := report.LoadReplay(r.Replay, &w); err != nil {
			report.Fatal("%v", err)
		}

		check(r, col, w.kase)
		r.Distinct("replay")
		r.Sample(w.kase)
		flush(r, col)
		r.Finish()
	}

	natives := completeness(r)
	perFunc := map[string]int64{}

	for _, name := range natives {
		nativeCases(r, col, name, perFunc)
	}

	sections(r, col, perFunc)

	names := make([]string, 0, len(perFunc))
	for n := range perFunc {
		names = append(names, n)
	}

	sort.Strings(names)

	per := map[string]int64{}
	for _, n := range names {
		per[n] = perFunc[n]
	}

	r.Set("argument_tuples_per_function", per)
	r.Sample(map[string]any{"function": "strings.Index", "program": "r0 := strings.Index(a0, a1)", "args": []string{`"a,é"`, `"é"`}})
	r.Sample(map[string]any{"function": "strconv.ParseInt", "program": "r0, r1 := strconv.ParseInt(a0, a1, a2)", "args": []string{`"-9223372036854775809"`, "10", "64"}})
	flush(r, col)
	r.Finish()
}

func flush(r *report.R, col *collector) {
	for c, ci := range col.cells {
		n := ci.count
		if n > 100000 {
			n = 100000
		}

		for i := 0; i < n; i++ {
			r.Violation(c, ci.size, ci.w, ci.msg)
		}
	}
}

var _ = fmt.Sprint

package main

import (
	"fmt"
	"strings"
)

// task is one element of a @transaction request body as the client sends it.
type task map[string]any

// op is one operation of a case together with what the reference needs to
// know about it.
type op struct {
	Kind string `json:"kind"` // name of the variant (good: g-..., failing: f-..., may fail: m-..., decorated: e-...+g-...)
	Task task   `json:"task"`
	// Ref is the SQL that "applying this operation" means on the reference
	// database (none for reads and symbol loads).
	Ref []string `json:"ref,omitempty"`
	// MustFail: no state "every operation applied" exists for a request that
	// holds this operation (an error condition that is true by construction, an
	// opcode that does not exist).
	MustFail bool `json:"must_fail,omitempty"`
	// Mech names the failure mechanism ("" for a plain good operation).
	Mech string `json:"mechanism,omitempty"`
}

// fixtureSQL builds the database every case starts from.
var fixtureSQL = []string{
	`CREATE TABLE t1 (id INTEGER UNIQUE NOT NULL, name TEXT, n INTEGER)`,
	`INSERT INTO t1 VALUES (1,'a',10),(2,'b',20),(3,'c',30)`,
	`CREATE TABLE t2 (k INTEGER, v TEXT)`,
	`INSERT INTO t2 VALUES (1,'x'),(2,'y')`,
	`CREATE TABLE parent (pid INTEGER PRIMARY KEY)`,
	`INSERT INTO parent VALUES (1)`,
	`CREATE TABLE child (cid INTEGER, pid INTEGER REFERENCES parent(pid) DEFERRABLE INITIALLY DEFERRED)`,
	`INSERT INTO child VALUES (1,1)`,
}

const nGood = 10

var goodNames = [nGood]string{"g-insert", "g-update", "g-delete", "g-select", "g-readrows", "g-symbols", "g-drop", "g-sql-dml", "g-sql-ddl", "g-insert-symbol"}

// good builds good operation g for position p of a request. symK is the value
// the latest earlier "symbols" operation gave to k (only used by g == 9).
func good(g, p int, symK int) op {
	switch g {
	case 0:
		return op{Kind: goodNames[g], Task: task{"operation": "insert", "table": "t1", "data": map[string]any{"id": 100 + p, "name": "n", "n": p}},
			Ref: []string{fmt.Sprintf("INSERT INTO t1(id,name,n) VALUES (%d,'n',%d)", 100+p, p)}}
	case 1:
		return op{Kind: goodNames[g], Task: task{"operation": "update", "table": "t1", "filters": []string{"EQ(id,1)"}, "data": map[string]any{"n": 500 + p}},
			Ref: []string{fmt.Sprintf("UPDATE t1 SET n=%d WHERE id=1", 500+p)}}
	case 2:
		return op{Kind: goodNames[g], Task: task{"operation": "delete", "table": "t1", "filters": []string{"EQ(id,2)"}},
			Ref: []string{"DELETE FROM t1 WHERE id=2"}}
	case 3:
		return op{Kind: goodNames[g], Task: task{"operation": "select", "table": "t1", "filters": []string{"EQ(id,3)"}, "columns": []string{"name"}}}
	case 4:
		return op{Kind: goodNames[g], Task: task{"operation": "readrows", "table": "t1"}}
	case 5:
		return op{Kind: goodNames[g], Task: task{"operation": "symbols", "data": map[string]any{"k": 7 + p}}}
	case 6:
		return op{Kind: goodNames[g], Task: task{"operation": "drop", "table": "t2"}, Ref: []string{"DROP TABLE t2"}}
	case 7:
		q := fmt.Sprintf("INSERT INTO t2(k,v) VALUES (%d,'s')", 200+p)

		return op{Kind: goodNames[g], Task: task{"operation": "sql", "sql": q}, Ref: []string{q}}
	case 8:
		q := fmt.Sprintf("CREATE TABLE t3_%d (a INTEGER)", p)

		return op{Kind: goodNames[g], Task: task{"operation": "sql", "sql": q}, Ref: []string{q}}
	default:
		return op{Kind: goodNames[g], Task: task{"operation": "insert", "table": "t2", "data": map[string]any{"k": "{{k}}", "v": "sym"}},
			Ref: []string{fmt.Sprintf("INSERT INTO t2(k,v) VALUES (%d,'sym')", symK)}}
	}
}

// failing are the operations that cannot be applied (the reference fails on
// their SQL too, or they are marked MustFail) and the operations the API
// documents as failing although their SQL is harmless (m-...: the oracle
// accepts both outcomes for those).
func failing(p int) []op {
	ins := func(tbl string, data map[string]any) task {
		return task{"operation": "insert", "table": tbl, "data": data}
	}

	return []op{
		// the operation itself fails
		{Kind: "f-insert-duplicate", Mech: "operation-fails", Task: ins("t1", map[string]any{"id": 1, "name": "d", "n": 0}), Ref: []string{"INSERT INTO t1(id,name,n) VALUES (1,'d',0)"}},
		{Kind: "f-insert-no-table", Mech: "operation-fails", Task: ins("nosuch", map[string]any{"id": 1}), Ref: []string{"INSERT INTO nosuch(id) VALUES (1)"}},
		{Kind: "f-insert-no-column", Mech: "operation-fails", Task: ins("t1", map[string]any{"id": 900 + p, "zzz": 1}), Ref: []string{fmt.Sprintf("INSERT INTO t1(id,zzz) VALUES (%d,1)", 900+p)}},
		{Kind: "f-insert-not-null", Mech: "operation-fails", Task: ins("t1", map[string]any{"name": "nn", "n": 1}), Ref: []string{"INSERT INTO t1(name,n) VALUES ('nn',1)"}},
		{Kind: "f-update-no-table", Mech: "operation-fails", Task: task{"operation": "update", "table": "nosuch", "filters": []string{"EQ(id,1)"}, "data": map[string]any{"n": 1}}, Ref: []string{"UPDATE nosuch SET n=1 WHERE id=1"}},
		{Kind: "f-update-no-column", Mech: "operation-fails", Task: task{"operation": "update", "table": "t1", "filters": []string{"EQ(id,1)"}, "data": map[string]any{"zzz": 1}}, Ref: []string{"UPDATE t1 SET zzz=1 WHERE id=1"}},
		{Kind: "f-update-duplicate", Mech: "operation-fails", Task: task{"operation": "update", "table": "t1", "filters": []string{"EQ(id,3)"}, "data": map[string]any{"id": 1}}, Ref: []string{"UPDATE t1 SET id=1 WHERE id=3"}},
		{Kind: "f-delete-no-table", Mech: "operation-fails", Task: task{"operation": "delete", "table": "nosuch", "filters": []string{"EQ(id,1)"}}, Ref: []string{"DELETE FROM nosuch WHERE id=1"}},
		{Kind: "f-select-no-table", Mech: "operation-fails", Task: task{"operation": "select", "table": "nosuch", "filters": []string{"EQ(id,1)"}}, Ref: []string{"SELECT * FROM nosuch WHERE id=1"}},
		{Kind: "f-readrows-no-table", Mech: "operation-fails", Task: task{"operation": "readrows", "table": "nosuch"}, Ref: []string{"SELECT * FROM nosuch"}},
		{Kind: "f-drop-no-table", Mech: "operation-fails", Task: task{"operation": "drop", "table": "nosuch"}, Ref: []string{"DROP TABLE nosuch"}},
		{Kind: "f-sql-syntax", Mech: "operation-fails", Task: task{"operation": "sql", "sql": "INSERT INTO"}, Ref: []string{"INSERT INTO"}},
		{Kind: "f-sql-no-table", Mech: "operation-fails", Task: task{"operation": "sql", "sql": "DELETE FROM nosuch"}, Ref: []string{"DELETE FROM nosuch"}},
		{Kind: "f-sql-duplicate", Mech: "operation-fails", Task: task{"operation": "sql", "sql": "INSERT INTO t1(id,name,n) VALUES (1,'d',0)"}, Ref: []string{"INSERT INTO t1(id,name,n) VALUES (1,'d',0)"}},
		{Kind: "f-opcode", Mech: "invalid-opcode", Task: task{"operation": "bogus", "table": "t1"}, MustFail: true},

		// every statement succeeds, the commit cannot (deferred foreign key)
		{Kind: "f-commit-fk-insert", Mech: "commit-fails", Task: ins("child", map[string]any{"cid": 10 + p, "pid": 99}), Ref: []string{fmt.Sprintf("INSERT INTO child(cid,pid) VALUES (%d,99)", 10+p)}},
		{Kind: "f-commit-fk-sql", Mech: "commit-fails", Task: task{"operation": "sql", "sql": fmt.Sprintf("INSERT INTO child(cid,pid) VALUES (%d,98)", 20+p)}, Ref: []string{fmt.Sprintf("INSERT INTO child(cid,pid) VALUES (%d,98)", 20+p)}},
		{Kind: "f-commit-fk-delete-parent", Mech: "commit-fails", Task: task{"operation": "sql", "sql": "DELETE FROM parent WHERE pid=1"}, Ref: []string{"DELETE FROM parent WHERE pid=1"}},

		// failures the API documents for a request whose SQL is harmless
		{Kind: "m-insert-with-filters", Mech: "operation-refused", Task: task{"operation": "insert", "table": "t1", "filters": []string{"EQ(id,1)"}, "data": map[string]any{"id": 800 + p, "name": "f", "n": 1}}, Ref: []string{fmt.Sprintf("INSERT INTO t1(id,name,n) VALUES (%d,'f',1)", 800+p)}},
		{Kind: "m-update-nothing-emptyerror", Mech: "operation-refused", Task: task{"operation": "update", "table": "t1", "filters": []string{"EQ(id,777)"}, "emptyError": true, "data": map[string]any{"n": 1}}, Ref: []string{"UPDATE t1 SET n=1 WHERE id=777"}},
		{Kind: "m-delete-nothing-emptyerror", Mech: "operation-refused", Task: task{"operation": "delete", "table": "t1", "filters": []string{"EQ(id,777)"}, "emptyError": true}, Ref: []string{"DELETE FROM t1 WHERE id=777"}},
		{Kind: "m-delete-with-columns", Mech: "operation-refused", Task: task{"operation": "delete", "table": "t1", "filters": []string{"EQ(id,2)"}, "columns": []string{"id"}}, Ref: []string{"DELETE FROM t1 WHERE id=2"}},
		{Kind: "m-select-nothing-emptyerror", Mech: "operation-refused", Task: task{"operation": "select", "table": "t1", "filters": []string{"EQ(id,777)"}, "emptyError": true}},
		{Kind: "m-readrows-nothing-emptyerror", Mech: "operation-refused", Task: task{"operation": "readrows", "table": "t1", "filters": []string{"EQ(id,777)"}, "emptyError": true}},
		{Kind: "m-select-bad-filter", Mech: "operation-refused", Task: task{"operation": "select", "table": "t1", "filters": []string{"EQ(id"}}},
		{Kind: "m-sql-nothing-emptyerror", Mech: "operation-refused", Task: task{"operation": "sql", "sql": "DELETE FROM t1 WHERE id=777", "emptyError": true}, Ref: []string{"DELETE FROM t1 WHERE id=777"}},
		{Kind: "m-sql-with-table", Mech: "operation-refused", Task: task{"operation": "sql", "table": "t1", "sql": fmt.Sprintf("UPDATE t1 SET n=%d WHERE id=3", 600+p)}, Ref: []string{fmt.Sprintf("UPDATE t1 SET n=%d WHERE id=3", 600+p)}},
		{Kind: "m-drop-with-filters", Mech: "operation-refused", Task: task{"operation": "drop", "table": "t2", "filters": []string{"EQ(k,1)"}}, Ref: []string{"DROP TABLE t2"}},
		{Kind: "m-symbols-with-table", Mech: "operation-refused", Task: task{"operation": "symbols", "table": "t1", "data": map[string]any{"z": 1}}},
		{Kind: "m-undefined-symbol", Mech: "operation-refused", Task: task{"operation": "insert", "table": "t2", "data": map[string]any{"k": 5, "v": "{{nosuch}}"}}, Ref: []string{"INSERT INTO t2(k,v) VALUES (5,'{{nosuch}}')"}},
	}
}

type decoration struct {
	Name     string
	Mech     string
	Errors   []map[string]any
	MustFail bool
}

// decorations are the error-condition lists attached to a good operation.
// "EQ(1,1)", "EQ(2,2)" and "GE(_all_rows_,0)" are true whatever the database
// holds (a row count is never negative); "EQ(1,2)" is false.
var decorations = []decoration{
	{"e-true", "condition-true", []map[string]any{{"condition": "EQ(1,1)"}}, true},
	{"e-true-status-message", "condition-true-user-status", []map[string]any{{"condition": "EQ(1,1)", "status": 409, "msg": "custom abort"}}, true},
	{"e-false-then-true", "condition-true", []map[string]any{{"condition": "EQ(1,2)"}, {"condition": "EQ(2,2)"}}, true},
	{"e-rows-true", "condition-true", []map[string]any{{"condition": "GE(_all_rows_,0)"}}, true},
	{"e-false", "condition-false", []map[string]any{{"condition": "EQ(1,2)"}}, false},
	{"e-blank", "condition-false", []map[string]any{{"condition": "  "}}, false},
	{"e-malformed", "condition-malformed", []map[string]any{{"condition": "EQ(1"}}, false},
	{"e-unevaluable", "condition-unevaluable", []map[string]any{{"condition": "EQ(nosuchvar,1)"}}, false},
	{"e-false-then-unevaluable", "condition-unevaluable", []map[string]any{{"condition": "EQ(1,2)"}, {"condition": "EQ(nosuchvar,1)"}}, false},
	{"e-unevaluable-then-true", "condition-unevaluable", []map[string]any{{"condition": "GT(nosuchvar,1)"}, {"condition": "EQ(1,1)"}}, false},
}

func decorate(o op, d decoration) op {
	t := task{}
	for k, v := range o.Task {
		t[k] = v
	}

	t["errors"] = d.Errors

	return op{Kind: d.Name + "+" + o.Kind, Task: t, Ref: o.Ref, MustFail: d.MustFail, Mech: d.Mech}
}

// tcase is one request.
type tcase struct {
	Ops  []op   `json:"operations"`
	Mech string `json:"mechanism"`        // "" = every operation is a good one
	Pos  int    `json:"failure_position"` // 1-based, 0 = none
	// Backend: "memdb" (SQLite's in-memory VFS shared inside the process) or
	// "file" (a SQLite file in WAL mode).
	Backend string `json:"backend"`
}

func (c tcase) name() string {
	k := make([]string, len(c.Ops))
	for i, o := range c.Ops {
		k[i] = o.Kind
	}

	return strings.Join(k, " ; ")
}

// alphabets of good operations by request length. Requests up to fullLen
// operations use all ten; longer ones the listed subset (reads and DDL are
// represented by select/drop there, the symbol flow by "symbols").
var (
	allGood = []int{0, 1, 2, 3, 4, 5, 6, 7, 8, 9}
	good5   = []int{0, 1, 3, 6, 7}    // insert update select drop sql-dml
	good6   = []int{0, 1, 3, 5, 6, 7} // insert update select symbols drop sql-dml
)

// plan is the good-operation alphabet for each request length 1..len(plan).
type plan [][]int

func planFor(thorough bool) plan {
	if thorough {
		return plan{allGood, allGood, allGood, good6}
	}

	return plan{allGood, allGood, good5}
}

func (p plan) String() string {
	var parts []string

	for l, a := range p {
		names := make([]string, len(a))
		for i, g := range a {
			names[i] = strings.TrimPrefix(goodNames[g], "g-")
		}

		parts = append(parts, fmt.Sprintf("length %d: %d good operations (%s)", l+1, len(a), strings.Join(names, " ")))
	}

	return strings.Join(parts, "; ")
}

// enumerate calls f for every case of the plan whose index satisfies want:
// every sequence of good operations, and every such sequence with one
// position replaced by a failing operation or carrying an error-condition
// list. A sequence that uses {{k}} without an earlier "symbols" operation is
// not generated (its meaning is a property of symbol substitution, not of
// atomicity). It returns the number of cases.
func enumerate(pl plan, want func(idx int) bool, f func(idx int, c tcase)) int {
	idx := 0
	nv := len(failing(0)) + len(decorations)

	for l := 1; l <= len(pl); l++ {
		alpha := pl[l-1]
		digits := make([]int, l)
		seq := make([]int, l)

		for {
			for i, d := range digits {
				seq[i] = alpha[d]
			}

			// pos -1: all good; otherwise (position, variant)
			for pos := -1; pos < l; pos++ {
				vmax := 1
				if pos >= 0 {
					vmax = nv
				}

				for v := 0; v < vmax; v++ {
					c, ok := build(seq, pos, v, alpha[0])
					if !ok {
						continue
					}

					if want == nil || want(idx) {
						f(idx, c())
					}

					idx++
				}
			}

			// next sequence
			i := l - 1
			for i >= 0 {
				digits[i]++
				if digits[i] < len(alpha) {
					break
				}

				digits[i] = 0
				i--
			}

			if i < 0 {
				break
			}
		}
	}

	return idx
}

// build checks that (seq, pos, v) is a case and returns its constructor.
// v < len(failing): the operation at pos is replaced by failing operation v;
// otherwise the good operation at pos carries decoration v-len(failing).
func build(seq []int, pos, v, first int) (func() tcase, bool) {
	nf := len(failing(0))

	symK := -1
	ks := make([]int, len(seq))

	for p, g := range seq {
		replaced := p == pos && v < nf
		ks[p] = symK

		if replaced {
			continue
		}

		if g == 9 && symK < 0 {
			return nil, false
		}

		if g == 5 {
			symK = 7 + p
		}
	}

	// with a failing operation at pos the good operation of seq there is
	// unused: generate the case once only (for the alphabet's first operation)
	if pos >= 0 && v < nf && seq[pos] != first {
		return nil, false
	}

	seq = append([]int(nil), seq...)

	return func() tcase {
		c := tcase{}

		for p, g := range seq {
			switch {
			case p == pos && v < nf:
				o := failing(p)[v]
				c.Ops = append(c.Ops, o)
				c.Mech, c.Pos = o.Mech, p+1
			case p == pos:
				d := decorations[v-nf]
				o := decorate(good(g, p, ks[p]), d)
				c.Ops = append(c.Ops, o)
				c.Mech, c.Pos = d.Mech, p+1
			default:
				c.Ops = append(c.Ops, good(g, p, ks[p]))
			}
		}

		return c
	}, true
}

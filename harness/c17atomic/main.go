// C17: a @transaction request is all-or-nothing and leaves no database
// transaction or lock behind.
//
// E-fault, bounded-exhaustive: every sequence of 1..L good operations (insert,
// update, delete, select, readrows, symbols, drop, sql DML, sql DDL, insert fed
// by a symbol; see planFor for the alphabet per length), alone and with a
// failure injected at each position by each mechanism (an operation that cannot
// be applied, an operation the API refuses, an invalid opcode, an error
// condition that is true / true with user status and message / false / blank /
// malformed / unevaluable, a commit that a deferred foreign key makes fail).
// Every request is served by the real router and scripting.Handler against
// SQLite: every case on SQLite's shared in-memory VFS, the cases of length
// <= 2 once more on a database file in WAL mode. Work is split over one worker
// process per CPU.
//
// Oracle (the statement, nothing more): with D0 the database before the
// request and D* the database a reference connection obtains by applying the
// SQL of every operation (undefined when a statement fails there, when the
// foreign-key check fails, or when the request holds an operation that is a
// failure by construction), the outcome must be (status >= 400 and the
// database equals D0) or (status 2xx, D* defined and the database equals D*).
// After the handler has returned, every transaction begun on a driver
// connection must have been ended, and a second connection with
// busy_timeout=0 must obtain the write lock at once.
//
// Experiment switches (never needed for a verdict): VERIF_C17_LEN cuts the
// plan short, VERIF_C17_PROCS sets the number of workers, VERIF_C17_PROF
// prints where the time goes.
package main

import (
	"context"
	gosql "database/sql"
	"encoding/json"
	"fmt"
	"os"
	"os/exec"
	"path/filepath"
	"runtime"
	"sort"
	"strconv"
	"strings"
	"sync"
	"time"

	_ "modernc.org/sqlite"

	"github.com/tucats/ego/internal/verifrt/report"
	"github.com/tucats/ego/internal/verifrt/tblsrv"
	vsql "github.com/tucats/ego/internal/verifrt/vsql"
)

const dsnName = "d"

type world struct {
	srv      *tblsrv.Server
	path     string
	plain    *gosql.DB   // committed state of the work database, lock probe
	probe    *gosql.Conn // dedicated connection with busy_timeout=0
	ref      *gosql.DB   // reference database (in memory, one connection)
	refConn  *gosql.Conn
	pristine string
	ev       []vsql.VerifEvent
	resets   int
}

type outcome struct {
	Status     int      `json:"status"`
	Body       string   `json:"response"`
	After      string   `json:"database_after"`
	Before     string   `json:"database_before"`
	AllApplied string   `json:"database_if_all_applied,omitempty"`
	RefError   string   `json:"why_all_applied_is_impossible,omitempty"`
	OpenTx     int      `json:"transactions_left_open"`
	LockError  string   `json:"write_lock_probe_error,omitempty"`
	Driver     []string `json:"driver_events"`
}

type witness struct {
	Name    string  `json:"case"`
	Case    tcase   `json:"request"`
	Outcome outcome `json:"outcome"`
}

func must(err error, what string) {
	if err != nil {
		report.Fatal("%s: %v", what, err)
	}
}

// newWorld builds the database, the reference and the server. backend "file"
// is a SQLite file in WAL mode under the scratch directory (what a deployment
// uses); backend "memdb" is SQLite's in-memory VFS shared by the connections of
// this process (same engine, same locking protocol, rollback journal in memory;
// a connection costs a fifth of what it costs on a WAL file).
func newWorld(dir, backend string) *world {
	defer func(t time.Time) { prof["newWorld"] += time.Since(t) }(time.Now())
	must(os.MkdirAll(dir, 0o755), "scratch")

	w := &world{path: filepath.Join(dir, "work.db")}

	for _, sfx := range []string{"", "-wal", "-shm", "-journal"} {
		_ = os.Remove(w.path + sfx)
	}

	base := "file:" + w.path + "?_pragma=synchronous(off)"
	if backend == "memdb" {
		base = "file:/c17work.db?vfs=memdb"
	}

	var err error

	w.plain, err = gosql.Open("sqlite", base+"&_pragma=busy_timeout(0)&_pragma=foreign_keys(1)")
	must(err, "open work database")

	w.probe, err = w.plain.Conn(context.Background())
	must(err, "probe connection")

	if backend == "file" {
		_, err = w.probe.ExecContext(context.Background(), "PRAGMA journal_mode=WAL")
		must(err, "journal mode")
	}

	for _, q := range fixtureSQL {
		_, err = w.probe.ExecContext(context.Background(), q)
		must(err, "fixture: "+q)
	}

	w.ref, err = gosql.Open("sqlite", "file:ref?mode=memory&_pragma=foreign_keys(1)")
	must(err, "open reference database")
	w.ref.SetMaxOpenConns(1)

	w.refConn, err = w.ref.Conn(context.Background())
	must(err, "reference connection")

	for _, q := range fixtureSQL {
		_, err = w.refConn.ExecContext(context.Background(), q)
		must(err, "reference fixture: "+q)
	}

	w.pristine = dump(w.probe)
	if d := dump(w.refConn); d != w.pristine {
		report.Fatal("reference and work database differ at the start:\n%s\n%s", d, w.pristine)
	}

	w.srv, err = tblsrv.New()
	must(err, "table server")
	must(w.srv.AddSQLiteDSN(dsnName, base+"&_pragma=foreign_keys(1)", false), "DSN")

	vsql.VerifSetHook(func(ev vsql.VerifEvent) { w.ev = append(w.ev, ev) })

	return w
}

// dump renders schema and rows of every table, in a canonical order.
func dump(c *gosql.Conn) string {
	ctx := context.Background()

	rows, err := c.QueryContext(ctx, "SELECT name, sql FROM sqlite_master WHERE type='table' ORDER BY name")
	must(err, "dump schema")

	type tbl struct{ name, sql string }

	var tbls []tbl

	for rows.Next() {
		var t tbl

		must(rows.Scan(&t.name, &t.sql), "dump schema row")
		tbls = append(tbls, t)
	}

	must(rows.Err(), "dump schema")
	rows.Close()

	var b strings.Builder

	for _, t := range tbls {
		b.WriteString(t.name + " {" + t.sql + "}")

		rs, err := c.QueryContext(ctx, `SELECT * FROM "`+t.name+`"`)
		must(err, "dump "+t.name)

		cols, _ := rs.Columns()

		var lines []string

		for rs.Next() {
			vals := make([]any, len(cols))
			ptrs := make([]any, len(cols))

			for i := range vals {
				ptrs[i] = &vals[i]
			}

			must(rs.Scan(ptrs...), "dump row")

			parts := make([]string, len(vals))
			for i, v := range vals {
				if bs, ok := v.([]byte); ok {
					v = string(bs)
				}

				parts[i] = fmt.Sprintf("%T:%v", v, v)
			}

			lines = append(lines, "("+strings.Join(parts, ",")+")")
		}

		must(rs.Err(), "dump rows")
		rs.Close()
		sort.Strings(lines)
		b.WriteString(" " + strings.Join(lines, "") + "\n")
	}

	return b.String()
}

// reference computes D*: the database after every operation's SQL, or why
// there is none.
func (w *world) reference(c tcase) (string, string) {
	ctx := context.Background()

	for _, o := range c.Ops {
		if o.MustFail {
			return "", o.Kind + " is a failure by construction"
		}
	}

	_, err := w.refConn.ExecContext(ctx, "BEGIN")
	must(err, "reference begin")

	defer func() {
		_, err := w.refConn.ExecContext(ctx, "ROLLBACK")
		must(err, "reference rollback")
	}()

	for _, o := range c.Ops {
		for _, q := range o.Ref {
			if strings.HasPrefix(q, "SELECT") {
				rs, err := w.refConn.QueryContext(ctx, q)
				if err != nil {
					return "", o.Kind + ": " + err.Error()
				}

				rs.Close()

				continue
			}

			if _, err := w.refConn.ExecContext(ctx, q); err != nil {
				return "", o.Kind + ": " + err.Error()
			}
		}
	}

	rs, err := w.refConn.QueryContext(ctx, "PRAGMA foreign_key_check")
	must(err, "foreign key check")

	broken := rs.Next()
	rs.Close()

	if broken {
		return "", "the deferred foreign key of table child is violated at commit"
	}

	return dump(w.refConn), ""
}

func (w *world) reset() {
	ctx := context.Background()
	w.resets++

	rows, err := w.probe.QueryContext(ctx, "SELECT name FROM sqlite_master WHERE type='table'")
	must(err, "reset: list tables")

	var names []string

	for rows.Next() {
		var n string

		must(rows.Scan(&n), "reset")
		names = append(names, n)
	}

	rows.Close()

	_, err = w.probe.ExecContext(ctx, "PRAGMA foreign_keys=OFF")
	must(err, "reset")

	for _, n := range names {
		_, err = w.probe.ExecContext(ctx, `DROP TABLE "`+n+`"`)
		must(err, "reset: drop "+n)
	}

	_, err = w.probe.ExecContext(ctx, "PRAGMA foreign_keys=ON")
	must(err, "reset")

	for _, q := range fixtureSQL {
		_, err = w.probe.ExecContext(ctx, q)
		must(err, "reset: "+q)
	}

	if d := dump(w.probe); d != w.pristine {
		report.Fatal("reset did not restore the database")
	}
}

func clip(s string, n int) string {
	if len(s) > n {
		return s[:n] + "…"
	}

	return s
}

// run serves one case and observes it.
func (w *world) run(c tcase) outcome {
	ctx := context.Background()

	tasks := make([]task, len(c.Ops))
	for i, o := range c.Ops {
		tasks[i] = o.Task
	}

	body, err := json.Marshal(tasks)
	must(err, "request body")

	out := outcome{Before: w.pristine}
	out.AllApplied, out.RefError = w.reference(c)

	w.srv.Fresh()
	w.ev = w.ev[:0]

	t0 := time.Now()
	status, resp, _ := w.srv.Do("POST", "/dsns/"+dsnName+"/tables/@transaction", body, nil)
	prof["do"] += time.Since(t0)
	if time.Since(t0) > time.Second && os.Getenv("VERIF_C17_PROF") != "" {
		fmt.Fprintf(os.Stderr, "SLOW %v %s -> %d\n", time.Since(t0), c.name(), status)
	}
	defer func(t time.Time) { prof["after"] += time.Since(t) }(time.Now())

	out.Status = status
	out.Body = clip(strings.Join(strings.Fields(string(resp)), " "), 300)

	// transactions begun on a driver connection and not ended when the handler returned
	for _, ev := range w.ev {
		switch ev.Kind {
		case "begin":
			if ev.Err == "" {
				out.OpenTx++
			}
		case "commit":
			// a commit the engine refuses ends the transaction too (the driver
			// rolls back); whether anything stays locked is the probe's business
			out.OpenTx--
		case "rollback":
			if ev.Err == "" {
				out.OpenTx--
			}
		}

		switch ev.Kind {
		case "begin", "commit", "rollback", "close":
			s := ev.Kind
			if ev.Err != "" {
				s += " -> " + ev.Err
			}

			out.Driver = append(out.Driver, s)
		case "exec", "query":
			if !strings.HasPrefix(ev.SQL, "PRAGMA") {
				s := ev.Kind + " " + clip(ev.SQL, 60)
				if ev.Err != "" {
					s += " -> " + clip(ev.Err, 60)
				}

				out.Driver = append(out.Driver, s)
			}
		}
	}

	// can another connection write right now?
	if _, err := w.probe.ExecContext(ctx, "BEGIN IMMEDIATE"); err != nil {
		out.LockError = err.Error()
	} else {
		_, err = w.probe.ExecContext(ctx, "ROLLBACK")
		must(err, "probe rollback")
	}

	// Release whatever the handler left behind. What an unfinished transaction
	// wrote is invisible to every other connection and is rolled back here, so
	// the committed content read now is the content at the time the handler
	// returned. (It is read after the release because a leaked writer blocks
	// even readers on the in-memory VFS.)
	t1 := time.Now()
	vsql.VerifCloseAll()
	prof["closeall"] += time.Since(t1)

	out.After = dump(w.probe)

	if out.After != w.pristine {
		w.reset()
	}

	return out
}

var prof = map[string]time.Duration{}

type sink struct {
	r *report.R
}

// exitClass names the exit the handler took, for the cell of a violation: one
// defect is one exit, whatever was injected (a sequence of good operations can
// fail by itself, e.g. an insert into a table dropped earlier). The handler's
// own message identifies the exit; where it does not, the injected mechanism
// is the label. A label only groups violations, it never decides one.
func exitClass(c tcase, o outcome) string {
	switch {
	case strings.Contains(o.Body, "Invalid error condition"):
		return "condition-unevaluable"
	case strings.Contains(o.Body, "transaction commit error"):
		return "commit-fails"
	case strings.Contains(o.Body, "transaction rollback at operation"):
		return "operation-fails"
	case strings.Contains(o.Body, "aborts transaction at operation"), strings.Contains(o.Body, "custom abort"):
		return "condition-true"
	case c.Mech == "":
		return "no-failure-injected"
	}

	return c.Mech
}

// judge applies the oracle.
func (s sink) judge(idx int, c tcase, o outcome) {
	r := s.r
	mech := exitClass(c, o)

	wit := witness{Name: c.name(), Case: c, Outcome: o}
	size := len(c.Ops)*10000000 + idx // shortest request first, then enumeration order

	success := o.Status >= 200 && o.Status < 300
	failure := o.Status >= 400

	switch {
	case failure && o.After == o.Before:
		r.Add("outcome:failure-reported,nothing-applied", 1)
	case success && o.AllApplied != "" && o.After == o.AllApplied:
		r.Add("outcome:success-reported,all-applied", 1)
	case failure:
		r.Violation("atomicity:failure-reported-but-changes-kept:"+mech, size, wit, fmt.Sprintf("status %d, yet the database differs from its state before the request", o.Status))
	case success && o.After == o.Before:
		why := o.RefError
		if why == "" {
			why = "the operations change the database"
		}

		r.Violation("atomicity:success-reported-but-nothing-applied:"+mech, size, wit, fmt.Sprintf("status %d although no operation was applied (%s)", o.Status, why))
	case success:
		r.Violation("atomicity:success-reported-but-partly-applied:"+mech, size, wit, fmt.Sprintf("status %d and the database is neither the state before the request nor the state with every operation applied", o.Status))
	default:
		r.Violation("status:neither-success-nor-failure:"+mech, size, wit, fmt.Sprintf("status %d", o.Status))
	}

	if o.OpenTx > 0 {
		r.Violation("transaction-left-open:"+mech, size, wit, fmt.Sprintf("%d transaction(s) begun on a database connection were neither committed nor rolled back when the handler returned (status %d)", o.OpenTx, o.Status))
	}

	if o.LockError != "" {
		r.Violation("lock-held:"+mech, size, wit, "after the handler returned another connection cannot take the write lock: "+o.LockError)
	}

	if c.Mech == "" {
		r.Add("mechanism:none", 1)
	} else {
		r.Add("mechanism:"+c.Mech, 1)
	}
}

// tierPlan is the enumeration plan of the tier (VERIF_C17_LEN cuts it short
// for experiments).
func tierPlan(r *report.R) plan {
	pl := planFor(r.Thorough())

	if v := os.Getenv("VERIF_C17_LEN"); v != "" {
		if n, _ := strconv.Atoi(v); n >= 1 && n < len(pl) {
			pl = pl[:n]
		}
	}

	return pl
}

// fileLen is the request length up to which every case also runs against a
// SQLite file in WAL mode.
const fileLen = 2

func (w *world) close() {
	vsql.VerifCloseAll()
	_ = w.probe.Close()
	_ = w.plain.Close()
	_ = w.refConn.Close()
	_ = w.ref.Close()
}

func worker(spec, partial string) {
	var i, n int

	if _, err := fmt.Sscanf(spec, "%d/%d", &i, &n); err != nil || n < 1 {
		report.Fatal("bad worker spec %q", spec)
	}

	r := report.New("fault_enumeration")
	s := sink{r}

	for _, pass := range []struct {
		backend string
		maxLen  int
	}{{"file", min(fileLen, len(tierPlan(r)))}, {"memdb", len(tierPlan(r))}} {
		w := newWorld(filepath.Join(os.Getenv("VERIF_SCRATCH"), fmt.Sprintf("w%d", i)), pass.backend)

		enumerate(tierPlan(r)[:pass.maxLen], func(idx int) bool { return idx%n == i }, func(idx int, c tcase) {
			c.Backend = pass.backend
			o := w.run(c)
			r.Eval(1)
			r.Distinct(pass.backend + "|" + c.name())
			r.Add("cases:"+pass.backend, 1)
			s.judge(idx, c, o)

			if pass.backend == "memdb" && (idx < 2 || (c.Pos > 0 && len(c.Ops) > 1 && idx%1009 == 7)) {
				r.Sample(map[string]any{"case": c.name(), "mechanism": c.Mech, "failure_position": c.Pos, "status": o.Status, "all_applied_possible": o.AllApplied != ""})
			}
		})

		r.Add("database_resets", int64(w.resets))
		w.close()
	}

	if os.Getenv("VERIF_C17_PROF") != "" {
		fmt.Fprintf(os.Stderr, "worker %d: %v evals=%d\n", i, prof, r.Evals())
	}

	r.SavePartial(partial)
}

func main() {
	if len(os.Args) > 3 && os.Args[1] == "worker" {
		worker(os.Args[2], os.Args[3])
	}

	r := report.New("fault_enumeration")
	pl := tierPlan(r)
	maxLen := len(pl)
	scratch := os.Getenv("VERIF_SCRATCH")

	if scratch == "" {
		report.Fatal("VERIF_SCRATCH is not set")
	}

	r.Rule(fmt.Sprintf("every sequence of 1..%d good operations (%s), as it is and with one position replaced by each of %d failing/refused operations or carrying each of %d error-condition lists (true, true with status+message, false then true, row-count true, false, blank, malformed, unevaluable, false then unevaluable, unevaluable then true), against SQLite's shared in-memory VFS; every case of length <= %d also against a SQLite file in WAL mode; distinct = (backend, sequence of operation variants)", maxLen, pl, len(failing(0)), len(decorations), min(fileLen, maxLen)))
	r.Assume(
		"all-applied state = what a reference SQLite connection holds after the SQL of every operation; a request with a true error condition, an unknown opcode, a statement the reference refuses or a violated deferred foreign key has no all-applied state and must report failure",
		"failure = HTTP status >= 400, success = 2xx; the response text and the status chosen among the failures are not judged",
		"transaction accounting from the driver events of rt/vsql (begin / commit / rollback on the real modernc.org/sqlite connection; a refused commit counts as ended because that driver rolls back); lock probe = BEGIN IMMEDIATE on a second connection with busy_timeout=0, so no verdict waits on a clock",
		"root user on an unrestricted SQLite DSN (foreign_keys=1, synchronous=off): authorization refusals are C15/C43's subject; PostgreSQL not available",
	)

	if r.Replay != "" {
		var wit witness

		must(report.LoadReplay(r.Replay, &wit), "replay")

		if wit.Case.Backend == "" {
			wit.Case.Backend = "file"
		}

		w := newWorld(filepath.Join(scratch, "replay"), wit.Case.Backend)
		o := w.run(wit.Case)
		b, _ := json.MarshalIndent(o, "", " ")
		fmt.Println(string(b))
		sink{r}.judge(0, wit.Case, o)
		r.Eval(1)
		r.Distinct(wit.Case.name())
		r.Distinct("replay")
		r.Sample(wit.Case)
		r.Finish()
	}

	n := runtime.NumCPU()
	if v := os.Getenv("VERIF_C17_PROCS"); v != "" {
		n, _ = strconv.Atoi(v)
	}

	total := enumerate(pl, func(int) bool { return false }, nil) + enumerate(pl[:min(fileLen, maxLen)], func(int) bool { return false }, nil)

	type res struct {
		path string
		err  error
		out  []byte
	}

	results := make([]res, n)

	// one goroutine per worker process (enum.Par hands out indices in chunks of
	// 64, which would run them one after the other)
	var wg sync.WaitGroup

	for i := 0; i < n; i++ {
		wg.Add(1)

		go func(i int) {
			defer wg.Done()

			p := filepath.Join(scratch, fmt.Sprintf("part-%d.json", i))
			cmd := exec.Command(os.Args[0], "worker", fmt.Sprintf("%d/%d", i, n), p)
			cmd.Env = append(os.Environ(), "GOMAXPROCS=2")
			out, err := cmd.CombinedOutput()
			results[i] = res{p, err, out}

			if os.Getenv("VERIF_C17_PROF") != "" {
				fmt.Print(string(out))
			}
		}(i)
	}

	wg.Wait()

	for i, rs := range results {
		if rs.err != nil {
			report.Fatal("worker %d failed: %v\n%s", i, rs.err, clip(string(rs.out), 4000))
		}

		r.MergePartial(rs.path)
	}

	if r.Evals() != int64(total) {
		report.Fatal("workers ran %d cases, the enumeration has %d", r.Evals(), total)
	}

	r.Set("cases", total)
	r.Set("max_operations", maxLen)
	r.Set("worker_processes", n)
	r.Finish()
}

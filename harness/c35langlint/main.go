// C35: langlint formatting never changes the message table.
//
// E-enum. Every message file of up to N lines over a 16-line alphabet, in up
// to four line-end styles, is written to disk, compiled with the REAL
// localization compiler (tools/lang compileFile, re-homed), formatted in place
// with the REAL langlint (tools/langlint lintFile, re-homed) and compiled
// again. Oracle = the statement, clause by clause:
//
//  1. lintFile fails  => the file's bytes are untouched;
//  2. lintFile succeeds => compile(formatted) == compile(original)
//     (skipped when the compiler itself rejects the original: no table);
//  3. Format(formatted) == formatted;
//  4. two entries of one sortable run (no comment/header line between them)
//     that the compiler maps to the same key with different messages -- decided
//     by compiling the two lines in both orders with the real compiler -- must
//     be named by a "duplicate" warning of langlint.
//
// Both tools have their "os" import woven to verifrt/vos, switched to its
// in-memory file system: the real lintFile / rewriteFile / compileFile run
// unchanged, but a case costs microseconds instead of the milliseconds ext4
// needs for a replace-by-rename. Every file of <= 2 lines is run a second time
// on the real disk and must give the identical outcome (else exit 2).
//
// The compiler keeps an unsynchronised package-level MD5 state, so the work is
// sharded over single-threaded worker processes (this binary, "worker" mode).
package main

import (
	"bytes"
	"encoding/binary"
	"encoding/json"
	"fmt"
	"hash/fnv"
	"os"
	"os/exec"
	"path/filepath"
	"regexp"
	"runtime"
	"sort"
	"strconv"
	"strings"

	"github.com/tucats/ego/internal/verifharness/langlintpkg"
	"github.com/tucats/ego/internal/verifharness/langpkg"
	"github.com/tucats/ego/internal/verifrt/report"
	vos "github.com/tucats/ego/internal/verifrt/vos"
)

// The line alphabet. No symbol holds a line end; the line-end style is a
// separate dimension.
var alphabet = []string{
	"#c",    // comment
	"",      // blank line
	"[s]",   // section
	"[t]",   // another section
	"k=v",   // entry
	"k=w",   // same key, other message
	"k =x",  // same key for the compiler, trailing space in the raw key
	" k=y",  // same key for the compiler, leading space in the raw key
	"j= v ", // another key; the message starts and ends with a space
	"k=a=b", // value with '='
	"j={x}", // value with braces
	"j={",   // unbalanced brace (warning only)
	"a='{'", // escaped brace
	"junk",  // malformed: no '='
	"=v",    // malformed for langlint: empty key
	" [t=]", // indented "[...]" line holding '=': entry for langlint, section for the compiler
}

var eolNames = []string{"LF", "CRLF", "mixed", "LF-no-final-newline"}

type witness struct {
	File      string            `json:"file"`
	After     string            `json:"file_after_langlint"`
	LintError string            `json:"langlint_error,omitempty"`
	Warnings  []string          `json:"langlint_warnings"`
	TableOrig map[string]string `json:"table_from_original"`
	TableNew  map[string]string `json:"table_from_formatted,omitempty"`
	Detail    string            `json:"detail,omitempty"`
}

type cellResult struct {
	Count   int     `json:"count"`
	Size    int     `json:"size"`
	Order   int64   `json:"order"`
	Witness witness `json:"witness"`
	Message string  `json:"message"`
}

type workerResult struct {
	Evals    int64                  `json:"evals"`
	Counters map[string]int64       `json:"counters"`
	Cells    map[string]*cellResult `json:"cells"`
	Samples  []witness              `json:"samples"`
}

// ---- the per-case check -------------------------------------------------------

type caseChecker struct {
	dir      string
	path     string
	pairPath string
	pairMemo map[[2]string]pairVerdict
	res      *workerResult
	distinct map[uint64]struct{}
	order    int64
}

type pairVerdict struct {
	matters bool
	key     string
}

func newChecker(dir string) *caseChecker {
	if err := os.MkdirAll(dir, 0o755); err != nil {
		fatal("%v", err)
	}

	return &caseChecker{
		dir: dir, path: filepath.Join(dir, "messages_xx.txt"), pairPath: filepath.Join(dir, "pair_xx.txt"),
		pairMemo: map[[2]string]pairVerdict{},
		res:      &workerResult{Counters: map[string]int64{}, Cells: map[string]*cellResult{}},
		distinct: map[uint64]struct{}{},
	}
}

func (c *caseChecker) violation(cell string, w witness, msg string) {
	size := len(w.File)

	v := c.res.Cells[cell]
	if v == nil {
		c.res.Cells[cell] = &cellResult{Count: 1, Size: size, Order: c.order, Witness: w, Message: msg}

		return
	}

	v.Count++

	if size < v.Size {
		v.Size, v.Order, v.Witness, v.Message = size, c.order, w, msg
	}
}

// put/get are the harness's own accesses to the file system the woven tools
// see: the in-memory one, or (disk mode) the real one.
func put(path string, data []byte) {
	if onDisk {
		if err := os.WriteFile(path, data, 0o644); err != nil {
			fatal("%v", err)
		}

		return
	}

	vos.VerifMemPut(path, data, 0o644)
}

func get(path string) ([]byte, bool) {
	if onDisk {
		b, err := os.ReadFile(path)
		if err != nil {
			if os.IsNotExist(err) {
				return nil, false
			}

			fatal("%v", err)
		}

		return b, true
	}

	return vos.VerifMemGet(path)
}

var onDisk bool

func setDisk(disk bool) {
	onDisk = disk
	vos.VerifMemFS(!disk)
}

// fatal is report.Fatal for worker processes (their stdout is discarded).
func fatal(f string, a ...any) {
	fmt.Fprintf(os.Stderr, "HARNESS-ERROR: "+f+"\n", a...)
	os.Exit(2)
}

func compileBytes(path string, data []byte) (map[string]string, string) {
	put(path, data)

	return langpkg.VerifCompileFile(path)
}

func sameTable(a, b map[string]string) bool {
	if len(a) != len(b) {
		return false
	}

	for k, v := range a {
		if w, ok := b[k]; !ok || w != v {
			return false
		}
	}

	return true
}

// lineKind classifies a line the way langlint documents its layout rules:
// blank lines vanish, a run of '#' lines is a comment block, a '[' line opens
// a section, everything else is an entry; entries are sorted inside a run that
// no comment or section line interrupts.
func lineKind(line string) byte {
	switch {
	case strings.TrimSpace(line) == "":
		return 'b'
	case strings.HasPrefix(line, "#"):
		return '#'
	case strings.HasPrefix(line, "["):
		return '['
	}

	return 'e'
}

func splitLines(data []byte) []string {
	lines := strings.Split(string(data), "\n")
	for i := range lines {
		lines[i] = strings.TrimRight(lines[i], "\r")
	}

	return lines
}

func rawKey(line string) string {
	if i := strings.Index(line, "="); i >= 0 {
		return line[:i]
	}

	return line
}

// orderMatters asks the real compiler whether two entry lines define the same
// key with an order-dependent winner.
func (c *caseChecker) orderMatters(a, b string) pairVerdict {
	if a > b {
		a, b = b, a
	}

	if v, ok := c.pairMemo[[2]string{a, b}]; ok {
		return v
	}

	t1, f1 := compileBytes(c.pairPath, []byte(a+"\n"+b+"\n"))
	t2, f2 := compileBytes(c.pairPath, []byte(b+"\n"+a+"\n"))

	v := pairVerdict{}

	if f1 == "" && f2 == "" && len(t1) == 1 && len(t2) == 1 {
		for k, m1 := range t1 {
			if m2, ok := t2[k]; ok && m1 != m2 {
				v = pairVerdict{matters: true, key: k}
			}
		}
	}

	c.pairMemo[[2]string{a, b}] = v

	return v
}

var quoted = regexp.MustCompile(`"(?:[^"\\]|\\.)*"`)

func squeeze(s string) string { return strings.Join(strings.Fields(s), "") }

// reported: some warning speaks of a duplicate and quotes the key (with or
// without a section prefix; white space is not significant for the match).
func reported(warnings []string, key string) bool {
	want := squeeze(key)

	for _, w := range warnings {
		if !strings.Contains(strings.ToLower(w), "duplicate") {
			continue
		}

		for _, q := range quoted.FindAllString(w, -1) {
			s, err := strconv.Unquote(q)
			if err != nil {
				s = strings.Trim(q, `"`)
			}

			s = squeeze(s)
			if s == want || strings.HasSuffix(s, "."+want) {
				return true
			}
		}
	}

	return false
}

type dupPair struct {
	a, b string
	key  string
}

// orderSensitivePairs lists the pairs of entries in one sortable run whose
// winner depends on their order.
func (c *caseChecker) orderSensitivePairs(lines []string) []dupPair {
	var (
		out []dupPair
		run []string
	)

	flush := func() {
		for i := 0; i < len(run); i++ {
			for j := i + 1; j < len(run); j++ {
				if run[i] == run[j] {
					continue
				}

				if v := c.orderMatters(run[i], run[j]); v.matters {
					out = append(out, dupPair{run[i], run[j], v.key})
				}
			}
		}

		run = run[:0]
	}

	for _, l := range lines {
		switch lineKind(l) {
		case 'b':
		case 'e':
			run = append(run, l)
		default:
			flush()
		}
	}

	flush()

	return out
}

func hasIndentedHeader(lines []string) bool {
	for _, l := range lines {
		if lineKind(l) == 'e' && strings.HasPrefix(strings.TrimSpace(l), "[") {
			return true
		}
	}

	return false
}

// outcome is what the real tools did with one file.
type outcome struct {
	TblO     map[string]string
	FailO    string
	Changed  bool
	Warnings []string
	LintErr  string
	Failed   bool
	After    []byte
	Exists   bool
	TblN     map[string]string
	FailN    string
	Leftover []string
}

func (c *caseChecker) run(data []byte) outcome {
	var o outcome

	o.TblO, o.FailO = compileBytes(c.path, data)

	changed, warnings, lerr := langlintpkg.VerifLintFile(c.path, false)
	o.Changed, o.Warnings = changed, warnings

	if lerr != nil {
		o.Failed, o.LintErr = true, lerr.Error()
	}

	o.After, o.Exists = get(c.path)

	if o.Exists && !o.Failed && !bytes.Equal(o.After, data) {
		o.TblN, o.FailN = langpkg.VerifCompileFile(c.path)
	}

	return o
}

func (c *caseChecker) check(data []byte) {
	c.res.Evals++
	c.judge(data, c.run(data))
}

func (c *caseChecker) judge(data []byte, o outcome) {
	tblO, failO, warnings, after, changed := o.TblO, o.FailO, o.Warnings, o.After, o.Changed

	if !o.Exists {
		c.violation("file-vanished", witness{File: string(data), Warnings: warnings, TableOrig: tblO}, "after langlint the file does not exist")

		return
	}

	if o.Failed {
		c.res.Counters["rejected_by_langlint"]++

		if !bytes.Equal(after, data) {
			c.violation("rejected-but-touched", witness{File: string(data), After: string(after), LintError: o.LintErr, TableOrig: tblO},
				"langlint failed ("+o.LintErr+") but the file's bytes changed")
		}

		return
	}

	lines := splitLines(data)
	w := witness{File: string(data), After: string(after), Warnings: warnings, TableOrig: tblO}

	if !changed {
		c.res.Counters["accepted_unchanged"]++
	} else {
		c.res.Counters["accepted_reformatted"]++
	}

	pairs := c.orderSensitivePairs(lines)
	if len(pairs) > 0 {
		c.res.Counters["files_with_order_sensitive_duplicate"]++
	}

	spacingDup := false

	for _, p := range pairs {
		if rawKey(p.a) != rawKey(p.b) {
			spacingDup = true
		}
	}

	// Clause 2: same table.
	if failO != "" {
		c.res.Counters["original_rejected_by_compiler_table_not_judged"]++
	} else if !bytes.Equal(after, data) {
		tblN, failN := o.TblN, o.FailN

		if failN != "" || !sameTable(tblO, tblN) {
			cause := "other"

			switch {
			case hasIndentedHeader(lines):
				cause = "indented-header"
			case spacingDup:
				cause = "dup-raw-key-spacing"
			case len(pairs) > 0:
				cause = "dup-same-raw-key"
			}

			w2 := w
			w2.TableNew = tblN
			w2.Detail = failN

			c.violation("table-changed:"+cause, w2, fmt.Sprintf("the compiler builds %v from the original but %v%s from the formatted file", tblO, tblN, failN))
		}
	}

	// Clause 3: formatting again changes nothing.
	again, _, err2 := langlintpkg.Format(after)
	if err2 != nil || !bytes.Equal(again, after) {
		w2 := w
		w2.Detail = fmt.Sprintf("second Format: %q err=%v", again, err2)

		c.violation("not-idempotent", w2, "formatting the formatted file again changes it (or fails)")
	}

	// Clause 4: order-sensitive duplicates are reported.
	for _, p := range pairs {
		if reported(warnings, p.key) {
			continue
		}

		cause := "same-raw-key"
		if rawKey(p.a) != rawKey(p.b) {
			cause = "raw-key-spacing"
		}

		w2 := w
		w2.Detail = fmt.Sprintf("lines %q and %q both define compiler key %q; the later one wins", p.a, p.b, p.key)

		c.violation("dup-unreported:"+cause, w2, fmt.Sprintf("entries %q and %q define the same key %q for the compiler with different messages inside one sorted run, and no duplicate warning names it", p.a, p.b, p.key))
	}

	// Non-trivial: accepted, actually reformatted, and a non-empty table.
	if changed && len(tblO) > 0 {
		h := fnv.New64a()
		_, _ = h.Write(after)
		c.distinct[h.Sum64()] = struct{}{}

		if len(c.res.Samples) < 6 && len(pairs) > 0 {
			c.res.Samples = append(c.res.Samples, w)
		}
	}
}

// ---- enumeration ----------------------------------------------------------------

// render builds the bytes of one (line sequence, line-end style); ok=false when
// that combination duplicates another one.
func render(idx []int, style int) ([]byte, bool) {
	n := len(idx)

	switch {
	case n == 0:
		return nil, style == 0
	case style == 2 && n < 2:
		return nil, false
	case style == 3 && alphabet[idx[n-1]] == "":
		return nil, false
	}

	var b bytes.Buffer

	for i, sym := range idx {
		b.WriteString(alphabet[sym])

		switch style {
		case 0:
			b.WriteString("\n")
		case 1:
			b.WriteString("\r\n")
		case 2:
			if i%2 == 0 {
				b.WriteString("\r\n")
			} else {
				b.WriteString("\n")
			}
		case 3:
			if i < n-1 {
				b.WriteString("\n")
			}
		}
	}

	return b.Bytes(), true
}

func pow(b, e int) int64 {
	p := int64(1)
	for i := 0; i < e; i++ {
		p *= int64(b)
	}

	return p
}

// forEach calls f with every generated file of the shard (w of nw).
func forEach(w, nw, maxLines int, f func(order int64, data []byte)) {
	forEachStyles(w, nw, maxLines, false, f)
}

// forEachStyles: with topTwo, files of exactly maxLines lines come in the LF
// and the mixed style only (the quick tier's economy).
func forEachStyles(w, nw, maxLines int, topTwo bool, f func(order int64, data []byte)) {
	k := len(alphabet)

	var g int64

	for n := 0; n <= maxLines; n++ {
		total := pow(k, n)
		idx := make([]int, n)

		for i := int64(0); i < total; i++ {
			g++

			if g%int64(nw) != int64(w) {
				continue
			}

			v := i
			for p := n - 1; p >= 0; p-- {
				idx[p] = int(v % int64(k))
				v /= int64(k)
			}

			for style := 0; style < 4; style++ {
				if topTwo && n == maxLines && n >= 2 && style != 0 && style != 2 {
					continue
				}

				if data, ok := render(idx, style); ok {
					f(g*4+int64(style), data)
				}
			}
		}
	}
}

// diskMain runs every file of <= maxLines lines on the in-memory file system
// and on the real disk and demands identical outcomes.
func diskMain(maxLines int, out string) {
	c := newChecker(filepath.Join(filepath.Dir(out), "disk"))
	n := 0

	forEach(0, 1, maxLines, func(_ int64, data []byte) {
		setDisk(false)

		a := c.run(data)

		setDisk(true)

		b := c.run(data)

		ents, err := os.ReadDir(c.dir)
		if err != nil {
			fatal("%v", err)
		}

		for _, e := range ents {
			if e.Name() != filepath.Base(c.path) {
				fatal("on the real disk langlint left %s behind for %q", e.Name(), data)
			}
		}

		ja, _ := json.Marshal(a)
		jb, _ := json.Marshal(b)

		if !bytes.Equal(ja, jb) {
			fatal("in-memory and real-disk runs disagree for %q:\n mem  %s\n disk %s", data, ja, jb)
		}

		n++
	})

	if err := os.WriteFile(out, []byte(strconv.Itoa(n)), 0o644); err != nil {
		fatal("%v", err)
	}

	os.Exit(0)
}

func workerMain(w, nw, maxLines int, out string) {
	if nw == 0 {
		diskMain(maxLines, out)
	}

	setDisk(false)

	c := newChecker(filepath.Join(filepath.Dir(out), fmt.Sprintf("w%d", w)))

	forEachStyles(w, nw, maxLines, os.Getenv("VERIF_TIER") != "thorough", func(order int64, data []byte) {
		c.order = order
		c.check(data)
	})

	b, err := json.Marshal(c.res)
	if err != nil {
		fatal("%v", err)
	}

	if err := os.WriteFile(out, b, 0o644); err != nil {
		fatal("%v", err)
	}

	hb := make([]byte, 0, 8*len(c.distinct))
	for h := range c.distinct {
		hb = binary.LittleEndian.AppendUint64(hb, h)
	}

	if err := os.WriteFile(out+".distinct", hb, 0o644); err != nil {
		fatal("%v", err)
	}

	os.Exit(0)
}

// ---- parent ---------------------------------------------------------------------

func main() {
	if len(os.Args) == 6 && os.Args[1] == "worker" {
		w, _ := strconv.Atoi(os.Args[2])
		nw, _ := strconv.Atoi(os.Args[3])
		ml, _ := strconv.Atoi(os.Args[4])
		workerMain(w, nw, ml, os.Args[5])
	}

	r := report.New("exploration")
	maxLines := r.Pick(5, 6)

	scratch := os.Getenv("VERIF_SCRATCH")
	if scratch == "" {
		report.Fatal("VERIF_SCRATCH not set")
	}

	root := filepath.Join(scratch, "c35")
	if err := os.MkdirAll(root, 0o755); err != nil {
		report.Fatal("%v", err)
	}

	r.Rule(fmt.Sprintf("every sequence of 0..%d lines over the %d-line alphabet %q in the line-end styles %v (combinations that give identical bytes are generated once; quick tier: files of exactly %d lines in the LF and mixed styles only) is one message file; each is compiled by the real compiler, formatted in place by the real lintFile, compiled again; distinct non-trivial = distinct formatted outputs among the files langlint accepts, actually rewrites, and from which the compiler builds at least one key (counted conservatively: many inputs share one output)", maxLines, len(alphabet), alphabet, eolNames, maxLines))
	r.Assume(
		"the table of a file is what tools/lang compileFile builds for one language from that file alone (the real code, re-homed; a panic of the compiler = no table, such originals are not judged)",
		"'a duplicate key whose winner could be affected' = two entries in one sortable run (no comment or section line between them) that the real compiler, fed the two lines in both orders, maps to one key with different winners",
		"'reported' = some langlint warning contains the word duplicate and quotes the key (section prefix optional, white space ignored)")

	if r.Replay != "" {
		var w witness
		if err := report.LoadReplay(r.Replay, &w); err != nil {
			report.Fatal("%v", err)
		}

		// The compiler prints diagnostics on stdout: silence them for the case.
		stdout := os.Stdout
		if null, err := os.OpenFile(os.DevNull, os.O_WRONLY, 0); err == nil {
			os.Stdout = null
		}

		setDisk(false)

		c := newChecker(filepath.Join(root, "replay"))
		c.check([]byte(w.File))

		os.Stdout = stdout

		merge(r, []*workerResult{c.res})
		r.Finish()
	}

	// A fixed, moderate number of workers: the shard layout (and with it the
	// choice of samples) does not depend on the machine.
	nw := 8
	if runtime.NumCPU() < nw {
		nw = runtime.NumCPU()
	}
	cmds := make([]*exec.Cmd, nw)
	outs := make([]string, nw)

	for w := 0; w < nw; w++ {
		outs[w] = filepath.Join(root, fmt.Sprintf("result%d.json", w))
		cmds[w] = exec.Command(os.Args[0], "worker", strconv.Itoa(w), strconv.Itoa(nw), strconv.Itoa(maxLines), outs[w])
		cmds[w].Stdout = nil // the compiler's diagnostics
		cmds[w].Env = append(os.Environ(), "GOMAXPROCS=1", "GOGC=400")
		cmds[w].Stderr = os.Stderr

		if err := cmds[w].Start(); err != nil {
			report.Fatal("start worker: %v", err)
		}
	}

	diskOut := filepath.Join(root, "disk.txt")
	disk := exec.Command(os.Args[0], "worker", "0", "0", "2", diskOut)
	disk.Stdout, disk.Stderr = nil, os.Stderr

	if err := disk.Start(); err != nil {
		report.Fatal("start disk worker: %v", err)
	}

	failed := false

	for w := 0; w < nw; w++ {
		if err := cmds[w].Wait(); err != nil {
			fmt.Fprintf(os.Stderr, "worker %d: %v\n", w, err)

			failed = true
		}
	}

	if err := disk.Wait(); err != nil {
		fmt.Fprintf(os.Stderr, "disk worker: %v\n", err)

		failed = true
	} else if b, err := os.ReadFile(diskOut); err == nil {
		n, _ := strconv.Atoi(string(b))
		r.Set("files_rerun_on_the_real_disk_with_identical_outcome", n)
	}

	if failed {
		report.Fatal("a worker process failed")
	}

	results := make([]*workerResult, nw)

	for w := 0; w < nw; w++ {
		b, err := os.ReadFile(outs[w])
		if err != nil {
			report.Fatal("%v", err)
		}

		results[w] = &workerResult{}
		if err := json.Unmarshal(b, results[w]); err != nil {
			report.Fatal("%v", err)
		}

		hb, err := os.ReadFile(outs[w] + ".distinct")
		if err != nil {
			report.Fatal("%v", err)
		}

		for i := 0; i+8 <= len(hb); i += 8 {
			r.Distinct(string(hb[i : i+8]))
		}
	}

	r.Set("worker_processes", nw)
	r.Set("max_lines", maxLines)
	merge(r, results)
	r.Finish()
}

func merge(r *report.R, results []*workerResult) {
	counters := map[string]int64{}
	cells := map[string]*cellResult{}

	for _, res := range results {
		r.Eval(int(res.Evals))

		for k, v := range res.Counters {
			counters[k] += v
		}

		for name, c := range res.Cells {
			cur := cells[name]
			if cur == nil {
				cp := *c
				cells[name] = &cp

				continue
			}

			cur.Count += c.Count

			if c.Size < cur.Size || (c.Size == cur.Size && c.Order < cur.Order) {
				cur.Size, cur.Order, cur.Witness, cur.Message = c.Size, c.Order, c.Witness, c.Message
			}
		}
	}

	for k, v := range counters {
		r.Set(k, v)
	}

	// Samples: the first worker's, in its enumeration order (deterministic).
	for _, res := range results {
		for _, s := range res.Samples {
			r.Sample(s)
		}
	}

	names := make([]string, 0, len(cells))
	for n := range cells {
		names = append(names, n)
	}

	sort.Strings(names)

	for _, n := range names {
		c := cells[n]
		r.Violation(n, c.Size, c.Witness, c.Message)

		for i := 1; i < c.Count; i++ {
			r.Violation(n, int(^uint(0)>>1), nil, "")
		}
	}
}

// C38: every error / message key the code can emit resolves to non-empty text
// in English and in every shipped language (directly or by the English
// fallback), every translation of such a key uses the same {{placeholders}} as
// the English text, and language negotiation only ever selects a shipped
// language.
//
// Finite and exhaustive: the keys are collected by an AST walk over every
// non-test Go file of the working tree with the code's own prefixing rules
// (see keys.go), crossed with every shipped language (the messages_<lang>.txt
// files), and looked up through the real i18n.Text. NegotiateLanguage is run
// on every Accept-Language header of up to 3 (thorough 4) elements over a
// small element alphabet.
package main

import (
	"fmt"
	"os"
	"path/filepath"
	"sort"
	"strings"

	"github.com/tucats/ego/internal/i18n"
	"github.com/tucats/ego/internal/verifrt/enum"
	"github.com/tucats/ego/internal/verifrt/report"
)

type witness struct {
	Kind    string   `json:"kind"` // unresolved | empty | placeholders | negotiate | supported
	Key     string   `json:"key,omitempty"`
	Langs   []string `json:"languages,omitempty"`
	Sites   []string `json:"sites,omitempty"` // file:line of the call sites (first few)
	English string   `json:"english,omitempty"`
	Text    string   `json:"text,omitempty"`
	Header  string   `json:"header,omitempty"`
	Got     string   `json:"got,omitempty"`
}

// placeholders returns the set of substitution names of a message text, parsed
// the way the subs library does: the text between "{{" and "}}", up to the
// first "|", trimmed.
func placeholders(text string) []string {
	set := map[string]bool{}

	rest := text
	for {
		i := strings.Index(rest, "{{")
		if i < 0 {
			break
		}

		rest = rest[i+2:]

		j := strings.Index(rest, "}}")
		if j < 0 {
			break
		}

		name := strings.TrimSpace(strings.SplitN(rest[:j], "|", 2)[0])
		set[name] = true
		rest = rest[j+2:]
	}

	out := make([]string, 0, len(set))
	for n := range set {
		out = append(out, n)
	}

	sort.Strings(out)

	return out
}

func shippedLanguages(repo string) []string {
	files, err := filepath.Glob(filepath.Join(repo, "internal", "i18n", "languages", "messages_*.txt"))
	if err != nil || len(files) == 0 {
		report.Fatal("no language files under %s", repo)
	}

	var out []string

	for _, f := range files {
		out = append(out, strings.TrimSuffix(strings.TrimPrefix(filepath.Base(f), "messages_"), ".txt"))
	}

	sort.Strings(out)

	return out
}

func contains(list []string, s string) bool {
	for _, x := range list {
		if x == s {
			return true
		}
	}

	return false
}

// checkKey judges one key in all languages through the real lookup.
func checkKey(r *report.R, key string, sites []string, langs []string, catalog map[string]map[string]string) {
	var unresolved, empty []string

	english, hasEnglish := catalog[key]["en"]

	for _, lang := range langs {
		r.Eval(1)
		r.Distinct(key + "|" + lang)

		got := i18n.Text(lang, key)

		switch {
		case got == "":
			empty = append(empty, lang)
		case got == key:
			// the documented fallback of last resort: the key is echoed back
			unresolved = append(unresolved, lang)
		}

		// each translation uses the same placeholders as the English text
		if tr, ok := catalog[key][lang]; ok && hasEnglish && lang != "en" {
			want, have := placeholders(english), placeholders(tr)
			if strings.Join(want, ",") != strings.Join(have, ",") {
				r.Violation("placeholders:"+key+":"+lang, len(key), witness{Kind: "placeholders", Key: key, Langs: []string{lang}, Sites: sites, English: english, Text: tr},
					fmt.Sprintf("the %s text of %s uses placeholders {%s}, the English text uses {%s}", lang, key, strings.Join(have, ","), strings.Join(want, ",")))
			}
		}
	}

	if len(unresolved) > 0 {
		r.Violation("unresolved:"+key, len(key), witness{Kind: "unresolved", Key: key, Langs: unresolved, Sites: sites},
			fmt.Sprintf("key %s (used at %s) has no catalog entry in %v and no English fallback: the lookup echoes the key", key, strings.Join(sites, ", "), unresolved))
	}

	if len(empty) > 0 {
		r.Violation("empty:"+key, len(key), witness{Kind: "empty", Key: key, Langs: empty, Sites: sites},
			fmt.Sprintf("key %s resolves to empty text in %v", key, empty))
	}
}

func checkHeader(r *report.R, header string, shipped []string) {
	got := i18n.NegotiateLanguage(header)
	r.Distinct("negotiated|" + got)
	if got != "" && !contains(shipped, got) {
		r.Violation("negotiate:unshipped-language", len(header), witness{Kind: "negotiate", Header: header, Got: got},
			fmt.Sprintf("NegotiateLanguage(%q) = %q, which is not a shipped language %v", header, got, shipped))
	}
}

func main() {
	r := report.New("exploration")

	repo := os.Getenv("VERIF_REPO")
	if repo == "" {
		report.Fatal("VERIF_REPO not set")
	}

	shipped := shippedLanguages(repo)
	catalog := i18n.VerifCatalog()

	if r.Replay != "" {
		var w witness
		if err := report.LoadReplay(r.Replay, &w); err != nil {
			report.Fatal("%v", err)
		}

		switch w.Kind {
		case "negotiate":
			checkHeader(r, w.Header, shipped)
			r.Eval(1)
		case "supported":
			checkSupported(r, shipped)
		default:
			checkKey(r, w.Key, w.Sites, shipped, catalog)
		}

		r.Finish()
	}

	// ---- 1. keys x languages ---------------------------------------------
	col := collect(repo, catalog)

	keys := make([]string, 0, len(col.keys))
	for k := range col.keys {
		keys = append(keys, k)
	}

	sort.Strings(keys)

	for _, k := range keys {
		checkKey(r, k, col.keys[k].sites, shipped, catalog)
	}

	byClass := map[string]int{}
	for _, k := range keys {
		byClass[col.keys[k].class]++
	}

	// statistics only: catalog entries nobody references by a constant key, and
	// placeholder mismatches among those (not judged: the statement is about
	// the keys the code emits; dynamic call sites cannot be enumerated).
	unreferenced, unrefMismatch := 0, 0

	for k, m := range catalog {
		if _, ok := col.keys[k]; ok {
			continue
		}

		unreferenced++

		if en, ok := m["en"]; ok {
			for lang, tr := range m {
				if lang != "en" && strings.Join(placeholders(en), ",") != strings.Join(placeholders(tr), ",") {
					unrefMismatch++
				}
			}
		}
	}

	checkSupported(r, shipped)

	r.Set("files_parsed", col.files)
	r.Set("call_sites_constant_key", col.constSites)
	r.Set("call_sites_not_a_key_literal", col.freeText)
	r.Set("call_sites_not_a_key_examples", col.freeExamples)
	r.Set("error_variables_never_referenced_not_judged", col.unusedErrorVars)
	r.Set("call_sites_non_constant", col.dynamic)
	r.Set("call_sites_non_constant_examples", col.dynamicExamples)
	r.Set("distinct_keys", len(keys))
	r.Set("distinct_keys_by_class", byClass)
	r.Set("shipped_languages", shipped)
	r.Set("catalog_keys", len(catalog))
	r.Set("catalog_keys_not_referenced_by_a_constant", unreferenced)
	r.Set("placeholder_mismatches_among_unreferenced_keys_not_judged", unrefMismatch)

	for _, k := range []string{"error.arg.count", "msg.server.started", "log.auth.new.token", "label.Usage"} {
		if info, ok := col.keys[k]; ok {
			r.Sample(map[string]any{"key": k, "class": info.class, "sites": info.sites, "en": i18n.Text("en", k), "fr": i18n.Text("fr", k)})
		}
	}

	if len(keys) > 0 {
		k := keys[0]
		r.Sample(map[string]any{"key": k, "class": col.keys[k].class, "sites": col.keys[k].sites, "en": i18n.Text("en", k)})
	}

	// ---- 2. Accept-Language headers ----------------------------------------
	tags := []string{"fr", "fr-CA", "xx", "*", "EN", "", "ja", "-", "fr_FR"}
	qs := []string{"", ";q=0", ";q=0.5", ";q=1", ";q=junk", ";q=2"}

	var elems []string

	for _, t := range tags {
		for _, q := range qs {
			elems = append(elems, t+q)
		}
	}

	maxElems := r.Pick(3, 4)
	seps := []string{","}

	if r.Thorough() {
		seps = []string{",", ", "}
	}

	nHeaders := 0

	for n := 1; n <= maxElems; n++ {
		sizes := make([]int, n)
		for i := range sizes {
			sizes[i] = len(elems)
		}

		// first index fixed per task so that the product runs on all cores
		enum.Par(len(elems), func(first int) {
			rest := sizes[1:]

			run := func(idx []int) {
				for _, sep := range seps {
					parts := make([]string, 0, n)
					parts = append(parts, elems[first])

					for _, i := range idx {
						parts = append(parts, elems[i])
					}

					h := strings.Join(parts, sep)
					checkHeader(r, h, shipped)

					if n == 1 {
						break
					}
				}
			}

			if len(rest) == 0 {
				run(nil)

				return
			}

			enum.Product(rest, run)
		})

		c := 1
		for i := 0; i < n; i++ {
			c *= len(elems)
		}

		if n > 1 {
			c *= len(seps)
		}

		nHeaders += c
	}

	r.Eval(nHeaders)
	r.Set("accept_language_headers", nHeaders)
	r.Set("accept_language_elements", elems)
	r.Sample(map[string]any{"header": "fr-CA,fr;q=0.9,en;q=0.8,*;q=0.1", "negotiated": i18n.NegotiateLanguage("fr-CA,fr;q=0.9,en;q=0.8,*;q=0.1")})
	r.Sample(map[string]any{"header": "xx;q=1,EN;q=0.5", "negotiated": i18n.NegotiateLanguage("xx;q=1,EN;q=0.5")})

	r.Rule("keys: every constant key argument of errors.Message (error.<k>, '_' flow-control signals excluded), ui.Log/WriteLog (log.<k> by the code's own rule), i18n.T/Text (as written), i18n.M/E/L and *Lang (msg./error./label.), ui.Say/SayAlways (dotted keys of a catalog section) in every non-test Go file of the tree, x every shipped language, looked up with i18n.Text: must not echo the key, must not be empty, and a translation must have the same {{placeholder}} name set as the English text. negotiation: every header of 1..N elements over the listed element alphabet must yield a shipped language or \"\". distinct = (key, language) pairs and negotiation results")
	r.Assume("call sites whose key is not a constant cannot be enumerated; they are counted and listed", "keys carried in data (CLI grammar Description fields, prompts, labels computed at run time) are not collected", "placeholder = text between {{ and the first | or }}, as the subs library parses it; only the name set is compared, not formats or order")
	r.Finish()
}

func checkSupported(r *report.R, shipped []string) {
	r.Eval(1)

	for _, l := range i18n.SupportedLanguages() {
		if !contains(shipped, l) {
			r.Violation("supported:unshipped-language", 1, witness{Kind: "supported", Got: l}, fmt.Sprintf("SupportedLanguages() lists %q, which has no messages_%s.txt", l, l))
		}
	}
}

package main

import (
	"fmt"
	"go/ast"
	"go/parser"
	"go/token"
	"io/fs"
	"os"
	"path/filepath"
	"regexp"
	"sort"
	"strconv"
	"strings"

	"github.com/tucats/ego/internal/verifrt/report"
)

type keyInfo struct {
	class string // error | log | msg | label | text
	sites []string
}

type collection struct {
	keys            map[string]*keyInfo
	files           int
	constSites      int
	freeText        int // constant argument that is not a key by the code's own rule (free text / format)
	dynamic         int // argument is not a constant
	dynamicExamples []string
	freeExamples    []string
	unusedErrorVars []string // var ErrX = Message("k") in package errors that nothing refers to
}

// errVar is a package-level `var ErrX = Message("key")` of package errors.
type errVar struct {
	key, site string
}

const (
	pkgI18n   = "github.com/tucats/ego/internal/i18n"
	pkgUI     = "github.com/tucats/ego/internal/cli/ui"
	pkgErrors = "github.com/tucats/ego/internal/errors"
)

// keyShape: dotted identifier segments, no trailing dot, no blanks.
var keyShape = regexp.MustCompile(`^[A-Za-z0-9_-]+(\.[A-Za-z0-9_-]+)+$`)

// constString evaluates a string literal or a concatenation of literals.
func constString(e ast.Expr) (string, bool) {
	switch v := e.(type) {
	case *ast.BasicLit:
		if v.Kind != token.STRING {
			return "", false
		}

		s, err := strconv.Unquote(v.Value)

		return s, err == nil
	case *ast.ParenExpr:
		return constString(v.X)
	case *ast.BinaryExpr:
		if v.Op != token.ADD {
			return "", false
		}

		a, ok1 := constString(v.X)
		b, ok2 := constString(v.Y)

		return a + b, ok1 && ok2
	}

	return "", false
}

func collect(repo string, catalog map[string]map[string]string) *collection {
	c := &collection{keys: map[string]*keyInfo{}}
	fset := token.NewFileSet()

	errVars := map[string]errVar{}   // name -> key
	errIdentUses := map[string]int{} // occurrences of the identifier inside package errors
	errSelectorUses := map[string]int{}
	handled := map[token.Pos]bool{}

	var files []string

	err := filepath.WalkDir(repo, func(path string, d fs.DirEntry, err error) error {
		if err != nil {
			return err
		}

		rel, _ := filepath.Rel(repo, path)

		if d.IsDir() {
			name := d.Name()
			if rel != "." && (strings.HasPrefix(name, ".") || name == "testdata" || name == "vendor" || rel == "tools" || strings.HasPrefix(rel, filepath.Join("internal", "verif"))) {
				return filepath.SkipDir
			}

			return nil
		}

		if strings.HasSuffix(path, ".go") && !strings.HasSuffix(path, "_test.go") {
			files = append(files, path)
		}

		return nil
	})
	if err != nil {
		report.Fatal("walk %s: %v", repo, err)
	}

	sort.Strings(files)

	for _, path := range files {
		src, err := os.ReadFile(path)
		if err != nil {
			report.Fatal("%v", err)
		}

		f, err := parser.ParseFile(fset, path, src, parser.SkipObjectResolution)
		if err != nil {
			report.Fatal("parse %s: %v", path, err)
		}

		c.files++

		rel, _ := filepath.Rel(repo, path)
		dir := filepath.ToSlash(filepath.Dir(rel))

		// local names of the three packages in this file
		names := map[string]string{} // local name -> package path

		for _, imp := range f.Imports {
			p, _ := strconv.Unquote(imp.Path.Value)
			if p != pkgI18n && p != pkgUI && p != pkgErrors {
				continue
			}

			local := p[strings.LastIndexByte(p, '/')+1:]
			if imp.Name != nil {
				local = imp.Name.Name
			}

			names[local] = p
		}

		own := map[string]string{"internal/i18n": pkgI18n, "internal/cli/ui": pkgUI, "internal/errors": pkgErrors}[dir]

		ast.Inspect(f, func(n ast.Node) bool {
			switch v := n.(type) {
			case *ast.ValueSpec:
				// package errors: var ErrX = Message("key") is judged only if ErrX
				// is referred to somewhere (otherwise the code cannot emit it)
				if own == pkgErrors && len(v.Names) == len(v.Values) {
					for i, val := range v.Values {
						call, ok := val.(*ast.CallExpr)
						if !ok || len(call.Args) != 1 {
							continue
						}

						if id, ok := call.Fun.(*ast.Ident); !ok || id.Name != "Message" {
							continue
						}

						if s, ok := constString(call.Args[0]); ok && s != "" && !strings.HasPrefix(s, "_") && !strings.ContainsAny(s, " \t\n") {
							pos := fset.Position(call.Pos())
							errVars[v.Names[i].Name] = errVar{"error." + strings.TrimPrefix(s, "error."), fmt.Sprintf("%s:%d", filepath.ToSlash(rel), pos.Line)}
							handled[call.Pos()] = true
						}
					}
				}
			case *ast.Ident:
				if own == pkgErrors {
					errIdentUses[v.Name]++
				}
			case *ast.SelectorExpr:
				if id, ok := v.X.(*ast.Ident); ok && names[id.Name] == pkgErrors {
					errSelectorUses[v.Sel.Name]++
				}
			}

			call, ok := n.(*ast.CallExpr)
			if !ok || handled[call.Pos()] {
				return true
			}

			var pkg, fn string

			switch fun := call.Fun.(type) {
			case *ast.SelectorExpr:
				if id, ok := fun.X.(*ast.Ident); ok {
					pkg, fn = names[id.Name], fun.Sel.Name
				}
			case *ast.Ident:
				pkg, fn = own, fun.Name
			}

			if pkg == "" {
				return true
			}

			argIndex, class, prefix := -1, "", ""

			switch pkg {
			case pkgI18n:
				switch fn {
				case "T":
					argIndex, class = 0, "text"
				case "Text":
					argIndex, class = 1, "text"
				case "M":
					argIndex, class, prefix = 0, "msg", "msg."
				case "MLang":
					argIndex, class, prefix = 1, "msg", "msg."
				case "E":
					argIndex, class, prefix = 0, "error", "error."
				case "ELang":
					argIndex, class, prefix = 1, "error", "error."
				case "L":
					argIndex, class, prefix = 0, "label", "label."
				case "LLang":
					argIndex, class, prefix = 1, "label", "label."
				}
			case pkgUI:
				switch fn {
				case "Log", "WriteLog":
					argIndex, class = 1, "log"
				case "Say", "SayAlways":
					argIndex, class = 0, "say"
				}
			case pkgErrors:
				if fn == "Message" {
					argIndex, class = 0, "error"
				}
			}

			if argIndex < 0 || len(call.Args) <= argIndex {
				return true
			}

			pos := fset.Position(call.Pos())
			site := fmt.Sprintf("%s:%d", filepath.ToSlash(rel), pos.Line)

			s, isConst := constString(call.Args[argIndex])
			if !isConst {
				c.dynamic++

				if len(c.dynamicExamples) < 40 {
					c.dynamicExamples = append(c.dynamicExamples, site+" "+pkg[strings.LastIndexByte(pkg, '/')+1:]+"."+fn)
				}

				return true
			}

			key := ""
			free := func() {
				c.freeText++

				if len(c.freeExamples) < 60 {
					c.freeExamples = append(c.freeExamples, fmt.Sprintf("%s %s.%s(%q)", site, pkg[strings.LastIndexByte(pkg, '/')+1:], fn, s))
				}
			}

			switch {
			case pkg == pkgErrors:
				// errors.Message(m): flow-control signals ("_...") are not
				// localized by design; text with blanks is an ad-hoc message.
				if strings.HasPrefix(s, "_") || strings.ContainsAny(s, " \t\n") || s == "" {
					free()

					return true
				}

				key = "error." + strings.TrimPrefix(s, "error.")
			case class == "log":
				// ui.FormatLogMessage: a key iff it has a dot and no blank
				if strings.Count(s, ".") == 0 || strings.Count(s, " ") > 0 {
					free()

					return true
				}

				key = s
				if !strings.HasPrefix(key, "log.") {
					key = "log." + key
				}
			case class == "say":
				// ui.SayAlways translates its format when it has a '.' after the
				// first character; a dotted identifier is a key, anything else
				// (blanks, %, trailing dot) is literal text / a format string
				if !keyShape.MatchString(s) {
					free()

					return true
				}

				key = s
				class = s[:strings.IndexByte(s, '.')]
			case class == "text":
				// i18n.T / i18n.Text look the constant up as written
				if s == "" || strings.ContainsAny(s, " \t\n%") {
					free()

					return true
				}

				key = s
				if i := strings.IndexByte(s, '.'); i > 0 {
					class = s[:i]
				}
			default:
				// i18n.M/E/L: whatever is passed is looked up under the prefix
				if s == "" {
					free()

					return true
				}

				key = prefix + s
			}

			c.constSites++

			info := c.keys[key]
			if info == nil {
				info = &keyInfo{class: class}
				c.keys[key] = info
			}

			if len(info.sites) < 3 {
				info.sites = append(info.sites, site)
			}

			return true
		})
	}

	// the error variables that something refers to
	names := make([]string, 0, len(errVars))
	for n := range errVars {
		names = append(names, n)
	}

	sort.Strings(names)

	for _, n := range names {
		v := errVars[n]

		if errSelectorUses[n] == 0 && errIdentUses[n] <= 1 {
			c.unusedErrorVars = append(c.unusedErrorVars, n+"="+v.key)

			continue
		}

		c.constSites++

		info := c.keys[v.key]
		if info == nil {
			info = &keyInfo{class: "error"}
			c.keys[v.key] = info
		}

		if len(info.sites) < 3 {
			info.sites = append(info.sites, v.site)
		}
	}

	return c
}

// C37: every duration printed in the extended form ("1d 2h 3m 4s") is read
// back by util.ParseDuration as the same duration to the second, and the
// parser accepts the documented spaced / day-suffixed spellings.
//
// Part "print":   d -> util.FormatDuration(d,true) -> util.ParseDuration.
//
//	quick:    every second of [-3d,+3d], the full product sign x days(set) x
//	          0..23h x 0..59m x 0..59s, and sub-second offsets at boundaries.
//	thorough: additionally EVERY second of [-10^5 h, +10^5 h] and every day
//	          count 0..41667 with the corner values of h, m, s
//	          (C37_SWEEP_HOURS=1000000 sweeps every second of +-10^6 h).
//
// Part "spelling": every text sign? (N d)? sep (N h)? sep (N m)? sep (N s)?
// (units in that order, at least one, each gap independently "" or " ") with
// the numbers from a small set; the expected value is Go's reading of the
// same text with Nd replaced by 24N hours and the spaces removed.
package main

import (
	"fmt"
	"hash/fnv"
	"os"
	"runtime/debug"
	"strconv"
	"strings"
	"time"

	"github.com/tucats/ego/internal/util"
	"github.com/tucats/ego/internal/verifrt/enum"
	"github.com/tucats/ego/internal/verifrt/report"
)

type witness struct {
	Part  string `json:"part"`            // "print" or "spelling"
	Nanos int64  `json:"nanos,omitempty"` // print: the duration handed to FormatDuration
	Text  string `json:"text"`            // the text handed to ParseDuration
	Want  int64  `json:"want_nanos"`      // the duration the text denotes
	Slack int64  `json:"slack_nanos"`     // |parsed-want| must be <= slack (0 for whole seconds)
}

// class names the root-cause class of a text: the two suspected classes get
// their own name, everything else is described by sign/day/spacing.
func class(text string) string {
	neg := strings.HasPrefix(text, "-")
	day := strings.Contains(text, "d")
	spaced := strings.Contains(text, " ")

	switch {
	case !day && spaced:
		return "noday-spaced"
	case day && neg:
		return "negative-day"
	}

	s := "positive"
	if neg {
		s = "negative"
	}

	if day {
		s += "-day"
	} else {
		s += "-noday"
	}

	if spaced {
		s += "-spaced"
	} else {
		s += "-compact"
	}

	return s
}

// shape is the "distinct case" key of a text: every digit replaced by '#'
// (so "1d 12h" -> "#d ##h"), packed 3 bits per character so that the hot loop
// does not allocate. Texts longer than 21 characters do not occur.
const shapeAlphabet = "#dhms -?"

func shapeCode(text string) uint64 {
	var code uint64 = 1

	for i := 0; i < len(text) && i < 21; i++ {
		var c uint64

		switch ch := text[i]; {
		case ch >= '0' && ch <= '9':
			c = 0
		case ch == 'd':
			c = 1
		case ch == 'h':
			c = 2
		case ch == 'm':
			c = 3
		case ch == 's':
			c = 4
		case ch == ' ':
			c = 5
		case ch == '-':
			c = 6
		default:
			c = 7
		}

		code = code<<3 | c
	}

	return code
}

func shapeString(part string, code uint64) string {
	var rev []byte

	for code > 1 {
		rev = append(rev, shapeAlphabet[code&7])
		code >>= 3
	}

	for i, j := 0, len(rev)-1; i < j; i, j = i+1, j-1 {
		rev[i], rev[j] = rev[j], rev[i]
	}

	return part + "|" + string(rev)
}

// judge runs one text through the real parser: 0 = accepted with the right
// value, 1 = rejected, 2 = accepted with another value.
func judge(w witness) int {
	got, err := util.ParseDuration(w.Text)
	if err != nil {
		return 1
	}

	diff := int64(got) - w.Want
	if diff < 0 {
		diff = -diff
	}

	if diff > w.Slack {
		return 2
	}

	return 0
}

// describe re-runs a failing case to word the message (only done for the
// witnesses that are reported, not in the hot loop).
func describe(w witness) (cell, msg string) {
	got, err := util.ParseDuration(w.Text)
	if err != nil {
		return w.Part + ":" + class(w.Text) + ":rejected",
			fmt.Sprintf("ParseDuration(%q) fails: %v (the text denotes %v)", w.Text, err, time.Duration(w.Want))
	}

	return w.Part + ":" + class(w.Text) + ":wrong-value",
		fmt.Sprintf("ParseDuration(%q) = %v, the text denotes %v", w.Text, got, time.Duration(w.Want))
}

func printWitness(d time.Duration) witness {
	w := witness{Part: "print", Nanos: int64(d), Text: util.FormatDuration(d, true)}
	// "the same duration to the second": a whole-second duration must come back
	// exactly; one with a sub-second part must come back less than 1s away.
	if d%time.Second == 0 {
		w.Want = int64(d)
	} else {
		w.Want = int64(d)
		w.Slack = int64(time.Second) - 1
	}

	return w
}

// local accumulates the violations of one chunk so that the shared report is
// touched once per chunk and cell, not once per value.
type local struct {
	cells map[string]*cellAcc
	shape map[string]map[uint64]struct{}
	evals int
}

type cellAcc struct {
	n    int64
	size int64
	w    witness
}

func newLocal() *local {
	return &local{cells: map[string]*cellAcc{}, shape: map[string]map[uint64]struct{}{"print": {}, "spelling": {}}}
}

func sizeOf(w witness) int64 {
	n := w.Want
	if n < 0 {
		return -2*(n/int64(time.Second)) + 1
	}

	return 2 * (n / int64(time.Second))
}

var outcomes = []string{"", ":rejected", ":wrong-value"}

func (l *local) run(w witness) {
	l.evals++
	l.shape[w.Part][shapeCode(w.Text)] = struct{}{}

	out := judge(w)
	if out == 0 {
		return
	}

	cell := w.Part + ":" + class(w.Text) + outcomes[out]

	// smallest duration first (print) / shortest text without zero components
	// first (spelling); the low 20 bits make the order total so that the
	// reported witness does not depend on which worker came first.
	base := sizeOf(w)
	if w.Part == "spelling" {
		base = int64(len(w.Text)) + 64*int64(strings.Count(w.Text, "0"))
	}

	h := fnv.New32a()
	_, _ = h.Write([]byte(w.Text))
	sz := base<<20 | int64(h.Sum32()&0xFFFFF)

	a := l.cells[cell]
	if a == nil {
		l.cells[cell] = &cellAcc{n: 1, size: sz, w: w}

		return
	}

	a.n++

	if sz < a.size {
		a.size, a.w = sz, w
	}
}

func (l *local) flush(r *report.R) {
	r.Eval(l.evals)

	for part, m := range l.shape {
		for code := range m {
			r.Distinct(shapeString(part, code))
		}
	}

	for cell, a := range l.cells {
		_, msg := describe(a.w)
		r.Violation(cell, int(a.size), a.w, msg+" [count = work chunks that saw this cell; the number of cases is coverage.cases_"+cell+"]")
		r.Add("cases_"+cell, a.n)
	}
}

const day = 24 * time.Hour

func main() {
	// The hot loop allocates a few small strings per value and keeps almost
	// nothing alive; with the default GC pacing 16 workers spend much of their
	// time in back-to-back collections of a tiny heap.
	debug.SetGCPercent(1600)

	r := report.New("exploration")

	if r.Replay != "" {
		var w witness
		if err := report.LoadReplay(r.Replay, &w); err != nil {
			report.Fatal("%v", err)
		}

		if w.Part == "print" {
			w = printWitness(time.Duration(w.Nanos))
		}

		l := newLocal()
		l.run(w)
		l.flush(r)
		r.Finish()
	}

	// ---- part 1a: contiguous seconds around zero ---------------------------
	const contigDays = 3
	lo := -int64(contigDays) * 86400
	n := int(2*int64(contigDays)*86400 + 1)

	const chunk = 1 << 16

	nChunks := (n + chunk - 1) / chunk
	enum.Par(nChunks, func(c int) {
		l := newLocal()

		for i := c * chunk; i < (c+1)*chunk && i < n; i++ {
			l.run(printWitness(time.Duration(lo+int64(i)) * time.Second))
		}

		l.flush(r)
	})
	r.Set("print_contiguous_seconds", n)

	// ---- part 1b: product sign x days x h x m x s ---------------------------
	days := []int64{0, 1, 2, 3, 9, 10, 99, 100, 999, 1000, 9999, 10000, 41665, 41666}
	signs := []int64{1, -1}

	type task struct{ sign, days, hour int64 }

	var tasks []task

	for _, sg := range signs {
		for _, dd := range days {
			for h := int64(0); h < 24; h++ {
				tasks = append(tasks, task{sg, dd, h})
			}
		}
	}

	enum.Par(len(tasks), func(i int) {
		t := tasks[i]
		l := newLocal()

		for m := int64(0); m < 60; m++ {
			for s := int64(0); s < 60; s++ {
				d := time.Duration(t.sign) * (time.Duration(t.days)*day + time.Duration(t.hour)*time.Hour + time.Duration(m)*time.Minute + time.Duration(s)*time.Second)
				l.run(printWitness(d))
			}
		}

		l.flush(r)
	})
	r.Set("print_product_values", len(tasks)*3600)
	r.Set("print_product_days", days)

	// ---- part 1c: sub-second offsets at the boundaries ----------------------
	{
		l := newLocal()
		bases := []time.Duration{0, time.Second, 59 * time.Second, time.Minute, 3599 * time.Second, time.Hour, day - time.Second, day, day + time.Second, 25 * time.Hour, 1000000 * time.Hour}
		fracs := []time.Duration{1, time.Microsecond, time.Millisecond, 500 * time.Millisecond, time.Second - 1}
		cnt := 0

		for _, b := range bases {
			for _, f := range fracs {
				for _, sg := range signs {
					l.run(printWitness(time.Duration(sg) * (b + f)))

					cnt++
				}
			}
		}

		l.flush(r)
		r.Set("print_subsecond_values", cnt)
	}

	// ---- part 1d (thorough): EVERY second of [-H h, +H h], and every day
	// count of the property's range with the corner values of h, m, s.
	// H = 100 000 by default (7.2e8 values); C37_SWEEP_HOURS=1000000 sweeps the
	// property's whole range (7.2e9 values, about 25 min on 16 idle cores).
	if r.Thorough() {
		hours := int64(100000)

		if v := os.Getenv("C37_SWEEP_HOURS"); v != "" {
			h, err := strconv.ParseInt(v, 10, 64)
			if err != nil || h < 1 || h > 1000000 {
				report.Fatal("C37_SWEEP_HOURS=%q: want 1..1000000", v)
			}

			hours = h
		}

		limit := hours * 3600 // seconds

		const big = int64(1) << 20

		total := 2*limit + 1
		nBig := int((total + big - 1) / big)

		enum.Par(nBig, func(c int) {
			l := newLocal()
			start := -limit + int64(c)*big

			for s := start; s < start+big && s <= limit; s++ {
				l.run(printWitness(time.Duration(s) * time.Second))
			}

			l.flush(r)
		})
		r.Set("print_every_second_of_pm_hours", hours)
		r.Set("print_every_second_values", total)

		corner := []int64{0, 1, 59}
		cornerH := []int64{0, 1, 23}
		maxDay := int64(41667)

		enum.Par(int(maxDay+1), func(dd int) {
			l := newLocal()

			for _, sg := range signs {
				for _, h := range cornerH {
					for _, m := range corner {
						for _, s := range corner {
							d := time.Duration(sg) * (time.Duration(dd)*day + time.Duration(h)*time.Hour + time.Duration(m)*time.Minute + time.Duration(s)*time.Second)
							l.run(printWitness(d))
						}
					}
				}
			}

			l.flush(r)
		})
		r.Set("print_every_day_count_upto", maxDay)
		r.Set("print_every_day_count_values", (maxDay+1)*2*27)
	}

	// ---- part 2: documented spellings --------------------------------------
	vals := []int64{0, 1, 7, 30, 59}
	if r.Thorough() {
		vals = []int64{0, 1, 2, 9, 10, 23, 24, 59, 60, 100}
	}

	units := []struct {
		suffix string
		d      time.Duration
	}{{"d", day}, {"h", time.Hour}, {"m", time.Minute}, {"s", time.Second}}

	nSpell := 0

	// one task per (sign, subset of units)
	enum.Par(2*15, func(i int) {
		sign, mask := i%2, i/2+1
		l := newLocal()

		var present []int

		for u := 0; u < 4; u++ {
			if mask&(1<<u) != 0 {
				present = append(present, u)
			}
		}

		k := len(present)
		sizes := make([]int, 0, 2*k-1)

		for range present {
			sizes = append(sizes, len(vals))
		}

		for g := 0; g < k-1; g++ {
			sizes = append(sizes, 2)
		}

		enum.Product(sizes, func(idx []int) {
			var (
				b     strings.Builder
				total time.Duration
			)

			if sign == 1 {
				b.WriteByte('-')
			}

			for j, u := range present {
				if j > 0 && idx[k+j-1] == 1 {
					b.WriteByte(' ')
				}

				v := vals[idx[j]]
				fmt.Fprintf(&b, "%d%s", v, units[u].suffix)
				total += time.Duration(v) * units[u].d
			}

			if sign == 1 {
				total = -total
			}

			l.run(witness{Part: "spelling", Text: b.String(), Want: int64(total)})
		})

		l.flush(r)
	})

	for mask := 1; mask < 16; mask++ {
		k := 0

		for u := 0; u < 4; u++ {
			if mask&(1<<u) != 0 {
				k++
			}
		}

		c := 2
		for j := 0; j < k; j++ {
			c *= len(vals)
		}

		for j := 0; j < k-1; j++ {
			c *= 2
		}

		nSpell += c
	}

	r.Set("spellings", nSpell)
	r.Set("spelling_numbers", vals)

	for _, d := range []time.Duration{90 * time.Minute, -26 * time.Hour, 772*time.Hour + 35*time.Minute + 12*time.Second, 86400 * time.Second, -59 * time.Second, 1000000 * time.Hour} {
		w := printWitness(d)
		got, err := util.ParseDuration(w.Text)
		r.Sample(map[string]any{"duration": d.String(), "printed": w.Text, "parsed": got.String(), "error": fmt.Sprint(err)})
	}

	r.Rule("print: every duration d of the sets named in coverage (print_*: contiguous seconds, component product, sub-second offsets; thorough: every second of +-print_every_second_of_pm_hours hours and every day count) through util.FormatDuration(d,true) then util.ParseDuration; must parse, and equal d exactly (whole seconds) or within <1s (sub-second part). spelling: every text [-](Nd)?(Nh)?(Nm)?(Ns)? with units in that order, each gap independently none or one space, N from the listed set; must parse to sign*(24h*d+h+m+s). distinct = distinct text shape (part, sign, units present, digit count of each number, spacing)")
	r.Assume("time.Duration arithmetic is the reference for what a text denotes", "a leading '-' applies to the whole duration (Go's syntax; also what FormatDuration prints)", "units us/µs/ns/ms and fractional numbers combined with 'd' are not judged")
	r.Finish()
}

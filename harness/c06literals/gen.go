package main

import (
	"fmt"
	"go/scanner"
	"go/token"
	"math"
	"sort"
	"strings"
	"sync"
	"unicode"
	"unicode/utf8"

	"github.com/tucats/ego/internal/verifrt/enum"
)

// lit is one literal spelling of the domain.
type lit struct {
	Src    string
	Family string // int | float | imag | rune | string | rawstring
	tok    token.Token
	body   []string // string families: the alphabet symbols between the quotes
}

// goLit reports whether src is, for Go's own scanner, exactly one literal
// token scanned without any error.
func goLit(src string) (token.Token, string, bool) {
	var s scanner.Scanner

	fs := token.NewFileSet()
	f := fs.AddFile("", fs.Base(), len(src))
	errs := 0

	s.Init(f, []byte(src), func(token.Position, string) { errs++ }, 0)

	_, tok, text := s.Scan()
	if errs > 0 || !tok.IsLiteral() || tok == token.IDENT {
		return tok, "", false
	}

	_, tok2, _ := s.Scan()
	if tok2 == token.SEMICOLON {
		_, tok2, _ = s.Scan()
	}

	if tok2 != token.EOF || errs > 0 {
		return tok, "", false
	}

	// Go's scanner drops carriage returns from raw strings in the token text;
	// the constant value is computed from the source spelling in either case.
	if text != src && !(tok == token.STRING && strings.HasPrefix(src, "`") && strings.ReplaceAll(src, "\r", "") == text) {
		return tok, "", false
	}

	return tok, src, true
}

func family(tok token.Token, src string) string {
	switch tok {
	case token.INT:
		return "int"
	case token.FLOAT:
		return "float"
	case token.IMAG:
		return "imag"
	case token.CHAR:
		return "rune"
	}

	if strings.HasPrefix(src, "`") {
		return "rawstring"
	}

	return "string"
}

func rebuild(l lit, body []string) lit {
	q := `"`
	if l.Family == "rawstring" {
		q = "`"
	}

	return lit{Src: q + strings.Join(body, "") + q, Family: l.Family, tok: l.tok, body: body}
}

func lookup(ls []lit, src string) (lit, bool) {
	for _, l := range ls {
		if l.Src == src {
			return l, true
		}
	}

	return lit{}, false
}

// lowerTwin returns the spelling with its radix/exponent letters and hex
// digits in lower case (the imaginary suffix is lower case already).
func lowerTwin(src string) string { return strings.ToLower(src) }

// features names the spelling classes a literal belongs to; the violation
// cell is built from them.
func features(l lit, w want) []string {
	var fs []string

	add := func(c bool, name string) {
		if c {
			fs = append(fs, name)
		}
	}

	switch l.Family {
	case "int", "float", "imag":
		m := strings.TrimSuffix(l.Src, "i")
		lo := strings.ToLower(m)
		prefixed := strings.HasPrefix(lo, "0x") || strings.HasPrefix(lo, "0b") || strings.HasPrefix(lo, "0o")

		switch {
		case strings.HasPrefix(lo, "0x") && strings.Contains(lo, "p"):
			fs = append(fs, "hexfloat")
		case prefixed:
			fs = append(fs, "prefixed")
		case len(m) > 1 && m[0] == '0' && (m[1] == '_' || (m[1] >= '0' && m[1] <= '9')):
			fs = append(fs, "lead0")
		default:
			fs = append(fs, "dec")
		}

		add(strings.Contains(m, "_"), "underscore")
		add(!prefixed && strings.Contains(lo, "e"), "exp")
		add(strings.Contains(m, "."), "dot")
		// A separator that survived simplifyNumber is needed for the failure;
		// the magnitude is then not the cause. 2^63 is special only in decimal
		// (other decimal values above int32 are fine); elsewhere it is "wide".
		us := strings.Contains(m, "_")
		isDec := fs[0] == "dec"
		add(!us && w.kind == "int" && (w.i > math.MaxInt32 || (w.minInt && !isDec)), "wide")
		add(!us && w.minInt && isDec, "2^63")
		add(m != lo, "upper")
	case "rune":
		c := strings.TrimSuffix(strings.TrimPrefix(l.Src, "'"), "'")

		switch {
		case strings.HasPrefix(c, `\`):
			fs = append(fs, "escape")
		case len(c) == 1:
			fs = append(fs, "ascii")
		default:
			fs = append(fs, "unicode")
		}
	case "string":
		seen := map[string]bool{}

		for _, sym := range l.body {
			name := ""

			switch {
			case sym == `\\`:
				name = "esc-backslash"
			case sym == `\"`:
				name = "esc-quote"
			case strings.HasPrefix(sym, `\x`):
				name = "esc-hex"
			case strings.HasPrefix(sym, `\u`):
				name = "esc-u"
			case strings.HasPrefix(sym, `\U`):
				name = "esc-U"
			case len(sym) == 4 && sym[0] == '\\':
				name = "esc-octal"
			case len(sym) == 2 && sym[0] == '\\':
				name = "esc-simple"
			case sym == "`":
				name = "backtick"
			case sym == "'":
				name = "apostrophe"
			case sym == "//" || sym == "/*":
				name = "comment-opener"
			case sym == ";":
				name = "semicolon"
			case sym == " " || sym == "\t":
				name = "space"
			case sym == "{" || sym == "}":
				name = "brace"
			case len(sym) > 0 && sym[0] >= utf8.RuneSelf:
				name = "unicode"
			}

			if name != "" && !seen[name] {
				seen[name] = true
				fs = append(fs, name)
			}
		}

		sort.Strings(fs)
	case "rawstring":
		b := strings.Join(l.body, "")
		lines := strings.Split(b, "\n")
		indented, trailing := false, false

		for i, ln := range lines {
			if i > 0 && (strings.HasPrefix(ln, " ") || strings.HasPrefix(ln, "\t")) {
				indented = true
			}

			if i < len(lines)-1 && (strings.HasSuffix(ln, " ") || strings.HasSuffix(ln, "\t")) {
				trailing = true
			}
		}

		add(strings.Contains(b, "\r"), "carriage-return")
		add(len(lines) > 1, "multiline")
		add(indented, "indented-line")
		add(trailing, "trailing-space-line")
		add(strings.Contains(b, `\`), "backslash")
		add(strings.Contains(b, `"`), "quote")
		add(strings.Contains(b, "'"), "apostrophe")
		add(strings.Contains(b, "//") || strings.Contains(b, "/*"), "comment-opener")
		add(strings.Contains(b, ";"), "semicolon")
		add(strings.Contains(b, "{") || strings.Contains(b, "}"), "brace")

		for _, c := range b {
			if c >= utf8.RuneSelf {
				fs = append(fs, "unicode")

				break
			}
		}
	}

	if len(fs) == 0 {
		fs = []string{"plain"}
	}

	return fs
}

func nontrivial(l lit) bool {
	switch l.Family {
	case "int":
		if len(l.Src) > 9 {
			return true
		}

		for i, c := range l.Src {
			if c < '0' || c > '9' || (i == 0 && c == '0' && len(l.Src) > 1) {
				return true
			}
		}

		return false
	case "rune":
		return len(l.Src) != 3
	case "string", "rawstring":
		for _, c := range l.Src[1 : len(l.Src)-1] {
			if c == '\\' || c == '\n' || c >= utf8.RuneSelf || c == '`' || c == '"' {
				return true
			}
		}

		return false
	}

	return true
}

type genStats struct {
	candidates int64
	rule       string
	bounds     map[string]any
	samples    []any
}

var numAlphabet = []string{"0", "1", "7", "8", "_", ".", "e", "p", "+", "-", "x", "b", "o", "f", "i"}

// numbers returns every string over numAlphabet of length 1..n that Go scans
// as one INT, FLOAT or IMAG literal, plus the upper-case twin of each.
func numbers(n int) ([]lit, int64) {
	var (
		mu    sync.Mutex
		out   []lit
		cands int64
	)

	// A number literal starts with a digit or a dot; the other first symbols
	// cannot start one, so their subtrees are not generated.
	var firsts []string

	for _, a := range numAlphabet {
		if (a[0] >= '0' && a[0] <= '9') || a == "." {
			firsts = append(firsts, a)
		}
	}

	type job struct{ prefix string }

	var jobs []job

	for _, f := range firsts {
		jobs = append(jobs, job{f})
	}

	if n >= 3 {
		jobs = jobs[:0]

		for _, f := range firsts {
			for _, g := range numAlphabet {
				jobs = append(jobs, job{f + g})
			}
		}
	}

	try := func(s string, local *[]lit) {
		if tok, _, ok := goLit(s); ok && (tok == token.INT || tok == token.FLOAT || tok == token.IMAG) {
			*local = append(*local, lit{Src: s, Family: family(tok, s), tok: tok})

			m := strings.TrimSuffix(s, "i")
			if u := strings.ToUpper(m) + s[len(m):]; u != s {
				if tok2, _, ok2 := goLit(u); ok2 && tok2 == tok {
					*local = append(*local, lit{Src: u, Family: family(tok, u), tok: tok})
				}
			}
		}
	}

	enum.Par(len(jobs), func(i int) {
		var (
			local []lit
			c     int64
		)

		p := jobs[i].prefix
		rest := n - len(p)

		enum.Strings(numAlphabet, 0, rest, func(s string, _ []int) {
			c++

			try(p+s, &local)
		})

		mu.Lock()
		out = append(out, local...)
		cands += c
		mu.Unlock()
	})

	if n >= 3 {
		// length-1 spellings are not covered by the two-symbol prefixes
		for _, f := range firsts {
			var local []lit

			try(f, &local)

			out = append(out, local...)
			cands++
		}
	}

	return out, cands
}

func group3(d string) string {
	var b strings.Builder

	for i, c := range d {
		if i > 0 && (len(d)-i)%3 == 0 {
			b.WriteByte('_')
		}

		b.WriteRune(c)
	}

	return b.String()
}

func group4(d string) string {
	var b strings.Builder

	for i, c := range d {
		if i > 0 && (len(d)-i)%4 == 0 {
			b.WriteByte('_')
		}

		b.WriteRune(c)
	}

	return b.String()
}

// boundaryNumbers spells the values around the int32 / int64 / float64 limits
// in every radix, with and without separators.
func boundaryNumbers() []string {
	var out []string

	vals := []uint64{127, 128, 255, 256, 32767, 32768, 65535, 65536, 1<<31 - 1, 1 << 31, 1<<32 - 1, 1 << 32, 1 << 53, 1<<53 + 1, 1<<63 - 1, 1 << 63}

	for _, v := range vals {
		d, h, o, b := fmt.Sprintf("%d", v), fmt.Sprintf("%x", v), fmt.Sprintf("%o", v), fmt.Sprintf("%b", v)
		out = append(out,
			d, group3(d),
			"0x"+h, "0X"+strings.ToUpper(h), "0x"+strings.ToUpper(h), "0x"+group4(h), "0x_"+h,
			"0o"+o, "0O"+o, "0"+o, "0o"+group3(o), "0_"+o, "0o_"+o,
			"0b"+b, "0B"+b, "0b"+group4(b), "0b_"+b,
			d+"i", "0x"+h+"i", "0"+o+"i", "0b"+b+"i", "0o"+o+"i", d+".0", d+"e0", d+".", "0x"+h+"p0", "0x"+h+".p0", "0x"+h+"p0i",
		)
	}

	floats := []string{
		"1.7976931348623157e308", "1.7976931348623157e+308", "1.7976931348623157E+308", "17976931348623157e292", "4.9e-324", "5e-324", "4.9406564584124654e-324",
		"2.2250738585072014e-308", "2.2250738585072011e-308", "0x1p-1074", "0x1P-1074", "0x1.fffffffffffffp1023", "0x1.fffffffffffffp+1023", "0X1.FFFFFFFFFFFFFP+1023",
		"0x.8p1", "0x8.p-3", "0x1_0.8p0", "0x_1p0", "0x1p0_1", "0x1p-0_1", "1e308", "1e-323", "1e-400", "0.1", "1e23", "9007199254740993.0", "123456789.123456789",
		"1_0.2_5e1_0", "1_0.2_5e+1_0", "1_0.2_5e-1_0", "0_1.5", "00.5", "09.5", "09e1", "08e-1", "0e0", "0.0e-0", "0.e+0", ".0", "000000000000000000000001.5",
		"3.141592653589793238462643383279502884197", "0.000000000000000000000000000000000000000000001", "100000000000000000000.0", "1e+0", "1E-0",
	}

	for _, f := range floats {
		out = append(out, f, f+"i")
	}

	return out
}

func runeSpellings(thorough bool) []string {
	var out []string

	for c := rune(0x20); c < 0x7f; c++ {
		out = append(out, "'"+string(c)+"'")
	}

	for _, e := range []string{"a", "b", "f", "n", "r", "t", "v", `\`, "'", `"`, "0", "e", "x", "u"} {
		out = append(out, `'\`+e+`'`)
	}

	for v := 0; v < 512; v++ {
		out = append(out, fmt.Sprintf(`'\%03o'`, v))
	}

	for v := 0; v < 256; v++ {
		out = append(out, fmt.Sprintf(`'\x%02x'`, v), fmt.Sprintf(`'\x%02X'`, v))
	}

	step := rune(251)
	if thorough {
		step = 1
	}

	pts := map[rune]bool{}

	for c := rune(0); c <= 0xff; c++ {
		pts[c] = true
	}

	for c := rune(0x100); c <= 0xffff; c += step {
		pts[c] = true
	}

	for _, c := range []rune{0x7ff, 0x800, 0xd7ff, 0xd800, 0xdfff, 0xe000, 0xfffd, 0xfffe, 0xffff, 0x10000, 0x10001, 0x1f600, 0x10ffff, 0x110000, 0xe9, 0x20ac} {
		pts[c] = true
	}

	for c := rune(0x10000); c <= 0x10ffff; c += 4099 * step {
		pts[c] = true
	}

	var sorted []rune
	for c := range pts {
		sorted = append(sorted, c)
	}

	sort.Slice(sorted, func(i, j int) bool { return sorted[i] < sorted[j] })

	for _, c := range sorted {
		if c <= 0xffff {
			out = append(out, fmt.Sprintf(`'\u%04x'`, c))
		}

		out = append(out, fmt.Sprintf(`'\U%08x'`, c))

		if c >= 0x80 && utf8.ValidRune(c) && (unicode.IsPrint(c) || c > 0xffff) {
			out = append(out, "'"+string(c)+"'")
		}
	}

	out = append(out, `'é'`, `'\U0001F600'`, `''`, `'ab'`, `'\400'`, `'\x4'`, `'\u123'`)

	return out
}

var (
	interpAlphabetQuick    = []string{"a", " ", `\n`, `\\`, `\"`, "`", "'", "é", "//", ";"}
	interpAlphabetThorough = []string{"a", " ", `\n`, `\\`, `\"`, "`", "'", "é", "//", ";", `\x41`, "{"}
	rawAlphabetQuick       = []string{"a", " ", "\n", `\`, `"`, "'", "é", "//", ";"}
	rawAlphabetThorough    = []string{"a", " ", "\n", `\`, `"`, "'", "é", "//", ";", "\t", "}"}
)

// escapeStrings places every string escape alone and next to other text.
func escapeStrings() [][]string {
	var (
		escs []string
		out  [][]string
	)

	for _, e := range []string{"a", "b", "f", "n", "r", "t", "v", `\`, `"`, "'", "0", "e"} {
		escs = append(escs, `\`+e)
	}

	for v := 0; v < 512; v++ {
		escs = append(escs, fmt.Sprintf(`\%03o`, v))
	}

	for v := 0; v < 256; v++ {
		escs = append(escs, fmt.Sprintf(`\x%02x`, v), fmt.Sprintf(`\x%02X`, v))
	}

	for c := rune(0); c <= 0xff; c++ {
		escs = append(escs, fmt.Sprintf(`\u%04x`, c), fmt.Sprintf(`\U%08x`, c))
	}

	for _, c := range []rune{0x7ff, 0x800, 0xd7ff, 0xd800, 0xdfff, 0xe000, 0xfffd, 0xffff, 0x10000, 0x1f600, 0x10ffff, 0x110000, 0x20ac} {
		if c <= 0xffff {
			escs = append(escs, fmt.Sprintf(`\u%04X`, c))
		}

		escs = append(escs, fmt.Sprintf(`\U%08X`, c))
	}

	for _, e := range escs {
		out = append(out, []string{e}, []string{"a", e}, []string{e, "a"}, []string{e, e}, []string{e, "0"}, []string{"é", e, " "})
	}

	return out
}

func generate(thorough bool) ([]lit, genStats) {
	st := genStats{bounds: map[string]any{}}

	numLen, strLen, rawLen := 6, 4, 4
	ia, ra := interpAlphabetQuick, rawAlphabetQuick

	if thorough {
		numLen, strLen, rawLen = 7, 5, 5
		ia, ra = interpAlphabetThorough, rawAlphabetThorough
	}

	seen := map[string]bool{}

	var out []lit

	push := func(l lit) {
		if !seen[l.Src] {
			seen[l.Src] = true
			out = append(out, l)
		}
	}

	nums, cands := numbers(numLen)
	st.candidates += cands

	sort.Slice(nums, func(i, j int) bool {
		if len(nums[i].Src) != len(nums[j].Src) {
			return len(nums[i].Src) < len(nums[j].Src)
		}

		return nums[i].Src < nums[j].Src
	})

	for _, l := range nums {
		push(l)
	}

	addSpelling := func(s string) {
		st.candidates++

		if tok, _, ok := goLit(s); ok {
			push(lit{Src: s, Family: family(tok, s), tok: tok})
		}
	}

	for _, s := range boundaryNumbers() {
		addSpelling(s)
	}

	for _, s := range runeSpellings(thorough) {
		addSpelling(s)
	}

	addBody := func(fam string, body []string) {
		l := rebuild(lit{Family: fam}, body)
		st.candidates++

		if tok, _, ok := goLit(l.Src); ok && tok == token.STRING {
			l.tok = tok
			push(l)
		}
	}

	enum.Strings(ia, 0, strLen, func(_ string, idx []int) {
		body := make([]string, len(idx))
		for i, k := range idx {
			body[i] = ia[k]
		}

		addBody("string", body)
	})

	for _, b := range escapeStrings() {
		addBody("string", b)
	}

	enum.Strings(ra, 0, rawLen, func(_ string, idx []int) {
		body := make([]string, len(idx))
		for i, k := range idx {
			body[i] = ra[k]
		}

		addBody("rawstring", body)
	})

	for _, b := range [][]string{{"a", "\r", "b"}, {"\r"}, {"a", "\r", "\n", "b"}, {"a", "\n", "\t", "b"}, {"a", "\n", "\n", " ", "b", "\n"}} {
		addBody("rawstring", b)
	}

	st.bounds = map[string]any{
		"number_alphabet": strings.Join(numAlphabet, " "), "number_max_len": numLen,
		"string_alphabet": ia, "string_max_symbols": strLen,
		"rawstring_alphabet": ra, "rawstring_max_symbols": rawLen,
	}

	st.rule = fmt.Sprintf("every string of length 1..%d over the %d symbols {%s} that go/scanner scans as one INT/FLOAT/IMAG literal, and its upper-case twin; every value around the int8..int64 and float64 limits spelled in decimal, hex, octal (0o and legacy 0), binary with and without `_`; every rune literal: all printable ASCII, every simple escape, every \\ooo and \\xhh, \\u and \\U code points (all below 0x100, every %s code point above, the UTF-8 and surrogate boundaries) and the same runes unescaped; every interpreted string of 0..%d symbols over %q plus every escape sequence alone and next to other text; every raw string of 0..%d symbols over %q plus carriage-return cases",
		numLen, len(numAlphabet), strings.Join(numAlphabet, " "), map[bool]string{false: "251st", true: ""}[thorough], strLen, ia, rawLen, ra)

	byFam := map[string]int{}

	for _, l := range out {
		byFam[l.Family]++

		if byFam[l.Family] == 40 || (l.Family == "rawstring" && byFam[l.Family] == 400) {
			st.samples = append(st.samples, map[string]string{"family": l.Family, "literal": l.Src})
		}
	}

	return out, st
}

// C06: every integer, floating-point, imaginary, string, raw-string and rune
// literal that Go accepts denotes the same value in Ego.
//
// E-enum. The domain is defined by Go itself: a spelling belongs to it iff
// go/scanner scans it, without error, as exactly one literal token; its value
// is go/constant.MakeFromLiteral (converted to the literal's default type).
// Every spelling of the families in gen.go is embedded in one Ego program in
// three expression positions (assigned, negated, call argument, followed by a
// further statement), compiled with the real compiler and run on the real VM
// (extensions off and on); the values found in the symbol table must equal
// Go's. A failing spelling is re-run one position at a time to name the cell.
package main

import (
	"fmt"
	"go/constant"
	"go/token"
	"math"
	"sort"
	"strings"
	"sync"

	"github.com/tucats/ego/internal/language/bytecode"
	"github.com/tucats/ego/internal/language/compiler"
	"github.com/tucats/ego/internal/language/data"
	"github.com/tucats/ego/internal/language/symbols"
	"github.com/tucats/ego/internal/verifrt/enum"
	"github.com/tucats/ego/internal/verifrt/report"
)

// want is Go's meaning of a literal.
type want struct {
	kind string // int | float | complex | string
	i    int64
	f    float64
	s    string
	// minInt: the literal is 2^63; only its negation is representable.
	minInt bool
}

// reference computes Go's value of the literal, or ok=false when the value is
// not representable in the literal's default type (int, float64, complex128),
// in which case `x := <lit>` is not a Go program and nothing is demanded.
func reference(l lit) (want, bool) {
	cv := constant.MakeFromLiteral(l.Src, l.tok, 0)
	if cv.Kind() == constant.Unknown {
		return want{}, false
	}

	switch l.tok {
	case token.INT, token.CHAR:
		if v, exact := constant.Int64Val(cv); exact {
			return want{kind: "int", i: v}, true
		}

		if l.tok == token.INT && constant.Compare(cv, token.EQL, constant.Shift(constant.MakeInt64(1), token.SHL, 63)) {
			return want{kind: "int", minInt: true, i: math.MinInt64}, true
		}

		return want{}, false
	case token.FLOAT:
		f, _ := constant.Float64Val(cv)
		if math.IsInf(f, 0) {
			return want{}, false
		}

		return want{kind: "float", f: f}, true
	case token.IMAG:
		f, _ := constant.Float64Val(constant.Imag(cv))
		if math.IsInf(f, 0) {
			return want{}, false
		}

		return want{kind: "complex", f: f}, true
	case token.STRING:
		return want{kind: "string", s: constant.StringVal(cv)}, true
	}

	return want{}, false
}

func kindOf(v any) string {
	switch v.(type) {
	case int, int8, int16, int32, int64, uint8, uint16, uint32, uint64, uint:
		return "int"
	case float32, float64:
		return "float"
	case complex64, complex128:
		return "complex"
	case string:
		return "string"
	case *data.Array:
		return "array"
	case nil:
		return "nil"
	}

	return strings.NewReplacer("*", "", ".", "-", " ", "").Replace(fmt.Sprintf("%T", v))
}

func unwrap(v any) any {
	for {
		if w, ok := v.(data.Interface); ok {
			v = w.Value

			continue
		}

		return v
	}
}

// judge compares one Ego value with Go's. neg = the literal was negated.
// Outcome "" means equal. Zero signs are not compared (Go folds -0.0 to 0).
func judge(w want, neg bool, got any) string {
	got = unwrap(got)

	if k := kindOf(got); k != w.kind {
		return "kind=" + k
	}

	switch w.kind {
	case "int":
		exp := w.i
		if neg && !w.minInt {
			exp = -exp
		}

		var g int64

		switch x := got.(type) {
		case int:
			g = int64(x)
		case int64:
			g = x
		case int32:
			g = int64(x)
		default:
			g = data.Int64OrZero(got)
		}

		if g != exp {
			return "value"
		}
	case "float":
		exp := w.f
		if neg {
			exp = -exp
		}

		g, ok := got.(float64)
		if !ok {
			g = float64(got.(float32))
		}

		if g != exp {
			return "value"
		}
	case "complex":
		exp := complex(0, w.f)
		if neg {
			exp = -exp
		}

		g, ok := got.(complex128)
		if !ok {
			g = complex128(got.(complex64))
		}

		if g != exp {
			return "value"
		}
	case "string":
		if got.(string) != w.s {
			return "value"
		}
	}

	return ""
}

const idFunc = "func id(a interface{}) interface{} {\n\treturn a\n}\n"

// Contexts. "all" is the program every spelling is judged in; the others
// isolate one position each and are only used to name the cell of a failure.
var contexts = []string{"all", "assign", "neg", "call", "followed"}

func program(l lit, w want, ctx string) string {
	numeric := w.kind != "string"
	L := l.Src

	switch ctx {
	case "assign":
		return "r1 := " + L
	case "neg":
		return "r2 := -" + L
	case "call":
		return idFunc + "r3 := id(" + L + ")"
	case "followed":
		return "r1 := " + L + "\nafter := 7"
	}

	var b strings.Builder

	b.WriteString(idFunc)

	if !w.minInt {
		b.WriteString("r1 := " + L + "\n")
	}

	if numeric {
		b.WriteString("r2 := -" + L + "\n")
	}

	if !w.minInt {
		b.WriteString("r3 := id(" + L + ")\n")
	}

	b.WriteString("after := 7")

	return b.String()
}

// run compiles and executes one program; returns the symbol table or the
// class of rejection.
func run(prog string, ext bool) (s *symbols.SymbolTable, rejected string) {
	defer func() {
		if r := recover(); r != nil {
			s, rejected = nil, "panic"
		}
	}()

	bc, err := compiler.CompileString("c06", prog, ext)
	if err != nil {
		return nil, "rejected"
	}

	s = symbols.NewRootSymbolTable("c06")
	if err := bytecode.NewContext(s, bc).Run(); err != nil && err.Error() != "stop" {
		return nil, "rejected"
	}

	return s, ""
}

// evalCtx returns the outcome ("" = agrees with Go) of literal l in context
// ctx, and the number of embedded positions that were judged.
func evalCtx(l lit, w want, ctx string, ext bool) (string, int) {
	s, rej := run(program(l, w, ctx), ext)
	if rej != "" {
		return rej, 1
	}

	type pos struct {
		name string
		neg  bool
	}

	var ps []pos

	switch ctx {
	case "assign":
		ps = []pos{{"r1", false}}
	case "neg":
		ps = []pos{{"r2", true}}
	case "call":
		ps = []pos{{"r3", false}}
	case "followed":
		ps = []pos{{"r1", false}, {"after", false}}
	default:
		if !w.minInt {
			ps = append(ps, pos{"r1", false}, pos{"r3", false})
		}

		if w.kind != "string" {
			ps = append(ps, pos{"r2", true})
		}

		ps = append(ps, pos{"after", false})
	}

	for _, p := range ps {
		v, ok := s.Get(p.name)
		if !ok {
			return "rejected", len(ps)
		}

		if p.name == "after" {
			if x, isInt := unwrap(v).(int); !isInt || x != 7 {
				return "next-statement-lost", len(ps)
			}

			continue
		}

		if o := judge(w, p.neg, v); o != "" {
			return o, len(ps)
		}
	}

	return "", len(ps)
}

// failure describes how a spelling fails under one extension setting.
type failure struct {
	outcome string
	ctx     string // "" = already fails when simply assigned
}

// classify evaluates the spelling in the main program and, when that
// disagrees with Go, in each single position to find the first one that fails.
func classify(l lit, w want, ext bool) (*failure, int) {
	o, n := evalCtx(l, w, "all", ext)
	if o == "" {
		return nil, n
	}

	order := []string{"assign", "neg", "call", "followed"}
	if w.minInt {
		order = []string{"neg"}
	}

	for _, c := range order {
		if c == "neg" && w.kind == "string" {
			continue
		}

		oc, k := evalCtx(l, w, c, ext)
		n += k

		if oc != "" {
			if c == "assign" || w.minInt {
				c = ""
			}

			return &failure{outcome: oc, ctx: c}, n
		}
	}

	return &failure{outcome: o, ctx: "combined"}, n
}

type witness struct {
	Src     string `json:"literal"`
	Family  string `json:"family"`
	Ext     string `json:"extensions"`
	Ctx     string `json:"context"`
	Program string `json:"program"`
	Go      string `json:"go_value"`
	Ego     string `json:"ego_result"`
}

func describe(w want) string {
	switch w.kind {
	case "int":
		if w.minInt {
			return "int 9223372036854775808 (as -lit: -9223372036854775808)"
		}

		return fmt.Sprintf("int %d", w.i)
	case "float":
		return fmt.Sprintf("float64 %v", w.f)
	case "complex":
		return fmt.Sprintf("complex128 %v", complex(0, w.f))
	}

	return fmt.Sprintf("string %q", w.s)
}

// egoShows renders what Ego made of the literal in the failing context.
func egoShows(l lit, w want, ctx string, ext bool) (string, string) {
	if ctx == "" {
		ctx = "assign"
		if w.minInt {
			ctx = "neg"
		}
	}

	if ctx == "combined" {
		ctx = "all"
	}

	prog := program(l, w, ctx)

	defer func() { _ = recover() }()

	bc, err := compiler.CompileString("c06", prog, ext)
	if err != nil {
		return prog, "compile error: " + err.Error()
	}

	s := symbols.NewRootSymbolTable("c06")
	if err := bytecode.NewContext(s, bc).Run(); err != nil && err.Error() != "stop" {
		return prog, "runtime error: " + err.Error()
	}

	var parts []string

	for _, n := range []string{"r1", "r2", "r3", "after"} {
		if v, ok := s.Get(n); ok {
			v = unwrap(v)
			if a, isArr := v.(*data.Array); isArr {
				parts = append(parts, fmt.Sprintf("%s=array%v", n, a.BaseArray()))
			} else {
				parts = append(parts, fmt.Sprintf("%s=%T %#v", n, v, v))
			}
		}
	}

	return prog, strings.Join(parts, "; ")
}

type found struct {
	cell string
	size int
	w    witness
	msg  string
}

// check judges one spelling under both extension settings and returns the
// violations (at most two) and the number of judged positions.
func check(l lit) ([]found, int, bool) {
	w, ok := reference(l)
	if !ok {
		return nil, 0, false
	}

	var (
		out   []found
		evals int
		fails [2]*failure
	)

	for i, ext := range []bool{false, true} {
		f, n := classify(l, w, ext)
		evals += n
		fails[i] = f
	}

	if fails[0] == nil && fails[1] == nil {
		return nil, evals, true
	}

	// For string families the body is shrunk first so that the cell names the
	// features that matter, not everything the witness happens to contain.
	emit := func(f *failure, ext bool, extTag string) {
		cl := l
		if l.body != nil {
			cl = shrink(l, *f, ext)
		} else if l.Family != "rune" {
			cl = simplifyNumber(l, *f, ext)
		}

		cw, _ := reference(cl)
		cell := cl.Family + ":" + strings.Join(features(cl, cw), "+") + ":" + f.outcome

		if f.ctx != "" {
			cell += ":ctx=" + f.ctx
		}

		if extTag != "" {
			cell += ":ext=" + extTag
		}

		prog, shows := egoShows(cl, cw, f.ctx, ext)
		extName := map[bool]string{false: "off", true: "on"}[ext]

		if extTag == "" {
			extName = "off and on"
		}

		out = append(out, found{
			cell: cell, size: len(cl.Src),
			w:   witness{Src: cl.Src, Family: cl.Family, Ext: extName, Ctx: f.ctx, Program: prog, Go: describe(cw), Ego: shows},
			msg: fmt.Sprintf("Go: %s = %s; Ego: %s", cl.Src, describe(cw), shows),
		})
	}

	switch {
	case fails[0] != nil && fails[1] != nil && *fails[0] == *fails[1]:
		emit(fails[0], true, "")
	default:
		if fails[0] != nil {
			emit(fails[0], false, "off")
		}

		if fails[1] != nil {
			emit(fails[1], true, "on")
		}
	}

	return out, evals, true
}

// simplifyNumber replaces a failing number spelling by a simpler spelling of
// the same value that fails in exactly the same way, if there is one: first
// its lower-case twin, then the spelling without digit separators. What is
// left in the spelling is then needed for the failure, so the cell names a
// cause and not an accident of the witness.
func simplifyNumber(l lit, f failure, ext bool) lit {
	cur := l

	for _, cand := range []func(string) string{lowerTwin, func(s string) string { return strings.ReplaceAll(s, "_", "") }} {
		s := cand(cur.Src)
		if s == cur.Src {
			continue
		}

		tok, _, ok := goLit(s)
		if !ok || tok != cur.tok {
			continue
		}

		c := lit{Src: s, Family: cur.Family, tok: tok}

		w, ok := reference(c)
		if !ok {
			continue
		}

		if g, _ := classify(c, w, ext); g != nil && *g == f {
			cur = c
		}
	}

	return cur
}

// shrink removes body symbols one at a time while the spelling keeps failing
// in the same way (greedy, leftmost first, to a fixpoint): deterministic.
func shrink(l lit, f failure, ext bool) lit {
	cur := l

	for changed := true; changed; {
		changed = false

		for i := 0; i < len(cur.body); i++ {
			nb := append(append([]string{}, cur.body[:i]...), cur.body[i+1:]...)
			cand := rebuild(cur, nb)

			if _, _, ok := goLit(cand.Src); !ok {
				continue
			}

			cand.tok = cur.tok

			w, ok := reference(cand)
			if !ok {
				continue
			}

			g, _ := classify(cand, w, ext)
			if g != nil && *g == f {
				cur, changed = cand, true

				break
			}
		}
	}

	return cur
}

func main() {
	r := report.New("exploration")

	lits, stats := generate(r.Thorough())

	r.Rule(stats.rule + "; distinct non-trivial = a spelling that is not a bare decimal digit string below 2^31 / not a single unescaped ASCII rune / not an escape-free single-line ASCII string; every spelling is judged in the positions `x := L`, `x := -L` (numbers, runes), `x := id(L)` and followed by another statement, with language extensions off and on")
	r.Assume("go/scanner defines which spellings are Go literals; go/constant.MakeFromLiteral defines their value (converted to the default type int / float64 / complex128 / rune / string; literals not representable there are skipped, except 2^63 which is judged as -9223372036854775808)",
		"Ego is driven in-process through compiler.CompileString and bytecode.Context.Run with a fresh compiler and symbol table per program (the path `ego run` uses), not through a CLI subprocess",
		"int vs int64 vs rune width is not compared (Ego picks int or int64 by magnitude); the sign of a zero is not compared")

	if r.Replay != "" {
		var w witness
		if err := report.LoadReplay(r.Replay, &w); err != nil {
			report.Fatal("%v", err)
		}

		l, ok := lookup(lits, w.Src)
		if !ok {
			tok, _, good := goLit(w.Src)
			if !good {
				report.Fatal("replay literal %q is not a Go literal", w.Src)
			}

			l = lit{Src: w.Src, Family: w.Family, tok: tok}
		}

		fs, n, _ := check(l)
		for _, f := range fs {
			r.Violation(f.cell, f.size, f.w, f.msg)
		}

		r.Eval(n)
		r.Distinct(l.Src)
		r.Distinct("replay")
		r.Sample(w)
		r.Finish()
	}

	var (
		mu      sync.Mutex
		cells   = map[string]*found{}
		counts  = map[string]int{}
		failing []lit
		skipped int64
		perFam  = map[string]int64{}
	)

	enum.Par(len(lits), func(i int) {
		l := lits[i]

		fs, n, ok := check(l)
		if !ok {
			mu.Lock()
			skipped++
			mu.Unlock()

			return
		}

		r.Eval(n)

		if nontrivial(l) {
			r.Distinct(l.Src)
		}

		mu.Lock()
		perFam[l.Family]++

		if len(fs) > 0 {
			failing = append(failing, l)
		}

		for k := range fs {
			f := fs[k]
			counts[f.cell]++

			if c := cells[f.cell]; c == nil || f.size < c.size || (f.size == c.size && f.w.Src < c.w.Src) {
				cells[f.cell] = &f
			}
		}
		mu.Unlock()
	})

	// Determinism gate: every failing spelling is judged again, sequentially,
	// and must fail in exactly the same cells. A difference is a harness
	// problem (shared state, scheduling), never a verdict.
	sort.Slice(failing, func(i, j int) bool { return failing[i].Src < failing[j].Src })

	recount := map[string]int{}

	for _, l := range failing {
		fs, _, _ := check(l)
		for _, f := range fs {
			recount[f.cell]++
		}
	}

	for c, n := range counts {
		if recount[c] != n {
			report.Fatal("non-deterministic outcome in cell %s: parallel pass %d, sequential pass %d", c, n, recount[c])
		}
	}

	for c, f := range cells {
		for k := 0; k < counts[c]; k++ {
			r.Violation(c, f.size, f.w, f.msg)
		}
	}

	for _, s := range stats.samples {
		r.Sample(s)
	}

	for f, n := range perFam {
		r.Set("spellings_"+f, n)
	}

	r.Set("spellings", len(lits))
	r.Set("spellings_not_representable_skipped", skipped)
	r.Set("spellings_disagreeing", len(failing))
	r.Set("candidate_strings_scanned", stats.candidates)
	r.Set("bounds", stats.bounds)
	r.Finish()
}

package main

import (
	"crypto/sha256"
	"database/sql"
	"encoding/hex"
	"fmt"
	"os"
	"path/filepath"
	"regexp"
	"sort"
	"strings"
	"syscall"
	"time"

	_ "modernc.org/sqlite"
)

// The scratch world. Everything a generated program can name lives under W:
//
//	W/sandbox        the sandbox root (also the process's working directory)
//	W/outside        files a sandboxed program must not reach
//	W/sandbox-evil   a sibling whose name has the root's name as a prefix
//	W/TOP_<name canary>
//
// W itself sits three directories below the worker's scratch directory and no
// generated spelling climbs more than one level above the sandbox root, so a
// sandbox that does not confine anything can only ever touch W.
const (
	contentCanary = "C26-CONTENT-CANARY-q8Zx"
	nameCanary    = "NMCANARY_k3v9"
	insideMarker  = "C26-INSIDE-OK-w2Lm"
	sizeCanary    = 48611 // size in bytes of outside/secret.txt
)

// modification time of everything outside the sandbox
var outsideTime = time.Date(2001, 2, 3, 4, 5, 6, 0, time.UTC)

// modification time of everything inside it
var insideTime = time.Date(2002, 3, 4, 5, 6, 7, 0, time.UTC)

var timeCanaries = []string{"2001-02-03", "03 Feb 2001", "Feb  3 04:05", "Feb 3, 2001", "981173106"}

var sizeRE = regexp.MustCompile(`(^|[^0-9])` + fmt.Sprint(sizeCanary) + `([^0-9]|$)`)

// the SQLite database with a canary row, built once
var canaryDB []byte

func makeCanaryDB(dir string) {
	p := filepath.Join(dir, "canary-template.db")

	db, err := sql.Open("sqlite", p)
	if err != nil {
		fatal("canary db: %v", err)
	}

	for _, q := range []string{
		"create table verif_canary(v text)",
		"insert into verif_canary values('" + contentCanary + "')",
	} {
		if _, err := db.Exec(q); err != nil {
			fatal("canary db: %v", err)
		}
	}

	_ = db.Close()

	canaryDB, err = os.ReadFile(p)
	if err != nil || len(canaryDB) == 0 {
		fatal("canary db: %v", err)
	}

	_ = os.Remove(p)
}

func secretText() []byte {
	head := `{"k":"` + contentCanary + `","pad":"`
	tail := "\"}\n"

	return []byte(head + strings.Repeat("x", sizeCanary-len(head)-len(tail)) + tail)
}

type link struct{ name, target string }

// every kind of symbolic link the sandbox holds (targets: ${W} is the world)
var links = []link{
	{"lnfile", "${W}/outside/secret.txt"},
	{"lndir", "../outside"},
	{"up", ".."},
	{"a", "b"},
	{"b", "${W}/outside"},
	{"in/deep", "../../outside"},
	{"dangle", "${W}/outside/new.txt"},
	{"dangle2", "../outside/new2.txt"},
	{"dangledir", "${W}/outside/newdir"},
	{"lnevil", "${W}/sandbox-evil"},
}

// buildWorld (re)creates the world at w. withLinks=false leaves the sandbox
// free of symbolic links.
func buildWorld(w string, withLinks bool) {
	_ = os.RemoveAll(w)

	must := func(err error) {
		if err != nil {
			fatal("world %s: %v", w, err)
		}
	}

	for _, d := range []string{"sandbox/in", "outside/sub", "sandbox-evil"} {
		must(os.MkdirAll(filepath.Join(w, d), 0o755))
	}

	files := map[string][]byte{
		"sandbox/in.txt":                           []byte(insideMarker + "\n"),
		"sandbox/in/inner.txt":                     []byte("inner\n"),
		"outside/secret.txt":                       secretText(),
		"outside/secret.db":                        canaryDB,
		"outside/" + nameCanary + ".dat":           []byte("n\n"),
		"outside/sub/" + nameCanary + "_sub.dat":   []byte("n\n"),
		"sandbox-evil/secret.txt":                  secretText(),
		"sandbox-evil/" + nameCanary + "_evil.dat": []byte("n\n"),
		"TOP_" + nameCanary + ".dat":               []byte("n\n"),
	}

	for name, b := range files {
		must(os.WriteFile(filepath.Join(w, name), b, 0o644))
	}

	if withLinks {
		for _, l := range links {
			must(os.Symlink(strings.ReplaceAll(l.target, "${W}", w), filepath.Join(w, "sandbox", l.name)))
		}
	}

	// fixed modification times, deepest first (creating entries touched the directories)
	var all []string

	_ = filepath.Walk(w, func(p string, info os.FileInfo, err error) error {
		if err == nil && info.Mode()&os.ModeSymlink == 0 {
			all = append(all, p)
		}

		return nil
	})

	sort.Sort(sort.Reverse(sort.StringSlice(all)))

	sb := filepath.Join(w, "sandbox")

	for _, p := range all {
		t := outsideTime
		if p == sb || strings.HasPrefix(p, sb+"/") {
			t = insideTime
		}

		must(os.Chtimes(p, t, t))
	}
}

type entry struct {
	Kind  string // file dir link other
	Mode  uint32
	UID   uint32
	GID   uint32
	Size  int64
	Mtime int64
	Hash  string
	Link  string
}

func (e entry) String() string {
	return fmt.Sprintf("%s mode=%o uid=%d gid=%d size=%d mtime=%d hash=%.12s link=%s", e.Kind, e.Mode, e.UID, e.GID, e.Size, e.Mtime, e.Hash, e.Link)
}

// snapshot records every entry of the world; inside=false skips the sandbox
// subtree (the sandbox directory's own entry included: creating a file in the
// root changes it legitimately).
func snapshot(w string, inside bool) map[string]entry {
	out := map[string]entry{}
	sb := filepath.Join(w, "sandbox")

	_ = filepath.Walk(w, func(p string, info os.FileInfo, err error) error {
		if err != nil {
			return nil
		}

		if !inside && p == sb {
			return filepath.SkipDir
		}

		rel, _ := filepath.Rel(w, p)
		e := entry{Mode: uint32(info.Mode().Perm()), Mtime: info.ModTime().UnixNano()}

		if st, ok := info.Sys().(*syscall.Stat_t); ok {
			e.UID, e.GID = st.Uid, st.Gid
		}

		switch {
		case info.Mode()&os.ModeSymlink != 0:
			e.Kind = "link"
			e.Link, _ = os.Readlink(p)
			e.Mtime = 0
		case info.IsDir():
			e.Kind = "dir"
		case info.Mode().IsRegular():
			e.Kind = "file"
			e.Size = info.Size()

			if b, err := os.ReadFile(p); err == nil {
				h := sha256.Sum256(b)
				e.Hash = hex.EncodeToString(h[:])
			} else {
				e.Hash = "unreadable:" + err.Error()
			}
		default:
			e.Kind = "other"
		}

		out[rel] = e

		return nil
	})

	return out
}

func sameSnapshot(a, b map[string]entry) bool {
	if len(a) != len(b) {
		return false
	}

	for k, v := range a {
		if w, ok := b[k]; !ok || v != w {
			return false
		}
	}

	return true
}

// effect names one way a program reached outside the sandbox.
type effect struct {
	Kind   string // created deleted modified metadata read list stat
	Detail string
}

// diffOutside compares the outside part of the world with what it was.
func diffOutside(before, after map[string]entry) []effect {
	var out []effect

	names := map[string]bool{}
	for k := range before {
		names[k] = true
	}

	for k := range after {
		names[k] = true
	}

	keys := make([]string, 0, len(names))
	for k := range names {
		keys = append(keys, k)
	}

	sort.Strings(keys)

	for _, k := range keys {
		b, inB := before[k]
		a, inA := after[k]

		switch {
		case !inB:
			out = append(out, effect{"created", k + " (" + a.Kind + ")"})
		case !inA:
			out = append(out, effect{"deleted", k + " (" + b.Kind + ")"})
		case a.Kind != b.Kind || a.Hash != b.Hash || a.Size != b.Size || a.Link != b.Link:
			out = append(out, effect{"modified", fmt.Sprintf("%s: %v -> %v", k, b, a)})
		case a != b:
			out = append(out, effect{"metadata", fmt.Sprintf("%s: %v -> %v", k, b, a)})
		}
	}

	return out
}

// scanOutput looks for what only a file outside the sandbox could have told
// the program.
func scanOutput(out string) []effect {
	var eff []effect

	if strings.Contains(out, contentCanary) {
		eff = append(eff, effect{"read", "the output holds the content canary of a file outside the root"})
	}

	if strings.Contains(out, nameCanary) {
		eff = append(eff, effect{"list", "the output holds the name of an entry outside the root that the program never spelled"})
	}

	if sizeRE.MatchString(out) {
		eff = append(eff, effect{"stat", fmt.Sprintf("the output holds the size (%d) of a file outside the root", sizeCanary)})
	} else {
		for _, t := range timeCanaries {
			if strings.Contains(out, t) {
				eff = append(eff, effect{"stat", "the output holds the modification time (" + t + ") of an entry outside the root"})

				break
			}
		}
	}

	return eff
}

func fatal(f string, a ...any) {
	fmt.Fprintf(os.Stderr, "HARNESS-ERROR: "+f+"\n", a...)
	os.Exit(2)
}

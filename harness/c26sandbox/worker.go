package main

import (
	"bufio"
	"bytes"
	"encoding/json"
	"fmt"
	"net/http"
	"net/http/httptest"
	"os"
	"os/exec"
	"path/filepath"
	"runtime/debug"
	"strings"
	"sync/atomic"
	"syscall"
	"time"

	"github.com/tucats/ego/internal/cli/app"
	"github.com/tucats/ego/internal/cli/settings"
	"github.com/tucats/ego/internal/commands"
	"github.com/tucats/ego/internal/defs"
	"github.com/tucats/ego/internal/grammar/class"
	"github.com/tucats/ego/internal/router"
	"github.com/tucats/ego/internal/server/admin"
)

// A worker process serves jobs of one mode:
//
//	run      main.go's app.New(...).Run(grammar, args) with
//	         `--set ego.runtime.sandbox.path=<root> run --sandbox true <file>`
//	handler  admin.RunCodeHandler (POST /admin/run) for a session that is not
//	         an administrator, with ego.runtime.sandbox.path set as the server does
//
// Jobs arrive on fd 3, answers leave on fd 4; stdin is /dev/null. Before each
// job the working directory and the environment are put back, so that a
// program that changed them does not change the next case.
type job struct {
	Mode    string `json:"mode"`
	Prog    string `json:"prog"`    // program text
	File    string `json:"file"`    // where to write it (run mode)
	Root    string `json:"root"`    // sandbox root
	Out     string `json:"out"`     // receives everything the case printed
	Sandbox bool   `json:"sandbox"` // false only for the harness's self-test
}

type jobResult struct {
	Err string `json:"err"`
}

func workerMain() {
	debug.SetMaxStack(64 << 20)

	in := os.NewFile(3, "jobs")
	out := os.NewFile(4, "answers")

	if in == nil || out == nil {
		os.Exit(4)
	}

	env := os.Environ()
	enc := json.NewEncoder(out)
	sc := bufio.NewScanner(in)
	sc.Buffer(make([]byte, 1<<16), 1<<22)

	session := 0

	for sc.Scan() {
		var j job
		if err := json.Unmarshal(sc.Bytes(), &j); err != nil {
			os.Exit(4)
		}

		os.Clearenv()

		for _, e := range env {
			if k, v, ok := strings.Cut(e, "="); ok {
				_ = os.Setenv(k, v)
			}
		}

		if err := os.Chdir(j.Root); err != nil {
			os.Exit(4)
		}

		f, err := os.Create(j.Out)
		if err != nil {
			os.Exit(4)
		}

		so, _ := syscall.Dup(1)
		se, _ := syscall.Dup(2)
		_ = syscall.Dup2(int(f.Fd()), 1)
		_ = syscall.Dup2(int(f.Fd()), 2)

		var res jobResult

		switch j.Mode {
		case "run":
			if err := os.WriteFile(j.File, []byte(j.Prog), 0o644); err != nil {
				os.Exit(4)
			}

			a := app.New("ego: verif batch").SetVersion(1, 0, 0).SetCopyright("-").SetDefaultAction(commands.RunAction).SetProfileDirectory(".ego")
			sb := "true"

			if !j.Sandbox {
				sb = "false"
			}

			if rerr := a.Run(class.MainGrammar, []string{"ego", "--set", defs.SandboxPathSetting + "=" + j.Root, "--set", defs.ExtensionsEnabledSetting + "=true", "run", "--sandbox", sb, j.File}); rerr != nil {
				res.Err = rerr.Error()
			}

		case "handler":
			session++

			settings.SetDefault(defs.SandboxPathSetting, j.Root)

			body := serveRun(session, j.Prog, !j.Sandbox)
			_, _ = f.Write(body)
		}

		_ = syscall.Dup2(so, 1)
		_ = syscall.Dup2(se, 2)
		_ = syscall.Close(so)
		_ = syscall.Close(se)
		_ = f.Close()

		if err := enc.Encode(res); err != nil {
			os.Exit(4)
		}
	}
}

const sessionUUID = "6f1c2a44-9b1e-4c55-8d20-0c26c26c26c2"

// serveRun posts the program to the real handler of POST /admin/run. The
// dashboard runs top-level statements, so main is called at the end.
func serveRun(id int, prog string, admin_ bool) []byte {
	post := func(req map[string]any) []byte {
		b, _ := json.Marshal(req)
		r := httptest.NewRequest(http.MethodPost, "/admin/run", bytes.NewReader(b))
		w := httptest.NewRecorder()
		s := &router.Session{ID: id, User: "mallory", Admin: admin_, Authenticated: true, Path: "/admin/run", URLParts: map[string]any{}}

		status := admin.RunCodeHandler(s, w, r)

		return append([]byte(fmt.Sprintf("HTTP %d\n", status)), w.Body.Bytes()...)
	}

	code := prog + "\nmain()\n"

	return post(map[string]any{"code": code, "session": sessionUUID})
}

// ---------------------------------------------------------------- pool side

type worker struct {
	id    int
	mode  string
	dir   string // scratch of this worker
	world string // its world W
	cmd   *exec.Cmd
	jobs  *os.File
	ans   *bufio.Scanner
	ansF  *os.File
	seq   int
}

var deaths atomic.Int64

func startWorker(scratch string, id int, mode string) *worker {
	w := &worker{id: id, mode: mode, dir: filepath.Join(scratch, fmt.Sprintf("%s%d", mode, id))}
	w.world = filepath.Join(w.dir, "p", "q", "W")

	if err := os.MkdirAll(filepath.Join(w.dir, "home"), 0o755); err != nil {
		fatal("%v", err)
	}

	if err := os.MkdirAll(filepath.Dir(w.world), 0o755); err != nil {
		fatal("%v", err)
	}

	w.spawn()

	return w
}

func (w *worker) spawn() {
	jr, jw, err := os.Pipe()
	if err != nil {
		fatal("%v", err)
	}

	ar, aw, err := os.Pipe()
	if err != nil {
		fatal("%v", err)
	}

	cmd := exec.Command(os.Args[0], "worker")
	cmd.Env = append(os.Environ(), "HOME="+filepath.Join(w.dir, "home"), "GOMAXPROCS=2")
	cmd.Dir = w.dir
	cmd.Stdout = os.Stderr
	cmd.Stderr = os.Stderr
	cmd.ExtraFiles = []*os.File{jr, aw}

	if err := cmd.Start(); err != nil {
		fatal("cannot start a worker: %v", err)
	}

	_ = jr.Close()
	_ = aw.Close()

	sc := bufio.NewScanner(ar)
	sc.Buffer(make([]byte, 1<<16), 1<<20)

	w.cmd, w.jobs, w.ans, w.ansF = cmd, jw, sc, ar
}

func (w *worker) stop() {
	_ = w.jobs.Close()
	_ = w.cmd.Process.Kill()
	_, _ = w.cmd.Process.Wait()
	_ = w.ansF.Close()
}

type outcome struct {
	Out  string
	Err  string
	Died bool
}

// watchdog of one job: a safety net, never a verdict
const jobWatchdog = 240 * time.Second

func (w *worker) run(prog string, sandbox bool) outcome {
	w.seq++

	j := job{Mode: w.mode, Prog: prog, File: filepath.Join(w.dir, "case.ego"), Root: filepath.Join(w.world, "sandbox"), Out: filepath.Join(w.dir, "case.out"), Sandbox: sandbox}
	b, _ := json.Marshal(j)

	type answer struct {
		res jobResult
		ok  bool
	}

	ch := make(chan answer, 1)

	go func(sc *bufio.Scanner, jobs *os.File) {
		if _, err := jobs.Write(append(b, '\n')); err == nil && sc.Scan() {
			var r jobResult
			if json.Unmarshal(sc.Bytes(), &r) == nil {
				ch <- answer{r, true}

				return
			}
		}

		ch <- answer{}
	}(w.ans, w.jobs)

	var a answer

	select {
	case a = <-ch:
	case <-time.After(jobWatchdog):
	}

	ob, _ := os.ReadFile(j.Out)
	if len(ob) > 1<<20 {
		ob = ob[:1<<20]
	}

	if !a.ok {
		w.stop()
		deaths.Add(1)
		w.spawn()

		return outcome{Out: string(ob), Died: true}
	}

	return outcome{Out: string(ob), Err: a.res.Err}
}

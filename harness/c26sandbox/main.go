// C26: with sandboxing enabled no Ego program can read, create, modify, list,
// stat or delete anything outside the sandbox root, through any runtime
// function, for any spelling of the path and any arrangement of symbolic links
// inside the sandbox.
//
// E-enum over the whole runtime surface: the harness walks the package objects
// of every directory under internal/runtime (functions and receiver functions
// with their declared parameters), and for every function x every string
// parameter x every path spelling (absolute, "..", nested "..", repeated
// separators, through the root, a sibling that has the root's name as prefix,
// and through each kind of symbolic link placed inside the sandbox) it
// generates an Ego program that makes exactly that call, prints everything the
// call returns and, when the call returns a handle (file, database), calls each
// of the handle's methods and prints those results too. Each program runs alone
// in a scratch world W/{sandbox,outside,sandbox-evil}, as `ego run --sandbox
// true` and through the handler of POST /admin/run for a non-administrator.
// Oracle: afterwards everything in W outside W/sandbox is byte- and
// metadata-identical, and the output holds no canary that only a file outside
// the root could have supplied (content, name never spelled, size, time).
package main

import (
	"fmt"
	"os"
	"os/exec"
	"path/filepath"
	"runtime"
	"sort"
	"strconv"
	"strings"
	"sync"
	"time"

	"github.com/tucats/ego/internal/verifrt/report"
)

// spelling is one way to name something outside the sandbox root. ${W} is the
// world directory, ${S} the sandbox root (= ${W}/sandbox = working directory).
type spelling struct {
	Class string // root-cause class of the spelling
	Path  string
	Links bool // needs the world with symbolic links
	Quick bool // part of the quick tier
}

func dbl(s string) string { return strings.ReplaceAll(s, "/", "//") }

func spellings() []spelling {
	var out []spelling

	// targets outside the root, relative to W
	type tgt struct {
		rel   string
		quick map[string]bool
	}

	q := func(classes ...string) map[string]bool {
		m := map[string]bool{}
		for _, c := range classes {
			m[c] = true
		}

		return m
	}

	targets := []tgt{
		{"outside/secret.txt", q("abs", "dotdot", "nested-dotdot", "separators", "abs-through-root")},
		{"outside/sub", q("dotdot")},
		{"outside/new.txt", q("abs", "dotdot")},
		{"outside/secret.db", q("abs")},
		{"outside", q()},
		{"sandbox-evil/new.txt", q()},
		{"sandbox-evil", q()},
	}

	for _, t := range targets {
		forms := []spelling{
			{Class: "abs", Path: "${W}/" + t.rel},
			{Class: "dotdot", Path: "../" + t.rel},
			{Class: "nested-dotdot", Path: "in/../../" + t.rel},
			{Class: "separators", Path: "..//" + dbl(t.rel)},
			{Class: "abs-through-root", Path: "${S}/../" + t.rel},
			{Class: "abs-separators", Path: "${W}//" + dbl(t.rel)},
			{Class: "dot-dotdot", Path: "./../" + t.rel},
			{Class: "trailing-dot", Path: "../" + t.rel + "/."},
			{Class: "trailing-separator", Path: "../" + t.rel + "/"},
			{Class: "missing-then-dotdot", Path: "nosuch/../../" + t.rel},
		}

		for _, f := range forms {
			f.Quick = t.quick[f.Class]
			out = append(out, f)
		}
	}

	// the parent of the root itself
	for i, p := range []string{"..", "${W}", "../", "in/../..", "${S}/.."} {
		c := "dotdot"
		if strings.HasPrefix(p, "${") {
			c = "abs"
		}

		out = append(out, spelling{Class: c, Path: p, Quick: i < 1})
	}

	// the sibling whose name starts with the root's name
	out = append(out,
		spelling{Class: "prefix-sibling", Path: "${S}-evil/secret.txt", Quick: true},
		spelling{Class: "prefix-sibling", Path: "${S}-evil/new.txt"},
		spelling{Class: "prefix-sibling", Path: "${S}-evil"},
		spelling{Class: "prefix-sibling", Path: "${S}-evil/" + "sub/../secret.txt"},
	)

	// through each kind of symbolic link inside the sandbox
	ln := func(class string, quick int, paths ...string) {
		for i, p := range paths {
			out = append(out, spelling{Class: class, Path: p, Links: true, Quick: i < quick})
		}
	}

	ln("link-file-abs", 1, "lnfile", "./lnfile", "in/../lnfile")
	ln("link-dir-rel", 2, "lndir/secret.txt", "lndir/new.txt", "lndir/sub", "lndir", "lndir/secret.db", "lndir//secret.txt", "lndir/./secret.txt")
	ln("link-parent", 1, "up/outside/secret.txt", "up/outside/new.txt", "up/outside/sub", "up", "up/sandbox-evil/secret.txt")
	ln("link-chain", 1, "a/secret.txt", "a/new.txt", "a/sub", "a")
	ln("link-nested", 1, "in/deep/secret.txt", "in/deep/new.txt", "in/deep/sub")
	ln("link-dangling-file", 1, "dangle", "dangle2", "./dangle", "${S}/dangle", "dangledir")
	ln("link-dangling-dir", 1, "dangledir/x.txt", "dangledir/sub/x.txt")
	ln("link-prefix-sibling", 1, "lnevil/secret.txt", "lnevil/new.txt", "lnevil")
	ln("link-then-dotdot", 1, "lndir/sub/../secret.txt", "in/deep/../outside/secret.txt", "lndir/../outside/secret.txt", "a/sub/../new.txt")
	ln("link-abs-spelling", 2, "${S}/lndir/secret.txt", "${S}/lndir/new.txt", "${S}/lnfile", "${S}/in/deep/secret.txt", "${S}/up/outside/secret.txt")

	return out
}

// kase is one generated call.
type kase struct {
	Fn      string `json:"function"`
	Param   string `json:"parameter"`
	Pos     int    `json:"position"`
	Variant int    `json:"variant"`
	Class   string `json:"spelling_class"`
	Path    string `json:"path"`
	Links   bool   `json:"symlinks_in_sandbox"`
	Mode    string `json:"mode"` // run handler debug
	Prog    string `json:"program"`

	c callable
}

func (k kase) key() string {
	return fmt.Sprintf("%s#%d#%d|%s|%s", k.Fn, k.Pos, k.Variant, k.Path, k.Mode)
}

type witness struct {
	kase
	Effects   []string `json:"effects"`
	Output    string   `json:"output_excerpt"`
	Confirmed string   `json:"confirmed"`
}

type result struct {
	k       kase
	effects []effect
	out     string
	died    bool
	begin   bool
	reached bool
}

var effectOrder = []string{"read", "list", "stat", "created", "deleted", "modified", "metadata"}

func primary(eff []effect) string {
	for _, o := range effectOrder {
		for _, e := range eff {
			if e.Kind == o {
				return o
			}
		}
	}

	return "none"
}

func subst(s, w string) string {
	s = strings.ReplaceAll(s, "${S}", filepath.Join(w, "sandbox"))

	return strings.ReplaceAll(s, "${W}", w)
}

// runCase executes one case on a worker (whose world it rebuilds first) and
// judges it.
func runCase(w *worker, pristine map[bool]map[string]entry, full map[bool]map[string]entry, k kase, sandbox bool) result {
	// rebuild only when the previous case left a trace anywhere in the world
	if cur := snapshot(w.world, true); !sameSnapshot(cur, full[k.Links]) {
		buildWorld(w.world, k.Links)

		if cur = snapshot(w.world, true); !sameSnapshot(cur, full[k.Links]) {
			fatal("the rebuilt world differs from the pristine one")
		}
	}

	o := w.run(subst(k.Prog, w.world), sandbox)

	res := result{k: k, out: o.Out, died: o.Died}
	res.begin = strings.Contains(o.Out, "BEGIN")
	res.reached = strings.Contains(o.Out, "R ") || strings.Contains(o.Out, "ERR")
	res.effects = append(scanOutput(o.Out), diffOutside(pristine[k.Links], snapshot(w.world, false))...)

	return res
}

func excerpt(s string) string {
	s = strings.ReplaceAll(s, strings.Repeat("x", 64), "")
	if len(s) > 700 {
		s = s[:700] + "..."
	}

	return s
}

func main() {
	if len(os.Args) > 1 && os.Args[1] == "worker" {
		workerMain()

		return
	}

	start := time.Now()
	r := report.New("exploration")
	scratch := filepath.Join(os.Getenv("VERIF_SCRATCH"), "W")

	if os.Getenv("VERIF_SCRATCH") == "" {
		fatal("VERIF_SCRATCH is not set")
	}

	_ = os.MkdirAll(scratch, 0o755)
	makeCanaryDB(scratch)

	// ---- the surface
	s := enumerate(os.Getenv("VERIF_REPO"))
	s.addLibrary(os.Getenv("VERIF_REPO"))

	type fp struct {
		c        callable
		pos      int
		variants int
	}

	var pairs []fp

	nString, nExcluded := 0, 0
	exclNames := []string{}

	for _, c := range s.all {
		d := c.F.Declaration
		has := false

		for i := 0; i < len(d.Parameters); i++ {
			if isString(d.Parameters[i]) {
				has = true
			}
		}

		if !has {
			continue
		}

		nString++

		if only := os.Getenv("VERIF_C26_ONLY"); only != "" && !strings.Contains(c.key(), only) {
			continue
		}

		if why := excludedPkgs[c.Pkg]; why != "" {
			nExcluded++

			continue
		}

		if why := excludedFuncs[c.key()]; why != "" {
			nExcluded++
			exclNames = append(exclNames, c.key())

			continue
		}

		variants := 1

		for _, p := range d.Parameters {
			if h := hints[c.key()+"#"+p.Name]; len(h) > variants {
				variants = len(h)
			}
		}

		for i := 0; i < nargs(d); i++ {
			if isString(d.Parameters[i]) {
				pairs = append(pairs, fp{c, i, variants})
			}
		}
	}

	sp := spellings()
	modes := []string{"run", "handler"}

	var cases []kase

	for _, p := range pairs {
		for v := 0; v < p.variants; v++ {
			// a hint variant only matters for the parameter that is not the path
			if v > 0 {
				if _, ok := hints[p.c.key()+"#"+p.c.F.Declaration.Parameters[p.pos].Name]; ok {
					continue
				}
			}

			for _, x := range sp {
				if !r.Thorough() && !x.Quick {
					continue
				}

				if x.Links && noLinkWorld[p.c.key()] != "" {
					continue
				}

				prog := s.program(p.c, p.pos, v, strconv.Quote(x.Path))

				for _, m := range modes {
					cases = append(cases, kase{Fn: p.c.key(), Param: p.c.F.Declaration.Parameters[p.pos].Name, Pos: p.pos, Variant: v, Class: x.Class, Path: x.Path, Links: x.Links, Mode: m, Prog: prog, c: p.c})
				}
			}
		}
	}

	// ---- replay
	if r.Replay != "" {
		var w witness
		if err := report.LoadReplay(r.Replay, &w); err != nil {
			report.Fatal("%v", err)
		}

		wk := startWorker(scratch, 0, w.Mode)
		fullW, pristW := worldSnapshots(wk.world)
		res := runCase(wk, pristW, fullW, w.kase, true)
		wk.stop()

		fmt.Printf("replay %s %s(%s=%q) mode=%s: effects=%v\n%s\n", w.Fn, w.Fn, w.Param, w.Path, w.Mode, res.effects, excerpt(res.out))
		r.Eval(1)
		r.Distinct(w.key())
		r.Distinct("replay")

		if len(res.effects) > 0 {
			r.Violation("replayed:"+w.Fn, 1, w, "the recorded case still reaches outside the sandbox: "+describe(res.effects))
		}

		r.Finish()
	}

	// ---- workers
	nRun, nHandler := 12, 4
	if n := runtime.NumCPU(); n < 16 {
		nRun, nHandler = max(2, n*3/4), max(1, n/4)
	}

	var workers []*worker

	for i := 0; i < nRun; i++ {
		workers = append(workers, startWorker(scratch, i, "run"))
	}

	for i := 0; i < nHandler; i++ {
		workers = append(workers, startWorker(scratch, i, "handler"))
	}

	snaps := map[*worker][2]map[bool]map[string]entry{}

	for _, w := range workers {
		f, p := worldSnapshots(w.world)
		snaps[w] = [2]map[bool]map[string]entry{f, p}
	}

	// ---- self-test of the detector: the same programs with the sandbox off
	// must be seen reading, listing, stat-ing and creating outside
	selfTest(s, workers, snaps)

	// ---- the sweep
	queues := map[string]chan kase{}
	for _, m := range modes {
		queues[m] = make(chan kase, 256)
	}

	go func() {
		for _, k := range cases {
			queues[k.Mode] <- k
		}

		for _, q := range queues {
			close(q)
		}
	}()

	var (
		mu      sync.Mutex
		results []result // only the ones with effects are kept
		wg      sync.WaitGroup
		stats   = map[string]int64{}
		reach   = map[string]bool{}
		diedAt  = map[string]int{}

		notCompiled = map[string]string{}
	)

	for _, w := range workers {
		w := w

		wg.Add(1)

		go func() {
			defer wg.Done()

			for k := range queues[w.mode] {
				res := runCase(w, snaps[w][1], snaps[w][0], k, true)

				r.Eval(1)
				r.Distinct(k.key())

				mu.Lock()
				stats["cases_"+k.Mode]++

				if res.died {
					stats["cases_worker_died"]++
					diedAt[k.Fn+" "+k.Class]++
				}

				if !res.begin && !res.died {
					notCompiled[k.Fn] = excerpt(res.out)
				}

				if res.begin {
					stats["programs_started"]++
				} else if !res.died {
					stats["programs_not_compiled"]++
				}

				if res.reached {
					reach[k.Fn] = true
				}

				if len(res.effects) > 0 {
					res.out = excerpt(res.out)
					results = append(results, res)
				}
				mu.Unlock()
			}
		}()
	}

	wg.Wait()

	for _, w := range workers {
		w.stop()
	}

	for _, k := range sortedKeysInt(diedAt) {
		fmt.Printf("INFO worker died (no verdict from the output; the world was still checked): %s x%d\n", k, diedAt[k])
	}

	for _, k := range sortedKeys(notCompiled) {
		fmt.Printf("INFO program did not start: %s: %s\n", k, strings.ReplaceAll(notCompiled[k], "\n", " | "))
	}

	// ---- cells
	// A function that fails on a plain absolute or ".." spelling does not route
	// that parameter through the sandbox at all: one cell per function. A
	// function that only fails for a special spelling class shares the cell of
	// that class (the defect is in the common join/resolve code).
	sort.Slice(results, func(i, j int) bool { return results[i].k.key() < results[j].k.key() })

	unconfined := map[string]bool{}

	for _, res := range results {
		if res.k.Class == "abs" || res.k.Class == "dotdot" {
			unconfined[res.k.Fn+"|"+res.k.Mode] = true
		}
	}

	type cellInfo struct {
		list []result
	}

	cells := map[string]*cellInfo{}

	for _, res := range results {
		var cell string

		// the same function escaping in both modes is one defect
		if unconfined[res.k.Fn+"|"+res.k.Mode] {
			cell = "unconfined:" + res.k.Fn
			if !unconfined[res.k.Fn+"|run"] {
				cell += ":" + res.k.Mode + "-only"
			}
		} else {
			cell = res.k.Class + ":" + primary(res.effects)
		}

		if cells[cell] == nil {
			cells[cell] = &cellInfo{}
		}

		cells[cell].list = append(cells[cell].list, res)
	}

	names := make([]string, 0, len(cells))
	for c := range cells {
		names = append(names, c)
	}

	sort.Strings(names)

	// ---- confirmation in a fresh process and a fresh world, smallest first
	confirmDir := filepath.Join(scratch, "confirm")
	nConfirmed, nUnconfirmed := 0, 0

	for _, cell := range names {
		ci := cells[cell]

		sort.SliceStable(ci.list, func(i, j int) bool { return witnessSize(ci.list[i].k) < witnessSize(ci.list[j].k) })

		confirmed := false

		fns := map[string]string{}
		for _, res := range ci.list {
			fns[res.k.Fn] = ""
		}

		fmt.Printf("INFO cell %s: %d cases, functions %s\n", cell, len(ci.list), strings.Join(sortedKeys(fns), " "))

		for i, res := range ci.list {
			if i >= 3 {
				break
			}

			eff, out, how := confirm(confirmDir, res.k)
			if len(eff) == 0 {
				nUnconfirmed++

				fmt.Printf("UNCONFIRMED %s: %s(%s=%q) mode=%s batch effects %s; fresh output:\n%s\n", cell, res.k.Fn, res.k.Param, res.k.Path, res.k.Mode, describe(res.effects), excerpt(out))

				continue
			}

			nConfirmed++
			confirmed = true

			wit := witness{kase: res.k, Effects: effectStrings(eff), Output: excerpt(out), Confirmed: how}
			msg := fmt.Sprintf("%s(%s=%q) under the sandbox (%s) reached outside the root: %s", res.k.Fn, res.k.Param, res.k.Path, res.k.Mode, describe(eff))

			for range ci.list {
				r.Violation(cell, witnessSize(res.k), wit, msg)
			}

			break
		}

		if !confirmed {
			// the batch run saw an effect that a fresh process does not show:
			// the harness cannot take a verdict from it
			r.Capped(fmt.Sprintf("cell %s: %d batch observations not reproduced in a fresh process (not reported)", cell, len(ci.list)))
		}
	}

	_ = os.RemoveAll(confirmDir)

	// ---- evidence
	reached := 0

	for _, p := range pairs {
		if reach[p.c.key()] {
			reached++
		}
	}

	sort.Strings(exclNames)

	r.Rule("one case = (runtime function or receiver function, one of its string parameters, hint variant of the other parameters, path spelling, execution mode); every case is distinct; each case is its own program run alone in a rebuilt world")
	r.Set("runtime_packages", len(s.pkgNames))
	r.Set("runtime_dirs_without_package", strings.Join(s.missing, ","))
	r.Set("functions_declared", len(s.all))
	r.Set("functions_with_string_parameter", nString)
	r.Set("functions_excluded", nExcluded)
	r.Set("excluded", strings.Join(exclNames, ",")+",packages:"+strings.Join(sortedKeys(excludedPkgs), ","))
	r.Set("function_parameter_pairs", len(pairs))
	r.Set("spellings", len(sp))
	nTier := 0

	for _, x := range sp {
		if r.Thorough() || x.Quick {
			nTier++
		}
	}

	r.Set("spellings_in_tier", nTier)
	r.Set("violating_cases", len(results))
	r.Set("confirmed_fresh", nConfirmed)
	r.Set("unconfirmed_fresh", nUnconfirmed)
	r.Set("worker_restarts", deaths.Load())
	r.Set("wall_s", int(time.Since(start).Seconds()))

	for k, v := range stats {
		r.Set(k, v)
	}

	for i, k := range cases {
		if i%(len(cases)/6+1) == 0 {
			r.Sample(map[string]any{"function": k.Fn, "parameter": k.Param, "path": k.Path, "class": k.Class, "mode": k.Mode})
		}
	}

	r.Assume(
		"the harness runs as a user that may create, chmod and chown files in its scratch directory",
		"run-mode cases repeat main.go's app.Run in batch worker processes (cwd and environment reset per case); every reported cell is confirmed by a fresh `ego run --sandbox true` process / a fresh handler process in a fresh world",
		"reads are detected through canaries in the program's output (content at the start of the file, unspelled entry names, a distinctive size and modification time); a read whose result never reaches a printable value is not seen",
		"ego.runtime.sandbox.path is set with --set (run) / settings.SetDefault as `ego server --sandbox-path` does (handler)",
	)

	r.Finish()
}

// witnessSize prefers the plain command line run, the plainest spelling and
// the shortest program.
func witnessSize(k kase) int {
	n := len(k.Prog) + len(k.Path)

	if k.Mode != "run" {
		n += 100000
	}

	if k.Class != "abs" {
		n += 10000
	}

	return n
}

func sortedKeysInt(m map[string]int) []string {
	var out []string
	for k := range m {
		out = append(out, k)
	}

	sort.Strings(out)

	return out
}

func sortedKeys(m map[string]string) []string {
	var out []string
	for k := range m {
		out = append(out, k)
	}

	sort.Strings(out)

	return out
}

func effectStrings(eff []effect) []string {
	var out []string

	rank := map[string]int{}
	for i, o := range effectOrder {
		rank[o] = i
	}

	eff = append([]effect(nil), eff...)
	sort.SliceStable(eff, func(i, j int) bool { return rank[eff[i].Kind] < rank[eff[j].Kind] })

	for _, e := range eff {
		out = append(out, e.Kind+": "+e.Detail)
	}

	return out
}

func describe(eff []effect) string {
	s := strings.Join(effectStrings(eff), "; ")
	if len(s) > 400 {
		s = s[:400] + "..."
	}

	return s
}

// worldSnapshots builds both variants of a worker's world once and returns
// their full and outside-only snapshots.
func worldSnapshots(w string) (full, outside map[bool]map[string]entry) {
	full = map[bool]map[string]entry{}
	outside = map[bool]map[string]entry{}

	for _, l := range []bool{false, true} {
		buildWorld(w, l)
		full[l] = snapshot(w, true)
		outside[l] = snapshot(w, false)
	}

	return full, outside
}

// selfTest shows that the detector sees an escape when there is one: with the
// sandbox switched off (run) / for an administrator (handler) the probe
// programs do reach outside and every kind of effect must be reported.
func selfTest(s *surface, workers []*worker, snaps map[*worker][2]map[bool]map[string]entry) {
	find := func(key string) callable {
		for _, c := range s.all {
			if c.key() == key {
				return c
			}
		}

		fatal("self-test: the runtime no longer declares %s", key)

		return callable{}
	}

	probes := []struct {
		fn, path, want string
	}{
		{"os.ReadFile", "${W}/outside/secret.txt", "read"},
		{"io.ReadDir", "../outside", "list"},
		{"os.Stat", "${W}/outside/secret.txt", "stat"},
		{"os.WriteFile", "../outside/new.txt", "created"},
		{"os.WriteFile", "${W}/outside/secret.txt", "modified"},
	}

	seen := map[string]bool{}

	for _, w := range workers {
		if seen[w.mode] {
			continue
		}

		seen[w.mode] = true

		for _, p := range probes {
			c := find(p.fn)
			k := kase{Fn: p.fn, Pos: 0, Path: p.path, Mode: w.mode, Prog: s.program(c, 0, 0, strconv.Quote(p.path)), c: c}

			res := runCase(w, snaps[w][1], snaps[w][0], k, false)

			ok := false

			for _, e := range res.effects {
				if e.Kind == p.want {
					ok = true
				}
			}

			if !ok {
				fatal("self-test (%s, sandbox off): %s(%q) should have shown %q, saw %v; output:\n%s", w.mode, p.fn, p.path, p.want, res.effects, excerpt(res.out))
			}
		}

		// and inside the sandbox the program can read its own file
		c := find("os.ReadFile")
		k := kase{Fn: "os.ReadFile", Path: "in.txt", Mode: w.mode, Prog: s.program(c, 0, 0, `"in.txt"`), c: c}

		res := runCase(w, snaps[w][1], snaps[w][0], k, true)
		if !strings.Contains(res.out, insideMarker) || len(res.effects) > 0 {
			fatal("self-test (%s): a sandboxed program cannot read its own file, or is reported: %v\n%s", w.mode, res.effects, excerpt(res.out))
		}
	}
}

// confirm re-runs one case alone: run mode in a fresh `ego` process, handler
// modes in a fresh worker process; both in a new world.
func confirm(dir string, k kase) ([]effect, string, string) {
	_ = os.RemoveAll(dir)

	if k.Mode != "run" {
		w := startWorker(dir, 0, k.Mode)
		full, outside := worldSnapshots(w.world)
		res := runCase(w, outside, full, k, true)
		w.stop()

		return res.effects, res.out, "fresh handler process"
	}

	ego := os.Getenv("VERIF_EGO")
	if ego == "" {
		fatal("VERIF_EGO is not set (the check config needs \"ego\": true)")
	}

	world := filepath.Join(dir, "p", "q", "W")
	home := filepath.Join(dir, "home")
	_ = os.MkdirAll(home, 0o755)
	_ = os.MkdirAll(filepath.Dir(world), 0o755)

	buildWorld(world, k.Links)
	before := snapshot(world, false)

	file := filepath.Join(dir, "case.ego")
	if err := os.WriteFile(file, []byte(subst(k.Prog, world)), 0o644); err != nil {
		fatal("%v", err)
	}

	root := filepath.Join(world, "sandbox")
	cmd := exec.Command(ego, "--set", "ego.runtime.sandbox.path="+root, "--set", "ego.compiler.extensions=true", "run", "--sandbox", "true", file)
	cmd.Dir = root
	cmd.Env = append(os.Environ(), "HOME="+home)

	done := make(chan []byte, 1)

	go func() {
		b, _ := cmd.CombinedOutput()
		done <- b
	}()

	var out []byte

	select {
	case out = <-done:
	case <-time.After(jobWatchdog):
		if cmd.Process != nil {
			_ = cmd.Process.Kill()
		}

		out = <-done
	}

	eff := append(scanOutput(string(out)), diffOutside(before, snapshot(world, false))...)

	return eff, string(out), "fresh `ego --set ego.runtime.sandbox.path=<root> run --sandbox true` process"
}

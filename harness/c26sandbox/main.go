package main

import (
	"fmt"
	"sort"

	"github.com/tucats/ego/internal/language/data"
	egoruntime "github.com/tucats/ego/internal/runtime"
)

func main() {
	names := []string{"ai", "base64", "cipher", "cmplx", "errors", "exec", "filepath", "fmt", "http", "i18n", "io", "json", "math", "os", "profile", "proxy", "reflect", "rest", "runtime", "sort", "sql", "strconv", "strings", "sync", "tables", "time", "util", "uuid"}
	for _, n := range names {
		p := egoruntime.AddPackage(n)
		if p == nil {
			fmt.Println("NOPKG", n)
			continue
		}
		keys := p.Keys()
		sort.Strings(keys)
		for _, k := range keys {
			v, _ := p.Get(k)
			switch x := v.(type) {
			case data.Function:
				show(n, "", k, x)
			case *data.Type:
				ms := x.VerifMethodsC26()
				mk := []string{}
				for m := range ms {
					mk = append(mk, m)
				}
				sort.Strings(mk)
				fmt.Printf("TYPE %s.%s kind=%d native=%q\n", n, k, x.Kind(), x.NativeName())
				for _, m := range mk {
					show(n, k, m, ms[m])
				}
			default:
				fmt.Printf("OTHER %s.%s %T\n", n, k, v)
			}
		}
	}
}

func show(pkg, typ, name string, f data.Function) {
	d := f.Declaration
	if d == nil {
		fmt.Printf("FUNC %s.%s.%s NODECL\n", pkg, typ, name)
		return
	}
	s := ""
	for i, p := range d.Parameters {
		if i > 0 {
			s += ", "
		}
		t := "?"
		if p.Type != nil {
			t = p.Type.String()
		}
		s += p.Name + " " + t
		if p.Sandboxed {
			s += "[S]"
		}
	}
	r := ""
	for _, t := range d.Returns {
		if t != nil {
			r += t.String() + ","
		}
	}
	fmt.Printf("FUNC %s.%s.%s(%s) -> %s variadic=%v argc=%v sandboxedFn=%v native=%v ext=%v\n", pkg, typ, name, s, r, d.Variadic, d.ArgCount, f.Sandboxed, f.IsNative, f.Extension)
}

package main

import (
	"fmt"
	"os"
	"path/filepath"
	"regexp"
	"sort"
	"strconv"
	"strings"

	"github.com/tucats/ego/internal/language/data"
	egoruntime "github.com/tucats/ego/internal/runtime"
)

// callable is one function or receiver function of the runtime surface.
type callable struct {
	Pkg  string
	Typ  string // receiver type name, "" for a package function
	Name string
	F    data.Function
}

func (c callable) key() string {
	if c.Typ != "" {
		return c.Pkg + "." + c.Typ + "." + c.Name
	}

	return c.Pkg + "." + c.Name
}

// excluded lists what is never called, with the reason. Everything else that
// the runtime packages declare with a string parameter is called.
var excludedPkgs = map[string]string{
	"rest":  "network client",
	"proxy": "network client",
	"ai":    "network client",
	"exec":  "starts processes (refused under the sandbox; not a file function)",
	"http":  "request/response types that only exist inside a service call",
}

var excludedFuncs = map[string]string{
	"os.Exit":              "ends the process",
	"io.Prompt":            "waits for console input",
	"time.Sleep":           "sleeps",
	"time.Time.SleepUntil": "sleeps",
	"os.Shell":             "starts a process",
}

// restricted to the link-free world: io.Expand walks the tree and re-applies
// the sandbox join to every entry, so a link that is clamped back to the root
// makes it recurse until the Go stack is exhausted (a crash, not a leak).
var noLinkWorld = map[string]string{
	"io.Expand": "recursion through a link clamped to the root never ends",
}

type surface struct {
	all      []callable               // every declared function and method
	types    map[*data.Type][2]string // package-level type -> (pkg, name)
	byPkg    map[string][]callable
	pkgNames []string
	missing  []string // runtime directories without a package object
	library  []string // functions found in lib/packages
}

func enumerate(repo string) *surface {
	s := &surface{types: map[*data.Type][2]string{}, byPkg: map[string][]callable{}}

	ents, err := os.ReadDir(filepath.Join(repo, "internal", "runtime"))
	if err != nil {
		fatal("cannot list the runtime packages: %v", err)
	}

	for _, e := range ents {
		if !e.IsDir() {
			continue
		}

		name := e.Name()

		p := egoruntime.AddPackage(name)
		if p == nil {
			s.missing = append(s.missing, name)

			continue
		}

		s.pkgNames = append(s.pkgNames, name)

		keys := p.Keys()
		sort.Strings(keys)

		for _, k := range keys {
			v, _ := p.Get(k)

			switch x := v.(type) {
			case data.Function:
				if x.Declaration != nil {
					c := callable{Pkg: name, Name: k, F: x}
					s.all = append(s.all, c)
					s.byPkg[name] = append(s.byPkg[name], c)
				}

			case *data.Type:
				s.types[x] = [2]string{name, k}

				ms := x.VerifMethodsC26()
				mk := make([]string, 0, len(ms))

				for m := range ms {
					mk = append(mk, m)
				}

				sort.Strings(mk)

				for _, m := range mk {
					if ms[m].Declaration != nil {
						s.all = append(s.all, callable{Pkg: name, Typ: k, Name: m, F: ms[m]})
					}
				}
			}
		}
	}

	return s
}

// typeOf names the package-level type a declared type refers to (through
// pointers), or "", "".
func (s *surface) typeOf(t *data.Type) (string, string) {
	for depth := 0; t != nil && depth < 4; depth++ {
		if pn, ok := s.types[t]; ok {
			return pn[0], pn[1]
		}

		// the same type reached by name
		for tt, pn := range s.types {
			if tt.Name() != "" && tt.Name() == t.Name() && t.Kind() == tt.Kind() && strings.HasPrefix(t.String(), pn[0]+".") {
				return pn[0], pn[1]
			}
		}

		if t.Kind() != data.PointerKind {
			break
		}

		t = t.BaseType()
	}

	return "", ""
}

func (s *surface) methods(pkg, typ string) []callable {
	var out []callable

	for _, c := range s.all {
		if c.Pkg == pkg && c.Typ == typ {
			out = append(out, c)
		}
	}

	return out
}

// hints gives the non-path parameters of a few functions a value that lets the
// call get as far as the file system; every other parameter gets the inert
// default of its type. Keyed by function#parameter-name.
var hints = map[string][]string{
	"io.Open#mode":                 {`"read"`, `"create"`, `"append"`},
	"os.WriteFile#mode":            {"420"},
	"os.Mkdir#perm":                {"493"},
	"os.MkdirAll#perm":             {"493"},
	"os.Chmod#mode":                {"384"},
	"os.Chown#uid":                 {"1"},
	"os.Chown#gid":                 {"1"},
	"os.File.Chown#uid":            {"1"},
	"os.File.Chown#gid":            {"1"},
	"os.CreateTemp#pattern":        {`"verif*.tmp"`},
	"sql.Open#driver":              {`"sqlite3"`},
	"sql.Database.Query#sql":       {`"select v from verif_canary"`},
	"sql.Database.QueryResult#sql": {`"select v from verif_canary"`},
	"sql.Database.Execute#sql":     {`"create table if not exists verif_t(a int)"`},
	"io.Expand#filter":             {`""`},
	"tables.New#column":            {`"a"`},
	"time.LoadLocation#name":       {`"UTC"`},
	"time.FixedZone#name":          {`"UTC"`},
	"time.ParseDuration#text":      {`"1s"`},
	"strings.Repeat#count":         {"1"},
}

// receivers that no package function returns
var receiverRecipes = map[string]string{
	"sql.Rows": "rvdb, _ := sql.Open(\"sqlite3\", \"verif_recv.db\")\n    rv, _ := rvdb.Query(\"select 1 as a\")",
}

type gen struct {
	s       *surface
	decls   []string
	imports map[string]bool
	nvar    int
}

func (g *gen) v(prefix string) string {
	g.nvar++

	return prefix + strconv.Itoa(g.nvar)
}

// arg renders one argument. after lists what to print after the call (buffers
// and pointers the function may have filled).
func (g *gen) arg(fnKey string, p data.Parameter, variant int, after *[]string) string {
	if h, ok := hints[fnKey+"#"+p.Name]; ok {
		if variant < len(h) {
			return h[variant]
		}

		return h[0]
	}

	ts := ""
	if p.Type != nil {
		ts = p.Type.String()
	}

	switch {
	case ts == "string":
		return `"verif_inert"`
	case ts == "bool":
		return "false"
	case ts == "[]byte":
		name := g.v("b")
		g.decls = append(g.decls, name+` := []byte("verif-data-verif-data-verif-data-verif-data-verif-data-verif-data-")`)
		*after = append(*after, "string("+name+")")

		return name
	case ts == "[]string":
		return `[]string{"verif_inert"}`
	case ts == "interface{}":
		return `"verif-data"`
	case ts == "*interface{}" || strings.HasPrefix(ts, "*interface"):
		name := g.v("p")
		g.decls = append(g.decls, "var "+name+" interface{}")
		*after = append(*after, name)

		return "&" + name
	case ts == "*string":
		name := g.v("p")
		g.decls = append(g.decls, name+` := "verif-data"`)
		*after = append(*after, name)

		return "&" + name
	case ts == "[]interface{}":
		return `[]interface{}{}`
	case strings.HasPrefix(ts, "map[string]interface"):
		return `map[string]interface{}{}`
	case strings.HasPrefix(ts, "map[string]string"):
		return `map[string]string{}`
	case strings.HasPrefix(ts, "func("):
		return "nil"
	case strings.HasPrefix(ts, "time.Duration"):
		g.imports["time"] = true

		return "time.Duration(0)"
	case strings.HasPrefix(ts, "time.Time"):
		g.imports["time"] = true

		return "time.Now()"
	case strings.HasPrefix(ts, "float"):
		return "0.0"
	case strings.HasPrefix(ts, "int") || strings.HasPrefix(ts, "uint") || ts == "byte" || strings.HasPrefix(ts, "time.Month"):
		return "0"
	}

	if p.Type != nil {
		switch p.Type.Kind() {
		case data.StringKind:
			return `"verif_inert"`
		case data.BoolKind:
			return "false"
		case data.IntKind, data.Int32Kind, data.Int64Kind, data.ByteKind, data.Int8Kind, data.Int16Kind, data.UInt16Kind, data.UInt32Kind, data.UIntKind, data.UInt64Kind:
			return "0"
		case data.Float32Kind, data.Float64Kind:
			return "0.0"
		}
	}

	return "nil"
}

func isString(p data.Parameter) bool {
	return p.Type != nil && p.Type.Kind() == data.StringKind
}

// nargs is how many of the declared parameters a call passes.
func nargs(d *data.Declaration) int {
	n := len(d.Parameters)
	if d.ArgCount[1] > 0 && d.ArgCount[1] < n {
		n = d.ArgCount[1]
	}

	return n
}

// callExpr renders `target(args...)`; pos is the parameter that gets path
// (a quoted literal), -1 for none.
func (g *gen) callExpr(target string, c callable, pos int, path string, variant int, after *[]string) string {
	d := c.F.Declaration

	var args []string

	for i := 0; i < nargs(d); i++ {
		p := d.Parameters[i]

		if i == pos {
			args = append(args, path)

			continue
		}

		// nothing is passed for a trailing variadic parameter
		if d.Variadic && i == len(d.Parameters)-1 {
			if _, ok := hints[c.key()+"#"+p.Name]; !ok {
				continue
			}
		}

		args = append(args, g.arg(c.key(), p, variant, after))
	}

	return target + "(" + strings.Join(args, ", ") + ")"
}

// results renders the assignment of the call's results and what to print.
func results(prefix string, d *data.Declaration) (lhs string, show []string) {
	var names []string

	for i, t := range d.Returns {
		n := prefix + strconv.Itoa(i)
		names = append(names, n)

		if t != nil && t.String() == "[]byte" {
			show = append(show, "string("+n+")")
		} else {
			show = append(show, n)
		}
	}

	if len(names) == 0 {
		return "", nil
	}

	return strings.Join(names, ", ") + " := ", show
}

// receiver renders the statements that leave a receiver of pkg.typ in `rv`.
func (g *gen) receiver(pkg, typ string) []string {
	g.imports[pkg] = true

	if r, ok := receiverRecipes[pkg+"."+typ]; ok {
		return strings.Split(r, "\n    ")
	}

	for _, c := range g.s.byPkg[pkg] {
		if excludedFuncs[c.key()] != "" || len(c.F.Declaration.Returns) == 0 {
			continue
		}

		if p, t := g.s.typeOf(c.F.Declaration.Returns[0]); p == pkg && t == typ {
			var after []string

			// a constructor's own path parameters stay inside the sandbox
			call := g.callExpr(pkg+"."+c.Name, c, -1, "", 1, &after)
			call = strings.ReplaceAll(call, `"verif_inert"`, `"verif_recv"`)

			if len(c.F.Declaration.Returns) > 1 {
				return []string{"rv, _ := " + call}
			}

			return []string{"rv := " + call}
		}
	}

	return []string{"var rv " + pkg + "." + typ}
}

// program renders the Ego program of one case. path is the quoted literal put
// at parameter pos of c. The program prints BEGIN, then the results of the call
// (or the error caught), then for a returned value of a runtime type the
// results of each of its methods, then END.
func (s *surface) program(c callable, pos int, variant int, path string) string {
	g := &gen{s: s, imports: map[string]bool{"fmt": true, c.Pkg: true}}

	var body []string

	add := func(indent int, line string) {
		body = append(body, strings.Repeat("    ", indent)+line)
	}

	var after []string

	target := c.Pkg + "." + c.Name

	var pre []string

	if c.Typ != "" {
		pre = g.receiver(c.Pkg, c.Typ)
		target = "rv." + c.Name
	}

	call := g.callExpr(target, c, pos, path, variant, &after)
	lhs, show := results("r", c.F.Declaration)

	add(1, `fmt.Println("BEGIN")`)
	add(1, "try {")

	for _, d := range pre {
		add(2, d)
	}

	// declarations the arguments need
	declMark := len(body)

	add(2, lhs+call)
	add(2, `fmt.Println(`+strings.Join(append([]string{`"R"`}, append(show, after...)...), ", ")+`)`)

	// follow a returned handle: call every method of its type
	if len(c.F.Declaration.Returns) > 0 {
		if rp, rt := s.typeOf(c.F.Declaration.Returns[0]); rp != "" {
			ms := s.methods(rp, rt)

			// closing methods last
			sort.SliceStable(ms, func(i, j int) bool {
				ci, cj := ms[i].Name == "Close", ms[j].Name == "Close"

				return !ci && cj
			})

			for _, m := range ms {
				if excludedFuncs[m.key()] != "" || excludedPkgs[m.Pkg] != "" {
					continue
				}

				var mafter []string

				mcall := g.callExpr("r0."+m.Name, m, -1, "", 0, &mafter)
				mlhs, mshow := results("m", m.F.Declaration)

				add(2, "try {")
				add(3, mlhs+mcall)
				add(3, `fmt.Println(`+strings.Join(append([]string{`"M ` + m.Name + `"`}, append(mshow, mafter...)...), ", ")+`)`)
				add(2, "} catch (e) {")
				add(3, `fmt.Println("MERR `+m.Name+`", e)`)
				add(2, "}")
			}
		}
	}

	add(1, "} catch (e) {")
	add(2, `fmt.Println("ERR", e)`)
	add(1, "}")
	add(1, `fmt.Println("END")`)

	// splice the declarations in front of the call
	if len(g.decls) > 0 {
		var d []string
		for _, x := range g.decls {
			d = append(d, strings.Repeat("    ", 2)+x)
		}

		body = append(body[:declMark], append(d, body[declMark:]...)...)
	}

	var imps []string
	for p := range g.imports {
		imps = append(imps, p)
	}

	sort.Strings(imps)

	var b strings.Builder

	for _, p := range imps {
		fmt.Fprintf(&b, "import %q\n", p)
	}

	b.WriteString("\nfunc main() {\n")
	b.WriteString(strings.Join(body, "\n"))
	b.WriteString("\n}\n")

	return b.String()
}

var libFunc = regexp.MustCompile(`(?m)^func ([A-Z]\w*)\(([^)]*)\)\s*([^{]*)\{`)

// addLibrary adds the package functions written in Ego that ship in
// lib/packages/<runtime package>/ (they are part of the same Ego packages).
func (s *surface) addLibrary(repo string) {
	files, _ := filepath.Glob(filepath.Join(repo, "lib", "packages", "*", "*.ego"))
	sort.Strings(files)

	for _, f := range files {
		pkg := filepath.Base(filepath.Dir(f))

		b, err := os.ReadFile(f)
		if err != nil {
			continue
		}

		for _, m := range libFunc.FindAllStringSubmatch(string(b), -1) {
			d := &data.Declaration{Name: m[1]}
			ok := true

			for _, p := range strings.Split(m[2], ",") {
				parts := strings.Fields(p)
				if len(parts) != 2 {
					ok = false

					break
				}

				var t *data.Type

				switch parts[1] {
				case "string":
					t = data.StringType
				case "int":
					t = data.IntType
				case "bool":
					t = data.BoolType
				case "float64":
					t = data.Float64Type
				default:
					ok = false
				}

				d.Parameters = append(d.Parameters, data.Parameter{Name: parts[0], Type: t})
			}

			if !ok {
				continue
			}

			rets := strings.Trim(strings.TrimSpace(m[3]), "()")
			if rets != "" {
				for range strings.Split(rets, ",") {
					d.Returns = append(d.Returns, data.InterfaceType)
				}
			}

			c := callable{Pkg: pkg, Name: m[1], F: data.Function{Declaration: d}}
			s.all = append(s.all, c)
			s.byPkg[pkg] = append(s.byPkg[pkg], c)
			s.library = append(s.library, c.key())
		}
	}
}

// C25: a username/password pair authenticates iff the user exists
// (case-insensitively), the password matches the stored credential in its
// stored format (bcrypt, legacy SHA-256, {plaintext} when enabled) and the user
// holds ego.logon or ego.root; the bcrypt upgrade performed by a successful
// legacy login never changes which passwords are accepted.
//
// E-seq on the real auth.ValidatePassword with test users written straight into
// the real user store (file store and SQLite database store). One exploration
// per configuration (backend x stored format of the focus user x her
// permissions); each runs in its own worker process because the user service,
// the settings and the caches are process-global. Inside a worker: breadth-first
// search over login(name variant, candidate password) / plaintext setting on-off
// / auth-cache purge histories until no new canonical state appears (or the
// depth bound), so every login is tried before and after the migration under
// both settings. The oracle is a reference model (harness-side matcher per
// format) used in both directions, plus invariants on the stored credential
// after every event.
package main

import (
	"encoding/json"
	"fmt"
	"os"
	"os/exec"
	"runtime"
	"sort"
	"strings"
	"sync"
	"time"

	"github.com/tucats/ego/internal/verifrt/report"
)

// Config is one exploration.
type Config struct {
	Backend   string `json:"backend"` // file | db
	Format    string `json:"format"`  // bcrypt | sha256 | plaintext  (focus user alice)
	Perm      string `json:"perm"`    // logon | root | both | none | other
	BobLegacy bool   `json:"bob_legacy"`
	BobLogins bool   `json:"bob_logins"`
	Wide      bool   `json:"wide"` // thorough alphabet
	Pw        string `json:"pw,omitempty"` // alice's password ("" = Secret1)
	Depth     int    `json:"depth"`
}

func (c Config) String() string {
	s := fmt.Sprintf("%s/%s/%s/boblegacy=%v/boblogins=%v/wide=%v", c.Backend, c.Format, c.Perm, c.BobLegacy, c.BobLogins, c.Wide)
	if c.Pw != "" {
		s += fmt.Sprintf("/pw=%dbytes:%.12q", len(c.Pw), c.Pw)
	}

	return s
}

// passwords that look like the store's own markers, and one beyond bcrypt's 72 bytes
const (
	trickyPw = "{P\u00e4$2a$ 1}"
	longPw   = "0123456789abcdefghijABCDEFGHIJ0123456789abcdefghijABCDEFGHIJ0123456789abcdefghij"
)

// Result is what a worker reports.
type Result struct {
	Config      Config   `json:"config"`
	States      int      `json:"states"`
	Transitions int      `json:"transitions"`
	Rebuilds    int      `json:"rebuilds"`
	Migrations  int      `json:"migrations"`
	Accepts     int      `json:"accepts"`
	Evals       int      `json:"evals"`
	Depth       int      `json:"depth"`
	Fixpoint    bool     `json:"fixpoint"`
	Stopped     bool     `json:"stopped"`
	Seconds     float64  `json:"seconds"` // wall time of the worker (informational)
	Keys        []string `json:"keys"`
	Violations  []Viol   `json:"violations"`
	Fatal       string   `json:"fatal,omitempty"`
}

type Viol struct {
	Cell    string  `json:"cell"`
	Size    int     `json:"size"`
	Witness Witness `json:"witness"`
	Msg     string  `json:"msg"`
}

type Witness struct {
	Config  Config `json:"config"`
	History []Ev   `json:"history"`
	Text    string `json:"text"`
}

func configs(thorough bool) []Config {
	var out []Config

	if !thorough {
		for _, f := range []string{"sha256", "plaintext", "bcrypt"} {
			for _, p := range []string{"logon", "root", "none"} {
				out = append(out, Config{Backend: "file", Format: f, Perm: p, BobLogins: true, Depth: 6})
			}

			out = append(out, Config{Backend: "db", Format: f, Perm: "logon", Depth: 6})
		}

		out = append(out, Config{Backend: "db", Format: "sha256", Perm: "none", Depth: 6})

		// a legacy credential whose password is longer than bcrypt's 72 bytes:
		// the upgrade must not start accepting other passwords with that prefix
		out = append(out, Config{Backend: "file", Format: "sha256", Perm: "logon", Pw: longPw, Depth: 6})

		sort.SliceStable(out, func(i, j int) bool { return weight(out[i]) > weight(out[j]) })

		return out
	}

	for _, b := range []string{"file", "db"} {
		for _, f := range []string{"sha256", "plaintext", "bcrypt"} {
			for _, p := range []string{"logon", "root", "both", "none", "other"} {
				out = append(out, Config{Backend: b, Format: f, Perm: p, BobLogins: true, Wide: true, Depth: 8})
			}
		}

		for _, f := range []string{"sha256", "plaintext", "bcrypt"} {
			out = append(out, Config{Backend: b, Format: f, Perm: "logon", Pw: trickyPw, Depth: 8})

			if f != "bcrypt" { // bcrypt refuses to hash more than 72 bytes
				out = append(out, Config{Backend: b, Format: f, Perm: "logon", Pw: longPw, Depth: 8})
			}
		}

		// two legacy users: both migrations in one history
		out = append(out, Config{Backend: b, Format: "sha256", Perm: "logon", BobLegacy: true, BobLogins: true, Depth: 8})
		out = append(out, Config{Backend: b, Format: "plaintext", Perm: "root", BobLegacy: true, BobLogins: true, Depth: 8})
	}

	// most expensive first (longest-processing-time scheduling)
	sort.SliceStable(out, func(i, j int) bool { return weight(out[i]) > weight(out[j]) })

	return out
}

func weight(c Config) int {
	w := 1
	if c.Format != "bcrypt" {
		w += 4
	}

	if c.Backend == "db" {
		w *= 3
	}

	if c.BobLegacy {
		w *= 2
	}

	return w
}

func runWorkers(cfgs []Config) []Result {
	res := make([]Result, len(cfgs))

	workers := runtime.NumCPU()
	if workers > 16 {
		workers = 16
	}

	var (
		wg   sync.WaitGroup
		mu   sync.Mutex
		next int
	)

	for w := 0; w < workers; w++ {
		wg.Add(1)

		go func() {
			defer wg.Done()

			for {
				mu.Lock()
				i := next
				next++
				mu.Unlock()

				if i >= len(cfgs) {
					return
				}

				b, _ := json.Marshal(cfgs[i])

				cmd := exec.Command(os.Args[0])
				cmd.Env = append(os.Environ(), "VERIF_C25_WORKER="+string(b), fmt.Sprintf("VERIF_C25_INDEX=%d", i))
				cmd.Stderr = os.Stderr

				out, err := cmd.Output()
				if err != nil {
					res[i] = Result{Config: cfgs[i], Fatal: fmt.Sprintf("worker failed: %v\n%s", err, tail(string(out), 2000))}

					continue
				}

				// the result is the last line of stdout
				lines := strings.Split(strings.TrimSpace(string(out)), "\n")
				if err := json.Unmarshal([]byte(lines[len(lines)-1]), &res[i]); err != nil {
					res[i] = Result{Config: cfgs[i], Fatal: fmt.Sprintf("worker output unreadable: %v\n%s", err, tail(string(out), 2000))}
				}
			}
		}()
	}

	wg.Wait()

	return res
}

func tail(s string, n int) string {
	if len(s) > n {
		return s[len(s)-n:]
	}

	return s
}

func main() {
	if w := os.Getenv("VERIF_C25_WORKER"); w != "" {
		var c Config
		if err := json.Unmarshal([]byte(w), &c); err != nil {
			fmt.Println(`{"fatal":"bad worker config"}`)
			os.Exit(0)
		}

		t0 := time.Now()
		res := explore(c, os.Getenv("VERIF_C25_INDEX"))
		res.Seconds = float64(int(time.Since(t0).Seconds()*10)) / 10
		b, _ := json.Marshal(res)
		fmt.Println(string(b))

		return
	}

	r := report.New("model_checking")

	if r.Replay != "" {
		var w Witness
		if err := report.LoadReplay(r.Replay, &w); err != nil {
			report.Fatal("%v", err)
		}

		for _, v := range replay(w) {
			r.Violation(v.Cell, v.Size, v.Witness, v.Msg)
		}

		r.Eval(len(w.History))
		r.Finish()
	}

	cfgs := configs(r.Thorough())
	results := runWorkers(cfgs)

	var (
		states, trans, rebuilds, migrations, accepts int
		per                                          = map[string]any{}
	)

	for _, res := range results {
		if res.Fatal != "" {
			report.Fatal("configuration %s: %s", res.Config, res.Fatal)
		}

		states += res.States
		trans += res.Transitions
		rebuilds += res.Rebuilds
		migrations += res.Migrations
		accepts += res.Accepts
		r.Eval(res.Evals)

		for _, k := range res.Keys {
			r.Distinct(res.Config.String() + "|" + k)
		}

		for _, v := range res.Violations {
			r.Violation(v.Cell, v.Size, v.Witness, v.Msg)
		}

		if res.Stopped {
			r.Capped(fmt.Sprintf("configuration %s: exploration stopped after %d violations", res.Config, maxViolations))
		} else if !res.Fixpoint {
			r.Capped(fmt.Sprintf("configuration %s: new states still appeared at the depth bound %d", res.Config, res.Config.Depth))
		}

		per[res.Config.String()] = map[string]any{"states": res.States, "transitions": res.Transitions, "fixpoint_depth": res.Depth, "migrations_executed": res.Migrations, "rebuilds": res.Rebuilds, "worker_wall_s": res.Seconds}
	}

	if accepts == 0 || migrations == 0 {
		report.Fatal("vacuous run: %d accepted logins, %d migrations executed", accepts, migrations)
	}

	sample := alphabet(cfgs[0])
	names := make([]string, 0, len(sample))

	for _, e := range sample {
		names = append(names, e.String())
	}

	r.Sample(map[string]any{"configuration": cfgs[0].String(), "events": names})
	r.Sample(map[string]any{"users": "alice (password Secret1, stored format and permissions per configuration), bob (password secret1, bcrypt cost 4 or legacy SHA-256, ego.logon)"})

	r.Set("configurations", len(cfgs))
	r.Set("per_configuration", per)
	r.Set("states", states)
	r.Set("transitions", trans)
	r.Set("traces_validated_against_impl", trans)
	r.Set("instance_rebuilds", rebuilds)
	r.Set("migrations_executed", migrations)
	r.Set("accepted_logins", accepts)

	r.Rule(fmt.Sprintf("%d configurations (user store file|sqlite x stored format bcrypt|sha256|{plaintext} x permissions of the focus user), each a BFS to its fixpoint (no new canonical state) or depth bound over login(user-name variant x candidate password {right, wrong, empty, other case, right+space, {right}, the stored credential itself, sha256-hex(right)}) / plaintext setting on|off / auth-cache purge on the real ValidatePassword; distinct = distinct canonical states (stored credential format and what it matches, permissions, cached record, setting) per configuration; evaluations = logins judged", len(cfgs)))
	r.Assume("reference model: accept <=> lower(name) names a stored user and candidate == her password (non-empty) and (stored format is not {plaintext} or plaintext passwords are enabled at that moment) and she holds ego.logon or ego.root; formats are recognised by the harness's own matcher (bcrypt prefix, {..}, hex sha256)",
		"the upgrade itself is not demanded: after a matching legacy login the stored credential may stay or become a bcrypt hash of the same password (also when the user lacks the permission); any other change of a stored credential or of permissions is a violation",
		"a transition that leaves the canonical state unchanged is taken on the same instance; after any other transition the instance is rebuilt (users rewritten, caches reset, history replayed)",
		"user names are stored lower-cased, as every creation path of the product does; passwords longer than bcrypt's 72 bytes and the PostgreSQL store are not covered")
	r.Finish()
}

package main

import (
	"crypto/sha256"
	"encoding/hex"
	"fmt"
	"os"
	"path/filepath"
	"sort"
	"strings"
	"time"

	"github.com/google/uuid"
	"github.com/tucats/ego/internal/caches"
	"github.com/tucats/ego/internal/cli/settings"
	"github.com/tucats/ego/internal/defs"
	"github.com/tucats/ego/internal/server/auth"
	"golang.org/x/crypto/bcrypt"
)

// ---------- users and reference matcher ----------

type user struct {
	name   string
	pw     string
	format string
	perms  []string
	id     uuid.UUID
	stored string // initial stored credential
}

const (
	alicePw = "Secret1"
	bobPw   = "secret1" // the other-case variant of alice's password
)

func sha(s string) string {
	h := sha256.Sum256([]byte(s))

	return hex.EncodeToString(h[:])
}

func credential(format, pw string) string {
	switch format {
	case "bcrypt":
		b, err := bcrypt.GenerateFromPassword([]byte(pw), bcrypt.MinCost)
		if err != nil {
			panic(err)
		}

		return string(b)
	case "sha256":
		return sha(pw)
	case "plaintext":
		return "{" + pw + "}"
	}

	panic("format " + format)
}

func permsOf(p string) []string {
	switch p {
	case "logon":
		return []string{defs.LogonPermission}
	case "root":
		return []string{defs.RootPermission}
	case "both":
		return []string{"ego.tables", defs.RootPermission, defs.LogonPermission}
	case "none":
		return []string{}
	case "other":
		return []string{"ego.tables", "ego.logon.extra", "logon"}
	}

	panic("perm " + p)
}

// formatOf classifies a stored credential the way the statement names formats.
func formatOf(stored string) string {
	switch {
	case strings.HasPrefix(stored, "$2a$"), strings.HasPrefix(stored, "$2b$"), strings.HasPrefix(stored, "$2y$"):
		return "bcrypt"
	case strings.HasPrefix(stored, "{") && strings.HasSuffix(stored, "}"):
		return "plaintext"
	}

	return "sha256"
}

// matches is the harness's own per-format comparison.
func matches(stored, cand string) bool {
	switch formatOf(stored) {
	case "bcrypt":
		return bcrypt.CompareHashAndPassword([]byte(stored), []byte(cand)) == nil
	case "plaintext":
		return stored[1:len(stored)-1] == cand
	}

	return stored == sha(cand)
}

var descMemo = map[string]string{}

// describe renders a stored credential canonically for user u: its format and
// whether it stands for u's password. One bcrypt comparison per new hash (a
// bcrypt hash that verifies the password cannot verify another candidate of
// the alphabet); on a mismatch the other candidates are probed for the message.
func describe(stored string, u *user) string {
	if d, ok := descMemo[u.name+"|"+stored]; ok {
		return d
	}

	d := formatOf(stored)

	if matches(stored, u.pw) {
		d += ":ok"
	} else {
		var m []string

		for _, c := range []string{"Wrong9", strings.ToLower(u.pw), u.pw + " ", ""} {
			if matches(stored, c) {
				m = append(m, fmt.Sprintf("%q", c))
			}
		}

		d += ":NOT-the-password,matches" + fmt.Sprint(m)
	}

	descMemo[u.name+"|"+stored] = d

	return d
}

// ---------- events ----------

type Ev struct {
	Op   string `json:"op"` // login | plaintext-on | plaintext-off | purge-auth-cache
	Name string `json:"name,omitempty"`
	Cand string `json:"cand,omitempty"` // right wrong empty othercase space braces stored shahex
}

func (e Ev) String() string {
	if e.Op == "login" {
		return fmt.Sprintf("login(%q,%s)", e.Name, e.Cand)
	}

	return e.Op
}

func alphabet(c Config) []Ev {
	names := []string{"alice"}
	if c.Backend == "file" || c.Wide {
		names = append(names, "ALICE") // quick: the case variants run on the file store only
	}

	if c.Wide {
		names = append(names, "Alice")
	}

	if c.BobLogins {
		names = append(names, "bob")
	}

	names = append(names, "carol")

	if c.Wide {
		names = append(names, "alice ", "Bob")
	}

	cands := []string{"right", "wrong", "empty", "othercase", "space", "braces", "stored", "shahex"}

	var evs []Ev

	for _, n := range names {
		for _, cd := range cands {
			evs = append(evs, Ev{Op: "login", Name: n, Cand: cd})
		}
	}

	evs = append(evs, Ev{Op: "plaintext-on"}, Ev{Op: "plaintext-off"})

	if c.Backend == "db" {
		evs = append(evs, Ev{Op: "purge-auth-cache"})
	}

	return evs
}

// ---------- one instance ----------

type world struct {
	cfg       Config
	users     map[string]*user
	order     []string
	plaintext bool // model of the setting
	res       *Result
	replaying bool // inside rebuild: steps are re-executed, not counted
}

func newWorld(c Config, tag string) (*world, error) {
	w := &world{cfg: c, users: map[string]*user{}, res: &Result{Config: c}}

	bobFormat := "bcrypt"
	if c.BobLegacy {
		bobFormat = "sha256"
	}

	apw := alicePw
	if c.Pw != "" {
		apw = c.Pw
	}

	for _, u := range []*user{
		{name: "alice", pw: apw, format: c.Format, perms: permsOf(c.Perm), id: uuid.MustParse("11111111-1111-4111-8111-111111111111")},
		{name: "bob", pw: bobPw, format: bobFormat, perms: permsOf("logon"), id: uuid.MustParse("22222222-2222-4222-8222-222222222222")},
	} {
		u.stored = credential(u.format, u.pw)
		w.users[u.name] = u
		w.order = append(w.order, u.name)
	}

	scratch := os.Getenv("VERIF_SCRATCH")
	if scratch == "" {
		scratch, _ = os.Getwd()
	}

	var err error

	switch c.Backend {
	case "file":
		auth.AuthService, err = auth.NewFileService("memory", "verifadmin", "")
	case "db":
		auth.AuthService, err = auth.NewDatabaseService("sqlite3://"+filepath.Join(scratch, "c25-users-"+tag+".db"), "", "")
		if err == nil {
			if db := auth.VerifC25DB(); db != nil {
				_, _ = db.Exec("PRAGMA synchronous=OFF;") // scratch database: only saves fsyncs
			}
		}
	default:
		err = fmt.Errorf("backend %q", c.Backend)
	}

	if err != nil {
		return nil, err
	}

	if got := auth.VerifC25Backend(); got != c.Backend {
		return nil, fmt.Errorf("user store is %q, wanted %q", got, c.Backend)
	}

	return w, nil
}

// fresh puts the store, the caches and the setting into the start state.
func (w *world) fresh() error {
	for name := range auth.AuthService.ListUsers(true) {
		if err := auth.AuthService.DeleteUser(0, name); err != nil {
			return err
		}
	}

	for _, n := range w.order {
		u := w.users[n]

		if err := auth.AuthService.WriteUser(0, defs.User{Name: u.name, ID: u.id, Password: u.stored, Permissions: append([]string{}, u.perms...)}); err != nil {
			return err
		}
	}

	caches.VerifC22Reset() // as after a server start: nothing cached, no sweepers

	w.setPlaintext(false)

	return nil
}

func (w *world) setPlaintext(on bool) {
	w.plaintext = on

	if on {
		settings.SetDefault(defs.PlaintextPasswordSetting, "true")
	} else {
		settings.SetDefault(defs.PlaintextPasswordSetting, "false")
	}
}

// rec is the observable record of one user.
type rec struct {
	present bool
	stored  string
	perms   string
}

type obs struct {
	store map[string]rec // what the store holds (all users, incl. unexpected ones)
	cache map[string]rec // auth cache (database store only)
}

func recOf(u defs.User) rec {
	p := append([]string{}, u.Permissions...)
	sort.Strings(p)

	return rec{present: true, stored: u.Password, perms: strings.Join(p, ",")}
}

func (w *world) observe() obs {
	o := obs{store: map[string]rec{}, cache: map[string]rec{}}

	for name, u := range auth.AuthService.ListUsers(false) {
		o.store[name] = recOf(u)
	}

	if w.cfg.Backend == "db" {
		_ = caches.VerifC22Dump(caches.AuthCache, time.Time{}, func(k, v any) string {
			if u, ok := v.(defs.User); ok {
				o.cache[fmt.Sprint(k)] = recOf(u)
			} else {
				o.cache[fmt.Sprint(k)] = rec{present: true, stored: fmt.Sprintf("<%T>", v)}
			}

			return ""
		})
	}

	return o
}

func (w *world) recText(name string, r rec) string {
	u := w.users[name]
	if u == nil {
		return name + "=<unexpected user>"
	}

	return fmt.Sprintf("%s=%s[%s]", name, describe(r.stored, u), r.perms)
}

// key is the canonical state.
func (w *world) key(o obs) string {
	var parts []string

	for name, r := range o.store {
		parts = append(parts, "store:"+w.recText(name, r))
	}

	for name, r := range o.cache {
		parts = append(parts, "cache:"+w.recText(name, r))
	}

	sort.Strings(parts)

	return fmt.Sprintf("plaintext=%v %v", w.plaintext, parts)
}

// effective is the record a login of name would be judged against (the cached
// copy, when the database store has one, else the stored one).
func (o obs) effective(name string) (rec, bool) {
	if r, ok := o.cache[name]; ok {
		return r, true
	}

	r, ok := o.store[name]

	return r, ok
}

func (w *world) candidate(e Ev, pre obs) string {
	lname := strings.ToLower(e.Name)
	u := w.users[lname]

	pw := w.users["alice"].pw
	if u != nil {
		pw = u.pw
	}

	switch e.Cand {
	case "right":
		return pw
	case "wrong":
		return "Wrong9"
	case "empty":
		return ""
	case "othercase":
		if pw == strings.ToLower(pw) {
			return strings.ToUpper(pw)
		}

		return strings.ToLower(pw)
	case "space":
		return pw + " "
	case "braces":
		return "{" + pw + "}"
	case "stored":
		if r, ok := pre.effective(lname); ok {
			return r.stored
		}

		r, _ := pre.effective("alice")

		return r.stored
	case "shahex":
		return sha(pw)
	}

	panic("candidate " + e.Cand)
}

func holdsLogon(perms []string) bool {
	for _, p := range perms {
		if strings.EqualFold(p, defs.LogonPermission) || strings.EqualFold(p, defs.RootPermission) {
			return true
		}
	}

	return false
}

// invariants checks the stored/cached records against the model.
func (w *world) invariants(o obs) (string, string) {
	for _, side := range []struct {
		what string
		m    map[string]rec
	}{{"store", o.store}, {"cache", o.cache}} {
		for name, r := range side.m {
			u := w.users[name]
			if u == nil {
				return "store:unexpected-user", fmt.Sprintf("%s holds a record for %q", side.what, name)
			}

			if !strings.HasSuffix(describe(r.stored, u), ":ok") {
				return "store:credential-not-the-password", fmt.Sprintf("%s record of %s is %s", side.what, name, describe(r.stored, u))
			}

			want := append([]string{}, u.perms...)
			sort.Strings(want)

			if r.perms != strings.Join(want, ",") {
				return "store:permissions-changed", fmt.Sprintf("%s record of %s has permissions [%s], wanted %v", side.what, name, r.perms, want)
			}
		}
	}

	for _, n := range w.order {
		if _, ok := o.store[n]; !ok {
			return "store:user-lost", fmt.Sprintf("user %s is gone from the store", n)
		}
	}

	for name, c := range o.cache {
		if s := o.store[name]; s.stored != c.stored {
			return "store:cache-differs-from-row", fmt.Sprintf("cached credential of %s is %s, the row has %s", name, describe(c.stored, w.users[name]), describe(s.stored, w.users[name]))
		}
	}

	return "", ""
}

// step applies one event to implementation and model and judges it.
func (w *world) step(e Ev, pre obs) (post obs, cell, msg string) {
	switch e.Op {
	case "plaintext-on":
		w.setPlaintext(true)

		return w.observe(), "", ""
	case "plaintext-off":
		w.setPlaintext(false)

		return w.observe(), "", ""
	case "purge-auth-cache":
		caches.Purge(caches.AuthCache)

		return w.observe(), "", ""
	}

	lname := strings.ToLower(e.Name)
	u := w.users[lname]
	cand := w.candidate(e, pre)
	eff, exists := pre.effective(lname)

	format := ""
	if exists {
		format = formatOf(eff.stored)
	}

	var reason string

	switch {
	case u == nil || !exists:
		reason = "no-such-user"
	case cand == "" || cand != u.pw:
		reason = "wrong-password"
	case format == "plaintext" && !w.plaintext:
		reason = "plaintext-disabled"
	case !holdsLogon(u.perms):
		reason = "no-logon-permission"
	}

	got := auth.ValidatePassword(7, e.Name, cand)

	if !w.replaying {
		w.res.Evals++

		if got {
			w.res.Accepts++
		}
	}

	post = w.observe()

	if got && reason != "" {
		return post, "login:accepted:" + reason, fmt.Sprintf("%s was accepted (%s; stored format %q, plaintext enabled=%v)", e, reason, format, w.plaintext)
	}

	if !got && reason == "" {
		return post, "login:rejected-valid:" + format, fmt.Sprintf("%s was rejected although user %s exists, the password matches the stored %s credential and she holds %v (plaintext enabled=%v)", e, lname, format, u.perms, w.plaintext)
	}

	// what may change: only the named user's legacy credential, only on a
	// matching password (usable format), only into a bcrypt hash of the same
	// password (judged by invariants below).
	for _, side := range []struct {
		what     string
		pre, pst map[string]rec
	}{{"store", pre.store, post.store}, {"cache", pre.cache, post.cache}} {
		for name, b := range side.pre {
			a, ok := side.pst[name]
			if !ok || a.stored == b.stored {
				continue
			}

			matched := u != nil && name == lname && cand == u.pw && (formatOf(b.stored) != "plaintext" || w.plaintext)

			switch {
			case !matched:
				return post, "store:changed-by-non-matching-login", fmt.Sprintf("%s changed the %s credential of %s from %s to %s", e, side.what, name, describe(b.stored, w.users[name]), describe(a.stored, w.users[name]))
			case formatOf(b.stored) == "bcrypt":
				// a re-hash of a bcrypt credential is not forbidden; invariants judge the result
			case formatOf(a.stored) != "bcrypt":
				return post, "store:upgrade-not-bcrypt", fmt.Sprintf("%s rewrote the %s credential of %s as %s", e, side.what, name, describe(a.stored, w.users[name]))
			default:
				if side.what == "store" && !w.replaying {
					w.res.Migrations++
				}
			}
		}
	}

	if c, m := w.invariants(post); c != "" {
		return post, c, e.String() + ": " + m
	}

	return post, "", ""
}

func histText(h []Ev) string {
	p := make([]string, len(h))
	for i, e := range h {
		p[i] = e.String()
	}

	return strings.Join(p, "; ")
}

// rebuild = fresh instance + replay of an explored history (not re-judged).
func (w *world) rebuild(h []Ev) (obs, error) {
	w.res.Rebuilds++

	if err := w.fresh(); err != nil {
		return obs{}, err
	}

	o := w.observe()

	w.replaying = true

	for _, e := range h {
		o, _, _ = w.step(e, o)
	}

	w.replaying = false

	return o, nil
}

type node struct {
	hist []Ev
	key  string
}

func explore(c Config, tag string) *Result {
	w, err := newWorld(c, tag)
	if err != nil {
		return &Result{Config: c, Fatal: err.Error()}
	}

	res := w.res
	evs := alphabet(c)

	o0, err := w.rebuild(nil)
	if err != nil {
		res.Fatal = err.Error()

		return res
	}

	if cell, msg := w.invariants(o0); cell != "" {
		res.Fatal = "start state breaks the invariants: " + msg

		return res
	}

	k0 := w.key(o0)
	seen := map[string]bool{k0: true}
	res.Keys = append(res.Keys, k0)
	res.States = 1
	frontier := []node{{nil, k0}}

	for depth := 1; depth <= c.Depth && len(frontier) > 0; depth++ {
		var next []node

		for _, st := range frontier {
			cur, err := w.rebuild(st.hist)
			if err != nil {
				res.Fatal = err.Error()

				return res
			}

			if k := w.key(cur); k != st.key {
				res.Fatal = fmt.Sprintf("replay of %q is not deterministic: %s vs %s", histText(st.hist), k, st.key)

				return res
			}

			for _, e := range evs {
				post, cell, msg := w.step(e, cur)
				res.Transitions++

				h := append(append([]Ev(nil), st.hist...), e)

				if cell != "" {
					res.Violations = append(res.Violations, Viol{Cell: cell, Size: len(h), Witness: Witness{Config: c, History: h, Text: histText(h)}, Msg: msg})

					// the verdict is settled; a broken tree can make every step a
					// cost-12 hash, so do not keep exploring it for long
					if len(res.Violations) >= maxViolations {
						res.Stopped = true

						return finish(res)
					}
				}

				k := w.key(post)

				if cell == "" && k == st.key {
					cur = post // self-loop: the instance still is the state being expanded

					continue
				}

				if cell == "" && !seen[k] {
					seen[k] = true
					res.States++
					res.Keys = append(res.Keys, k)
					next = append(next, node{h, k})
				}

				if cur, err = w.rebuild(st.hist); err != nil {
					res.Fatal = err.Error()

					return res
				}
			}
		}

		res.Depth = depth
		frontier = next
	}

	res.Fixpoint = len(frontier) == 0

	return finish(res)
}

const maxViolations = 6

// finish keeps the result small: one violation per cell (the shortest).
func finish(res *Result) *Result {
	best := map[string]Viol{}
	count := map[string]int{}

	for _, v := range res.Violations {
		count[v.Cell]++

		if b, ok := best[v.Cell]; !ok || v.Size < b.Size {
			best[v.Cell] = v
		}
	}

	res.Violations = res.Violations[:0]

	cells := make([]string, 0, len(best))
	for cname := range best {
		cells = append(cells, cname)
	}

	sort.Strings(cells)

	for _, cname := range cells {
		res.Violations = append(res.Violations, best[cname])
	}

	return res
}

// replay re-runs one witness in this process.
func replay(wt Witness) []Viol {
	w, err := newWorld(wt.Config, "replay")
	if err != nil {
		fmt.Println("replay set-up failed:", err)
		os.Exit(2)
	}

	if err := w.fresh(); err != nil {
		fmt.Println("replay set-up failed:", err)
		os.Exit(2)
	}

	var out []Viol

	o := w.observe()
	fmt.Printf("  start: %s\n", w.key(o))

	for i, e := range wt.History {
		var cell, msg string

		o, cell, msg = w.step(e, o)
		fmt.Printf("  %d %-34s -> %s %s\n", i, e, w.key(o), cell)

		if cell != "" {
			out = append(out, Viol{Cell: cell, Size: i + 1, Witness: wt, Msg: msg})
		}
	}

	return out
}

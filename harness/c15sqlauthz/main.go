// C15: SQL endpoints authorize every table the statement touches. A
// non-administrator's statement sent to the @sql endpoint or to a transaction's
// "sql" task may execute only if the caller holds read permission on every
// table it reads, the matching insert/update/delete permission on every table
// it modifies, and DSN-administrator authority for a statement that changes the
// schema.
//
// Bounded-exhaustive with constructive ground truth: every statement of the
// shared generator (rt/sqlgen) knows which table it names in which role; the
// claim is confirmed against SQLite's own compilation of the text that would be
// executed (EXPLAIN: tables opened for reading/writing, schema cookie writes).
// For every confirmed (table, permission) the request is sent end to end through
// the real handlers as the one user who holds every grant EXCEPT that one: it
// must be refused with 403.
package main

import (
	"bufio"
	"bytes"
	"database/sql"
	"encoding/json"
	"fmt"
	"net/http"
	"net/http/httptest"
	"os"
	"os/exec"
	"path/filepath"
	"regexp"
	"runtime"
	"sort"
	"strings"
	"sync"

	"github.com/tucats/ego/internal/cli/settings"
	"github.com/tucats/ego/internal/defs"
	"github.com/tucats/ego/internal/dsns"
	"github.com/tucats/ego/internal/router"
	"github.com/tucats/ego/internal/server/tables"
	"github.com/tucats/ego/internal/server/tables/scripting"
	"github.com/tucats/ego/internal/sqlparse"
	"github.com/tucats/ego/internal/verifrt/report"
	"github.com/tucats/ego/internal/verifrt/sqlgen"

	_ "modernc.org/sqlite"
)

// the one run-dependent field of a response body
var elapsedRE = regexp.MustCompile(`"elapsed":"[^"]*"`)

var roles = []string{sqlgen.Read, sqlgen.Insert, sqlgen.Update, sqlgen.Delete}

// permission name of a role, as table_perms spells it.
var permOf = map[string]string{
	sqlgen.Read: defs.TableReadPermission, sqlgen.Insert: defs.TableWritePermission,
	sqlgen.Update: defs.TableUpdatePermission, sqlgen.Delete: defs.TableDeletePermission,
}

const (
	userFull    = "full"    // every table grant and DSN administrator
	userNoAdmin = "noadmin" // every table grant, DSN read/write only
)

// lacking is the user who holds every grant except role on table.
func lacking(table, role string) string {
	return "no_" + strings.NewReplacer(".", "_", " ", "_").Replace(table) + "_" + role
}

type need struct {
	Table  string `json:"table,omitempty"`
	Role   string `json:"role"` // read write update delete | dsn-admin
	Clause string `json:"clause"`
}

type witness struct {
	Key        string `json:"key"`
	SQL        string `json:"sql"`
	Kind       string `json:"kind"`
	Endpoint   string `json:"endpoint"`
	Executed   string `json:"text_the_endpoint_executes"`
	Missing    need   `json:"missing_permission"`
	User       string `json:"user"`
	Status     int    `json:"status"`
	FullStatus int    `json:"status_for_fully_granted_user"`
	Body       string `json:"response"`
	LexClass   string `json:"lex_class,omitempty"`
}

// worker owns one DSN (one data file) and one private reference database.
type worker struct {
	dsn      string
	dataFile string
	ref      *sql.DB
	roots    map[int]string // root page -> table
	views    map[string]bool
}

var (
	pristine   []byte
	scratch    string
	replayMode bool
)

func (w *worker) restore() {
	for _, suffix := range []string{"", "-wal", "-shm", "-journal"} {
		_ = os.Remove(w.dataFile + suffix)
	}

	if err := os.WriteFile(w.dataFile, pristine, 0o644); err != nil {
		report.Fatal("cannot restore %s: %v", w.dataFile, err)
	}
}

func buildDB(path string) error {
	_ = os.Remove(path)

	db, err := sql.Open("sqlite", path)
	if err != nil {
		return err
	}

	defer db.Close()

	for _, s := range sqlgen.Schema {
		if _, err := db.Exec(s); err != nil {
			return fmt.Errorf("%s: %v", s, err)
		}
	}

	return nil
}

func newWorker(i int) *worker {
	w := &worker{dsn: fmt.Sprintf("d%d", i), dataFile: filepath.Join(scratch, fmt.Sprintf("data%d.db", i)), roots: map[int]string{}, views: map[string]bool{}}
	w.restore()

	ref, err := sql.Open("sqlite", ":memory:")
	if err != nil {
		report.Fatal("%v", err)
	}

	ref.SetMaxOpenConns(1)

	for _, s := range sqlgen.Schema {
		if _, err := ref.Exec(s); err != nil {
			report.Fatal("reference schema: %s: %v", s, err)
		}
	}

	rows, err := ref.Query("SELECT type, tbl_name, rootpage FROM sqlite_master")
	if err != nil {
		report.Fatal("%v", err)
	}

	for rows.Next() {
		var (
			typ, tbl string
			root     int
		)

		_ = rows.Scan(&typ, &tbl, &root)

		if typ == "view" {
			w.views[tbl] = true
		} else if root > 1 {
			w.roots[root] = tbl
		}
	}

	_ = rows.Close()
	w.ref = ref

	return w
}

// truth is what SQLite's compiler says a text does.
type truth struct {
	ok     bool
	reads  map[string]bool
	writes map[string]bool
	schema bool // writes the schema cookie of the main database
}

func toInt(v any) int {
	switch x := v.(type) {
	case int64:
		return int(x)
	case string:
		n := 0
		fmt.Sscanf(x, "%d", &n)

		return n
	case []byte:
		n := 0
		fmt.Sscanf(string(x), "%d", &n)

		return n
	}

	return 0
}

func (w *worker) explain(q string) truth {
	t := truth{reads: map[string]bool{}, writes: map[string]bool{}}

	rows, err := w.ref.Query("EXPLAIN " + q)
	if err != nil {
		return t
	}

	defer rows.Close()

	for rows.Next() {
		var (
			addr, p1, p2, p3 int
			op               string
			p4, p5, comment  any
		)

		if err := rows.Scan(&addr, &op, &p1, &p2, &p3, &p4, &p5, &comment); err != nil {
			return t
		}

		switch op {
		case "OpenRead", "OpenWrite", "ReopenIdx":
			if p3 != 0 || toInt(p5)&0x10 != 0 {
				continue // temp database, or P2 is a register
			}

			if tbl, ok := w.roots[p2]; ok {
				if op == "OpenWrite" {
					t.writes[tbl] = true
				} else {
					t.reads[tbl] = true
				}
			}
		case "SetCookie":
			if p1 == 0 && p2 == 1 {
				t.schema = true
			}
		}
	}

	t.ok = rows.Err() == nil

	return t
}

func request(endpoint, dsn, user, text string) (int, string) {
	session := &router.Session{
		ID: 7, User: user, Admin: false,
		Permissions: []string{defs.LogonPermission, defs.SQLPermission},
		URLParts:    map[string]any{"dsn": dsn},
	}

	rec := httptest.NewRecorder()

	if endpoint == "sql" {
		body, _ := json.Marshal([]string{text})
		req, _ := http.NewRequest(http.MethodPost, "/dsns/"+dsn+"/tables/@sql", bytes.NewReader(body))

		return tables.SQLTransaction(session, rec, req), rec.Body.String()
	}

	body, _ := json.Marshal([]defs.TXOperation{{Opcode: "sql", SQL: text}})
	req, _ := http.NewRequest(http.MethodPost, "/dsns/"+dsn+"/tables/@transaction", bytes.NewReader(body))

	return scripting.Handler(session, rec, req), rec.Body.String()
}

type counters struct {
	mu                                                  sync.Mutex
	rejected, notExecutable, judged, needs, refusals    int64
	controlOK, controlDenied, controlOther, unconfirmed int64
	byKind                                              map[string]int64
	byRole                                              map[string]int64
	byClause                                            map[string]int64
}

// lexClass names the spelling class of a statement when that class, not the
// clause, is what a missed check would be about.
func lexClass(s sqlgen.Stmt) string {
	for _, t := range s.Tags {
		switch {
		case strings.HasPrefix(t, "dotname:"):
			return "quoted-dot-name"
		case strings.HasPrefix(t, "cteshadow:"):
			return "cte-name-equals-table"
		}
	}

	return ""
}

// judge runs one statement through both endpoints for every confirmed need.
func judge(r sink, w *worker, s sqlgen.Stmt, c *counters) {
	p, err := sqlparse.New(s.SQL, sqlparse.SQLite)
	if err != nil {
		c.mu.Lock()
		c.rejected++
		c.mu.Unlock()

		return
	}

	executed := map[string]string{"sql": p.Format(), "tx": s.SQL}
	claimed := map[string]bool{}

	for _, u := range s.Uses {
		claimed[u.Table] = true
	}

	judgedAny := false

	for _, ep := range []string{"sql", "tx"} {
		t := w.explain(executed[ep])
		if !t.ok {
			c.mu.Lock()
			c.notExecutable++
			c.mu.Unlock()

			continue
		}

		// The generator's claim must cover what SQLite opens (views expand to
		// their base table; DDL touches catalog tables and is exempt).
		if !s.Admin && !replayMode {
			for tbl := range mergeSets(t.reads, t.writes) {
				if !claimed[tbl] && !(tbl == "t3" && claimed["v1"]) {
					report.Fatal("generator under-claims: %q opens %s which it does not list (%v)", executed[ep], tbl, s.Uses)
				}
			}
		}

		var (
			needs []need
			seen  = map[string]bool{}
		)

		for _, u := range s.Uses {
			confirmed := false

			switch {
			case w.views[u.Table]:
				confirmed = u.Role == sqlgen.Read
			case u.Role == sqlgen.Read:
				confirmed = t.reads[u.Table]
			default:
				confirmed = t.writes[u.Table]
			}

			if !confirmed {
				c.mu.Lock()
				c.unconfirmed++
				c.mu.Unlock()

				continue
			}

			if k := u.Table + "|" + u.Role; !seen[k] {
				seen[k] = true
				needs = append(needs, need{Table: u.Table, Role: u.Role, Clause: u.Clause})
			}
		}

		if s.Admin && t.schema {
			needs = append(needs, need{Role: "dsn-admin", Clause: s.Kind})
		}

		if len(needs) == 0 {
			continue
		}

		judgedAny = true

		// Control (once per statement, on @sql): the fully granted user. Never
		// a verdict; it shows the statement really runs when nothing is withheld.
		fullStatus := 0

		if ep == "sql" {
			fullStatus, _ = request(ep, w.dsn, userFull, s.SQL)
			if s.Kind != "select" {
				w.restore()
			}

			c.mu.Lock()
			switch {
			case fullStatus == http.StatusOK:
				c.controlOK++
			case fullStatus == http.StatusForbidden:
				c.controlDenied++
			default:
				c.controlOther++
			}
			c.mu.Unlock()
		}

		for _, n := range needs {
			user := userNoAdmin
			if n.Role != "dsn-admin" {
				user = lacking(n.Table, n.Role)
			}

			status, body := request(ep, w.dsn, user, s.SQL)

			r.eval(ep + "|" + s.SQL + "|" + n.Table + "|" + n.Role)

			c.mu.Lock()
			c.needs++
			c.byRole[n.Role]++
			c.byClause[n.Clause]++
			c.mu.Unlock()

			if status == http.StatusForbidden {
				c.mu.Lock()
				c.refusals++
				c.mu.Unlock()

				continue
			}

			if s.Kind != "select" {
				w.restore()
			}

			cell := ep + ":" + n.Clause + ":" + n.Role + "-unchecked"
			switch lexClass(s) {
			case "quoted-dot-name":
				cell = ep + ":quoted-dot-name:checked-under-another-name"
			case "cte-name-equals-table":
				cell = ep + ":cte-name-equals-table:" + n.Role + "-unchecked"
			}

			body = elapsedRE.ReplaceAllString(body, `"elapsed":"-"`)
			if len(body) > 300 {
				body = body[:300] + "…"
			}

			what := "permission " + permOf[n.Role] + " on table " + n.Table
			if n.Role == "dsn-admin" {
				what = "DSN-administrator authority"
			}

			r.violation(cell, len(s.SQL), witness{
				Key: s.Key, SQL: s.SQL, Kind: s.Kind, Endpoint: ep, Executed: executed[ep], Missing: n, User: user,
				Status: status, FullStatus: fullStatus, Body: body, LexClass: lexClass(s),
			}, fmt.Sprintf("a caller without %s is not refused (status %d) although SQLite confirms the statement needs it (%s)", what, status, n.Clause))
		}
	}

	if judgedAny {
		c.mu.Lock()
		c.judged++
		c.byKind[s.Kind]++
		c.mu.Unlock()
	}
}

func mergeSets(a, b map[string]bool) map[string]bool {
	m := map[string]bool{}

	for k := range a {
		m[k] = true
	}

	for k := range b {
		m[k] = true
	}

	return m
}

func grant(user, dsn, table string, perms []string) {
	session := &router.Session{
		ID: 1, User: "admin", Admin: true,
		URLParts:   map[string]any{"dsn": dsn, "table": table},
		Parameters: map[string][]string{"user": {user}},
	}

	body, _ := json.Marshal(perms)
	req, _ := http.NewRequest(http.MethodPut, "/dsns/"+dsn+"/tables/"+table+"/permissions?user="+user, bytes.NewReader(body))
	rec := httptest.NewRecorder()

	if status := tables.GrantPermissions(session, rec, req); status != http.StatusOK {
		report.Fatal("grant %v on %s.%s to %s: status %d: %s", perms, dsn, table, user, status, rec.Body.String())
	}
}

// setup creates the DSN service, one restricted DSN per worker, the table_perms
// store and the users: "full", "noadmin" and one user per (table, role) that
// lacks exactly that grant.
func setup(n int) []*worker {
	svc, err := dsns.NewFileService("memory")
	if err != nil {
		report.Fatal("DSN service: %v", err)
	}

	dsns.DSNService = svc

	settings.Set(defs.LogonUserdataSetting, "sqlite://"+filepath.Join(scratch, "perms.db"))

	if err := buildDB(filepath.Join(scratch, "pristine.db")); err != nil {
		report.Fatal("pristine database: %v", err)
	}

	pristine, err = os.ReadFile(filepath.Join(scratch, "pristine.db"))
	if err != nil {
		report.Fatal("%v", err)
	}

	type grantJob struct {
		user, dsn, table string
		perms            []string
	}

	var (
		workers []*worker
		jobs    []grantJob
	)

	for i := 0; i < n; i++ {
		w := newWorker(i)
		workers = append(workers, w)

		if err := dsns.DSNService.WriteDSN(1, "admin", defs.DSN{Name: w.dsn, Provider: defs.SqliteProvider, Database: "file:" + w.dataFile + "?_pragma=synchronous(0)", Restricted: true}); err != nil {
			report.Fatal("write DSN: %v", err)
		}

		all := []string{defs.TableReadPermission, defs.TableWritePermission, defs.TableUpdatePermission, defs.TableDeletePermission}

		users := []string{userFull, userNoAdmin}
		for _, t := range sqlgen.Tables {
			for _, role := range roles {
				users = append(users, lacking(t, role))
			}
		}

		for _, u := range users {
			action := dsns.DSNReadAction | dsns.DSNWriteAction | dsns.DSNAdminAction
			if u == userNoAdmin {
				action = dsns.DSNReadAction | dsns.DSNWriteAction
			}

			if err := dsns.DSNService.GrantDSN(1, u, w.dsn, action, true); err != nil {
				report.Fatal("grant DSN: %v", err)
			}

			for _, t := range sqlgen.Tables {
				var perms []string

				for _, role := range roles {
					if u != lacking(t, role) {
						perms = append(perms, permOf[role])
					}
				}

				if len(perms) != len(all) && len(perms) != len(all)-1 {
					report.Fatal("internal: grant set of %s on %s", u, t)
				}

				jobs = append(jobs, grantJob{u, w.dsn, t, perms})
			}
		}
	}

	// Sequentially: the table_perms store is one SQLite file and concurrent
	// writers would only collide on its lock.
	for _, j := range jobs {
		grant(j.user, j.dsn, j.table, j.perms)
	}

	return workers
}

// tableDims are the SELECT clauses that can name a table.
var tableDims = map[string]bool{"with": true, "from": true, "where": true, "group": true, "compound": true}

// selected reports whether a statement belongs to this check's enumeration.
// Left out, because they add no table in any role: expression shapes without a
// subquery, SELECT skeletons that switch a clause which cannot name a table
// (DISTINCT, column list, ORDER BY, LIMIT), and in the quick tier the
// parenthesized duplicates of the expression shapes.
func selected(s sqlgen.Stmt, thorough bool) bool {
	switch s.Family {
	case "select":
		for _, opt := range strings.Split(strings.TrimPrefix(s.Key, "select:"), ",") {
			if opt != "" && !tableDims[strings.SplitN(opt, "=", 2)[0]] {
				return false
			}
		}

		return true
	case "expr":
		if !thorough && strings.Contains(s.Key, ":paren[") {
			return false
		}

		for _, u := range s.Uses {
			if u.Clause == "select.column" {
				return true
			}
		}

		return false
	}

	return true
}

// line is one record of the child -> parent protocol.
type line struct {
	T        string           `json:"t"` // v violation, d distinct key, c counters
	Cell     string           `json:"cell,omitempty"`
	Size     int              `json:"size,omitempty"`
	Witness  *witness         `json:"witness,omitempty"`
	Msg      string           `json:"msg,omitempty"`
	Key      string           `json:"k,omitempty"`
	Counters map[string]int64 `json:"counters,omitempty"`
	ByKind   map[string]int64 `json:"by_kind,omitempty"`
	ByRole   map[string]int64 `json:"by_role,omitempty"`
	ByClause map[string]int64 `json:"by_clause,omitempty"`
}

// sink receives what judge finds: the report itself (replay) or the pipe to
// the parent (worker process).
type sink interface {
	eval(distinctKey string)
	violation(cell string, size int, w witness, msg string)
}

type reportSink struct{ r *report.R }

func (s reportSink) eval(k string) { s.r.Eval(1); s.r.Distinct(k) }
func (s reportSink) violation(cell string, size int, w witness, msg string) {
	s.r.Violation(cell, size, w, msg)
}

type pipeSink struct{ enc *json.Encoder }

func (s pipeSink) eval(k string) { _ = s.enc.Encode(line{T: "d", Key: k}) }
func (s pipeSink) violation(cell string, size int, w witness, msg string) {
	_ = s.enc.Encode(line{T: "v", Cell: cell, Size: size, Witness: &w, Msg: msg})
}

func newCounters() *counters {
	return &counters{byKind: map[string]int64{}, byRole: map[string]int64{}, byClause: map[string]int64{}}
}

func level(thorough bool) sqlgen.Level {
	if thorough {
		return sqlgen.Level{ExprDepth: 2, Options: 3, DDLOptions: 2, PosTables: []string{"t2", "t3"}, PosNesting: true}
	}

	return sqlgen.Level{ExprDepth: 2, Options: 2, PosTables: []string{"t2"}}
}

// child judges the statements i, i+n, i+2n, ... in its own process: its own
// DSN service, table_perms store and data file under scratch/w<i>. One process
// per CPU because every request opens and closes a SQLite connection, and the
// memory mapping that entails serializes inside one address space.
func child(spec string) {
	var i, n int

	if _, err := fmt.Sscanf(spec, "%d/%d", &i, &n); err != nil || n < 1 {
		report.Fatal("bad worker spec %q", spec)
	}

	scratch = filepath.Join(os.Getenv("VERIF_SCRATCH"), fmt.Sprintf("w%d", i))
	if err := os.MkdirAll(scratch, 0o755); err != nil {
		report.Fatal("%v", err)
	}

	var stmts []sqlgen.Stmt

	b, err := os.ReadFile(filepath.Join(scratch, "statements.json"))
	if err == nil {
		err = json.Unmarshal(b, &stmts)
	}

	if err != nil {
		report.Fatal("worker %d: statements: %v", i, err)
	}

	w := setup(1)[0]
	c := newCounters()

	out := bufio.NewWriterSize(os.Stdout, 1<<20)
	sk := pipeSink{enc: json.NewEncoder(out)}

	for _, s := range stmts {
		judge(sk, w, s, c)
	}

	_ = sk.enc.Encode(line{T: "c", ByKind: c.byKind, ByRole: c.byRole, ByClause: c.byClause, Counters: map[string]int64{
		"rejected": c.rejected, "notExecutable": c.notExecutable, "judged": c.judged, "needs": c.needs, "refusals": c.refusals,
		"controlOK": c.controlOK, "controlDenied": c.controlDenied, "controlOther": c.controlOther, "unconfirmed": c.unconfirmed,
	}})

	_ = out.Flush()

	os.Exit(0)
}

func main() {
	if spec := os.Getenv("VERIF_C15_WORKER"); spec != "" {
		child(spec)
	}

	r := report.New("exploration")
	lv := level(r.Thorough())

	scratch = os.Getenv("VERIF_SCRATCH")
	if scratch == "" {
		report.Fatal("VERIF_SCRATCH is not set")
	}

	r.Rule(fmt.Sprintf("every statement of the rt/sqlgen grammar families (statement skeletons with at most %d clause options away from the default, for SELECT over the five clauses that can name a table; %d expression positions x %d subquery forms x tables %v; every expression shape to depth %d over %d forms that holds a subquery; %d CTE scoping shapes plus every position holding a WITH that reuses the name of a table the host touches; spellings) x every (table, permission) it needs by construction and by SQLite EXPLAIN of the text the endpoint executes x {@sql, transaction sql task}, each sent as the user holding every grant except that one; distinct = (endpoint, statement, table, permission)", lv.Options, sqlgen.NumPositions(), sqlgen.NumSubforms(), lv.PosTables, lv.ExprDepth, sqlgen.NumForms(), sqlgen.NumCTEShapes()))
	r.Assume(
		"a need is binding only if the generator placed the table in that role AND SQLite's compilation (EXPLAIN) of the text the endpoint executes opens the table that way (reformatted text for @sql, the client's text for the transaction task); a statement SQLite rejects cannot touch anything and is not judged",
		"reading through a view needs read on the view name only; the target of UPDATE/DELETE needs only the update/delete permission; CTE names need nothing; temp-schema DDL needs no DSN-administrator authority",
		"refused = HTTP 403 from the real handler; handlers are called in-process with a router.Session (no network, no authentication step); SQLite DSNs only; the DSN's connection string sets synchronous=OFF (speed only)",
	)

	if r.Replay != "" {
		var w witness
		if err := report.LoadReplay(r.Replay, &w); err != nil {
			report.Fatal("%v", err)
		}

		ws := setup(1)
		s := sqlgen.Stmt{SQL: w.SQL, Kind: w.Kind, Key: w.Key, Admin: w.Missing.Role == "dsn-admin"}

		if w.Missing.Role != "dsn-admin" {
			s.Uses = []sqlgen.Use{{Table: w.Missing.Table, Role: w.Missing.Role, Clause: w.Missing.Clause}}
		}

		switch w.LexClass {
		case "quoted-dot-name":
			s.Tags = []string{"dotname:replay"}
		case "cte-name-equals-table":
			s.Tags = []string{"cteshadow:replay"}
		}

		replayMode = true

		judge(reportSink{r}, ws[0], s, newCounters())
		r.Distinct("replay")
		r.Sample(w)
		r.Finish()
	}

	var stmts []sqlgen.Stmt

	for _, s := range sqlgen.Enumerate(lv) {
		if selected(s, r.Thorough()) {
			stmts = append(stmts, s)
		}
	}

	n := runtime.NumCPU()

	if v := os.Getenv("VERIF_C15_PROCS"); v != "" {
		fmt.Sscanf(v, "%d", &n)
	}

	type result struct {
		out []byte
		err error
	}

	results := make([]result, n)

	var wg sync.WaitGroup

	for i := 0; i < n; i++ {
		var part []sqlgen.Stmt

		for k := i; k < len(stmts); k += n {
			part = append(part, stmts[k])
		}

		dir := filepath.Join(scratch, fmt.Sprintf("w%d", i))
		_ = os.MkdirAll(dir, 0o755)

		b, _ := json.Marshal(part)
		if err := os.WriteFile(filepath.Join(dir, "statements.json"), b, 0o644); err != nil {
			report.Fatal("%v", err)
		}

		wg.Add(1)

		go func(i int) {
			defer wg.Done()

			cmd := exec.Command(os.Args[0])
			cmd.Env = append(os.Environ(), fmt.Sprintf("VERIF_C15_WORKER=%d/%d", i, n))
			cmd.Stderr = os.Stderr
			results[i].out, results[i].err = cmd.Output()
		}(i)
	}

	wg.Wait()

	total := map[string]int64{}
	byKind, byRole, byClause := map[string]int64{}, map[string]int64{}, map[string]int64{}

	for i, res := range results {
		if res.err != nil {
			fmt.Print(string(res.out))
			report.Fatal("worker %d: %v", i, res.err)
		}

		dec := json.NewDecoder(bytes.NewReader(res.out))

		for dec.More() {
			var l line
			if err := dec.Decode(&l); err != nil {
				report.Fatal("worker %d output: %v", i, err)
			}

			switch l.T {
			case "d":
				r.Eval(1)
				r.Distinct(l.Key)
			case "v":
				r.Violation(l.Cell, l.Size, *l.Witness, l.Msg)
			case "c":
				for k, v := range l.Counters {
					total[k] += v
				}

				for k, v := range l.ByKind {
					byKind[k] += v
				}

				for k, v := range l.ByRole {
					byRole[k] += v
				}

				for k, v := range l.ByClause {
					byClause[k] += v
				}
			}
		}
	}

	clauses := make([]string, 0, len(byClause))
	for k := range byClause {
		clauses = append(clauses, k)
	}

	sort.Strings(clauses)

	for i, s := range stmts {
		if i%977 == 7 {
			r.Sample(map[string]any{"key": s.Key, "sql": s.SQL, "uses": s.Uses, "admin": s.Admin})
		}
	}

	r.Set("statements", len(stmts))
	r.Set("worker_processes", n)
	r.Set("rejected_by_parser", total["rejected"])
	r.Set("statements_judged", total["judged"])
	r.Set("judged_by_kind", byKind)
	r.Set("needs_tested", total["needs"])
	r.Set("needs_by_role", byRole)
	r.Set("clauses_covered", clauses)
	r.Set("refused_as_required", total["refusals"])
	r.Set("claims_not_confirmed_by_sqlite", total["unconfirmed"])
	r.Set("endpoint_texts_sqlite_rejects", total["notExecutable"])
	r.Set("control_full_user_200", total["controlOK"])
	r.Set("control_full_user_403", total["controlDenied"])
	r.Set("control_full_user_other", total["controlOther"])
	r.Finish()
}

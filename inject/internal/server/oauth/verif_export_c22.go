//go:build verif

package oauth

import (
	"fmt"
	"sync"
	"time"
)

// VerifC22Reset returns the resource-server package to its pre-Initialize state.
func VerifC22Reset() {
	globalConfigMu.Lock()
	globalConfig = rsConfig{}
	jwksURL = ""
	globalConfigMu.Unlock()

	globalConfigOnce = sync.Once{}

	resetJWKSCache()
	setJWKSCacheTTL(0)
	resetMissRefresh()
	resetDiscoveryCache()
}

type verifC22Snap struct {
	cfg       rsConfig
	url       string
	keys      []publicKeyEntry
	fetchedAt time.Time
	ttl       time.Duration
	missLast  time.Time
	doc       *discoveryDoc
	docAt     time.Time
}

var verifC22Saved verifC22Snap

// VerifC22Snapshot records the package state a real Initialize() established.
func VerifC22Snapshot() {
	s := verifC22Snap{}

	globalConfigMu.RLock()
	s.cfg, s.url = globalConfig, jwksURL
	globalConfigMu.RUnlock()

	jwksCache.mu.RLock()
	s.keys = append([]publicKeyEntry(nil), jwksCache.keys...)
	s.fetchedAt, s.ttl = jwksCache.fetchedAt, jwksCache.ttl
	jwksCache.mu.RUnlock()

	missRefresh.mu.Lock()
	s.missLast = missRefresh.last
	missRefresh.mu.Unlock()

	discoveryCache.mu.RLock()
	s.doc, s.docAt = discoveryCache.doc, discoveryCache.fetchedAt
	discoveryCache.mu.RUnlock()

	verifC22Saved = s
}

// VerifC22Restore puts the recorded post-Initialize state back (a fresh
// instance of the resource server without repeating the network fetches and
// without starting another state-purge goroutine).
func VerifC22Restore() {
	s := verifC22Saved

	globalConfigMu.Lock()
	globalConfig, jwksURL = s.cfg, s.url
	globalConfigMu.Unlock()

	jwksCache.mu.Lock()
	jwksCache.keys = append([]publicKeyEntry(nil), s.keys...)
	jwksCache.fetchedAt, jwksCache.ttl = s.fetchedAt, s.ttl
	jwksCache.mu.Unlock()

	missRefresh.mu.Lock()
	missRefresh.last = s.missLast
	missRefresh.mu.Unlock()

	discoveryCache.mu.Lock()
	discoveryCache.doc, discoveryCache.fetchedAt = s.doc, s.docAt
	discoveryCache.mu.Unlock()
}

// VerifC22State renders the key-cache state canonically relative to now.
func VerifC22State(now time.Time) string {
	jwksCache.mu.RLock()
	n := len(jwksCache.keys)
	fresh := now.Sub(jwksCache.fetchedAt) < jwksCache.ttl
	ttl := jwksCache.ttl
	jwksCache.mu.RUnlock()

	missRefresh.mu.Lock()
	cool := now.Sub(missRefresh.last) < minMissRefreshInterval
	missRefresh.mu.Unlock()

	return fmt.Sprintf("jwks{keys=%d fresh=%v ttl=%v cooldown=%v}", n, fresh, ttl, cool)
}

// VerifC22Config exposes what Initialize resolved (for the harness's sanity checks).
func VerifC22Config() (provider, audience, jwks string, ttl time.Duration) {
	globalConfigMu.RLock()
	defer globalConfigMu.RUnlock()

	return globalConfig.Provider, globalConfig.Audience, jwksURL, globalConfig.JWKSCacheTTL
}

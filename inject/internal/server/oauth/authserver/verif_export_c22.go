//go:build verif

package authserver

import "crypto/ecdsa"

// VerifC22SigningKey returns the authorization server's signing key so a
// harness can mint access tokens the real RevokeHandler will parse.
func VerifC22SigningKey() *ecdsa.PrivateKey { return signingKey }

//go:build verif

package authserver

import (
	"path/filepath"
	"time"
)

// VerifSetup installs a signing key, a configuration and two public clients.
func VerifSetup(dir string) error {
	if err := loadOrGenerateKey(filepath.Join(dir, "as.pem")); err != nil {
		return err
	}

	asGlobalConfig = asConfig{Issuer: "https://ego.test", TokenExpiration: time.Hour}
	clients = []OAuthClient{
		{ClientID: "app", RedirectURIs: []string{"https://app/cb"}, GrantTypes: []string{"authorization_code", "refresh_token"}, Scopes: []string{"openid"}},
		{ClientID: "other", RedirectURIs: []string{"https://other/cb"}, GrantTypes: []string{"authorization_code", "refresh_token"}, Scopes: []string{"openid"}},
	}

	return nil
}

func VerifStoreCode(code string, p PendingAuthorization)           { storeCode(code, p) }
func VerifConsumeCode(code string) (PendingAuthorization, bool)    { return consumeCode(code) }
func VerifConsumeRefresh(tok string) (RefreshTokenData, bool)      { return consumeRefreshToken(tok) }
func VerifVerifyPKCE(p PendingAuthorization, verifier string) error { return verifyPKCE(p, verifier) }

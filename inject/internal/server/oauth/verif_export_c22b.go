//go:build verif

package oauth

import (
	"time"

	"github.com/tucats/ego/internal/caches"
)

// VerifJWTCacheDeadline returns until when the JWT result cache will answer for
// this token without parsing it again (the entry's Expires), if it is cached.
func VerifJWTCacheDeadline(tok string) (time.Time, bool) {
	v, ok := caches.VerifPeek(caches.OAuthJWTCache, tok)
	if !ok {
		return time.Time{}, false
	}

	e, ok := v.(*JWTCacheEntry)
	if !ok || e == nil {
		return time.Time{}, false
	}

	return e.Expires, true
}

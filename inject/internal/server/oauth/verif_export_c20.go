//go:build verif

package oauth

import "net/http"

// VerifC20SetIDPTransport makes every outbound call to the identity provider
// (discovery document, JWKS) go through rt instead of the network.
func VerifC20SetIDPTransport(rt http.RoundTripper) {
	idpClient = &http.Client{Transport: rt}
}

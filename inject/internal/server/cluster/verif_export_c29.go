//go:build verif

package cluster

import (
	"database/sql"

	"github.com/tucats/ego/internal/defs"
)

// VerifC29Node is one node's instance of this package's state (identity,
// membership-table handle, own member row). A C29 harness multiplexes the
// nodes of a simulated cluster in one process by entering the node that is
// about to run.
type VerifC29Node struct {
	Name     string
	ID       string
	DB       *sql.DB
	Provider string
	Member   defs.ClusterMember
}

// VerifC29Capture returns the package state as left by Initialize.
func VerifC29Capture() *VerifC29Node {
	return &VerifC29Node{Name: ClusterName, ID: NodeID, DB: systemDB, Provider: dbProvider, Member: ThisMember}
}

// VerifC29Enter makes n the package state (nil: a process that has not
// initialized clustering yet).
func VerifC29Enter(n *VerifC29Node) {
	if n == nil {
		n = &VerifC29Node{}
	}

	ClusterName = n.Name
	NodeID = n.ID
	systemDB = n.DB
	dbProvider = n.Provider
	ThisMember = n.Member
	defs.InstanceID = n.ID
}

// VerifC29Rejoin writes the node's member row as active with the real
// upsertMember (what Initialize does for a starting node).
func VerifC29Rejoin(n *VerifC29Node) error {
	m := n.Member
	m.State = ActiveState

	save := dbProvider
	dbProvider = n.Provider

	defer func() { dbProvider = save }()

	return upsertMember(n.DB, m)
}

// VerifC29WipeTable removes every row of the membership table.
func VerifC29WipeTable(db *sql.DB) error {
	_, err := db.Exec(`DELETE FROM cluster`)

	return err
}

// VerifC29Restore puts a node's row back to "active" with its original
// last_seen stamp (harness reset between histories; prepared once).
type VerifC29Stmts struct {
	restore *sql.Stmt
	table   *sql.Stmt
}

// VerifC29Prepare prepares the two harness statements on db.
func VerifC29Prepare(db *sql.DB) (*VerifC29Stmts, error) {
	var (
		s   VerifC29Stmts
		err error
	)

	if s.restore, err = db.Prepare(`UPDATE cluster SET state = 'active', last_seen = ? WHERE node_id = ?`); err != nil {
		return nil, err
	}

	if s.table, err = db.Prepare(`SELECT node_id, state FROM cluster`); err != nil {
		return nil, err
	}

	return &s, nil
}

// VerifC29Restore resets one node's row.
func (s *VerifC29Stmts) VerifC29Restore(n *VerifC29Node) error {
	res, err := s.restore.Exec(n.Member.LastSeen, n.ID)
	if err != nil {
		return err
	}

	if c, _ := res.RowsAffected(); c != 1 {
		return sql.ErrNoRows
	}

	return nil
}

// VerifC29Table returns node id -> state for the whole table.
func (s *VerifC29Stmts) VerifC29Table() (map[string]string, error) {
	rows, err := s.table.Query()
	if err != nil {
		return nil, err
	}

	defer rows.Close()

	out := map[string]string{}

	for rows.Next() {
		var id, st string
		if err := rows.Scan(&id, &st); err != nil {
			return nil, err
		}

		out[id] = st
	}

	return out, rows.Err()
}

// VerifC29MaxHops is the receiver's hop limit.
func VerifC29MaxHops() int { return maxFlushHops }

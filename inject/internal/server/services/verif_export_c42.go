//go:build verif

package services

// VerifReset empties the service cache (fresh-instance reset).
func VerifReset() {
	serviceCacheMutex.Lock()
	ServiceCache = map[string]*CachedCompilationUnit{}
	MaxCachedEntries = 20
	serviceCacheMutex.Unlock()
}

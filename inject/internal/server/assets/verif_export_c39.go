//go:build verif

package assets

// VerifC39Markdown is the handler's own Markdown renderer ("the documented
// Markdown rendering" of property C39), exported for the C39 oracle.
func VerifC39Markdown(md []byte) []byte { return mdToHTML(md) }

//go:build verif

package auth

import "database/sql"

// VerifC25DB returns the SQL handle of a database-backed user store (nil for
// the file store) so a harness can relax durability of its scratch database.
func VerifC25DB() *sql.DB {
	if d, ok := AuthService.(*databaseService); ok && d.userHandle != nil {
		return d.userHandle.Database
	}

	return nil
}

// VerifC25Backend names the concrete user store in use.
func VerifC25Backend() string {
	switch AuthService.(type) {
	case *databaseService:
		return "db"
	case *fileService:
		return "file"
	}

	return "other"
}

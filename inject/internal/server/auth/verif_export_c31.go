//go:build verif

package auth

import (
	"encoding/json"
	"fmt"
	"sort"

	"github.com/tucats/ego/internal/defs"
	"github.com/tucats/ego/internal/resources"
)

// VerifC31Service is the (unexported) service interface both user stores implement.
type VerifC31Service = userIOService

// VerifC31Use makes svc the package's active service (setPermission,
// GetPermission and GetPermissions go through the package variable).
func VerifC31Use(svc userIOService) { AuthService = svc }

// VerifC31SetPermission is setPermission on the active service.
func VerifC31SetPermission(session int, user, privilege string, enabled bool) error {
	return setPermission(session, user, privilege, enabled)
}

// VerifC31FileState renders the private state of a file service: the dirty
// flag and the in-memory map. A nil and an empty permission list are told
// apart here because setPermission reads the difference.
func VerifC31FileState(svc userIOService, mask func(defs.User) defs.User) string {
	f, ok := svc.(*fileService)
	if !ok {
		return fmt.Sprintf("not a file service: %T", svc)
	}

	f.lock.Lock()
	defer f.lock.Unlock()

	names := make([]string, 0, len(f.data))
	for k := range f.data {
		names = append(names, k)
	}

	sort.Strings(names)

	s := fmt.Sprintf("dirty=%v path=%v;", f.dirty, f.path != "")

	for _, k := range names {
		u := mask(f.data[k])
		b, _ := json.Marshal(u)
		s += fmt.Sprintf("%q=%s nilperm=%v;", k, b, u.Permissions == nil)
	}

	return s
}

// VerifC31DBHandle returns the resource handle of a database service.
func VerifC31DBHandle(svc userIOService) *resources.ResHandle {
	if d, ok := svc.(*databaseService); ok {
		return d.userHandle
	}

	return nil
}

//go:build verif

package io

import (
	goIO "io"

	"github.com/chzyer/readline"
)

// VerifC07SetConsole replaces the console reader ReadConsoleText reads from by
// a readline instance over the given input (not a terminal: no raw mode, no
// history file, prompts and echo discarded). With nil the reader is dropped
// and the next ReadConsoleText creates the default one again.
func VerifC07SetConsole(in goIO.ReadCloser) error {
	consoleLock.Lock()
	defer consoleLock.Unlock()

	if consoleReader != nil {
		_ = consoleReader.Close()
		consoleReader = nil
	}

	if in == nil {
		return nil
	}

	r, err := readline.NewEx(&readline.Config{
		Prompt:              "ego> ",
		Stdin:               in,
		Stdout:              goIO.Discard,
		Stderr:              goIO.Discard,
		HistoryLimit:        -1,
		FuncIsTerminal:      func() bool { return false },
		FuncMakeRaw:         func() error { return nil },
		FuncExitRaw:         func() error { return nil },
		FuncGetWidth:        func() int { return 200 },
		ForceUseInteractive: false,
	})
	if err != nil {
		return err
	}

	consoleReader = r

	return nil
}

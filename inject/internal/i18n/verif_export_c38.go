//go:build verif

package i18n

// VerifCatalog gives the C38 harness read access to the compiled message
// catalog (key -> language -> text). The harness never writes to it.
func VerifCatalog() map[string]map[string]string { return messages }

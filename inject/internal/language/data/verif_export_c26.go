//go:build verif

package data

// VerifMethodsC26 returns the receiver functions declared on a type (looking
// through a type definition and a pointer to its base), keyed by method name.
// Used by the C26 harness to enumerate the runtime surface.
func (t *Type) VerifMethodsC26() map[string]Function {
	out := map[string]Function{}

	for depth := 0; t != nil && depth < 4; depth++ {
		for k, v := range t.functions {
			if _, seen := out[k]; !seen {
				out[k] = v
			}
		}

		t = t.valueType
	}

	return out
}

//go:build verif

package tokens

// VerifResetBlacklist empties the revocation table (fresh-instance reset).
func VerifResetBlacklist() error {
	mutex.Lock()
	defer mutex.Unlock()

	if handle == nil {
		return nil
	}

	_, err := handle.Delete(nil)

	return err
}

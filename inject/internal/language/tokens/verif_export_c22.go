//go:build verif

package tokens

import "database/sql"

// VerifC22DB exposes the blacklist database handle (nil when disabled) so a
// harness can read the table directly and tune durability for speed.
func VerifC22DB() *sql.DB {
	mutex.Lock()
	defer mutex.Unlock()

	if handle == nil {
		return nil
	}

	return handle.Database
}

//go:build verif

package caches

import (
	"fmt"
	"sort"
	"time"
)

// VerifC22Reset returns the package to its start-up state WITHOUT background
// sweepers: every class is marked as already having a sweeper, so newCache
// never launches one; a sequential harness drives expiry itself by advancing
// the manual clock and calling VerifC22SweepAll (the body of the sweeper loop).
func VerifC22Reset() {
	cacheLock.Lock()
	defer cacheLock.Unlock()

	cacheList = map[int]Cache{}
	expirationThreadRunning = map[int]bool{}

	for id := range cacheClass {
		expirationThreadRunning[id] = true
	}

	active = true
	OnPurge = nil
	onEvict = nil
	expireTime = "60s"
	scanTime = "60s"
	MaxCacheSize = 1000
}

// VerifC22SweepAll runs one expiry sweep (the real sweepExpired) of every
// existing cache class, in class order. A class without a cache record is
// skipped so the "sweeper running" flag stays set.
func VerifC22SweepAll() {
	cacheLock.Lock()

	ids := make([]int, 0, len(cacheList))
	for id := range cacheList {
		ids = append(ids, id)
	}

	cacheLock.Unlock()
	sort.Ints(ids)

	for _, id := range ids {
		sweepExpired(id)
	}
}

// VerifC22Expiration reports the configured lifetime of a class (0,false when
// the class has no cache record yet).
func VerifC22Expiration(id int) (time.Duration, bool) {
	cacheLock.Lock()
	defer cacheLock.Unlock()

	c, ok := cacheList[id]

	return c.Expiration, ok
}

// VerifC22Dump renders one class canonically: sorted "key-label@seconds-left"
// with the label chosen by the caller (keys can be long random strings).
func VerifC22Dump(id int, now time.Time, label func(key, value any) string) string {
	cacheLock.Lock()
	defer cacheLock.Unlock()

	c, ok := cacheList[id]
	if !ok {
		return "-"
	}

	items := make([]string, 0, len(c.Items))
	for k, it := range c.Items {
		items = append(items, fmt.Sprintf("%s@%d", label(k, it.Data), int64(it.Expires.Sub(now)/time.Second)))
	}

	sort.Strings(items)

	return fmt.Sprintf("exp=%v%v", c.Expiration, items)
}

// VerifC22Has reports whether key is present in the class (no renewal).
func VerifC22Has(id int, key any) bool {
	cacheLock.Lock()
	defer cacheLock.Unlock()

	c, ok := cacheList[id]
	if !ok {
		return false
	}

	_, ok = c.Items[key]

	return ok
}

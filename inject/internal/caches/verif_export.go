//go:build verif

package caches

import (
	"fmt"
	"sort"
	"time"
)

// VerifReset returns the package to its start-up state.
func VerifReset(limit int) {
	cacheList = map[int]Cache{}
	expirationThreadRunning = map[int]bool{}
	active = true
	OnPurge = nil
	onEvict = nil
	expireTime = "60s"
	scanTime = "60s"

	if limit > 0 {
		MaxCacheSize = limit
	} else {
		MaxCacheSize = 1000
	}
}

// VerifSweep runs one expiry sweep of a cache class.
func VerifSweep(id int) bool { return sweepExpired(id) }

// VerifDump renders the private state canonically; expiry times are relative to now.
func VerifDump(now time.Time) string {
	ids := make([]int, 0, len(cacheList))
	for id := range cacheList {
		ids = append(ids, id)
	}

	sort.Ints(ids)

	s := fmt.Sprintf("active=%v;", active)

	for _, id := range ids {
		c := cacheList[id]
		keys := make([]string, 0, len(c.Items))

		for k, it := range c.Items {
			keys = append(keys, fmt.Sprintf("%v=%v@%d", k, it.Data, int64(it.Expires.Sub(now)/time.Second)))
		}

		sort.Strings(keys)
		s += fmt.Sprintf("[%d exp=%v max=%d sweeper=%v %v]", id, c.Expiration, c.MaxSize, expirationThreadRunning[id], keys)
	}

	return s
}

// VerifHas reports whether the class currently has a cache record.
func VerifHas(id int) bool {
	_, ok := cacheList[id]

	return ok
}

// VerifClear empties every cache under the lock (free-running race pass: old
// sweepers may still be alive, so nothing they read is written here).
func VerifClear(limit int) {
	cacheLock.Lock()
	defer cacheLock.Unlock()

	cacheList = map[int]Cache{}
	MaxCacheSize = limit
}

//go:build verif

package caches

import (
	"fmt"
	"os"
	"sort"
)

// In a C29 process no cache ever gets a background sweeper: packages that
// configure a cache from their init function (server/admin) would otherwise
// launch one as a plain goroutine before main, and a minute later it would
// enter the woven locks from outside the controlled scheduler. This package
// is initialized before any package that imports it. Other checks that mount
// this file are not affected (the guard is the harness's own VERIF_ID).
func init() {
	if os.Getenv("VERIF_ID") == "C29" {
		for id := range cacheClass {
			expirationThreadRunning[id] = true
		}
	}
}

// VerifC29State is one node's instance of this package's state: a C29 harness
// multiplexes the nodes of a simulated cluster in one process by loading the
// state of the node that is about to run and saving it back afterwards.
type VerifC29State struct {
	list    map[int]Cache
	running map[int]bool
	active  bool
	onPurge func(int)
}

// VerifC29New returns the start-up state of a node. No background sweeper is
// ever launched for it (every known class is marked as already having one):
// expiry is not part of the cluster-invalidation property and the clock of a
// C29 history never moves.
func VerifC29New() *VerifC29State {
	s := &VerifC29State{list: map[int]Cache{}, running: map[int]bool{}, active: true}

	for id := range cacheClass {
		s.running[id] = true
	}

	return s
}

// VerifC29Load makes s the package state. No lock is taken: a C29 history has
// one running thread at a time and none of them is inside this package when a
// node switch happens.
func VerifC29Load(s *VerifC29State) {
	cacheList = s.list
	expirationThreadRunning = s.running
	active = s.active
	OnPurge = s.onPurge
}

// VerifC29Save stores the package state into s.
func VerifC29Save(s *VerifC29State) {
	s.list = cacheList
	s.running = expirationThreadRunning
	s.active = active
	s.onPurge = OnPurge
}

// VerifC29Wipe empties a node's caches but keeps its purge hook (what a
// restart of the same cluster node amounts to).
func (s *VerifC29State) VerifC29Wipe() {
	s.list = map[int]Cache{}
	s.active = true
}

// VerifC29Hooked reports whether the node has a purge hook installed.
func (s *VerifC29State) VerifC29Hooked() bool { return s.onPurge != nil }

// VerifC29Dump renders the node's caches canonically: per class with a cache
// record, the sorted keys (values and expiry times are not part of C29).
func (s *VerifC29State) VerifC29Dump() string {
	ids := make([]int, 0, len(s.list))
	for id := range s.list {
		ids = append(ids, id)
	}

	sort.Ints(ids)

	out := ""
	if !s.active {
		out = "off"
	}

	for _, id := range ids {
		keys := make([]string, 0, len(s.list[id].Items))
		for k := range s.list[id].Items {
			keys = append(keys, fmt.Sprint(k))
		}

		sort.Strings(keys)
		out += fmt.Sprintf("%d%v", id, keys)
	}

	return out
}

// VerifC29Count returns the number of items of a class in the node's state
// (-1 when the class has no cache record).
func (s *VerifC29State) VerifC29Count(id int) int {
	c, ok := s.list[id]
	if !ok {
		return -1
	}

	return len(c.Items)
}

//go:build verif

package caches

// VerifPeek reads a cache entry without renewing its lifetime.
func VerifPeek(id int, key any) (any, bool) {
	cacheLock.Lock()
	defer cacheLock.Unlock()

	if c, ok := cacheList[id]; ok {
		if it, ok := c.Items[key]; ok {
			return it.Data, true
		}
	}

	return nil, false
}

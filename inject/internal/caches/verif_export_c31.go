//go:build verif

package caches

// VerifC31Items returns the keys and values currently held by one cache class.
func VerifC31Items(id int) map[any]any {
	cacheLock.Lock()
	defer cacheLock.Unlock()

	out := map[any]any{}

	if c, ok := cacheList[id]; ok {
		for k, it := range c.Items {
			out[k] = it.Data
		}
	}

	return out
}

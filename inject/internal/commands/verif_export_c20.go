//go:build verif

package commands

import (
	"os"
	"path/filepath"

	"github.com/tucats/ego/internal/router"
)

// VerifC20ServerRouter builds the server's actual route table the way
// RunServer does (static routes, the services found under lib/services, the
// native admin, cluster and OAuth handlers, the redirects) and returns the
// router. Nothing is started; no listener is opened.
func VerifC20ServerRouter() (*router.Router, error) {
	router.ServerRouter = nil
	router.PathRoot = filepath.Join(os.Getenv("EGO_PATH"), "lib")

	return setupServerRouter(nil, "")
}

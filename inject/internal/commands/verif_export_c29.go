//go:build verif

package commands

import (
	"os"
	"path/filepath"

	"github.com/tucats/ego/internal/router"
)

// VerifC29ServerRouter builds the server's actual route table the way
// RunServer does (static routes, the services found under lib/services, the
// native admin and cluster handlers, the redirects). Nothing is started; no
// listener is opened.
func VerifC29ServerRouter() (*router.Router, error) {
	router.ServerRouter = nil
	router.PathRoot = filepath.Join(os.Getenv("EGO_PATH"), "lib")

	return setupServerRouter(nil, "")
}

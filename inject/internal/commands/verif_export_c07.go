//go:build verif

package commands

import (
	"strings"

	"github.com/tucats/ego/internal/cli/cli"
	"github.com/tucats/ego/internal/cli/settings"
	"github.com/tucats/ego/internal/defs"
	"github.com/tucats/ego/internal/language/compiler"
)

// VerifC07RunSource runs a program text the way RunAction runs a file named on
// the command line, from the point where the file has been read: the same
// loadFile text preparation (shebang removal, "@entrypoint main"), the same
// initializeSymbols, session.run (compiler set-up, auto-import, runLoop,
// compileAndRun, runCompiledCode). The process-wide preparation RunAction does
// first (prepareRuntime, profile defaults) must have happened once before, by
// a real `ego run` through app.Run in the same process. sandbox has the
// meaning of --sandbox=<bool>.
func VerifC07RunSource(text string, name string, sandbox bool) (int, error) {
	c := &cli.Context{}
	sb := sandbox

	session := &runSession{
		prompt:         "ego> ",
		wasCommandLine: true,
		extensions:     settings.GetBool(defs.ExtensionsEnabledSetting),
		entryPoint:     defs.Main,
		text:           removeShebang(text) + "\n@entrypoint " + defs.Main,
		mainName:       name,
		sandbox:        &sb,
	}

	compiler.DebugMode = false

	staticTypes := configureTypeCompliance(c)

	session.symbolTable = initializeSymbols(c, session.mainName, make([]any, 0), staticTypes, session.interactive)
	session.symbolTable.Root().SetAlways(defs.MainVariable, defs.Main)
	session.symbolTable.Root().SetAlways(defs.ExtensionsVariable, session.extensions)
	session.symbolTable.Root().SetAlways(defs.UserCodeRunningVariable, true)

	return session.run(c)
}

// VerifC07RunConsole runs an interactive console session the way RunAction does
// when no file is named and the standard input is a terminal: empty first
// text, interactive, not a command line program; every further statement is
// read through io.ReadConsoleText (whose reader the harness has replaced, see
// runtime/io VerifC07SetConsole) until the input ends.
func VerifC07RunConsole(sandbox bool) (int, error) {
	c := &cli.Context{}
	sb := sandbox

	session := &runSession{
		prompt:         "ego> ",
		wasCommandLine: false,
		interactive:    true,
		extensions:     settings.GetBool(defs.ExtensionsEnabledSetting),
		entryPoint:     defs.Main,
		text:           "",
		sandbox:        &sb,
	}

	compiler.DebugMode = false

	settings.SetDefault(defs.AllowFunctionRedefinitionSetting, "true")

	staticTypes := configureTypeCompliance(c)

	session.symbolTable = initializeSymbols(c, session.mainName, make([]any, 0), staticTypes, session.interactive)
	session.symbolTable.Root().SetAlways(defs.MainVariable, defs.Main)
	session.symbolTable.Root().SetAlways(defs.ExtensionsVariable, session.extensions)
	session.symbolTable.Root().SetAlways(defs.UserCodeRunningVariable, true)

	return session.run(c)
}

// VerifC07RunPiped runs a program text the way RunAction does when no file is
// named and the standard input is a pipe (readPipedSource): line endings
// normalized, final newline guaranteed, entry point directive appended only
// when the text declares func main (declaresFunction), interactive and
// command-line at once.
func VerifC07RunPiped(text string, sandbox bool) (int, error) {
	c := &cli.Context{}
	sb := sandbox

	session := &runSession{
		prompt:         "ego> ",
		wasCommandLine: true,
		interactive:    true,
		extensions:     settings.GetBool(defs.ExtensionsEnabledSetting),
		entryPoint:     defs.Main,
		mainName:       stdinSourceName,
		sandbox:        &sb,
	}

	text = normalizeLineEndings(text)
	if text != "" && !strings.HasSuffix(text, "\n") {
		text += "\n"
	}

	session.text = session.entryPointForPipedSource(text)

	compiler.DebugMode = false

	staticTypes := configureTypeCompliance(c)

	session.symbolTable = initializeSymbols(c, session.mainName, make([]any, 0), staticTypes, session.interactive)
	session.symbolTable.Root().SetAlways(defs.MainVariable, defs.Main)
	session.symbolTable.Root().SetAlways(defs.ExtensionsVariable, session.extensions)
	session.symbolTable.Root().SetAlways(defs.UserCodeRunningVariable, true)

	return session.run(c)
}

//go:build verif

package commands

import (
	"os"
	"path/filepath"

	"github.com/tucats/ego/internal/router"
)

// VerifC32ServerRoutes builds the server's actual route table the way
// RunServer does (static routes, the services found under lib/services, the
// native admin handlers, the redirects) and returns its (endpoint, method)
// pairs. Nothing is started; no listener is opened.
func VerifC32ServerRoutes() ([][2]string, error) {
	router.ServerRouter = nil
	router.PathRoot = filepath.Join(os.Getenv("EGO_PATH"), "lib")

	r, err := setupServerRouter(nil, "")
	if err != nil {
		return nil, err
	}

	var out [][2]string

	for _, rt := range router.VerifC32Routes(r) {
		out = append(out, [2]string{rt.VerifC32Endpoint(), rt.VerifC32Method()})
	}

	return out, nil
}

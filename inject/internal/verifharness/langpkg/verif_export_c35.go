//go:build verif

package langpkg

import "fmt"

// Exports of tools/lang (the localization compiler, re-homed as an importable
// package) for the C35 harness. Nothing here changes behaviour.

// VerifCompileFile runs the real compileFile on one message file and returns
// the key -> message table it builds for that file's language. The compiler
// reports malformed input by panicking; that is returned as failed.
func VerifCompileFile(filename string) (table map[string]string, failed string) {
	if md5Digest == nil {
		initDigest()
	}

	messages := map[string]map[string]string{}

	defer func() {
		if r := recover(); r != nil {
			table, failed = nil, fmt.Sprint(r)
		}
	}()

	compileFile(filename, "xx", messages)

	table = map[string]string{}

	for key, byLang := range messages {
		if m, ok := byLang["xx"]; ok {
			table[key] = m
		}
	}

	return table, ""
}

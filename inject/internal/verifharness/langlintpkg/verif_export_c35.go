//go:build verif

package langlintpkg

// Exports of tools/langlint (re-homed as an importable package) for the C35
// and C36 harnesses. Nothing here changes behaviour.

// VerifLintFile runs the real lintFile (what `langlint <file>` does per file).
func VerifLintFile(path string, checkOnly bool) (changed bool, warnings []string, err error) {
	r, err := lintFile(path, checkOnly)

	return r.changed, r.warnings, err
}

// VerifRewriteFile runs the real rewriteFile.
func VerifRewriteFile(path string, content []byte) error { return rewriteFile(path, content) }

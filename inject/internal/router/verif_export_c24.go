//go:build verif

package router

import (
	"fmt"
	"sort"
	"sync"
	"time"
)

// VerifResetRateLimit returns the login-attempt tracker to its start-up state
// (including the once-only start of the pruning goroutine).
func VerifResetRateLimit() {
	loginAttemptsMu.Lock()
	loginAttempts = map[string]*loginRecord{}
	loginAttemptsMu.Unlock()

	scanOnce = sync.Once{}
}

// VerifDumpRateLimit renders the tracker canonically, times relative to now.
func VerifDumpRateLimit(now time.Time) string {
	loginAttemptsMu.Lock()
	defer loginAttemptsMu.Unlock()

	var out []string

	for u, r := range loginAttempts {
		locked := int64(r.lockedUntil.Sub(now) / time.Second)
		if locked < 0 {
			locked = -1
		}

		out = append(out, fmt.Sprintf("%s:%d:%d:%d", u, r.failures, int64(now.Sub(r.lastFailure)/time.Second), locked))
	}

	sort.Strings(out)

	return fmt.Sprint(out)
}

//go:build verif

package router

import "time"

// Exports for the C40 check (no request can crash a handler). Nothing in this
// file is used by the package itself.

// VerifC40Reset forgets the per-address request history of the WebAuthn
// ceremony limiter, so that the eleventh ceremony request of a run is treated
// like the first one (a verdict never depends on how many cases ran before).
func VerifC40Reset() {
	webAuthnLimiter.mu.Lock()
	webAuthnLimiter.windows = make(map[string][]time.Time)
	webAuthnLimiter.mu.Unlock()
}

// VerifC40ShutdownRequested reports whether a handler asked for the process to
// stop (RequestShutdown takes ServerShutdownLock and never releases it).
func VerifC40ShutdownRequested() bool {
	if ServerShutdownLock.TryLock() {
		ServerShutdownLock.Unlock()

		return false
	}

	return true
}

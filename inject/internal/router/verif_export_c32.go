//go:build verif

package router

// Exports for the C32 check (route resolution is deterministic and most
// specific). FindRoute ranges over a Go map; the C32 harness rewrites that one
// range expression (`m.routes` -> `verifC32Range(m)`, nothing else) in a copy
// of router.go at check time, so that the iteration order of the route table
// is chosen by the harness instead of by the Go runtime. Without the rewrite
// nothing in this file is used by the package itself.

import (
	"iter"
	"sort"
	"sync/atomic"

	"github.com/tucats/ego/internal/verifrt/vsched"
)

var (
	verifC32Router *Router
	verifC32Order  []*Route

	// VerifC32RangeCalls counts how often the rewritten range ran; the harness
	// uses it to prove that the rewrite is live in the binary it drives. It is
	// bumped atomically because the concurrent part of the check runs lookups
	// on real goroutines under the race detector.
	VerifC32RangeCalls int64
)

// VerifC32SetOrder fixes the iteration order of m's route table for the
// following FindRoute calls. order must be a permutation of the routes of m.
func VerifC32SetOrder(m *Router, order []*Route) {
	if len(order) != len(m.routes) {
		panic("verif c32: order is not a permutation of the route table (length)")
	}

	seen := make(map[*Route]bool, len(order))

	for _, r := range order {
		if r == nil || seen[r] || m.routes[routeSelector{endpoint: r.endpoint, method: r.method}] != r {
			panic("verif c32: order is not a permutation of the route table")
		}

		seen[r] = true
	}

	verifC32Router, verifC32Order = m, order
}

// VerifC32SetOrderUnchecked is VerifC32SetOrder without the permutation check,
// for inner loops that permute one validated slice in place.
func VerifC32SetOrderUnchecked(m *Router, order []*Route) {
	verifC32Router, verifC32Order = m, order
}

// VerifC32Routes lists the routes of m sorted by endpoint, then method.
func VerifC32Routes(m *Router) []*Route {
	out := make([]*Route, 0, len(m.routes))
	for _, r := range m.routes {
		out = append(out, r)
	}

	sort.Slice(out, func(i, j int) bool {
		if out[i].endpoint != out[j].endpoint {
			return out[i].endpoint < out[j].endpoint
		}

		return out[i].method < out[j].method
	})

	return out
}

// VerifC32Endpoint and VerifC32Method expose the identity of a route.
func (r *Route) VerifC32Endpoint() string { return r.endpoint }
func (r *Route) VerifC32Method() string   { return r.method }

// verifC32Range replaces `range m.routes` in the rewritten FindRoute: the
// order set by the harness if one is set for this router, otherwise sorted.
//
// It is also the scheduling seam of the concurrent part of the check: under
// the controlled scheduler (verifrt/vsched) there is a scheduling point before
// every route is handed to the loop body and one after the last, i.e. between
// any two appends to the candidate list and between collection and selection.
// Outside a controlled execution vsched.Yield does nothing.
func verifC32Range(m *Router) iter.Seq2[routeSelector, *Route] {
	return func(yield func(routeSelector, *Route) bool) {
		atomic.AddInt64(&VerifC32RangeCalls, 1)

		order := verifC32Order
		if verifC32Router != m || len(order) != len(m.routes) {
			order = VerifC32Routes(m)
		}

		for _, r := range order {
			vsched.Yield()

			if !yield(routeSelector{endpoint: r.endpoint, method: r.method}, r) {
				return
			}
		}

		vsched.Yield()
	}
}

//go:build verif

package router

// Exports for the C20 check (routes run only for authorized requests) and the
// C44 check (stored secrets never appear in responses). Nothing in this file
// is used by the package itself.

import "sort"

// VerifC20Flags is a copy of what a Route object declares: the requirements
// the gate in ServeHTTP has to enforce, and what a request must look like to
// get past the other pre-handler checks (media types, parameters).
type VerifC20Flags struct {
	Endpoint            string            `json:"endpoint"`
	Method              string            `json:"method"`
	Filename            string            `json:"filename,omitempty"`
	Redirect            string            `json:"redirect,omitempty"`
	MustAuthenticate    bool              `json:"must_authenticate"`
	CanAuthenticate     bool              `json:"can_authenticate"`
	Lightweight         bool              `json:"lightweight"`
	CheckCredentials    bool              `json:"check_credentials"`
	AllowRedirects      bool              `json:"allow_redirects"`
	HasPermissions      bool              `json:"has_permissions"`
	RequiredPermissions []string          `json:"required_permissions"`
	AcceptMedia         []string          `json:"accept_media,omitempty"`
	ContentMedia        []string          `json:"content_media,omitempty"`
	Validations         []string          `json:"validations,omitempty"`
	Parameters          map[string]string `json:"parameters,omitempty"`
	HasHandler          bool              `json:"has_handler"`
}

// VerifC20Flags reads the declaration held by the route object.
func (r *Route) VerifC20Flags() VerifC20Flags {
	f := VerifC20Flags{
		Endpoint: r.endpoint, Method: r.method, Filename: r.filename, Redirect: r.redirect,
		MustAuthenticate: r.mustAuthenticate, CanAuthenticate: r.canAuthenticate, Lightweight: r.lightweight,
		CheckCredentials: r.checkCredentials, AllowRedirects: r.allowRedirects,
		HasPermissions:      r.requiredPermissions != nil,
		RequiredPermissions: append([]string{}, r.requiredPermissions...),
		AcceptMedia:         append([]string(nil), r.acceptMediaTypes...),
		ContentMedia:        append([]string(nil), r.contentMediaTypes...),
		Validations:         append([]string(nil), r.validations...),
		HasHandler:          r.handler != nil,
	}

	if len(r.parameters) > 0 {
		f.Parameters = map[string]string{}
		for k, v := range r.parameters {
			f.Parameters[k] = v
		}
	}

	return f
}

// VerifC20SetHandler replaces the handler of a route (by an observing one).
// It returns the handler that was there.
func (r *Route) VerifC20SetHandler(fn HandlerFunc) HandlerFunc {
	old := r.handler
	r.handler = fn

	return old
}

// VerifC20Routes lists the routes of m sorted by endpoint, then method.
func VerifC20Routes(m *Router) []*Route {
	out := make([]*Route, 0, len(m.routes))
	for _, r := range m.routes {
		out = append(out, r)
	}

	sort.Slice(out, func(i, j int) bool {
		if out[i].endpoint != out[j].endpoint {
			return out[i].endpoint < out[j].endpoint
		}

		return out[i].method < out[j].method
	})

	return out
}

// VerifC20ResetLogins forgets every recorded failed login (the lock-out
// state), so that one case cannot lock a user out for the next one.
func VerifC20ResetLogins() {
	loginAttemptsMu.Lock()
	loginAttempts = map[string]*loginRecord{}
	loginAttemptsMu.Unlock()
}

#!/bin/bash
# usage: tools/accept.sh ID... ; runs each quick check, validates exit 0 + evidence schema; prints ACCEPT/REJECT
for id in "$@"; do
  s=$(date +%s)
  VERIF_TIMEOUT=1500s timeout 1700 /verif/bin/vcheck $id quick > /dev/shm/triage/$id.out 2>&1; rc=$?
  e=$(( $(date +%s) - s ))
  v=$(python3-vt -c "import json,jsonschema,sys; jsonschema.validate(json.load(open('/verif/evidence/$id.json')), json.load(open('/root/.vp/EVIDENCE.schema.json'))); print('evidence-ok')" 2>&1 | tail -1)
  if [ $rc -eq 0 ] && [ "$v" = "evidence-ok" ] && ! grep -q '^VIOLATION' /dev/shm/triage/$id.out; then echo "ACCEPT $id ${e}s $(grep -c '^KNOWN-FINDING' /dev/shm/triage/$id.out) known"; else echo "REJECT $id rc=$rc ${e}s $v"; fi
done

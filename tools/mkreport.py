#!/usr/bin/env python3
"""Writes the detection table (which check catches which deliberate change) into
DESIGN.md between the DETECTION markers, from selftest.log, mutations/ and
seeded/*/meta.json."""
import json, os, re, glob
root = os.path.dirname(os.path.dirname(os.path.abspath(__file__)))
res = {}
if os.path.exists(f"{root}/selftest.log"):
    for l in open(f"{root}/selftest.log"):
        m = re.match(r"(DETECTED|MISSED|SKIPPED)\s+(\S+)\s+(\S+)", l)
        if m: res[m.group(3)] = m.group(1)
rows = []
for p in sorted(glob.glob(f"{root}/mutations/*.patch")):
    rel = os.path.relpath(p, root); pid = os.path.basename(p).split("-")[0]
    slug = os.path.basename(p)[len(pid)+1:-6].replace("-", " ")
    rows.append((pid, "builder", slug, res.get(rel, "not run")))
for d in sorted(glob.glob(f"{root}/seeded/*/")):
    pid = os.path.basename(d.rstrip("/"))
    try: m = json.load(open(d + "meta.json"))
    except Exception: continue
    hist = m.get("check_history", [])
    st = "DETECTED" if m.get("detected_by_check") else "MISSED"
    if hist and not hist[0].get("detected") and m.get("detected_by_check"):
        st = "DETECTED after strengthening (" + (hist[-1].get("note") or "") + ")"
    rel = os.path.relpath(d + "patch.diff", root)
    if rel in res and res[rel] != "DETECTED" and m.get("detected_by_check"): st += " [selftest: " + res[rel] + "]"
    rows.append((pid, "independent sub-agent", (m.get("summary") or "")[:160].replace("|", "/").replace("\n", " "), st))
rows.sort()
out = ["| property | written by | change | outcome of the registered quick check |", "|---|---|---|---|"]
out += [f"| {a} | {b} | {c} | {d} |" for a, b, c, d in rows]
n = len(rows); det = sum(1 for r in rows if r[3].startswith("DETECTED"))
out.append(f"\n{det} of {n} changes detected; the rest are discussed below the table.")
s = open(f"{root}/DESIGN.md").read()
b, e = "<!-- DETECTION-TABLE-BEGIN -->", "<!-- DETECTION-TABLE-END -->"
block = b + "\n" + "\n".join(out) + "\n" + e
if b in s: s = s[:s.index(b)] + block + s[s.index(e)+len(e):]
else: s += "\n" + block + "\n"
# fixed / known tables from known_findings.txt
fixed, known = [], {}
for l in open(f"{root}/known_findings.txt"):
    m = re.match(r"fixed: property=(\S+) (\S+) (.*)", l)
    if m: fixed.append(m.groups())
    m = re.match(r"known: property=(\S+) cell=(\S+)", l)
    if m: known.setdefault(m.group(1), []).append(m.group(2))
ft = ["| property | commit | what failed |", "|---|---|---|"] + [f"| {a} | {b} | {c[:230].replace('|','/')} |" for a, b, c in sorted(fixed)]
kt = ["| property | known cells |", "|---|---|"] + [f"| {k} | {len(v)} |" for k, v in sorted(known.items())]
st = ["| property | engine | level | quick tier, last run: evaluations / distinct (states, transitions) | exhaustive | wall s | known cells seen |", "|---|---|---|---|---|---|---|"]
for f in sorted(glob.glob(f"{root}/checks/C*.json")):
    pid = os.path.basename(f)[:-5]
    c = json.load(open(f)).get("claim", {})
    try: ev = json.load(open(f"{root}/evidence/{pid}.json"))
    except Exception: ev = {}
    cov = ev.get("coverage", {})
    extra = f" ({cov['states']} states, {cov['transitions']} transitions)" if "states" in cov and "transitions" in cov else ""
    st.append(f"| {pid} | {c.get('engine','')} | {c.get('level','')} | {cov.get('evaluations','?')} / {cov.get('distinct_nontrivial','?')}{extra} [{ev.get('tier','?')}] | {cov.get('exhaustive','?')} | {round(ev.get('wall_s',0))} | {len(cov.get('known_cells',[]))} |")
for tag, tbl in (("FIXED-TABLE", ft), ("KNOWN-TABLE", kt), ("STATUS-TABLE", st)):
    b, e = f"<!-- {tag}-BEGIN -->", f"<!-- {tag}-END -->"
    if b in s: s = s[:s.index(b)] + b + "\n" + "\n".join(tbl) + "\n" + e + s[s.index(e)+len(e):]
open(f"{root}/DESIGN.md", "w").write(s)
print(f"{det}/{n}")

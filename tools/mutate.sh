#!/bin/bash
# usage: tools/mutate.sh <patch-file> <ID> [tier]
# Applies a property-breaking patch in a scratch worktree of /repo (never in
# /repo itself), runs the check against it, prints the verdict, removes the
# worktree. Exit status: that of the check (1 = detected).
set -u
patch=$(readlink -f "$1"); id=$2; tier=${3:-quick}
wt=$(mktemp -d /tmp/mut-XXXXXX)
git -C /repo worktree add -q --detach "$wt" HEAD || exit 3
# carry uncommitted changes of /repo too (checks judge the working tree)
git -C /repo diff HEAD | git -C "$wt" apply --allow-empty 2>/dev/null
if ! git -C "$wt" apply "$patch"; then echo "PATCH-DOES-NOT-APPLY"; git -C /repo worktree remove --force "$wt"; exit 3; fi
VERIF_REPO=$wt VERIF_EVIDENCE_DIR=$wt/.evidence /verif/bin/vcheck "$id" "$tier" 2>&1 | grep -E "^(VIOLATION|SUMMARY|KNOWN-FINDING|HARNESS)" | cut -c1-300
rc=${PIPESTATUS[0]}
git -C /repo worktree remove --force "$wt"
echo "mutate: $(basename $patch) on $id -> exit $rc"
exit $rc

#!/bin/bash
# usage: tools/confirm_seed.sh <ID> <demo-file> <pkg-dir> <run-regex>
# Confirms a seeded change in its own fresh scratch worktree of /repo HEAD: it
# compiles, the touched packages' tests and the pinned suite pass, the
# demonstration fails with the change and passes without it; then runs the
# /verif check against it. Prints one line per step; removes the worktree.
id=$1; demo=$2; pkg=$3; rx=$4
out=/tmp/seed-out/$id; wt=$(mktemp -d /tmp/confirm-XXXXXX)
export GOFLAGS=-mod=mod GOPROXY=off
git -C /repo worktree add -q --detach $wt HEAD || exit 3
(cd $wt/internal/i18n && go generate ./... >/dev/null 2>&1); (cd $wt/internal/cli/app && go generate ./... >/dev/null 2>&1)
cp $out/$demo $wt/$pkg/
cd $wt
t0=$(go test -vet=off -count=1 -run "$rx" ./$pkg/ 2>&1 | tail -1)
echo "$id demo WITHOUT change: $t0"
if ! git apply $out/patch.diff; then echo "$id PATCH-DOES-NOT-APPLY to current HEAD"; cd /; git -C /repo worktree remove --force $wt; exit 3; fi
b=$(go build ./... 2>&1 | tail -1); echo "$id build with change: ${b:-ok}"
t1=$(go test -vet=off -count=1 -run "$rx" ./$pkg/ 2>&1 | tail -1)
echo "$id demo WITH change: $t1"
rm -f $wt/$pkg/$demo
pk=$(git diff --name-only | xargs -n1 dirname | sort -u | sed 's|^|./|' | tr '\n' ' ')
t2=$(go test -vet=off -count=1 $pk ./internal/util/javascript/... ./tools/langlint/... 2>&1 | grep -v "^ok\|no test files" | head -5)
echo "$id existing tests of touched packages + pinned with change: ${t2:-all ok} [$pk]"
cd /; git -C /repo worktree remove --force $wt
r=$(VERIF_TIMEOUT=1500s /verif/tools/mutate.sh $out/patch.diff $id 2>&1 | tail -4 | tr '\n' ' ')
echo "$id CHECK: $r"

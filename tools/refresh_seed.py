#!/usr/bin/env python3
"""tools/refresh_seed.py <ID> [note] : re-runs the registered quick check against
seeded/<ID>/patch.diff (scratch worktree) and records the outcome in meta.json;
keeps the history of earlier outcomes (a miss followed by a strengthening)."""
import json, subprocess, sys, time
pid = sys.argv[1]; note = " ".join(sys.argv[2:])
d = f"/verif/seeded/{pid}"
out = subprocess.run(["/verif/tools/mutate.sh", f"{d}/patch.diff", pid], capture_output=True, text=True, errors="replace", env={**__import__("os").environ, "VERIF_TIMEOUT": "2400s"}).stdout.strip().split("\n")
detected = out[-1].endswith("exit 1")
m = json.load(open(f"{d}/meta.json"))
h = m.setdefault("check_history", [])
if "detected_by_check" in m and not h:
    h.append({"detected": m["detected_by_check"], "note": "first run of the check as it was when the change arrived"})
h.append({"detected": detected, "when": time.strftime("%Y-%m-%d %H:%M"), "note": note, "output": out[-3:]})
m["detected_by_check"] = detected
json.dump(m, open(f"{d}/meta.json", "w"), indent=1)
print(pid, "detected:", detected)

#!/bin/bash
# usage: tools/triage.sh ID... ; runs each quick check, stores output in /dev/shm/triage/<ID>.out
for id in "$@"; do
  VERIF_TIMEOUT=1500s timeout 1700 /verif/bin/vcheck $id quick > /dev/shm/triage/$id.out 2>&1
  echo "$id exit=$? $(grep -c '^VIOLATION' /dev/shm/triage/$id.out) violations; $(grep '^SUMMARY' /dev/shm/triage/$id.out | cut -c1-160)"
done

#!/usr/bin/env python3
"""tools/store_seed.py <ID> <confirm-log> : copies a confirmed seeded change from
/tmp/seed-out/<ID> to /verif/seeded/<ID>/ and records in meta.json what the
coordinator ran to confirm it and what the check said."""
import json, os, shutil, sys, re
pid, log = sys.argv[1], sys.argv[2]
src, dst = f"/tmp/seed-out/{pid}", f"/verif/seeded/{pid}"
os.makedirs(dst, exist_ok=True)
for f in os.listdir(src):
    if f.startswith("FOREIGN"): continue
    shutil.copy(os.path.join(src, f), os.path.join(dst, f))
meta = json.load(open(os.path.join(dst, "meta.json")))
lines = [l.strip() for l in open(log) if l.startswith(pid)]
meta["breaks_property"] = pid
meta["written_by"] = "independent sub-agent given only the property text and a scratch worktree"
meta["coordinator_confirmation"] = {
    "how": "tools/confirm_seed.sh in a fresh scratch worktree of /repo HEAD: go generate, demo without change, apply patch, go build ./..., demo with change, tests of touched packages + pinned suite with change, then tools/mutate.sh <patch> <ID> (the registered quick check against the changed tree)",
    "results": lines,
}
chk = [l for l in lines if " CHECK:" in l]
meta["detected_by_check"] = bool(chk and "exit 1" in chk[0])
json.dump(meta, open(os.path.join(dst, "meta.json"), "w"), indent=1)
print(pid, "stored; detected:", meta["detected_by_check"])

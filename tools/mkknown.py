#!/usr/bin/env python3
"""Turns the VIOLATION blocks of a check's output into proposed `known:` lines
(for the coordinator to review; nothing is written to known_findings.txt)."""
import re, sys
for path in sys.argv[1:]:
    txt = open(path, errors="replace").read().split("\n")
    pid = None
    for i, l in enumerate(txt):
        m = re.match(r"VIOLATION property=(\S+) ", l)
        if m:
            pid = m.group(1)
            c = re.match(r"\s+cell=(\S+) count=(\d+): (.*)", txt[i+1])
            w = txt[i+2].strip() if i+2 < len(txt) else ""
            if c:
                msg = c.group(3)[:260].replace("\n", " ")
                wit = w[len("witness: "):][:260] if w.startswith("witness:") else ""
                print(f"known: property={pid} cell={c.group(1)} {msg} | witness {wit}")
